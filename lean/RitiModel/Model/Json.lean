/-
Model/Json — the JSON fragment the engine uses for its per-user files, brought inside the model.

The engine persists the learned selections with
    `std::fs::write(path, serde_json::to_string(&HashMap<String,String>).unwrap())`
and loads them with
    `serde_json::from_slice::<HashMap<String,String>>(&bytes)`   (an error is treated as "no file").
This file models, over `List Char` (= a sequence of Unicode scalar values, exactly Rust `char`s):

* `printString`/`printStore` — serde_json's COMPACT formatter for a `String` and for a map of
  strings (`ser.rs`: `format_escaped_str_contents`, table `ESCAPE`; `CompactFormatter`);
* `parseStore` — what serde_json (1.0.151, `de.rs` `deserialize_map`/`MapAccess`, `read.rs`
  `parse_str_bytes`/`parse_escape`/`parse_unicode_escape` with `validate = true`) ACCEPTS as a
  `HashMap<String,String>`, and the entries it then inserts, in input order;
* the UTF-8 layer (`utf8Encode`, `utf8Decode`, `parseBytes`, `printBytes`): `from_slice` works on
  bytes; a string body that is not valid UTF-8 is `InvalidUnicodeCodePoint`, a byte ≥ 0x80 outside
  a string is no token, so the result on bytes is: decode as UTF-8 (strictly — no over-long forms,
  no surrogates, nothing above U+10FFFF, like `core::str::from_utf8`), else reject.

Import-free apart from `Model/Basic`; everything is executable and kernel-reducible
(structural recursion; the member loop uses fuel = input length).
-/
import RitiModel.Model.Basic
namespace Riti.Json

/-- a text: Unicode scalar values (Lean `Char` = Rust `char`: no surrogates) -/
abbrev Str := List Char
/-- the entries of a JSON object of strings, in textual order -/
abbrev Entries := List (Str × Str)

/-! ### printing (serde_json compact formatter) -/

/-- lower-case hexadecimal digit of `n < 16` (`b"0123456789abcdef"[n]`) -/
def hexDigit (n : Nat) : Char := if n < 10 then Char.ofNat (48 + n) else Char.ofNat (87 + n)

/-- one character of a string body as `format_escaped_str_contents` writes it: `"` and `\` get a
    backslash, the five named controls their letter, every other control character below U+0020
    `\u00XX` (lower-case hex); everything else — DEL and all non-ASCII included — verbatim -/
def printChar (c : Char) : List Char :=
  if c = '"' then ['\\', '"']
  else if c = '\\' then ['\\', '\\']
  else if c = '\n' then ['\\', 'n']
  else if c = '\r' then ['\\', 'r']
  else if c = '\t' then ['\\', 't']
  else if c = Char.ofNat 8 then ['\\', 'b']
  else if c = Char.ofNat 12 then ['\\', 'f']
  else if c.toNat < 0x20 then ['\\', 'u', '0', '0', hexDigit (c.toNat / 16), hexDigit (c.toNat % 16)]
  else [c]

/-- a string body and its closing quote -/
def printBody : Str → List Char
  | [] => ['"']
  | c :: cs => printChar c ++ printBody cs

/-- a Rust `String` as serde_json prints it -/
def printString (s : Str) : List Char := '"' :: printBody s

/-- `"key":"value"` -/
def printMember (kv : Str × Str) : List Char := printString kv.1 ++ ':' :: printString kv.2

/-- the members after the first (each preceded by a comma) and the closing brace -/
def printTail : Entries → List Char
  | [] => ['}']
  | kv :: rest => ',' :: (printMember kv ++ printTail rest)

/-- a map of strings as `serde_json::to_string` prints it, the entries in the order given (the
    real `HashMap` iteration order is arbitrary; every order is covered).  No whitespace. -/
def printStore : Entries → List Char
  | [] => ['{', '}']
  | kv :: rest => '{' :: (printMember kv ++ printTail rest)

/-! ### parsing (what serde_json accepts for `HashMap<String,String>`) -/

/-- JSON whitespace: space, tab, line feed, carriage return (`parse_whitespace`) -/
def isWs (c : Char) : Bool := c = ' ' || c = '\t' || c = '\n' || c = '\r'

/-- skip JSON whitespace -/
def skipWs : List Char → List Char
  | [] => []
  | c :: r => if isWs c then skipWs r else c :: r

/-- value of a hexadecimal digit, either case (`decode_hex_val`) -/
def hexVal (c : Char) : Option Nat :=
  let n := c.toNat
  if 48 ≤ n ∧ n ≤ 57 then some (n - 48)
  else if 97 ≤ n ∧ n ≤ 102 then some (n - 87)
  else if 65 ≤ n ∧ n ≤ 70 then some (n - 55)
  else none

/-- four hexadecimal digits (`decode_hex_escape`) -/
def hex4 (a b c d : Char) : Option Nat :=
  match hexVal a, hexVal b, hexVal c, hexVal d with
  | some a, some b, some c, some d => some (((a * 16 + b) * 16 + c) * 16 + d)
  | _, _, _, _ => none

/-- the single-letter escapes of `parse_escape` (`\u` is handled separately) -/
def simpleEscape (e : Char) : Option Char :=
  if e = '"' then some '"'
  else if e = '\\' then some '\\'
  else if e = '/' then some '/'
  else if e = 'b' then some (Char.ofNat 8)
  else if e = 'f' then some (Char.ofNat 12)
  else if e = 'n' then some '\n'
  else if e = 'r' then some '\r'
  else if e = 't' then some '\t'
  else none

/-- prepend a decoded character to the result of parsing the rest of the body -/
def push (c : Char) : Option (Str × List Char) → Option (Str × List Char)
  | none => none
  | some (s, r) => some (c :: s, r)

/-- the escape sequence whose backslash has just been read (`parse_escape`,
    `parse_unicode_escape` with `validate = true`), decoded by look-ahead: result = (character,
    number of input characters the escape occupies after the backslash: 1, 5 or 11).
    Errors: end of input, an unknown escape letter, `\u` not followed by four hex digits (either
    case), a trailing surrogate first, a leading surrogate not immediately followed by `\uXXXX`
    with a trailing surrogate. -/
def decodeEscape : List Char → Option (Char × Nat)
  | [] => none
  | e :: r =>
    if e = 'u' then
      match r with
      | h1 :: h2 :: h3 :: h4 :: r2 =>
        match hex4 h1 h2 h3 h4 with
        | none => none
        | some n =>
          if n < 0xD800 ∨ 0xDFFF < n then some (Char.ofNat n, 5)
          else if 0xDC00 ≤ n then none
          else
            match r2 with
            | b :: u :: g1 :: g2 :: g3 :: g4 :: _ =>
              if b = '\\' ∧ u = 'u' then
                match hex4 g1 g2 g3 g4 with
                | none => none
                | some n2 =>
                  if 0xDC00 ≤ n2 ∧ n2 ≤ 0xDFFF then
                    some (Char.ofNat ((n - 0xD800) * 0x400 + (n2 - 0xDC00) + 0x10000), 11)
                  else none
              else none
            | _ => none
      | _ => none
    else
      match simpleEscape e with
      | none => none
      | some ch => some (ch, 1)

/-- the body of a string literal, the reader being just after the opening quote
    (`parse_str_bytes` with `validate = true`): result = (decoded text, input after the closing
    quote).  `skip` = number of characters still to pass over because they belong to an escape
    sequence already decoded (0 at the start).  Errors: end of input before the closing quote, a
    raw control character below U+0020, a bad escape (`decodeEscape`). -/
def parseBody : Nat → List Char → Option (Str × List Char)
  | _, [] => none
  | skip + 1, _ :: rest => parseBody skip rest
  | 0, c :: rest =>
    if c = '"' then some ([], rest)
    else if c = '\\' then
      match decodeEscape rest with
      | none => none
      | some (ch, k) => push ch (parseBody k rest)
    else if c.toNat < 0x20 then none
    else push c (parseBody 0 rest)

/-- optional whitespace, then a string literal.  Anything that does not start a string — a
    number, `null`, `true`, `[`, `{`, `'`, … — is an error (`invalid type` / `key must be a string`). -/
def parseString (t : List Char) : Option (Str × List Char) :=
  match skipWs t with
  | [] => none
  | c :: r => if c = '"' then parseBody 0 r else none

/-- one member `"key" : "value"` with optional whitespace before each of the three tokens -/
def parseMember (t : List Char) : Option ((Str × Str) × List Char) :=
  match parseString t with
  | none => none
  | some (k, r) =>
    match skipWs r with
    | [] => none
    | c :: r1 =>
      if c = ':' then
        match parseString r1 with
        | none => none
        | some (v, r2) => some ((k, v), r2)
      else none

/-- after a member: `}` closes the object; `,` must be followed by another member (so a trailing
    comma is an error); anything else is an error.  `fuel` bounds the number of members. -/
def parseTail : Nat → List Char → Option (Entries × List Char)
  | 0, _ => none
  | fuel + 1, t =>
    match skipWs t with
    | [] => none
    | c :: r =>
      if c = '}' then some ([], r)
      else if c = ',' then
        match parseMember r with
        | none => none
        | some (kv, r1) =>
          match parseTail fuel r1 with
          | none => none
          | some (m, r2) => some (kv :: m, r2)
      else none

/-- optional whitespace, `{`, then either `}` or a non-empty member list; result = (entries, input
    after the closing brace) -/
def parseObject (t : List Char) : Option (Entries × List Char) :=
  match skipWs t with
  | [] => none
  | c :: r =>
    if c = '{' then
      match skipWs r with
      | [] => none
      | d :: r1 =>
        if d = '}' then some ([], r1)
        else
          match parseMember (d :: r1) with
          | none => none
          | some (kv, r2) =>
            match parseTail r2.length r2 with
            | none => none
            | some (m, r3) => some (kv :: m, r3)
    else none

/-- **the reader**: `some entries` iff serde_json accepts the text as a `HashMap<String,String>`
    (an object all of whose values are strings, nothing but whitespace after it); the entries are
    listed in textual order, duplicates kept — the caller's `HashMap::insert` makes the LAST
    binding of a key win (`toStore`). -/
def parseStore (t : List Char) : Option Entries :=
  match parseObject t with
  | none => none
  | some (m, r) => if skipWs r = [] then some m else none

/-- the map the engine ends up with: entries inserted one after the other, a later binding of a key
    replacing the earlier one (`HashMap::insert`) -/
def toStore (m : Entries) : Entries := m.foldl (fun st kv => ainsert st kv.1 kv.2) []

/-! ### UTF-8 layer -/

/-- UTF-8 encoding of one scalar value -/
def utf8EncodeChar (c : Char) : List UInt8 :=
  let n := c.toNat
  if n < 0x80 then [n.toUInt8]
  else if n < 0x800 then [(0xC0 + n / 0x40).toUInt8, (0x80 + n % 0x40).toUInt8]
  else if n < 0x10000 then
    [(0xE0 + n / 0x1000).toUInt8, (0x80 + n / 0x40 % 0x40).toUInt8, (0x80 + n % 0x40).toUInt8]
  else
    [(0xF0 + n / 0x40000).toUInt8, (0x80 + n / 0x1000 % 0x40).toUInt8,
     (0x80 + n / 0x40 % 0x40).toUInt8, (0x80 + n % 0x40).toUInt8]

/-- UTF-8 encoding of a text (what `String::as_bytes` is) -/
def utf8Encode : Str → List UInt8
  | [] => []
  | c :: cs => utf8EncodeChar c ++ utf8Encode cs

/-- is `b` a continuation byte `10xxxxxx`? -/
def isCont (b : UInt8) : Bool := 0x80 ≤ b.toNat && b.toNat < 0xC0

/-- the scalar value whose first byte is `b0` and whose continuation bytes are at the head of `r`,
    decoded by look-ahead: result = (character, number of continuation bytes: 0–3).  Strict
    (`core::str::from_utf8`): continuation bytes must be `10xxxxxx`, shortest form only, no
    surrogates, at most U+10FFFF; a sequence cut short by the end of input is an error. -/
def decodeSeq (b0 : UInt8) (r : List UInt8) : Option (Char × Nat) :=
  let n0 := b0.toNat
  if n0 < 0x80 then some (Char.ofNat n0, 0)
  else if n0 < 0xC0 then none
  else if n0 < 0xE0 then
    match r with
    | b1 :: _ =>
      let n := (n0 - 0xC0) * 0x40 + (b1.toNat - 0x80)
      if isCont b1 ∧ 0x80 ≤ n then some (Char.ofNat n, 1) else none
    | _ => none
  else if n0 < 0xF0 then
    match r with
    | b1 :: b2 :: _ =>
      let n := ((n0 - 0xE0) * 0x40 + (b1.toNat - 0x80)) * 0x40 + (b2.toNat - 0x80)
      if isCont b1 ∧ isCont b2 ∧ 0x800 ≤ n ∧ (n < 0xD800 ∨ 0xDFFF < n) then some (Char.ofNat n, 2) else none
    | _ => none
  else if n0 < 0xF8 then
    match r with
    | b1 :: b2 :: b3 :: _ =>
      let n := (((n0 - 0xF0) * 0x40 + (b1.toNat - 0x80)) * 0x40 + (b2.toNat - 0x80)) * 0x40 + (b3.toNat - 0x80)
      if isCont b1 ∧ isCont b2 ∧ isCont b3 ∧ 0x10000 ≤ n ∧ n < 0x110000 then some (Char.ofNat n, 3) else none
    | _ => none
  else none

/-- prepend a decoded character to the decoding of the rest -/
def consO (c : Char) : Option Str → Option Str
  | none => none
  | some s => some (c :: s)

/-- strict UTF-8 decoding of a whole byte string; `none` = not valid UTF-8.  `skip` = number of
    continuation bytes still to pass over because the character they belong to is already
    decoded (0 at the start). -/
def utf8DecodeFrom : Nat → List UInt8 → Option Str
  | 0, [] => some []
  | _ + 1, [] => none
  | skip + 1, _ :: r => utf8DecodeFrom skip r
  | 0, b0 :: r =>
    match decodeSeq b0 r with
    | none => none
    | some (c, k) => consO c (utf8DecodeFrom k r)

/-- strict UTF-8 decoding (`core::str::from_utf8`) -/
def utf8Decode (b : List UInt8) : Option Str := utf8DecodeFrom 0 b

/-- the bytes `serde_json::to_string(&map)` yields, i.e. the complete content `std::fs::write` is
    asked to write -/
def printBytes (m : Entries) : List UInt8 := utf8Encode (printStore m)

/-- `serde_json::from_slice::<HashMap<String,String>>(bytes)`: `some entries` iff `Ok` -/
def parseBytes (b : List UInt8) : Option Entries :=
  match utf8Decode b with
  | none => none
  | some t => parseStore t

end Riti.Json
