/-
Model/JsonValue — the layout FILE and the data FILES inside the model: serde_json's reader for an
arbitrary JSON document (`serde_json::Value`), and the steps riti applies to it.

    Config::get_layout   read_to_string(path).ok()                       file must be valid UTF-8
                         .and_then(|s| serde_json::from_str::<Value>(&s).ok())
                         .map(|v| v["layout"].to_owned())
    Layout::parse        serde_json::from_value::<HashMap<String,String>>(v).ok()
    FixedMethod::new     … .unwrap()                                     `None` is a panic
    layout_get_value     map.get(name).filter(|s| !s.is_empty())
    Data::new            serde_json::from_slice::<HashMap<String, Vec<String>>>(dictionary.json).unwrap()
                         serde_json::from_slice::<HashMap<String, String>>(suffix.json / autocorrect.json).unwrap()

serde_json 1.0.151, default features only (no `preserve_order`: `Map` is a `BTreeMap`, a later
duplicate member REPLACES the earlier one; no `arbitrary_precision`, no `float_roundtrip`, no
`unbounded_depth`).  Modelled from `de.rs` (`deserialize_any`, `parse_integer`, `parse_decimal`,
`parse_exponent`, `SeqAccess`, `MapAccess`, `check_recursion!`, `Deserializer::end`), `value/de.rs`
(`Value::deserialize_map`, `deserialize_string`), `value/index.rs`.

* numbers keep their lexeme; no float is computed.  serde_json rejects a number whose `f64` value
  is infinite (`1e999`: `NumberOutOfRange`) — THE ONE THING NOT MODELLED.  It is marked by a third
  outcome, never by accepting or rejecting silently: a number with more than `maxIntDigits` = 200
  integer digits or more than `maxExpDigits` = 2 exponent digits makes the whole read end in
  `ReadErr.unsupportedNumber`.  (Every other number is < 10^200 · 10^99 < f64::MAX, so serde_json
  accepts it: `f64_from_parts` can only fail by overflowing.)
* recursion limit: `remaining_depth` starts at 128 and is decremented BEFORE the test `== 0`, so
  127 nested containers are accepted and the 128th `[` / `{` is `RecursionLimitExceeded`.
* strings: `Riti.Json.parseBody` (escapes, surrogate pairs, raw control characters rejected).

Import-free apart from `Model/Json` (→ `Model/Basic`), executable and kernel-reducible: the three
mutually recursive readers recurse structurally on a fuel argument; `parseValue` supplies
fuel = input length + 1, which always suffices (`Lemmas/JsonValue`: `parseValue_ne_fuel`).
-/
import RitiModel.Model.Json
namespace Riti.JsonValue
open Riti.Json (Str skipWs isWs parseBody parseString utf8Decode toStore)

/-- a JSON document as `serde_json::Value` sees it, except that an object keeps ALL its members in
    document order (the `BTreeMap` semantics — last duplicate wins — is applied by the accessors)
    and a number keeps its text -/
inductive JVal where
  | null
  | bool (b : Bool)
  | num (lexeme : List Char)
  | str (s : Str)
  | arr (l : List JVal)
  | obj (members : List (Str × JVal))
  deriving Repr, Inhabited

/-- why a file is not read -/
inductive ReadErr where
  /-- `read_to_string` / `from_utf8` fails -/
  | notUtf8
  /-- serde_json reports a syntax error (incl. trailing characters, raw control characters, bad escapes) -/
  | notJson
  /-- serde_json reports `RecursionLimitExceeded` -/
  | tooDeep
  /-- NOT MODELLED: the document contains a number that may be outside the `f64` range -/
  | unsupportedNumber
  /-- the document is JSON but does not have the shape asked for (`v["layout"]` is not an object of
      strings; a data file is not a map of strings / of lists of strings) -/
  | wrongShape
  /-- the reader ran out of fuel — never returned by `parseValue` (`parseValue_ne_fuel`) -/
  | fuel
  deriving DecidableEq, Repr, Inhabited

abbrev R (α : Type) := Except ReadErr α

instance {α : Type} [DecidableEq α] : DecidableEq (R α)
  | .ok a, .ok b => if h : a = b then isTrue (by rw [h]) else isFalse (fun e => h (Except.ok.inj e))
  | .error a, .error b => if h : a = b then isTrue (by rw [h]) else isFalse (fun e => h (Except.error.inj e))
  | .ok _, .error _ => isFalse (fun e => nomatch e)
  | .error _, .ok _ => isFalse (fun e => nomatch e)

/-! ### numbers: `-? (0 | [1-9][0-9]*) (. [0-9]+)? ([eE] [+-]? [0-9]+)?` -/

def isDigit (c : Char) : Bool := 48 ≤ c.toNat && c.toNat ≤ 57

/-- the longest prefix of decimal digits, and the rest -/
def digits : List Char → List Char × List Char
  | [] => ([], [])
  | c :: r => if isDigit c then ((digits r).1.cons c, (digits r).2) else ([], c :: r)

def maxIntDigits : Nat := 200
def maxExpDigits : Nat := 2

/-- optional exponent part (`parse_exponent`): result = (its text, number of exponent digits, rest) -/
def lexExp (t : List Char) : R (List Char × Nat × List Char) :=
  match t with
  | [] => .ok ([], 0, [])
  | e :: r =>
    if e = 'e' ∨ e = 'E' then
      match r with
      | [] => .error .notJson
      | s :: r1 =>
        if s = '+' ∨ s = '-' then
          let d := digits r1
          if d.1.isEmpty then .error .notJson else .ok (e :: s :: d.1, d.1.length, d.2)
        else
          let d := digits (s :: r1)
          if d.1.isEmpty then .error .notJson else .ok (e :: d.1, d.1.length, d.2)
    else .ok ([], 0, e :: r)

/-- optional fraction part (`parse_decimal`: at least one digit after the point) followed by the
    optional exponent part -/
def lexFracExp (t : List Char) : R (List Char × Nat × List Char) :=
  match t with
  | [] => .ok ([], 0, [])
  | p :: r =>
    if p = '.' then
      let d := digits r
      if d.1.isEmpty then .error .notJson
      else match lexExp d.2 with
        | .error e => .error e
        | .ok (ex, n, rest) => .ok (p :: d.1 ++ ex, n, rest)
    else lexExp (p :: r)

/-- integer part (`parse_integer`): a single `0` (a digit after it is `InvalidNumber`) or a
    non-zero digit followed by digits; result = (its text, rest) -/
def lexInt (t : List Char) : R (List Char × List Char) :=
  match t with
  | [] => .error .notJson
  | c :: r =>
    if c = '0' then
      match r with
      | [] => .ok (['0'], [])
      | d :: r1 => if isDigit d then .error .notJson else .ok (['0'], d :: r1)
    else if isDigit c then .ok (c :: (digits r).1, (digits r).2)
    else .error .notJson

/-- a number token at the head of the input: (lexeme, rest).  `unsupportedNumber` when the number is
    well-formed but has more than 200 integer digits or more than 2 exponent digits. -/
def lexNumber (t : List Char) : R (List Char × List Char) :=
  let (sign, t1) : List Char × List Char := match t with
    | c :: r => if c = '-' then (['-'], r) else ([], c :: r)
    | [] => ([], [])
  match lexInt t1 with
  | .error e => .error e
  | .ok (int, r) =>
    match lexFracExp r with
    | .error e => .error e
    | .ok (fe, nexp, rest) =>
      if int.length ≤ maxIntDigits ∧ nexp ≤ maxExpDigits then .ok (sign ++ int ++ fe, rest)
      else .error .unsupportedNumber

/-! ### values -/

/-- serde_json's `remaining_depth` at the start -/
def depthLimit : Nat := 128

/-- `"key" : value` read with the value reader `pv` (`MapAccess::next_key_seed`: after optional
    whitespace the key must be a string; `parse_object_colon`; then the value) -/
def pMemberWith (pv : List Char → R (JVal × List Char)) (t : List Char) : R ((Str × JVal) × List Char) :=
  match parseString t with
  | none => .error .notJson
  | some (k, r) =>
    match skipWs r with
    | [] => .error .notJson
    | c :: r1 =>
      if c = ':' then
        match pv r1 with
        | .error e => .error e
        | .ok (v, r2) => .ok ((k, v), r2)
      else .error .notJson

mutual
/-- one value after optional whitespace (`deserialize_any` with the `Value` visitor); `d` =
    serde_json's `remaining_depth`; result = (value, input after it) -/
def pValue : Nat → Nat → List Char → R (JVal × List Char)
  | 0, _, _ => .error .fuel
  | f + 1, d, t =>
    match skipWs t with
    | [] => .error .notJson
    | c :: r =>
      if c = '"' then
        match parseBody 0 r with
        | none => .error .notJson
        | some (s, r1) => .ok (.str s, r1)
      else if c = '[' then
        if d ≤ 1 then .error .tooDeep
        else match skipWs r with
          | [] => .error .notJson
          | c1 :: r1 =>
            if c1 = ']' then .ok (.arr [], r1)
            else match pValue f (d - 1) (c1 :: r1) with
              | .error e => .error e
              | .ok (v, r2) =>
                match pElems f (d - 1) r2 with
                | .error e => .error e
                | .ok (vs, r3) => .ok (.arr (v :: vs), r3)
      else if c = '{' then
        if d ≤ 1 then .error .tooDeep
        else match skipWs r with
          | [] => .error .notJson
          | c1 :: r1 =>
            if c1 = '}' then .ok (.obj [], r1)
            else match pMemberWith (pValue f (d - 1)) (c1 :: r1) with
              | .error e => .error e
              | .ok (kv, r2) =>
                match pMembers f (d - 1) r2 with
                | .error e => .error e
                | .ok (ms, r3) => .ok (.obj (kv :: ms), r3)
      else if c = 'n' then
        match r with
        | 'u' :: 'l' :: 'l' :: r1 => .ok (.null, r1)
        | _ => .error .notJson
      else if c = 't' then
        match r with
        | 'r' :: 'u' :: 'e' :: r1 => .ok (.bool true, r1)
        | _ => .error .notJson
      else if c = 'f' then
        match r with
        | 'a' :: 'l' :: 's' :: 'e' :: r1 => .ok (.bool false, r1)
        | _ => .error .notJson
      else if c = '-' ∨ isDigit c then
        match lexNumber (c :: r) with
        | .error e => .error e
        | .ok (lx, r1) => .ok (.num lx, r1)
      else .error .notJson
/-- after an array element (`SeqAccess::next_element_seed`, not first): `]` closes the array; `,`
    must be followed by another element (a trailing comma is an error) -/
def pElems : Nat → Nat → List Char → R (List JVal × List Char)
  | 0, _, _ => .error .fuel
  | f + 1, d, t =>
    match skipWs t with
    | [] => .error .notJson
    | c :: r =>
      if c = ']' then .ok ([], r)
      else if c = ',' then
        match pValue f d r with
        | .error e => .error e
        | .ok (v, r1) =>
          match pElems f d r1 with
          | .error e => .error e
          | .ok (vs, r2) => .ok (v :: vs, r2)
      else .error .notJson
/-- after an object member (`MapAccess::next_key_seed`, not first): `}` closes the object; `,`
    must be followed by another member -/
def pMembers : Nat → Nat → List Char → R (List (Str × JVal) × List Char)
  | 0, _, _ => .error .fuel
  | f + 1, d, t =>
    match skipWs t with
    | [] => .error .notJson
    | c :: r =>
      if c = '}' then .ok ([], r)
      else if c = ',' then
        match pMemberWith (pValue f d) r with
        | .error e => .error e
        | .ok (kv, r1) =>
          match pMembers f d r1 with
          | .error e => .error e
          | .ok (ms, r2) => .ok (kv :: ms, r2)
      else .error .notJson
end

/-- **the reader** for a complete document (`serde_json::from_str::<Value>`): one value, then
    nothing but whitespace (`Deserializer::end`) -/
def parseValue (t : List Char) : R JVal :=
  match pValue (t.length + 1) depthLimit t with
  | .error e => .error e
  | .ok (v, r) => if skipWs r = [] then .ok v else .error .notJson

/-! ### what riti does with the value -/

/-- the LAST binding of `k` among the members (`BTreeMap::insert` replaces) -/
def lookupLast {β : Type} (ms : List (Str × β)) (k : Str) : Option β := alookup ms.reverse k

/-- `v["k"]` (`impl Index<&str> for Value`): the member if `v` is an object that has one (the last
    duplicate), `Value::Null` otherwise -/
def JVal.index (v : JVal) (k : Str) : JVal :=
  match v with
  | .obj ms => (lookupLast ms k).getD .null
  | _ => .null

/-- the map a member list denotes: a later binding of a key replaces the earlier one; unique keys -/
def dedup {β : Type} (ms : List (Str × β)) : List (Str × β) := ms.foldl (fun st kv => ainsert st kv.1 kv.2) []

/-- every member value is a string -/
def allStrings : List (Str × JVal) → Option (List (Str × Str))
  | [] => some []
  | (k, .str s) :: r =>
    match allStrings r with
    | none => none
    | some m => some ((k, s) :: m)
  | _ => none

/-- every element is a string -/
def strList : List JVal → Option (List Str)
  | [] => some []
  | .str s :: r =>
    match strList r with
    | none => none
    | some l => some (s :: l)
  | _ => none

/-- every member value is an array of strings -/
def allStringLists : List (Str × JVal) → Option (List (Str × List Str))
  | [] => some []
  | (k, .arr l) :: r =>
    match strList l, allStringLists r with
    | some ws, some m => some ((k, ws) :: m)
    | _, _ => none
  | _ => none

/-- `serde_json::from_value::<HashMap<String,String>>(v)`: `some` iff `v` is an object and — AFTER
    the duplicates have been resolved, as they are inside a `Value` — every member value is a
    string (`{"a":1,"a":"x"}` is accepted).  Association list with unique keys. -/
def asStringMap : JVal → Option (List (Str × Str))
  | .obj ms => allStrings (dedup ms)
  | _ => none

/-- `serde_json::from_slice::<HashMap<String,String>>` seen on the document: the typed reader
    converts every member as it comes, so EVERY member value must be a string, shadowed
    duplicates included (`{"a":1,"a":"x"}` is rejected); then `HashMap::insert`, last wins -/
def asStringMapTyped : JVal → Option (List (Str × Str))
  | .obj ms =>
    match allStrings ms with
    | none => none
    | some m => some (dedup m)
  | _ => none

/-- `serde_json::from_slice::<HashMap<String, Vec<String>>>` seen on the document (typed reader:
    every member value an array of strings, shadowed duplicates included; last wins) -/
def asStringListMap : JVal → Option (List (Str × List Str))
  | .obj ms =>
    match allStringLists ms with
    | none => none
    | some m => some (dedup m)
  | _ => none

def layoutKey : Str := ['l', 'a', 'y', 'o', 'u', 't']

/-- UTF-8 decoding followed by the reader -/
def valueOfFile (b : List UInt8) : R JVal :=
  match utf8Decode b with
  | none => .error .notUtf8
  | some t => parseValue t

/-- **`Config::get_layout` + `Layout::parse`** on the bytes of the layout file: `.ok m` iff riti
    obtains `Some(Layout { map: m })`; every `.error` except `unsupportedNumber` means riti obtains
    `None` (and `FixedMethod::new` panics on its `unwrap`) — `notUtf8`: `read_to_string` fails;
    `notJson` / `tooDeep`: `from_str::<Value>` fails; `wrongShape`: `v["layout"]` is not an object
    of strings (document not an object, no such member, a member value that is not a string). -/
def layoutOfFile (b : List UInt8) : R (List (Str × Str)) :=
  match valueOfFile b with
  | .error e => .error e
  | .ok v =>
    match asStringMap (v.index layoutKey) with
    | none => .error .wrongShape
    | some m => .ok m

/-- a typed `from_slice` never accepts a document with a number in it where these two types are
    asked for (a number can only stand where a map, a string or a list is expected), so the
    outcome `unsupportedNumber` of the untyped reader is a plain rejection here -/
def typedErr : ReadErr → ReadErr
  | .unsupportedNumber => .notJson
  | e => e

/-- `serde_json::from_slice::<HashMap<String,String>>` on the bytes of `suffix.json` /
    `autocorrect.json` (`Data::new` unwraps: an error is a panic) -/
def stringMapOfFile (b : List UInt8) : R (List (Str × Str)) :=
  match valueOfFile b with
  | .error e => .error (typedErr e)
  | .ok v =>
    match asStringMapTyped v with
    | none => .error .wrongShape
    | some m => .ok m

/-- `serde_json::from_slice::<HashMap<String, Vec<String>>>` on the bytes of `dictionary.json` -/
def tableOfFile (b : List UInt8) : R (List (Str × List Str)) :=
  match valueOfFile b with
  | .error e => .error (typedErr e)
  | .ok v =>
    match asStringListMap v with
    | none => .error .wrongShape
    | some m => .ok m

/-- `Layout::layout_get_value`: `map.get(name).filter(|s| !s.is_empty())` -/
def layoutLookup (m : List (Str × Str)) (name : Str) : Option Str :=
  match alookup m name with
  | some [] => none
  | x => x

end Riti.JsonValue
