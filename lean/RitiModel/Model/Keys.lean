/-
Model/Keys — key tables (src/keycodes.rs, src/fixed/layout.rs, src/utility.rs get_modifiers).
-/
import RitiModel.Gen.Keycodes
import RitiModel.Gen.LayoutKeys
import RitiModel.Model.Basic
namespace Riti
open Gen

/-- `keycode_to_char`: first matching arm, else the catch-all (`None`; the generated flag
    `keyCharFallbackPanics` records whether the catch-all arm panics instead) -/
def keycodeToChar (key : Nat) : Option Char :=
  match alookup keyChar key with
  | some c => some (Char.ofNat c)
  | none => none

/-- `get_modifiers` : (shift, altgr) from the bit-masked byte -/
def getModifiers (m : Nat) : Bool × Bool :=
  ((m / 2 ^ modShiftBit) % 2 == 1, (m / 2 ^ modAltGrBit) % 2 == 1)

/-- a parsed layout file: entry name (as in the JSON) → value.  Parameter of the theorems. -/
abbrev Layout := String → Option (List Char)

def layoutEntryName (n : KeyName) (p : Plane) : String := "Key_" ++ n.str ++ "_" ++ p.str

def nonEmpty (v : Option (List Char)) : Option (List Char) :=
  match v with
  | some [] => none
  | x => x

/-- look a key code up in the generated `get_char_for_key` rows (first match wins) -/
def lookupRow : List (Nat × KeyName × Bool) → Nat → Option (KeyName × Bool)
  | [], _ => none
  | (k, n, b) :: rest, key => if k == key then some (n, b) else lookupRow rest key

/-- `Layout::get_char_for_key` -/
def getCharForKey (layout : Layout) (key : Nat) (mods : Bool × Bool) (numpad : Bool) : Option (List Char) :=
  match lookupRow layoutRows key with
  | none => none
  | some (n, false) => nonEmpty (layout (layoutEntryName n (planeOf mods.1 mods.2)))
  | some (n, true) => if numpad then nonEmpty (layout n.str) else none

end Riti
