/-
Model/Okkhor — the Avro phonetic parser of the okkhor crate (src/parser.rs) over the generated
pattern table.  Regex generation is *not* modelled.
-/
import RitiModel.Gen.OkkhorPatterns
import RitiModel.Model.Basic
namespace Riti
open Gen

def isAsciiAlpha (c : Char) : Bool := ('a' ≤ c && c ≤ 'z') || ('A' ≤ c && c ≤ 'Z')
def isAsciiDigit (c : Char) : Bool := '0' ≤ c && c ≤ '9'
def asciiLower (c : Char) : Char := if 'A' ≤ c && c ≤ 'Z' then Char.ofNat (c.toNat + 32) else c

/-- `conditional_lowercase` -/
def condLower (c : Char) : Char :=
  let l := asciiLower c
  if okkhorKeepCase.contains l.toNat then c else l

def okVowel (c : Char) : Bool := okkhorVowels.contains c.toNat
def okConsonant (c : Char) : Bool := !okVowel c && isAsciiAlpha c
def okPunct (c : Char) : Bool := !isAsciiAlpha c

def okIs (t : OkMatchType) (c : Char) : Bool :=
  match t with
  | .vowel => okVowel c
  | .consonant => okConsonant c
  | .punctuation => okPunct c
  | .number => isAsciiDigit c
  | .char n => c.toNat == n

/-- `does_match` -/
def okDoesMatch (m : OkMatch) (pre suf : Char) : Bool :=
  match m with
  | .prefixIs t => okIs t pre
  | .prefixIsNot t => !okIs t pre
  | .suffixIs t => okIs t suf
  | .suffixIsNot t => !okIs t suf

/-- `get_replacement` -/
def okReplacement (p : OkPattern) (pre suf : Char) : List Nat :=
  match p.rules.find? (fun r => r.1.all (fun m => okDoesMatch m pre suf)) with
  | some r => r.2
  | none => p.dflt

def natPrefixOf : List Nat → List Char → Bool
  | [], _ => true
  | _ :: _, [] => false
  | n :: ns, c :: cs => n == c.toNat && natPrefixOf ns cs

/-- `find_pattern`: the greatest key ≤ input that is a prefix of input = the longest `find` that
    is a prefix (ties impossible: keys are distinct).  Patterns with an empty `find` are skipped
    (there is none; `Props` checks it), which also gives termination. -/
def okFindPattern (pats : List OkPattern) (input : List Char) : Option OkPattern :=
  pats.foldl (fun best p =>
    if p.find.length > 0 && natPrefixOf p.find input then
      match best with
      | none => some p
      | some b => if p.find.length > b.find.length then some p else best
    else best) none

/-- the `while !input.is_empty()` loop of `convert_into`; `fuel` ≥ input length suffices because
    every iteration consumes at least one code point -/
def okLoop (pats : List OkPattern) : Nat → List Char → Char → List Char → List Char
  | 0, _, _, out => out
  | _ + 1, [], _, out => out
  | fuel + 1, c :: cs, pre, out =>
    match okFindPattern pats (c :: cs) with
    | some p =>
      let rest := (c :: cs).drop p.find.length
      let suf := rest.headD ' '
      let pre' := Char.ofNat (p.find.getLastD 32)
      okLoop pats fuel rest pre' (out ++ natsToChars (okReplacement p pre suf))
    | none => okLoop pats fuel cs c (out ++ [c])

/-- `Parser::new_phonetic().convert` -/
def okConvert (raw : List Char) : List Char :=
  let input := raw.map condLower
  okLoop okkhorPatterns input.length input ' ' []

end Riti
