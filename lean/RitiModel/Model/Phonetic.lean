/-
Model/Phonetic — `PhoneticSuggestion` and `PhoneticMethod` (src/phonetic/{suggestion,method}.rs).
External calls are fields of `Env` (DESIGN §3.3); the remaining Rust panic sites are `Except` errors.
-/
import RitiModel.Model.Chars
import RitiModel.Model.Keys
import RitiModel.Model.Split
import RitiModel.Model.Rank
namespace Riti

abbrev Str := List Char

/-- the 11 booleans of `Config` -/
structure Cfg where
  includeEnglish : Bool := false
  phoneticSuggestion : Bool := false
  fixedSuggestion : Bool := false
  fixedVowel : Bool := false
  fixedChandra : Bool := false
  fixedKar : Bool := false
  fixedOldReph : Bool := false
  fixedNumpad : Bool := false
  fixedKarOrder : Bool := false
  ansi : Bool := false
  smartQuote : Bool := true
  deriving DecidableEq, Repr, Inhabited

/-- `get_suggestion_include_english`: masked by ANSI -/
def Cfg.english (c : Cfg) : Bool := c.includeEnglish && !c.ansi

/-- external functions (data files, third-party crates) the engine calls -/
structure Env where
  convert      : Str → Str                      -- okkhor `Parser::new_phonetic().convert`
  dictPhonetic : Str → Option (List Str)        -- regex+tables look-up; none = regex failed to compile
  suffix       : Str → Option Str               -- suffix.json
  autocorrect  : Str → Option Str               -- bundled autocorrect.json
  emoticon     : Str → Option Str               -- emojicon get_by_emoticon
  emojiByName  : Str → Option (List Str)        -- emojicon get_by_name
  emojiBengali : Str → Option (List Str)        -- BengaliEmoji get
  bijoy        : Str → Res Str                  -- poriborton unicode_to_bijoy
  fixedTable   : String → List Str              -- dictionary.json: table name → words

abbrev Store := List (Str × Str)
abbrev Memo := List (Str × List Rank)

structure PState where
  buffer : Str := []
  /-- `PhoneticSuggestion.suggestions` (the list last built) -/
  suggestions : List Rank := []
  /-- `PhoneticSuggestion.cache` -/
  cache : Memo := []
  /-- `PhoneticSuggestion.user_autocorrect` -/
  userAutocorrect : Store := []
  /-- `PhoneticMethod.selections` -/
  selections : Store := []
  /-- mtime of the user auto-correct file as last loaded (0 = UNIX_EPOCH) -/
  modified : Nat := 0
  prevSelection : Nat := 0
  deriving Repr, Inhabited

/-- the suffix-joining rule shared by `add_suffix_to_suggestions` and `get_prev_selection`:
    `base` (last char `rmc`) + `suffix` (first char `lmc`) -/
def joinSuffix (base suffix : Str) (rmc lmc : Char) : Str :=
  if isVowel rmc && isKar lmc then base ++ [cY] ++ suffix
  else if rmc == cKhandaTa then base.dropLast ++ [cT] ++ suffix
  else if rmc == cAnushar then base.dropLast ++ [cNga] ++ suffix
  else base ++ suffix

/-- one (base, suffix) pair; `none` when either is empty (the code skips the pair) -/
def joinChecked (base suffix : Str) : Option Str :=
  match base.getLast?, suffix.head? with
  | some rmc, some lmc => some (joinSuffix base suffix rmc lmc)
  | _, _ => none

/-- `search_corrected`: user entries first -/
def searchCorrected (env : Env) (ua : Store) (w : Str) : Option Str :=
  match alookup ua w with
  | some v => some v
  | none => env.autocorrect w

/-- the memo entry computed for a word part: auto-correct item then ranked dictionary hits
    (no hits when the regex does not compile) -/
def computeEntry (env : Env) (ua : Store) (w : Str) : List Rank :=
  let phonetic := env.convert w
  let ac := match searchCorrected env ua w with
    | some c => [Rank.first (env.convert c)]
    | none => []
  ac ++ ((env.dictPhonetic w).getD []).map (fun s => Rank.newSuggestion s phonetic)

/-- all split points `i` in `1..len`: (key = first `i` chars, suffix key = rest) -/
def splitPoints (w : Str) : List (Str × Str) :=
  (List.range (w.length - 1)).map (fun i => (w.take (i + 1), w.drop (i + 1)))

/-- the joined forms contributed by one split point -/
def suffixedAt (env : Env) (cache : Memo) (ks : Str × Str) : List Rank :=
  match env.suffix ks.2 with
  | none => []
  | some sfx =>
    match alookup cache ks.1 with
    | none => []
    | some entry => entry.filterMap (fun b => (joinChecked b.text sfx).map b.setText)

/-- `add_suffix_to_suggestions` -/
def addSuffix (env : Env) (cache : Memo) (middle : Str) : List Rank :=
  let base := (alookup cache middle).getD []
  if middle.length > 2 then base ++ (splitPoints middle).flatMap (suffixedAt env cache)
  else base

def wrapText (p t : Str) (s : Str) : Str := p ++ s ++ t

def wrapAll (parts : Parts) (l : List Rank) : List Rank :=
  if !parts.pre.isEmpty || !parts.trail.isEmpty
  then l.map (fun r => r.setText (wrapText parts.pre parts.trail r.text)) else l

/-- the memo after `suggestion_with_dict` looked `w` up -/
def memoFill (env : Env) (ua : Store) (cache : Memo) (w : Str) : Memo :=
  match alookup cache w with
  | some _ => cache
  | none => ainsert cache w (computeEntry env ua w)

/-- `suggestion_with_dict`: the candidate list (given the memo already filled for the word) -/
def dictList (env : Env) (cache : Memo) (parts : Parts) : List Rank :=
  let l := (addSuffix env cache parts.word).foldl pushChecked []
  let l := pushChecked l (.last (env.convert parts.word) 2)
  wrapAll parts l

/-- the loop of `get_prev_selection` over split points (suffix growing); stops at the first
    split whose suffix is known and whose base is learned and joinable.  Returns the derived
    text, which is also inserted into the store. -/
def prevSelLoop (env : Env) (st : Store) : List (Str × Str) → Option Str
  | [] => none
  | (key, test) :: rest =>
    match env.suffix test with
    | none => prevSelLoop env st rest
    | some sfx =>
      match alookup st key with
      | none => prevSelLoop env st rest
      | some base =>
        match joinChecked base sfx with
        | none => prevSelLoop env st rest
        | some j => some j

/-- the learned text for word `w` and the store after the look-up (`get_prev_selection`) -/
def selectedFor (env : Env) (st : Store) (w : Str) : Str × Store :=
  match alookup st w with
  | some item => (item, st)
  | none =>
    if w.length ≥ 2 then
      -- `for i in 1..len { test = w[len-i..]; key = w[..len-i] }` : suffix grows
      match prevSelLoop env st (splitPoints w).reverse with
      | some j => (j, ainsert st w j)
      | none => ([], st)
    else ([], st)

/-- `get_prev_selection` -/
def getPrevSelection (env : Env) (parts : Parts) (suggestions : List Rank) (st : Store) : Nat × Store :=
  let (selected, st') := selectedFor env st parts.word
  let target := wrapText parts.pre parts.trail selected
  ((suggestions.findIdx? (fun r => r.text == target)).getD 0, st')

/-- the three parts after transliteration of the punctuation and (optional) smart quoting -/
def preparedParts (env : Env) (cfg : Cfg) (term : Str) : Parts :=
  let s := split term false
  let s : Parts := ⟨env.convert s.pre, s.word, env.convert s.trail⟩
  if cfg.smartQuote then smartQuoter s else s

/-- the emoji items appended after `suggestion_with_dict`; the flag says whether the typed text
    was already added (as the emoticon) -/
def emojiStage (env : Env) (cfg : Cfg) (term : Str) (parts : Parts) (l : List Rank) : List Rank × Bool :=
  if cfg.ansi then (l, false)
  else
    match env.emoticon term with
    | some e =>
      ((if term != parts.pre then pushChecked l (Rank.last term 1) else l) ++ [Rank.emoji e Gen.emojiDefaultRank], true)
    | none =>
      match env.emojiByName parts.word with
      | some es => (l ++ (es.zipIdx 1).map (fun (s, r) => Rank.emoji (wrapText parts.pre parts.trail s) r), false)
      | none => (l, false)

/-- the emoji / English items appended after `suggestion_with_dict` -/
def addExtras (env : Env) (cfg : Cfg) (term : Str) (parts : Parts) (l : List Rank) : List Rank :=
  let r := emojiStage env cfg term parts l
  if cfg.english && !r.2 && term != parts.pre then pushChecked r.1 (Rank.last term 3) else r.1

/-- the sorted candidate list of `PhoneticSuggestion::suggest` for a memo already filled -/
def suggestList (env : Env) (cfg : Cfg) (cache : Memo) (term : Str) : List Rank :=
  let parts := preparedParts env cfg term
  sortStable (addExtras env cfg term parts (dictList env cache parts))

/-- `PhoneticSuggestion::suggest` -/
def suggest (env : Env) (cfg : Cfg) (s : PState) (term : Str) : PState × List Rank × Nat :=
  let parts := preparedParts env cfg term
  let cache' := memoFill env s.userAutocorrect s.cache parts.word
  let l := suggestList env cfg cache' term
  let (sel, st') := getPrevSelection env parts l s.selections
  ({ s with cache := cache', suggestions := l, selections := st' }, l, sel)

/-- `suggest_only_phonetic` -/
def suggestOnlyPhonetic (env : Env) (term : Str) : Str :=
  let s := split term false
  env.convert s.pre ++ env.convert s.word ++ env.convert s.trail

/-- the value returned over the API (`Suggestion`) -/
inductive Sugg where
  | full (aux : Str) (list : List Str) (sel : Nat) (ansi : Bool)
  | single (s : Str) (ansi : Bool)
  deriving DecidableEq, Repr, Inhabited

def Sugg.empty : Sugg := .single [] false

def Sugg.isEmpty : Sugg → Bool
  | .full _ l _ _ => l.isEmpty
  | .single s _ => s.isEmpty

/-- `create_suggestion` -/
def pCreateSuggestion (env : Env) (cfg : Cfg) (s : PState) : PState × Sugg :=
  if cfg.phoneticSuggestion then
    let (s', l, sel) := suggest env cfg s s.buffer
    ({ s' with prevSelection := sel }, .full s.buffer (l.map Rank.text) sel cfg.ansi)
  else (s, .single (suggestOnlyPhonetic env s.buffer) cfg.ansi)

/-- `PhoneticMethod::get_suggestion` -/
def pKey (env : Env) (cfg : Cfg) (s : PState) (key : Nat) (selection : Nat) : PState × Sugg :=
  match keycodeToChar key with
  | none => if s.buffer.isEmpty then (s, Sugg.empty) else pCreateSuggestion env cfg s
  | some ch =>
    let (s', sg) := pCreateSuggestion env cfg { s with buffer := s.buffer ++ [ch] }
    match sg with
    | .full aux l sel ansi => (s', .full aux l (if isPunctOverride ch then selection else sel) ansi)
    | x => (s', x)

/-- `PhoneticMethod::candidate_committed`: new state and the store handed to `std::fs::write`
    (if any; the result of the write is ignored).  Error = `suggestions[index]` out of range. -/
def pCommit (cfg : Cfg) (s : PState) (index : Nat) : Res (PState × Option Store) :=
  if s.prevSelection != index && cfg.phoneticSuggestion then
    match s.suggestions[index]? with
    | none => .error .indexOutOfRange
    | some r =>
      let value := (split r.text true).word
      let key := (split s.buffer false).word
      let st := ainsert s.selections key value
      .ok ({ s with selections := st, buffer := [] }, some st)
  else .ok ({ s with buffer := [] }, none)

/-- `PhoneticMethod::backspace_event` -/
def pBackspace (env : Env) (cfg : Cfg) (s : PState) (ctrl : Bool) : PState × Sugg :=
  if !s.buffer.isEmpty then
    if ctrl then ({ s with buffer := [] }, Sugg.empty)
    else
      let s := { s with buffer := s.buffer.dropLast }
      if s.buffer.isEmpty then (s, Sugg.empty)
      else pCreateSuggestion env cfg s
  else (s, Sugg.empty)

def pFinish (s : PState) : PState := { s with buffer := [] }
def pOngoing (s : PState) : Bool := !s.buffer.isEmpty

end Riti
