/-
Model/Rank — `Rank`, `impl Ord for Rank` (over the generated arm table), `push_checked`,
the sorts, Levenshtein distance and `Rank::new_suggestion` (src/suggestion.rs, src/utility.rs).
-/
import RitiModel.Gen.RankCmp
import RitiModel.Model.Basic
namespace Riti
open Gen

inductive Rank where
  | first (s : List Char)
  | emoji (s : List Char) (n : Nat)
  | other (s : List Char) (n : Nat)
  | last (s : List Char) (n : Nat)
  deriving DecidableEq, Repr, Inhabited

def Rank.text : Rank → List Char
  | .first s => s | .emoji s _ => s | .other s _ => s | .last s _ => s

def Rank.variant : Rank → Variant
  | .first _ => .first | .emoji _ _ => .emoji | .other _ _ => .other | .last _ _ => .last

/-- numeric rank (0 for `First`, which has none) -/
def Rank.num : Rank → Nat
  | .first _ => 0 | .emoji _ n => n | .other _ n => n | .last _ n => n

/-- `change_item`: replace the text, keep the ranking -/
def Rank.setText : Rank → List Char → Rank
  | .first _, t => .first t | .emoji _ n, t => .emoji t n | .other _ n, t => .other t n | .last _ n, t => .last t n

def natCmp (a b : Nat) : Ordering := if a < b then .lt else if a = b then .eq else .gt

/-- `impl Ord for Rank` -/
def Rank.cmp (a b : Rank) : Ordering :=
  match cmpArm a.variant b.variant with
  | .less => .lt
  | .greater => .gt
  | .equal => .eq
  | .cmpRanks => natCmp a.num b.num
  | .cmpRanksRev => natCmp b.num a.num

/-- `a ≤ b` in the comparator's sense -/
def Rank.le (a b : Rank) : Bool := a.cmp b != .gt

/-- `impl PartialEq for Rank`: texts only -/
def Rank.sameText (a b : Rank) : Bool := a.text == b.text

/-- `push_checked` on `Vec<Rank>` -/
def pushChecked (v : List Rank) (r : Rank) : List Rank :=
  if v.any (fun x => x.sameText r) then v else v ++ [r]

/-- insert `x` after every element that is `≤ x` in front of it: stable insertion -/
def insertSorted (x : Rank) : List Rank → List Rank
  | [] => [x]
  | y :: ys => if Rank.le y x then y :: insertSorted x ys else x :: y :: ys

/-- the stable sort (`slice::sort`): insertion sort taking elements from the right, so equal
    elements keep their original order -/
def sortStable : List Rank → List Rank
  | [] => []
  | x :: xs => insertSortedFront x (sortStable xs)
where
  /-- insert `x` *before* the first element that is not `< x` … i.e. before all its equals -/
  insertSortedFront (x : Rank) : List Rank → List Rank
    | [] => [x]
    | y :: ys => if y.cmp x == .lt then y :: insertSortedFront x ys else x :: y :: ys

/-- Levenshtein distance, one row at a time (as the `edit-distance` crate does) -/
def edRow (ca : Char) : List Char → List Nat → Nat → Nat → List Nat
  -- b-chars, previous row tail (cur[j+1..]), `pre` (= old cur[j]), `left` (= new cur[j])
  | [], _, _, _ => []
  | _ :: _, [], _, _ => []
  | cb :: bs, tmp :: row, pre, left =>
    let v := min (tmp + 1) (min (left + 1) (pre + if ca == cb then 0 else 1))
    v :: edRow ca bs row tmp v

def edLoop (b : List Char) : List Char → Nat → List Nat → List Nat
  | [], _, cur => cur
  | ca :: as, i, cur =>
    match cur with
    | [] => []
    | c0 :: row => edLoop b as (i + 1) ((i + 1) :: edRow ca b row c0 (i + 1))

def editDistance (a b : List Char) : Nat :=
  (edLoop b a 0 (List.range (b.length + 1))).getLastD 0

/-- `Rank::new_suggestion(item, base)`: `Other(item, (edit_distance(base,item) * 10) as u8)` -/
def Rank.newSuggestion (item base : List Char) : Rank :=
  .other item ((editDistance base item * rankFactor) % rankModulus)

end Riti
