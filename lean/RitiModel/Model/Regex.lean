/-
Model/Regex — the dictionary look-up of the phonetic method brought inside the model:

* `rxString`   — okkhor's `Parser::new_regex().convert_regex` (src/regex_patterns.rs): the typed word, ASCII punctuation
                 removed and lower-cased, rewritten pattern by pattern (same longest-prefix search and rule selection as the
                 transliterator, `Model/Okkhor`) into a regular expression `^ … $`, the literal `EXTRA` after every pattern;
* `Rx`, `parseRx` — the syntax those expressions use (literal characters, `( )`, `|`, postfix `?`, character sets `[…]`
                 without ranges or negation) and a recursive-descent reader for it;
* `Rx.matches` — whole-string matching (the expressions are anchored at both ends, so `Regex::is_match` is membership in the
                 language of the expression); continuation-passing, structurally recursive on the expression (there is no
                 repetition operator, so no fuel is needed);
* `dictSearch` — `PhoneticSuggestion::include_from_dictionary` (src/phonetic/suggestion.rs): the first BYTE of the word
                 selects the dictionary tables (`Gen.phoneticTables`, regenerated from the Rust source), every word of
                 those tables that matches is a candidate, in table order.

Not modelled: the size limit of the `regex` crate (`Regex::new` → `Err` for expressions of words ≳ 2 000 letters): the
look-up then yields nothing (`Env.dictPhonetic = none`); the traces carry that verdict (`dict w !`).
Import-free apart from the generated tables; everything is executable.
-/
import RitiModel.Gen.OkkhorRegex
import RitiModel.Model.Okkhor
namespace Riti
open Gen

/-! ### the expression generated for a typed word -/

def isAsciiPunct (c : Char) : Bool :=
  let n := c.toNat
  (33 ≤ n && n ≤ 47) || (58 ≤ n && n ≤ 64) || (91 ≤ n && n ≤ 96) || (123 ≤ n && n ≤ 126)

def strNats (s : String) : List Nat := s.toList.map Char.toNat

/-- the regenerated `REGEX_PATTERNS` in the shape `Model/Okkhor` works on -/
def rxPatterns : List OkPattern :=
  okkhorRegexPatterns.map (fun p => ⟨strNats p.1, p.2.1.map (fun r => (r.1, strNats r.2)), strNats p.2.2⟩)

/-- the loop of `convert_regex_into`: like `okLoop`, with `EXTRA` appended after every pattern replacement -/
def rxLoop (pats : List OkPattern) (extra : List Char) : Nat → List Char → Char → List Char → List Char
  | 0, _, _, out => out
  | _ + 1, [], _, out => out
  | fuel + 1, c :: cs, pre, out =>
    match okFindPattern pats (c :: cs) with
    | some p =>
      let rest := (c :: cs).drop p.find.length
      let suf := rest.headD ' '
      let pre' := Char.ofNat (p.find.getLastD 32)
      rxLoop pats extra fuel rest pre' (out ++ natsToChars (okReplacement p pre suf) ++ extra)
    | none => rxLoop pats extra fuel cs c (out ++ [c])

/-- `convert_regex(word)` WITHOUT the anchors: the body between `^` and `$` -/
def rxBody (pats : List OkPattern) (extra : List Char) (raw : List Char) : List Char :=
  let input := (raw.filter (fun c => !isAsciiPunct c)).map asciiLower
  rxLoop pats extra input.length input ' ' []

/-- `Parser::new_regex().convert_regex(word)` -/
def rxString (raw : List Char) : List Char := '^' :: rxBody rxPatterns okkhorRegexExtra.toList raw ++ ['$']

/-! ### the expressions and their reader -/

inductive Rx where
  | eps
  | chr (c : Char)
  | cls (cs : List Char)
  | cat (a b : Rx)
  | alt (a b : Rx)
  | opt (a : Rx)
  | grp (a : Rx)          -- `( a )`: same language as `a`; kept so that `Rx.render` gives back the text read
  deriving Repr, DecidableEq

/-- the body of a character set up to its `]` (no ranges, no negation, no escapes: a `-`, `^` or `\` inside makes the
    reader give up, `parseClass = none`, rather than guess) -/
def parseClass : List Char → List Char → Option (List Char × List Char)
  | [], _ => none
  | c :: r, acc =>
    if c = ']' then (if acc = [] then none else some (acc.reverse, r))
    else if c = '-' ∨ c = '^' ∨ c = '\\' ∨ c = '[' then none
    else parseClass r (c :: acc)

/-- postfix `?`, possibly several -/
def applyOpts : Rx → List Char → Rx × List Char
  | r, [] => (r, [])
  | r, c :: rest => if c = '?' then applyOpts (.opt r) rest else (r, c :: rest)

/-- characters that are not literals in this fragment of the syntax; anything else the `regex` crate treats specially
    (`* + . { } \ ^ $`) makes the reader give up -/
def rxSpecial (c : Char) : Bool :=
  c = '(' || c = ')' || c = '|' || c = '?' || c = '[' || c = ']' || c = '*' || c = '+' || c = '.' || c = '{' || c = '}' ||
  c = '\\' || c = '^' || c = '$'

mutual
/-- alternation: `cat ('|' cat)*` -/
def parseAlt : Nat → List Char → Option (Rx × List Char)
  | 0, _ => none
  | f + 1, s =>
    match parseCat f s with
    | none => none
    | some (a, rest) =>
      match rest with
      | c :: r => if c = '|' then (match parseAlt f r with | some (b, r') => some (.alt a b, r') | none => none) else some (a, rest)
      | [] => some (a, [])
/-- concatenation: items up to `|`, `)` or the end (possibly none: the empty expression) -/
def parseCat : Nat → List Char → Option (Rx × List Char)
  | 0, _ => none
  | f + 1, s =>
    match s with
    | [] => some (.eps, [])
    | c :: _ =>
      if c = ')' ∨ c = '|' then some (.eps, s)
      else
        match parseAtom f s with
        | none => none
        | some (a, r) =>
          let ar := applyOpts a r
          match parseCat f ar.2 with
          | some (b, r'') => some (.cat ar.1 b, r'')
          | none => none
/-- a group, a character set or a literal character -/
def parseAtom : Nat → List Char → Option (Rx × List Char)
  | 0, _ => none
  | f + 1, s =>
    match s with
    | [] => none
    | c :: r =>
      if c = '(' then
        (match parseAlt f r with
         | some (a, d :: r') => if d = ')' then some (.grp a, r') else none
         | _ => none)
      else if c = '[' then
        (match parseClass r [] with
         | some (cs, r') => some (.cls cs, r')
         | none => none)
      else if rxSpecial c then none
      else some (.chr c, r)
end

/-- the text of an expression; `parseAlt` reads exactly this back (`Props/Regex.parse_render`) -/
def Rx.render : Rx → List Char
  | .eps => []
  | .chr c => [c]
  | .cls cs => '[' :: cs ++ [']']
  | .cat a b => a.render ++ b.render
  | .alt a b => a.render ++ '|' :: b.render
  | .opt a => a.render ++ ['?']
  | .grp a => '(' :: a.render ++ [')']

/-- a whole expression (no anchors) -/
def parseRx (s : List Char) : Option Rx :=
  match parseAlt (4 * s.length + 4) s with
  | some (r, []) => some r
  | _ => none

/-- an anchored expression `^ body $` -/
def parseAnchored (s : List Char) : Option Rx :=
  match s with
  | c :: r => if c = '^' then (match r.getLast? with | some '$' => parseRx r.dropLast | _ => none) else none
  | [] => none

/-! ### matching -/

/-- `m r s k`: some prefix of `s` is in the language of `r` and `k` accepts the rest -/
def Rx.m : Rx → List Char → (List Char → Bool) → Bool
  | .eps, s, k => k s
  | .chr c, s, k => match s with | x :: r => x == c && k r | [] => false
  | .cls cs, s, k => match s with | x :: r => cs.contains x && k r | [] => false
  | .cat a b, s, k => a.m s (fun s' => b.m s' k)
  | .alt a b, s, k => a.m s k || b.m s k
  | .opt a, s, k => a.m s k || k s
  | .grp a, s, k => a.m s k

/-- the whole of `s` is in the language of `r` -/
def Rx.matches (r : Rx) (s : List Char) : Bool := r.m s List.isEmpty

/-! ### matching without backtracking (what the trace validator runs; `Props/RegexFast`: equal to `Rx.matches`)

`Rx.m` explores the alternatives one after the other, which is exponential on the expressions of long words made of
optional pieces (fifty `o`s).  `Rx.ends` instead pushes the SET of positions reached so far through the expression, as a
bit set in a `Nat` (bit `i` = "a match of what has been read so far can end before `s[i]`"): linear in the size of the
expression times the length of the string, like the automaton of the `regex` crate. -/

/-- bit set of the positions `off + i` with `p s[i]` -/
def posMask (p : Char → Bool) : List Char → Nat → Nat
  | [], _ => 0
  | x :: r, off => (if p x then 1 <<< off else 0) ||| posMask p r (off + 1)

/-- `r.ends s S`: the positions where a match of `r` that starts at a position of `S` can end -/
def Rx.ends (s : List Char) : Rx → Nat → Nat
  | .eps, S => S
  | .chr c, S => if S = 0 then 0 else (S &&& posMask (· == c) s 0) <<< 1
  | .cls cs, S => if S = 0 then 0 else (S &&& posMask cs.contains s 0) <<< 1
  | .cat a b, S => if S = 0 then 0 else b.ends s (a.ends s S)
  | .alt a b, S => if S = 0 then 0 else a.ends s S ||| b.ends s S
  | .opt a, S => if S = 0 then 0 else S ||| a.ends s S
  | .grp a, S => a.ends s S

/-- the whole of `s` is in the language of `r` (position-set algorithm) -/
def Rx.matchesFast (r : Rx) (s : List Char) : Bool := (r.ends s 1).testBit s.length

/-! ### the look-up -/

/-- the first byte of the word as a string, when it is a character boundary (`word.get(0..1)`): the first character if it
    is ASCII, else nothing -/
def firstByte (w : List Char) : Option Char :=
  match w with
  | c :: _ => if c.toNat < 128 then some c else none
  | [] => none

/-- names of the tables searched for a word -/
def tablesFor (tbl : List (String × List String)) (w : List Char) : List String :=
  match firstByte w with
  | none => []
  | some c => match tbl.find? (fun r => r.1 == String.singleton c) with | some r => r.2 | none => []

/-- `include_from_dictionary` for a word whose expression compiled: the candidates in the order they are pushed.
    `dict name` = the words of table `name` of dictionary.json in file order (`[]` for an unknown name).
    `none` = the generated expression is outside the syntax modelled here (never happens: `Props/RegexTotal.dictSearch_isSome`). -/
def dictSearch (dict : String → List (List Char)) (w : List Char) : Option (List (List Char)) :=
  match parseAnchored (rxString w) with
  | none => none
  | some r => some (((tablesFor phoneticTables w).flatMap dict).filter r.matches)

/-- `dictSearch` with the position-set matcher -/
def dictSearchFast (dict : String → List (List Char)) (w : List Char) : Option (List (List Char)) :=
  match parseAnchored (rxString w) with
  | none => none
  | some r => some (((tablesFor phoneticTables w).flatMap dict).filter r.matchesFast)

end Riti
