/-
Model/Split — `SplittedString::split` and `smart_quoter` (src/utility.rs).
-/
import RitiModel.Model.Chars
namespace Riti

/-- The right-to-left scan of `split`, on the *reversed* rest.  `n` = code points consumed so far,
    `last` = length of the trailing part found so far.  Returns the length of the trailing part. -/
def trailLen (ic : Bool) : List Char → Bool → Nat → Nat → Nat
  | [], _, _, last => last
  | c :: cs, esc, n, last =>
    if !esc && c == '`' then trailLen ic cs true (n + 1) last
    else if ((ic || esc) && c == ':') || isMeta c then trailLen ic cs false (n + 1) (n + 1)
    else last

structure Parts where
  pre : List Char
  word : List Char
  trail : List Char
  deriving DecidableEq, Repr, Inhabited

/-- `SplittedString::split(input, include_colon)` -/
def split (input : List Char) (ic : Bool) : Parts :=
  let pre := input.takeWhile isMeta
  let rest := input.dropWhile isMeta
  match rest with
  | [] => ⟨input, [], []⟩
  | _ =>
    let t := trailLen ic rest.reverse false 0 0
    ⟨pre, rest.take (rest.length - t), rest.drop (rest.length - t)⟩

def openQuote (c : Char) : Char := if c == '\'' then '‘' else if c == '"' then '“' else c
def closeQuote (c : Char) : Char := if c == '\'' then '’' else if c == '"' then '”' else c

/-- `smart_quoter` -/
def smartQuoter (p : Parts) : Parts :=
  if p.word.isEmpty then p
  else ⟨p.pre.map openQuote, p.word, p.trail.map closeQuote⟩

end Riti
