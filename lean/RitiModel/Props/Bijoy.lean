/-
Props/Bijoy — properties of the Bijoy-2000 encoder model `Riti.bijoy` (Model/Bijoy.lean, a transcription of
poriborton `bijoy2000::unicode_to_bijoy`, the encoder behind `Env.bijoy`): the output never contains a
Bengali-block code point (second half of C16, for ALL inputs), the encoder panics exactly on inputs containing one
of the five kar-range code points that `replace_kar` has no arm for, plain characters are copied.
Agreement of the model with the real crate: Props/BijoySamples*.lean (kernel-checked samples) and
tools/BijoyRunAll.lean over tools/bijoy_pairs.tsv (all 159 426 dictionary words).
-/
import RitiModel.Lemmas.Bijoy
import RitiModel.Props.C16
namespace Riti.Bijoy
open Riti Riti.Gen.Bijoy

/-! ### character level -/

theorem toNat_ofNat_cases (n : Nat) : (Char.ofNat n).toNat = n ∨ (Char.ofNat n).toNat = 0 := by
  unfold Char.ofNat
  by_cases h : n.isValidChar
  · left; rw [dif_pos h]; rfl
  · right; rw [dif_neg h]; rfl

theorem map_ofNat_toNat (s : List Char) : (s.map Char.toNat).map Char.ofNat = s := by
  induction s with
  | nil => rfl
  | cons c cs ih => simp only [List.map_cons, Char.ofNat_toNat, ih]

/-- C16, second half: the Bijoy encoding never contains a Bengali-block code point (U+0980..U+09FF), for EVERY input —
every pushed character is a `MAP` value, a literal of the algorithm, or an input character taken by the catch-all arm,
which lies after the arm for the whole Bengali block. (Unmapped Bengali code points such as U+0980 or the nukta U+09BC
are dropped, not passed through.) -/
theorem bijoy_no_bengali {s t : List Char} (h : bijoy s = .ok t) :
    ∀ c ∈ t, ¬ (0x0980 ≤ c.toNat ∧ c.toNat ≤ 0x09FF) := by
  unfold bijoy at h
  split at h
  · cases h
  · rename_i l hl
    cases h
    intro c hc
    obtain ⟨n, hn, rfl⟩ := List.mem_map.1 hc
    have hcl : ¬ Ben n := encodeNat_clean hl n hn
    rcases toNat_ofNat_cases n with e | e <;> rw [e]
    · exact hcl
    · decide

/-- the five code points on which poriborton panics, as characters: U+09C4 U+09C5 U+09C6 U+09C9 U+09CA -/
def BadKar (c : Char) : Prop := c.toNat ∈ badKars

instance (c : Char) : Decidable (BadKar c) := by unfold BadKar; infer_instance

/-- the encoder panics EXACTLY when the input contains one of U+09C4 U+09C5 U+09C6 U+09C9 U+09CA, wherever it
stands (the generic kar arm `c if is_kar(c)` precedes every arm that could swallow it) -/
theorem bijoy_panics_iff (s : List Char) : bijoy s = .error .bijoy ↔ ∃ c ∈ s, BadKar c := by
  constructor
  · intro h
    apply Classical.byContradiction
    intro hn
    have hg : ∀ n ∈ s.map Char.toNat, n ∉ badKars := by
      intro n hn'
      obtain ⟨c, hc, rfl⟩ := List.mem_map.1 hn'
      exact fun hb => hn ⟨c, hc, hb⟩
    obtain ⟨t, ht⟩ := encodeNat_good hg
    simp [bijoy, ht] at h
  · rintro ⟨c, hc, hb⟩
    have : ∃ n ∈ s.map Char.toNat, n ∈ badKars := ⟨c.toNat, List.mem_map.2 ⟨c, hc, rfl⟩, hb⟩
    simp only [bijoy, encodeNat_bad this]

/-- totality: without those five code points the encoder returns normally -/
theorem bijoy_total {s : List Char} (h : ∀ c ∈ s, ¬ BadKar c) : ∃ t, bijoy s = .ok t := by
  have hg : ∀ n ∈ s.map Char.toNat, n ∉ badKars := by
    intro n hn'
    obtain ⟨c, hc, rfl⟩ := List.mem_map.1 hn'
    exact h c hc
  obtain ⟨t, ht⟩ := encodeNat_good hg
  exact ⟨t.map Char.ofNat, by simp only [bijoy, ht]⟩

/-- the only panic of the encoder is the `panic!` of `replace_kar` -/
theorem bijoy_error_is_bijoy {s : List Char} {e : Panic} (h : bijoy s = .error e) : e = .bijoy := by
  by_cases hb : ∃ c ∈ s, BadKar c
  · rw [(bijoy_panics_iff s).2 hb] at h; cases h; rfl
  · obtain ⟨t, ht⟩ := bijoy_total (fun c hc hbad => hb ⟨c, hc, hbad⟩)
    rw [ht] at h; cases h

/-- a character no arm treats specially -/
def Plain (c : Char) : Prop := PlainN c.toNat

instance (c : Char) : Decidable (Plain c) := by unfold Plain; infer_instance

/-- ASCII (and every other non-Bengali text without curly quotes, ZWJ/ZWNJ, danda) passes through unchanged -/
theorem bijoy_ascii_passthrough {s : List Char} (h : ∀ c ∈ s, Plain c) : bijoy s = .ok s := by
  have hp : ∀ n ∈ s.map Char.toNat, PlainN n := by
    intro n hn
    obtain ⟨c, hc, rfl⟩ := List.mem_map.1 hn
    exact h c hc
  simp only [bijoy, encodeNat_plain hp, map_ofNat_toNat]

/-- ASCII characters are plain -/
theorem plain_of_ascii {c : Char} (h : c.toNat < 128) : Plain c := by
  simp only [Plain, PlainN, Ben]; omega

/-- plain text after hasanta-free text is appended unchanged: if `s` contains no hasanta (U+09CD) and `p` is plain,
`bijoy (s ++ p)` is `bijoy s` followed by `p` (and panics iff `bijoy s` does).  The hasanta side condition is needed:
right after a hasanta ANY character, ASCII included, is swallowed into the conjunct buffer (`bijoy "ক্a" = ""`). -/
theorem bijoy_append_plain {s p : List Char} (hs : ∀ c ∈ s, c.toNat ≠ 0x09CD) (hp : ∀ c ∈ p, Plain c) :
    bijoy (s ++ p) = (match bijoy s with | .error e => .error e | .ok t => .ok (t ++ p)) := by
  have hs' : ∀ n ∈ s.map Char.toNat, n ≠ B_HASANTA := by
    intro n hn
    obtain ⟨c, hc, rfl⟩ := List.mem_map.1 hn
    exact hs c hc
  have hp' : ∀ n ∈ p.map Char.toNat, PlainN n := by
    intro n hn
    obtain ⟨c, hc, rfl⟩ := List.mem_map.1 hn
    exact hp c hc
  simp only [bijoy, List.map_append, encodeNat_append_plain hs' hp']
  cases encodeNat (s.map Char.toNat) with
  | error e => rfl
  | ok t => simp only [List.map_append, map_ofNat_toNat]

/-- the empty string encodes to the empty string -/
theorem bijoy_nil : bijoy [] = .ok [] := by decide

/-! ### C16 with the real encoder plugged in -/

/-- C16, second half, closed: when the environment's encoder IS the poriborton model and ANSI output is on, the
pre-edit text of every candidate of a returned list contains no Bengali-block code point -/
theorem preedit_no_bengali (env : Env) (henv : env.bijoy = bijoy) (cfg : Cfg) (ha : cfg.ansi = true) (sg : Sugg)
    (hf : C16.flag sg = cfg.ansi) (i : Nat) (c t : Str) (h : sg.getSuggestion i = .ok c)
    (ht : sg.getPreEdit env i = .ok t) : ∀ ch ∈ t, ¬ (0x0980 ≤ ch.toNat ∧ ch.toNat ≤ 0x09FF) := by
  rw [C16.preedit_of_returned env cfg sg hf i c h, ha, henv] at ht
  exact bijoy_no_bengali ht

/-- … and reading a pre-edit text back panics only if the candidate contains one of the five code points -/
theorem preedit_panics_only_on_badKar (env : Env) (henv : env.bijoy = bijoy) (cfg : Cfg) (ha : cfg.ansi = true)
    (sg : Sugg) (hf : C16.flag sg = cfg.ansi) (i : Nat) (c : Str) (h : sg.getSuggestion i = .ok c)
    (hc : ∀ ch ∈ c, ¬ BadKar ch) : ∃ t, sg.getPreEdit env i = .ok t := by
  rw [C16.preedit_of_returned env cfg sg hf i c h, ha, henv]
  exact bijoy_total hc

/-! ### witnesses and non-vacuity -/

/-- the five one-character witnesses of the panic (U+09C4 is reachable from Probhat AltGr+d) -/
example : bijoy [Char.ofNat 0x09C4] = .error .bijoy ∧ bijoy [Char.ofNat 0x09C5] = .error .bijoy ∧
    bijoy [Char.ofNat 0x09C6] = .error .bijoy ∧ bijoy [Char.ofNat 0x09C9] = .error .bijoy ∧
    bijoy [Char.ofNat 0x09CA] = .error .bijoy := by decide +kernel

/-- the panic does not depend on the position: after a consonant, after a hasanta, inside ASCII -/
example : bijoy ("ক".toList ++ [Char.ofNat 0x09C4]) = .error .bijoy ∧
    bijoy ("ক্".toList ++ [Char.ofNat 0x09C4]) = .error .bijoy ∧
    bijoy ("ab".toList ++ [Char.ofNat 0x09C5] ++ "cd".toList) = .error .bijoy := by decide +kernel

/-- non-vacuity of `bijoy_no_bengali`, `bijoy_total`: a real word with reph, ya-fola, conjunct, front kar -/
example : (∀ c ∈ "কর্তব্যে স্ত্রী".toList, ¬ BadKar c) ∧ bijoy "কর্তব্যে স্ত্রী".toList = .ok "KZ©‡e¨ ¯¿x".toList := by
  decide +kernel

/-- unmapped Bengali-block code points (U+0980 anji, U+09BC nukta, U+09E2 vocalic-L sign, U+09FA isshar, the
unassigned U+09FF) and unknown conjuncts (ক্খ) are DROPPED, not passed through — which is why `bijoy_no_bengali`
holds without any side condition -/
example : bijoy [Char.ofNat 0x0980] = .ok [] ∧ bijoy [Char.ofNat 0x09BC] = .ok [] ∧
    bijoy ("a".toList ++ [Char.ofNat 0x09E2, Char.ofNat 0x09FA, Char.ofNat 0x09FF] ++ "b".toList) = .ok "ab".toList ∧
    bijoy "ক্খ".toList = .ok [] := by decide +kernel

/-- non-vacuity of `bijoy_ascii_passthrough` (ASCII, Latin-1, a 4-byte emoji), and its sharpness: after a hasanta
an ASCII letter is swallowed into the (unmapped, hence dropped) conjunct buffer -/
example : (∀ c ∈ "Hello, World! é 😀".toList, Plain c) ∧
    bijoy "Hello, World! é 😀".toList = .ok "Hello, World! é 😀".toList ∧
    bijoy "ক্a".toList = .ok [] := by decide +kernel

/-- non-vacuity of `bijoy_append_plain`: Bengali text followed by ASCII punctuation and a Latin word -/
example : (∀ c ∈ "বাংলা".toList, c.toNat ≠ 0x09CD) ∧ (∀ c ∈ "! (ok)".toList, Plain c) ∧
    bijoy "বাংলা! (ok)".toList = .ok ("evsjv".toList ++ "! (ok)".toList) := by decide +kernel

/-- non-vacuity of `preedit_no_bengali`: an ANSI list with the candidate `কি`, pre-edit text `wK` -/
example : ∃ (env : Env) (sg : Sugg), env.bijoy = bijoy ∧ C16.flag sg = true ∧
    sg.getSuggestion 0 = .ok "কি".toList ∧ sg.getPreEdit env 0 = .ok "wK".toList :=
  ⟨{ C16.witnessEnv with bijoy := bijoy }, .full [] ["কি".toList] 0 true, rfl, rfl, by decide +kernel, by decide +kernel⟩

end Riti.Bijoy
