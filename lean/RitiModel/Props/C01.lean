/-
Props/C01 — no in-contract sequence of API calls can crash the engine.
The model carries every remaining Rust panic site as an `Except` error; the theorems show that
no in-contract call reaches one, for every world (data, layouts, sorter), configuration,
user-file state and history.
-/
import RitiModel.Model.Context
import RitiModel.Spec.LayoutSpec
import RitiModel.Gen.PanicSites
namespace Riti.C01
open Riti Riti.Gen

/-- the catch-all arm of `keycode_to_char` does not panic (regenerated from the source) -/
theorem catch_all_does_not_panic : Gen.keyCharFallbackPanics = false := by decide

/-- a regex that does not compile (one word of a couple of thousand characters: `CompiledTooBig`)
    is tolerated at both call sites — regenerated from the source on every run; the model's
    `computeEntry` treats the failure as "no dictionary hits" only because of this -/
theorem regex_failure_tolerated : Gen.regexCompileUnwraps.all (fun b => !b) = true := by decide

/-- every key code published in riti.h either types a character or is one of the two keypad keys
    without one (VC_KP_EQUALS = 3597, VC_KP_ENTER = 3612), which the methods ignore -/
theorem published_keys_covered :
    Spec.published.all (fun k => (alookup keyChar k).isSome || k == 3597 || k == 3612) = true := by decide

/-- every character a key can put into the phonetic buffer is ASCII, which is what makes the
    byte-index slicing of the Rust code (`middle[i..]`, okkhor's `input[1..]`) safe -/
theorem key_chars_ascii : keyChar.all (fun p => (Char.ofNat p.2).toNat < 128) = true := by decide

def Ascii (s : Str) : Prop := ∀ c ∈ s, c.toNat < 128

theorem alookup_mem {l : List (Nat × Nat)} {k n : Nat} (h : alookup l k = some n) : ∃ p ∈ l, p.2 = n := by
  induction l with
  | nil => simp [alookup] at h
  | cons p ps ih =>
    obtain ⟨a, b⟩ := p
    simp only [alookup] at h
    split at h
    · exact ⟨(a, b), by simp, by simpa using h⟩
    · obtain ⟨q, hq, hqn⟩ := ih h; exact ⟨q, by simp [hq], hqn⟩

theorem keycodeToChar_ascii (k : Nat) (c : Char) (h : keycodeToChar k = some c) : c.toNat < 128 := by
  unfold keycodeToChar at h
  cases hl : alookup keyChar k with
  | none => simp [hl] at h
  | some n =>
    simp [hl] at h
    subst h
    have hall := key_chars_ascii
    rw [List.all_eq_true] at hall
    obtain ⟨p, hp, hpn⟩ := alookup_mem hl
    have := hall p hp
    rw [hpn] at this
    simpa using this

/-- the phonetic buffer stays ASCII under every key (the other events only shorten it) -/
theorem buffer_ascii_key (env : Env) (cfg : Cfg) (s : PState) (key sel : Nat) (h : Ascii s.buffer) :
    Ascii (pKey env cfg s key sel).1.buffer := by
  unfold pKey
  cases hk : keycodeToChar key with
  | none =>
    simp only
    split
    · exact h
    · simp only [pCreateSuggestion]; split <;> simpa [suggest] using h
  | some ch =>
    have hch := keycodeToChar_ascii key ch hk
    have hb : Ascii (s.buffer ++ [ch]) := by
      intro c hc
      simp at hc
      cases hc with
      | inl h1 => exact h c h1
      | inr h2 => subst h2; exact hch
    simp only [pCreateSuggestion]
    split <;> (simp only [suggest]; split <;> simpa using hb)

/-- in-contract calls (C01's statement): `commit` with an index inside the most recently built
    list (or the preselected one), `update_engine` with a layout that loads; keys, modifier and
    selection bytes, backspaces and finish are unrestricted. -/
def InContractEv (w : World) (c : Ctx) : Event → Prop
  | .commit i => match c.m with
    | .phonetic s => c.cfg.phoneticSuggestion = true → (i < s.suggestions.length ∨ s.prevSelection = i)
    | .fixed _ _ => True
  | .update _ p => isPhoneticPath p = true ∨ (w.layouts p).isSome = true
  | _ => True

theorem pCommit_ok (cfg : Cfg) (s : PState) (i : Nat)
    (h : cfg.phoneticSuggestion = true → (i < s.suggestions.length ∨ s.prevSelection = i)) :
    ∃ r, pCommit cfg s i = .ok r := by
  unfold pCommit
  by_cases hc : (s.prevSelection != i && cfg.phoneticSuggestion) = true
  · simp only [hc, if_true]
    simp at hc
    cases h hc.2 with
    | inl hlt =>
      have : s.suggestions[i]? = some s.suggestions[i] := by simp [hlt]
      simp [this]
    | inr heq => exact absurd heq hc.1
  · simp [hc]

/-- one in-contract call returns normally, in every state -/
theorem step_total (w : World) (c : Ctx) (fs : FS) (e : Event) (h : InContractEv w c e) :
    ∃ r, step w c fs e = .ok r := by
  cases e with
  | key code m sel => cases hm : c.m <;> simp [step, hm]
  | backspace ctrl => cases hm : c.m <;> simp [step, hm]
  | finish => cases hm : c.m <;> simp [step, hm]
  | setFs fs' => simp [step]
  | commit i =>
    cases hm : c.m with
    | fixed l s => simp [step, hm]
    | phonetic s =>
      simp only [InContractEv, hm] at h
      obtain ⟨⟨s', wr⟩, hr⟩ := pCommit_ok c.cfg s i h
      simp [step, hm, hr]
  | update cfg p =>
    simp only [InContractEv] at h
    have hnew : ∃ m, mNew w fs p = some m := by
      cases h with
      | inl hp => simp [mNew, hp]
      | inr hl =>
        cases hw : w.layouts p with
        | none => simp [hw] at hl
        | some l => simp only [mNew, hw]; split <;> exact ⟨_, rfl⟩
    obtain ⟨m, hmn⟩ := hnew
    simp only [step]
    split
    · simp [hmn]
    · cases hm : c.m <;> simp

/-- in-contract histories: every call is in contract in the state it is made in -/
def InContract (w : World) : Ctx → FS → List Event → Prop
  | _, _, [] => True
  | c, fs, e :: es => InContractEv w c e ∧ ∀ c' fs' o, step w c fs e = .ok (c', fs', o) → InContract w c' fs' es

/-- **no_panic**: every in-contract history returns normally — all worlds, configurations,
    user-file states, both methods, no bound on the length -/
theorem no_panic (w : World) (c : Ctx) (fs : FS) (evs : List Event) (h : InContract w c fs evs) :
    ∃ r, runFrom w c fs evs = .ok r := by
  induction evs generalizing c fs with
  | nil => exact ⟨_, rfl⟩
  | cons e es ih =>
    obtain ⟨he, hrest⟩ := h
    obtain ⟨⟨c', fs', o⟩, hs⟩ := step_total w c fs e he
    obtain ⟨⟨c'', fs'', os⟩, hr⟩ := ih c' fs' (hrest c' fs' o hs)
    exact ⟨(c'', fs'', o :: os), by simp [runFrom, hs, hr]⟩

/-- creating a context never fails for the phonetic method, whatever the user files hold -/
theorem new_phonetic_total (w : World) (fs : FS) (cfg : Cfg) :
    ∃ c, Ctx.new w fs cfg "avro_phonetic" = some c := by
  simp [Ctx.new, mNew, isPhoneticPath]

/-- a key without a character is ignored by the phonetic method -/
theorem unknown_key_ignored (env : Env) (cfg : Cfg) (s : PState) (key sel : Nat) (h : keycodeToChar key = none) :
    (pKey env cfg s key sel).1.buffer = s.buffer := by
  simp only [pKey, h]
  split
  · rfl
  · simp only [pCreateSuggestion]; split <;> simp [suggest]

/-- non-vacuity: a commit of index 0 after one key is in contract, for a one-candidate list -/
example : InContractEv ⟨⟨id, fun _ => some [], fun _ => none, fun _ => none, fun _ => none, fun _ => none, fun _ => none, fun s => .ok s, fun _ => []⟩, fun _ => none, sortStable⟩
    ⟨{ phoneticSuggestion := true }, "avro_phonetic", .phonetic { suggestions := [.last ['a'] 2] }⟩ (.commit 0) := by
  simp [InContractEv]

end Riti.C01
