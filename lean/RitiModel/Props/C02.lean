/-
Props/C02 — every returned suggestion is self-consistent and fully retrievable.
-/
import RitiModel.Model.Context
import RitiModel.Lemmas.Rank
import RitiModel.Lemmas.Phonetic
namespace Riti.C02
open Riti Riti.Gen

/-- a list-style suggestion is well-formed for composition `comp` -/
def WF (comp : Str) : Sugg → Prop
  | .full aux l sel _ => l ≠ [] ∧ sel < l.length ∧ aux = comp
  | .single _ _ => True

theorem findIdx?_lt {α : Type} (p : α → Bool) (l : List α) (i : Nat) (h : l.findIdx? p = some i) : i < l.length := by
  have := List.findIdx?_eq_some_iff_findIdx_eq.mp h
  omega

/-- the engine-computed preselection is inside the list -/
theorem prevSelection_lt (env : Env) (parts : Parts) (l : List Rank) (st : Store) (hl : l ≠ []) :
    (getPrevSelection env parts l st).1 < l.length := by
  simp only [getPrevSelection]
  cases h : l.findIdx? (fun r => r.text == wrapText parts.pre parts.trail (selectedFor env st parts.word).1) with
  | none => simp; exact List.length_pos_iff.mpr hl
  | some i => simpa using findIdx?_lt _ _ _ h

/-- what `create_suggestion` returns is well-formed: non-empty list, preselection inside it,
    auxiliary text = the raw typed buffer -/
theorem phonetic_create_wf (env : Env) (cfg : Cfg) (s : PState) :
    WF s.buffer (pCreateSuggestion env cfg s).2 := by
  simp only [pCreateSuggestion]
  split
  · simp only [suggest, WF]
    refine ⟨?_, ?_, trivial⟩
    · simpa using suggestList_ne_nil env cfg _ s.buffer
    · simpa using prevSelection_lt env _ _ _ (suggestList_ne_nil env cfg _ s.buffer)
  · trivial

/-- backspace returns a well-formed suggestion -/
theorem phonetic_backspace_wf (env : Env) (cfg : Cfg) (s : PState) (ctrl : Bool) :
    WF (pBackspace env cfg s ctrl).1.buffer (pBackspace env cfg s ctrl).2 := by
  simp only [pBackspace]
  split
  · split
    · trivial
    · split
      · trivial
      · have := phonetic_create_wf env cfg { s with buffer := s.buffer.dropLast }
        rw [pCreateSuggestion_buffer]; exact this
  · trivial

/-- a key returns a well-formed suggestion — PARTIAL: when the key is one of the punctuation
    characters that keep the caller's selection, the caller's byte must be inside the **new** list.
    (The property only promises validity for the list shown *before*; the code does not
    re-validate, see `override_out_of_range` — known finding.) -/
theorem phonetic_key_wf_partial (env : Env) (cfg : Cfg) (s : PState) (key sel : Nat)
    (hsel : ∀ ch, keycodeToChar key = some ch → isPunctOverride ch = true →
      ∀ aux l e a, (pCreateSuggestion env cfg { s with buffer := s.buffer ++ [ch] }).2 = .full aux l e a → sel < l.length) :
    WF (pKey env cfg s key sel).1.buffer (pKey env cfg s key sel).2 := by
  unfold pKey
  cases hk : keycodeToChar key with
  | none =>
    simp only
    split
    · trivial
    · rw [pCreateSuggestion_buffer]; exact phonetic_create_wf env cfg s
  | some ch =>
    simp only
    have hwf := phonetic_create_wf env cfg { s with buffer := s.buffer ++ [ch] }
    have hb : (pCreateSuggestion env cfg { s with buffer := s.buffer ++ [ch] }).1.buffer = s.buffer ++ [ch] :=
      pCreateSuggestion_buffer env cfg _
    cases hsg : (pCreateSuggestion env cfg { s with buffer := s.buffer ++ [ch] }).2 with
    | single t a =>
      rw [show pCreateSuggestion env cfg { s with buffer := s.buffer ++ [ch] } =
        ((pCreateSuggestion env cfg { s with buffer := s.buffer ++ [ch] }).1, .single t a) from by rw [← hsg]]
      trivial
    | full aux l e a =>
      rw [show pCreateSuggestion env cfg { s with buffer := s.buffer ++ [ch] } =
        ((pCreateSuggestion env cfg { s with buffer := s.buffer ++ [ch] }).1, .full aux l e a) from by rw [← hsg]]
      simp only [hb]
      rw [hsg] at hwf
      simp only [WF] at hwf ⊢
      refine ⟨hwf.1, ?_, hwf.2.2⟩
      split
      · rename_i hp; exact hsel ch hk hp aux l e a hsg
      · exact hwf.2.1

/-- every index below the length can be read as a candidate -/
theorem candidates_readable (aux : Str) (l : List Str) (sel : Nat) (a : Bool) (i : Nat) (h : i < l.length) :
    (Sugg.full aux l sel a).getSuggestion i = .ok l[i] := by
  simp [Sugg.getSuggestion, h]

/-- … and as pre-edit text: verbatim without ANSI, through the encoder with it (which must not
    panic on that candidate: `bijoy` total on the list — see C16 for when it is) -/
theorem preedit_readable (env : Env) (aux : Str) (l : List Str) (sel : Nat) (a : Bool) (i : Nat) (h : i < l.length)
    (hb : a = true → ∃ t, env.bijoy l[i] = .ok t) :
    ∃ t, (Sugg.full aux l sel a).getPreEdit env i = .ok t := by
  simp only [Sugg.getPreEdit, List.getElem?_eq_getElem h]
  cases a with
  | false => exact ⟨_, rfl⟩
  | true => simpa using hb rfl

/-- a single-string suggestion is always readable as pre-edit text at index 0 (same proviso) -/
theorem single_readable (env : Env) (t : Str) (a : Bool) (hb : a = true → ∃ u, env.bijoy t = .ok u) :
    ∃ u, (Sugg.single t a).getPreEdit env 0 = .ok u := by
  cases a with
  | false => exact ⟨_, rfl⟩
  | true => simpa [Sugg.getPreEdit] using hb rfl

theorem dedupAdjacent_ne_nil (x : Rank) (l : List Rank) : dedupAdjacent (x :: l) ≠ [] := by
  induction l generalizing x with
  | nil => simp [dedupAdjacent]
  | cons y ys ih =>
    simp only [dedupAdjacent]
    split
    · exact ih x
    · simp

theorem fixedBase_ne_nil (env : Env) (cfg : Cfg) (parts : Parts) : fixedBase env cfg parts ≠ [] := by
  simp only [fixedBase, wrapAll]
  split
  · simpa using dedupAdjacent_ne_nil _ _
  · exact dedupAdjacent_ne_nil _ _

/-- fixed method, suggestions on: for every ordering function that keeps the number of items (as
    `sort_unstable` does) the list is non-empty, the index is 0 and the auxiliary text is the
    composed text -/
theorem fixed_dict_wf (w : World) (hperm : ∀ l, (w.sorter l).length = l.length) (cfg : Cfg) (s : FState) :
    WF s.buffer (fDictSuggestion w cfg s).2 := by
  have hb := fixedBase_ne_nil w.env cfg (fixedParts cfg s.buffer)
  have hpos : (fixedBase w.env cfg (fixedParts cfg s.buffer)).length > 0 := List.length_pos_iff.mpr hb
  have hlen : ∀ (k : Nat) (e : List Rank), k ≥ 8 →
      ((w.sorter (fixedBase w.env cfg (fixedParts cfg s.buffer) ++ fixedEmoji w.env cfg (fixedParts cfg s.buffer) s.typed)).take k ++ e).length > 0 := by
    intro k e hk
    simp [hperm]
    omega
  simp only [fDictSuggestion, WF, fixedCands]
  split
  · refine ⟨?_, ?_, trivial⟩
    · intro h
      have := hlen 8 [Rank.last s.typed 1] (by omega)
      simp at h
    · simp
  · refine ⟨?_, ?_, trivial⟩
    · intro h
      have := hlen 9 [] (by omega)
      simp at h this
      rw [h] at this
      simp at this
    · have := hlen 9 [] (by omega)
      simpa using this

/-- fixed method, suggestions off: the single string is the composed text -/
theorem fixed_lonely (cfg : Cfg) (s : FState) : fLonely cfg s = .single s.buffer cfg.ansi := rfl

/-- the override is not re-validated (known finding): a world in which `ab` has three candidates
    and `ab:` one; the caller's selection 2 was valid for the list shown before the `:` key, and
    the suggestion returned for `:` carries index 2 with a list of length 1. -/
def witnessEnv : Env :=
  { convert := id
    dictPhonetic := fun w => if w == ['a', 'b'] then some [['x'], ['y']] else some []
    suffix := fun _ => none, autocorrect := fun _ => none, emoticon := fun _ => none
    emojiByName := fun _ => none, emojiBengali := fun _ => none, bijoy := fun s => .ok s, fixedTable := fun _ => [] }

/-- (preselected index, length) of a list suggestion -/
def shape : Sugg → Option (Nat × Nat)
  | .full _ l sel _ => some (sel, l.length)
  | .single _ _ => none

theorem override_out_of_range :
    let cfg : Cfg := { phoneticSuggestion := true }
    let s1 := (pKey witnessEnv cfg {} 41110 0).1          -- a
    let r2 := pKey witnessEnv cfg s1 41111 0               -- b : three candidates
    let r3 := pKey witnessEnv cfg r2.1 99 2                -- ':' with the (valid) selection 2
    shape r2.2 = some (0, 3) ∧ shape r3.2 = some (2, 1) := by
  decide

end Riti.C02
