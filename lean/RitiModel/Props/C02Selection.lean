/-
Props/C02Selection — when exactly can the caller's selection byte fall outside the list (C02, the narrowed known
finding `C02.override_out_of_range`).

After a punctuation key of the override set (`! " ' ) , - . : ; ? ] _ }`) the engine returns the CALLER'S selection byte
as the preselected index, unvalidated.  The byte was valid for the list shown BEFORE the key.  This file shows that the
new list cannot be shorter — so the byte is still valid — unless the key changed the WORD PART of the composition or an
emoticon of the table is involved, and says which keys change the word part:

 * `word_same_of_meta`, `word_same_iff`, `override_word_same_iff` — a punctuation character (`isMeta`) NEVER changes the
   word part, whatever the text ends in; among all characters the only other case is the escape character right after
   punctuation that follows a word; of the 13 override keys exactly ONE changes the word part, always: the colon.
 * `list_same_word_partial`, `list_length_same_word_iff`, `list_length_same_word_partial`, `list_length_same_word_no_english`,
   `list_length_le_same_word` — same memo, same word part, no emoticon before or after: the two lists are the same
   candidates position by position up to the punctuation wrapped around them, PROVIDED the raw typed text (English option)
   is appended in both or in neither.  `list_length_same_word_fails`: that proviso is needed (the real transliterator
   leaves `,` alone and turns `.` into a danda: `,` has 1 candidate, `,.` has 2).
 * `override_in_range_same_word_partial`, `override_in_range_same_word_no_english`, `override_in_range_unless_colon_partial`,
   `key_list_length_same_word_partial` — the key step, from any state left by `create_suggestion` (`Shown`): index clause of C02.
   `override_same_word_out_of_range`: without the raw-text proviso an ABSTRACT transliterator can make the list shrink
   with the word part unchanged (needs a transliterator that maps `..` to itself but `.` to something else).
 * non-vacuity: `ami` + `.` (hypotheses hold, 3 candidates before and after, caller's index 2 kept and valid);
   `cool` + `:` (word part changes, 4 → 1 candidates, caller's index 3 out of range).

No memo invariant is needed: the statements hold for EVERY memo (`cache`), clean or not, because both lists are built
from the same memo and the length of the dictionary stage depends on the memo and the word part only.
-/
import RitiModel.Props.C02
import RitiModel.Lemmas.C02Selection
namespace Riti.C02Selection
open Riti Riti.Gen

/-! ## 1. which appended characters leave the word part unchanged -/

/-- a punctuation key (any of `metaSet`; every override key except the colon is one) never changes the word part of
    the composition — no condition on the text typed before it (it may end in the escape character, a colon, …) -/
theorem word_same_of_meta (t : Str) (c : Char) (hc : isMeta c = true) :
    (split (t ++ [c]) false).word = (split t false).word := word_snoc_meta t c hc

/-- … it extends the leading part while no word has started, the trailing part afterwards -/
theorem parts_of_meta (t : Str) (c : Char) (hc : isMeta c = true) :
    split (t ++ [c]) false =
      if t.dropWhile isMeta = [] then ⟨t ++ [c], [], []⟩
      else ⟨(split t false).pre, (split t false).word, (split t false).trail ++ [c]⟩ := split_snoc_meta t c false hc

/-- **the precise condition**: one more character keeps the word part iff it is punctuation, or it is the escape
    character typed right after punctuation that follows a word (it then joins the trailing part) -/
theorem word_same_iff (t : Str) (c : Char) :
    (split (t ++ [c]) false).word = (split t false).word ↔
      isMeta c = true ∨ (c = '`' ∧ t.dropWhile isMeta ≠ [] ∧ ∃ x, t.getLast? = some x ∧ isMeta x = true) :=
  word_snoc_iff t c

/-- every other key joins the word part and swallows the trailing part: the word part becomes everything after the
    leading punctuation (this is what the colon does to `cool`, and to `cool.`) -/
theorem word_of_nonmeta (t : Str) (c : Char) (hc : isMeta c = false) (hb : c ≠ '`') :
    (split (t ++ [c]) false).word = t.dropWhile isMeta ++ [c] :=
  word_snoc_nonmeta t c hc (by simpa using hb)

/-- the override keys are punctuation, except the colon -/
theorem override_meta_or_colon (c : Char) (ho : isPunctOverride c = true) : isMeta c = true ∨ c = ':' := by
  have h : punctOverrideSet.all (fun n => metaSet.contains n || n == 58) = true := by decide
  have hc : c.toNat ∈ punctOverrideSet := by simpa [isPunctOverride] using ho
  have := List.all_eq_true.mp h _ hc
  simp only [Bool.or_eq_true, beq_iff_eq] at this
  rcases this with h | h
  · exact Or.inl h
  · right
    apply Char.ext
    apply UInt32.toNat_inj.mp
    exact h

/-- **of the override keys exactly the colon changes the word part, and it always does** -/
theorem override_word_same_iff (t : Str) (c : Char) (ho : isPunctOverride c = true) :
    (split (t ++ [c]) false).word = (split t false).word ↔ c ≠ ':' := by
  rcases override_meta_or_colon c ho with h | h
  · have hne : c ≠ ':' := by
      intro hc; subst hc; exact absurd h (by decide)
    simp [word_same_of_meta t c h, hne]
  · subst h
    have := word_snoc_nonmeta_ne t ':' (by decide) (by decide)
    simp only [ne_eq, not_true_eq_false, iff_false]
    exact this

/-! ## 2. the two lists, same memo, same word part, no emoticon -/

/-- how the candidates at one position of the two lists are related: the same core candidate with the old / new
    punctuation wrapped around it, or the raw typed text (old / new) -/
def SameItem (env : Env) (cfg : Cfg) (t : Str) (c : Char) (a b : Rank) : Prop :=
  (∃ r, a = wrapRSel (preparedParts env cfg t) r ∧ b = wrapRSel (preparedParts env cfg (t ++ [c])) r) ∨
  (a = .last t 3 ∧ b = .last (t ++ [c]) 3)

/-- related candidates are of the same kind and carry the same number -/
theorem SameItem.skel {env : Env} {cfg : Cfg} {t : Str} {c : Char} {a b : Rank} (h : SameItem env cfg t c a b) :
    skel a = skel b := by
  rcases h with ⟨r, rfl, rfl⟩ | ⟨rfl, rfl⟩
  · rw [skel_wrapR, skel_wrapR]
  · rfl

/-- the raw-text proviso holds when the English option is off (or masked by ANSI) -/
theorem rawAdded_no_english (env : Env) (cfg : Cfg) (cache : Memo) (term : Str) (h : cfg.english = false) :
    rawAdded env cfg cache term = false := by
  simp [rawAdded, h]

/-- … and the raw text IS appended when the option is on, the text is not pure untouched punctuation and no candidate
    already has that text (the normal case: candidates are Bengali, the typed text is ASCII) -/
theorem rawAdded_fresh (env : Env) (cfg : Cfg) (cache : Memo) (term : Str) (h : cfg.english = true)
    (hne : term ≠ (preparedParts env cfg term).pre)
    (hfresh : term ∉ (C07.beforeEnglish env cfg cache term).map Rank.text) :
    rawAdded env cfg cache term = true := by
  have : (C07.beforeEnglish env cfg cache term).any (fun x => x.sameText (.last term 3)) = false := by
    cases ha : (C07.beforeEnglish env cfg cache term).any (fun x => x.sameText (.last term 3)) with
    | false => rfl
    | true => exact absurd (text_mem_of_any.mp ha) hfresh
  simp [rawAdded, h, hne, this]

/-- **same candidates up to the wrapping** — PARTIAL.  Same memo, the appended character leaves the word part
    unchanged, neither text is an emoticon of the table: the list for `t ++ [c]` is, position by position, the list for
    `t` with the new punctuation wrapped around each candidate instead of the old (and the new raw text instead of the
    old).  Excluded (`hraw`): English option on and the raw typed text appended as a candidate for exactly one of the
    two texts — `push_checked` drops it when it coincides with a candidate or when the text is punctuation the
    transliterator leaves alone (`list_length_same_word_fails`). -/
theorem list_same_word_partial (env : Env) (cfg : Cfg) (cache : Memo) (t : Str) (c : Char)
    (hw : (split (t ++ [c]) false).word = (split t false).word)
    (he1 : env.emoticon t = none) (he2 : env.emoticon (t ++ [c]) = none)
    (hraw : rawAdded env cfg cache (t ++ [c]) = rawAdded env cfg cache t) :
    Rel2 (SameItem env cfg t c) (suggestList env cfg cache t) (suggestList env cfg cache (t ++ [c])) := by
  have hw' : word (t ++ [c]) = word t := hw
  rw [C07.suggestList_eq, C07.suggestList_eq]
  apply sortStable_rel2 (fun a b h => h.skel)
  rw [unsorted_eq env cfg cache t he1, unsorted_eq env cfg cache (t ++ [c]) he2, hw', hraw]
  apply Rel2.append
  · exact Rel2.map_map _ _ _ (fun r _ => Or.inl ⟨r, rfl, rfl⟩)
  · split
    · exact .cons (Or.inr ⟨rfl, rfl⟩) .nil
    · exact .nil

/-- … in particular the candidates at each position are of the same kind and carry the same number -/
theorem list_skeleton_same_word_partial (env : Env) (cfg : Cfg) (cache : Memo) (t : Str) (c : Char)
    (hw : (split (t ++ [c]) false).word = (split t false).word)
    (he1 : env.emoticon t = none) (he2 : env.emoticon (t ++ [c]) = none)
    (hraw : rawAdded env cfg cache (t ++ [c]) = rawAdded env cfg cache t) :
    (suggestList env cfg cache (t ++ [c])).map skel = (suggestList env cfg cache t).map skel :=
  ((list_same_word_partial env cfg cache t c hw he1 he2 hraw).mono (fun _ _ h => h.skel)).map_skel.symm

/-- **the exact length statement**: same memo, word part unchanged, no emoticon before or after — the two lists have
    the same number of candidates IF AND ONLY IF the raw typed text is appended for both texts or for neither -/
theorem list_length_same_word_iff (env : Env) (cfg : Cfg) (cache : Memo) (t : Str) (c : Char)
    (hw : (split (t ++ [c]) false).word = (split t false).word)
    (he1 : env.emoticon t = none) (he2 : env.emoticon (t ++ [c]) = none) :
    (suggestList env cfg cache (t ++ [c])).length = (suggestList env cfg cache t).length ↔
      rawAdded env cfg cache (t ++ [c]) = rawAdded env cfg cache t := by
  have hw' : word (t ++ [c]) = word t := hw
  rw [suggestList_length env cfg cache t he1, suggestList_length env cfg cache (t ++ [c]) he2, hw']
  cases rawAdded env cfg cache (t ++ [c]) <;> cases rawAdded env cfg cache t <;> simp

/-- the two lists differ in length by at most the raw-text item -/
theorem list_length_same_word_pm1 (env : Env) (cfg : Cfg) (cache : Memo) (t : Str) (c : Char)
    (hw : (split (t ++ [c]) false).word = (split t false).word)
    (he1 : env.emoticon t = none) (he2 : env.emoticon (t ++ [c]) = none) :
    (suggestList env cfg cache (t ++ [c])).length + (if rawAdded env cfg cache t then 1 else 0) =
      (suggestList env cfg cache t).length + (if rawAdded env cfg cache (t ++ [c]) then 1 else 0) := by
  have hw' : word (t ++ [c]) = word t := hw
  rw [suggestList_length env cfg cache t he1, suggestList_length env cfg cache (t ++ [c]) he2, hw']
  omega

/-- **the length statement** — PARTIAL (same exclusion as `list_same_word_partial`, and by `list_length_same_word_iff`
    that exclusion is exactly what is needed) -/
theorem list_length_same_word_partial (env : Env) (cfg : Cfg) (cache : Memo) (t : Str) (c : Char)
    (hw : (split (t ++ [c]) false).word = (split t false).word)
    (he1 : env.emoticon t = none) (he2 : env.emoticon (t ++ [c]) = none)
    (hraw : rawAdded env cfg cache (t ++ [c]) = rawAdded env cfg cache t) :
    (suggestList env cfg cache (t ++ [c])).length = (suggestList env cfg cache t).length :=
  (list_length_same_word_iff env cfg cache t c hw he1 he2).mpr hraw

/-- the length statement at full strength when the English option is off (or ANSI is on): every table, every memo -/
theorem list_length_same_word_no_english (env : Env) (cfg : Cfg) (cache : Memo) (t : Str) (c : Char)
    (hw : (split (t ++ [c]) false).word = (split t false).word)
    (he1 : env.emoticon t = none) (he2 : env.emoticon (t ++ [c]) = none) (heng : cfg.english = false) :
    (suggestList env cfg cache (t ++ [c])).length = (suggestList env cfg cache t).length :=
  list_length_same_word_partial env cfg cache t c hw he1 he2
    (by rw [rawAdded_no_english _ _ _ _ heng, rawAdded_no_english _ _ _ _ heng])

/-- what the index clause needs: the list does not SHRINK as soon as the raw text is not dropped by the key -/
theorem list_length_le_same_word (env : Env) (cfg : Cfg) (cache : Memo) (t : Str) (c : Char)
    (hw : (split (t ++ [c]) false).word = (split t false).word)
    (he1 : env.emoticon t = none) (he2 : env.emoticon (t ++ [c]) = none)
    (hraw : rawAdded env cfg cache t = true → rawAdded env cfg cache (t ++ [c]) = true) :
    (suggestList env cfg cache t).length ≤ (suggestList env cfg cache (t ++ [c])).length := by
  have := list_length_same_word_pm1 env cfg cache t c hw he1 he2
  cases h1 : rawAdded env cfg cache t with
  | false => rw [h1] at this; simp at this; split at this <;> omega
  | true => rw [h1, hraw h1] at this; simp at this; omega

/-! ## 3. the key step -/

/-- the state right after a suggestion for the composition was built (by a key or a backspace): the stored list is the
    list of the composition over the stored memo, which has an entry for its word part -/
def Shown (env : Env) (cfg : Cfg) (s : PState) : Prop :=
  s.suggestions = suggestList env cfg s.cache s.buffer ∧ (alookup s.cache (word s.buffer)).isSome = true

/-- after the look-up the memo has an entry for the word -/
theorem alookup_memoFill (env : Env) (ua : Store) (cache : Memo) (w : Str) :
    (alookup (memoFill env ua cache w) w).isSome = true := by
  unfold memoFill
  cases h : alookup cache w with
  | some e => simp [h]
  | none => simp [alookup_ainsert]

/-- a memo that has an entry for the word is not touched by the look-up -/
theorem memoFill_of_isSome (env : Env) (ua : Store) (cache : Memo) (w : Str) (h : (alookup cache w).isSome = true) :
    memoFill env ua cache w = cache := by
  unfold memoFill
  cases h' : alookup cache w with
  | some e => rfl
  | none => rw [h'] at h; cases h

/-- `create_suggestion` (suggestions on) leaves such a state — from any state whatever (no invariant) -/
theorem shown_create (env : Env) (cfg : Cfg) (s : PState) (hon : cfg.phoneticSuggestion = true) :
    Shown env cfg (pCreateSuggestion env cfg s).1 := by
  refine ⟨?_, ?_⟩
  · rw [pCreateSuggestion_buffer, pCreate_cache_on env cfg s hon, pCreate_on env cfg s hon]
    show (suggest env cfg s s.buffer).1.suggestions = _
    rw [← preparedParts_word env cfg s.buffer, ← suggest_list]
    simp [suggest]
  · rw [pCreateSuggestion_buffer, pCreate_cache_on env cfg s hon]
    exact alookup_memoFill _ _ _ _

/-- the list returned for a key that leaves the word part unchanged is the list of the longer text over the SAME memo -/
theorem key_list_same_memo (env : Env) (cfg : Cfg) (s : PState) (c : Char) (hon : cfg.phoneticSuggestion = true)
    (hs : Shown env cfg s) (hw : (split (s.buffer ++ [c]) false).word = (split s.buffer false).word) :
    (pCreateSuggestion env cfg { s with buffer := s.buffer ++ [c] }).2 =
      .full (s.buffer ++ [c]) ((suggestList env cfg s.cache (s.buffer ++ [c])).map Rank.text)
        (suggest env cfg { s with buffer := s.buffer ++ [c] } (s.buffer ++ [c])).2.2 cfg.ansi := by
  have hw' : word (s.buffer ++ [c]) = word s.buffer := hw
  rw [pCreate_on env cfg _ hon]
  simp only [suggest_list, preparedParts_word, hw', memoFill_of_isSome env _ s.cache _ hs.2]

/-- **the caller's byte stays inside the list** — PARTIAL.  Suggestions on; `s` is a state in which the list of the
    composition was just shown (`Shown`: any state left by `create_suggestion`, `shown_create`); the key types a character
    that leaves the word part unchanged; neither the old nor the new text is an emoticon of the table; the caller's byte
    `sel` is inside the list shown.  Then the suggestion returned for the key is well-formed (`C02.WF`: list non-empty,
    preselected index — the caller's byte for an override key — inside the list, auxiliary text = composition).
    Excluded (`hraw`): the key makes the raw-text candidate of the English option disappear
    (`override_same_word_out_of_range`; vacuous when that option is off: `override_in_range_same_word_no_english`). -/
theorem override_in_range_same_word_partial (env : Env) (cfg : Cfg) (s : PState) (key sel : Nat) (c : Char)
    (hon : cfg.phoneticSuggestion = true) (hs : Shown env cfg s) (hk : keycodeToChar key = some c)
    (hw : (split (s.buffer ++ [c]) false).word = (split s.buffer false).word)
    (he1 : env.emoticon s.buffer = none) (he2 : env.emoticon (s.buffer ++ [c]) = none)
    (hraw : rawAdded env cfg s.cache s.buffer = true → rawAdded env cfg s.cache (s.buffer ++ [c]) = true)
    (hsel : sel < s.suggestions.length) :
    C02.WF (s.buffer ++ [c]) (pKey env cfg s key sel).2 := by
  have hwf := C02.phonetic_key_wf_partial env cfg s key sel (by
    intro ch hch _ aux l e a hfull
    rw [hk] at hch
    injection hch with hch
    subst hch
    rw [key_list_same_memo env cfg s c hon hs hw] at hfull
    injection hfull with _ hl _ _
    rw [← hl, List.length_map]
    have := list_length_le_same_word env cfg s.cache s.buffer c hw he1 he2 hraw
    rw [← hs.1] at this
    omega)
  have hb : (pKey env cfg s key sel).1.buffer = s.buffer ++ [c] := by
    rw [pKey_fst, hk]; exact pCreateSuggestion_buffer env cfg _
  rwa [hb] at hwf

/-- … and the preselected index of that suggestion is the caller's byte when the key is an override key -/
theorem override_index (env : Env) (cfg : Cfg) (s : PState) (key sel : Nat) (c : Char)
    (hon : cfg.phoneticSuggestion = true) (hk : keycodeToChar key = some c) (ho : isPunctOverride c = true) :
    ∃ aux l a, (pKey env cfg s key sel).2 = .full aux l sel a := by
  unfold pKey
  simp only [hk, pCreate_on env cfg _ hon, ho, if_true]
  exact ⟨_, _, _, rfl⟩

/-- the list returned for such a key has exactly as many candidates as the list shown before it — PARTIAL: the raw
    typed text is appended for both texts or for neither (`list_length_same_word_iff`: exactly what is needed) -/
theorem key_list_length_same_word_partial (env : Env) (cfg : Cfg) (s : PState) (key sel : Nat) (c : Char)
    (hon : cfg.phoneticSuggestion = true) (hs : Shown env cfg s) (hk : keycodeToChar key = some c)
    (hw : (split (s.buffer ++ [c]) false).word = (split s.buffer false).word)
    (he1 : env.emoticon s.buffer = none) (he2 : env.emoticon (s.buffer ++ [c]) = none)
    (hraw : rawAdded env cfg s.cache (s.buffer ++ [c]) = rawAdded env cfg s.cache s.buffer) :
    ∃ aux l e a, (pKey env cfg s key sel).2 = .full aux l e a ∧ l.length = s.suggestions.length := by
  have h := key_list_same_memo env cfg s c hon hs hw
  unfold pKey
  simp only [hk]
  rw [show pCreateSuggestion env cfg { s with buffer := s.buffer ++ [c] } =
    ((pCreateSuggestion env cfg { s with buffer := s.buffer ++ [c] }).1,
      .full (s.buffer ++ [c]) ((suggestList env cfg s.cache (s.buffer ++ [c])).map Rank.text)
        (suggest env cfg { s with buffer := s.buffer ++ [c] } (s.buffer ++ [c])).2.2 cfg.ansi) from Prod.ext rfl h]
  refine ⟨_, _, _, _, rfl, ?_⟩
  rw [List.length_map, hs.1]
  exact list_length_same_word_partial env cfg s.cache s.buffer c hw he1 he2 hraw

/-- the key step at full strength when the English option is off -/
theorem override_in_range_same_word_no_english (env : Env) (cfg : Cfg) (s : PState) (key sel : Nat) (c : Char)
    (hon : cfg.phoneticSuggestion = true) (hs : Shown env cfg s) (hk : keycodeToChar key = some c)
    (hw : (split (s.buffer ++ [c]) false).word = (split s.buffer false).word)
    (he1 : env.emoticon s.buffer = none) (he2 : env.emoticon (s.buffer ++ [c]) = none)
    (heng : cfg.english = false) (hsel : sel < s.suggestions.length) :
    C02.WF (s.buffer ++ [c]) (pKey env cfg s key sel).2 :=
  override_in_range_same_word_partial env cfg s key sel c hon hs hk hw he1 he2
    (by intro h; rw [rawAdded_no_english _ _ _ _ heng] at h; cases h) hsel

/-- **the known finding is confined to the colon and the emoticons**: for an override key other than the colon the
    hypothesis on the word part holds by itself (same PARTIAL proviso on the raw-text item) -/
theorem override_in_range_unless_colon_partial (env : Env) (cfg : Cfg) (s : PState) (key sel : Nat) (c : Char)
    (hon : cfg.phoneticSuggestion = true) (hs : Shown env cfg s) (hk : keycodeToChar key = some c)
    (ho : isPunctOverride c = true) (hcolon : c ≠ ':')
    (he1 : env.emoticon s.buffer = none) (he2 : env.emoticon (s.buffer ++ [c]) = none)
    (hraw : rawAdded env cfg s.cache s.buffer = true → rawAdded env cfg s.cache (s.buffer ++ [c]) = true)
    (hsel : sel < s.suggestions.length) :
    C02.WF (s.buffer ++ [c]) (pKey env cfg s key sel).2 :=
  override_in_range_same_word_partial env cfg s key sel c hon hs hk
    ((override_word_same_iff s.buffer c ho).mpr hcolon) he1 he2 hraw hsel

/-! ## 4. non-vacuity and the witnesses -/

/-- a toy transliterator: seven letters and the full stop (→ danda); everything else — the comma, the colon — unchanged -/
def tr (c : Char) : Char :=
  if c == 'a' then 'আ' else if c == 'm' then 'ম' else if c == 'i' then 'ই' else if c == 'c' then 'ক'
  else if c == 'o' then 'ু' else if c == 'l' then 'ল' else if c == '.' then '।' else c

/-- a tiny world: two dictionary words for `ami`, three for `cool`, one emoticon -/
def tinyEnv : Env :=
  { convert := fun s => s.map tr
    dictPhonetic := fun w =>
      if w == ['a', 'm', 'i'] then some [['আ', 'ম', 'ি'], ['আ', 'ম', 'ী']]
      else if w == ['c', 'o', 'o', 'l'] then some [['ক', 'ু', 'ল'], ['ক', 'ূ', 'ল'], ['ক', 'ো', 'ল']]
      else some []
    suffix := fun _ => none, autocorrect := fun _ => none
    emoticon := fun s => if s == [':', ')'] then some ['😃'] else none
    emojiByName := fun _ => none, emojiBengali := fun _ => none, bijoy := fun s => .ok s, fixedTable := fun _ => [] }

/-- suggestions on, English option off -/
def cfgOn : Cfg := { phoneticSuggestion := true }
/-- suggestions on, English option on -/
def cfgEng : Cfg := { phoneticSuggestion := true, includeEnglish := true }

/-- the state after typing the keys one by one into a brand-new context -/
def typeKeys (env : Env) (cfg : Cfg) (ks : List Nat) : PState := ks.foldl (fun s k => (pKey env cfg s k 0).1) {}

/-- the keys `a m i` -/
def kAmi : List Nat := [41110, 41122, 41118]
/-- the keys `c o o l` -/
def kCool : List Nat := [41112, 41124, 41124, 41121]

/-- a state reached by keys (suggestions on, at least one character key) is a `Shown` state -/
theorem shown_typeKeys (env : Env) (cfg : Cfg) (hon : cfg.phoneticSuggestion = true) (ks : List Nat) (k : Nat) (c : Char)
    (hk : keycodeToChar k = some c) : Shown env cfg (typeKeys env cfg (ks ++ [k])) := by
  simp only [typeKeys, List.foldl_append, List.foldl_cons, List.foldl_nil]
  rw [pKey_fst, hk]
  exact shown_create env cfg _ hon

/-- **`ami` + `.`** — every hypothesis of `override_in_range_same_word_partial` holds (three candidates shown, caller's
    byte 2, the full stop is an override key that leaves the word part `ami` alone, no emoticon, English off and on),
    and indeed the suggestion returned carries index 2 with three candidates -/
example :
    let s := typeKeys tinyEnv cfgOn kAmi
    Shown tinyEnv cfgOn s ∧ keycodeToChar 52 = some '.' ∧ isPunctOverride '.' = true ∧
    (split (s.buffer ++ ['.']) false).word = (split s.buffer false).word ∧ (split s.buffer false).word = ['a', 'm', 'i'] ∧
    tinyEnv.emoticon s.buffer = none ∧ tinyEnv.emoticon (s.buffer ++ ['.']) = none ∧
    (rawAdded tinyEnv cfgOn s.cache s.buffer = true → rawAdded tinyEnv cfgOn s.cache (s.buffer ++ ['.']) = true) ∧
    2 < s.suggestions.length ∧ s.suggestions.length = 3 ∧
    C02.shape (pKey tinyEnv cfgOn s 52 2).2 = some (2, 3) :=
  ⟨shown_typeKeys tinyEnv cfgOn rfl [41110, 41122] 41118 'i' (by decide), by decide, by decide, by decide, by decide,
    by decide, by decide, by decide, by decide, by decide, by decide⟩

/-- the same with the English option on: four candidates before and after (the raw text is appended both times) -/
example :
    let s := typeKeys tinyEnv cfgEng kAmi
    rawAdded tinyEnv cfgEng s.cache s.buffer = true ∧ rawAdded tinyEnv cfgEng s.cache (s.buffer ++ ['.']) = true ∧
    s.suggestions.length = 4 ∧ C02.shape (pKey tinyEnv cfgEng s 52 3).2 = some (3, 4) := by
  decide

/-- **`cool` + `:`** (the known finding F5 in the tiny world) — the colon joins the word part (`cool` ≠ `cool:`), so
    `hw` fails; the list shrinks from 4 to 1 and the caller's valid byte 3 is returned with a list of one -/
theorem cool_colon_out_of_range :
    let s := typeKeys tinyEnv cfgOn kCool
    keycodeToChar 99 = some ':' ∧ isPunctOverride ':' = true ∧
    (split (s.buffer ++ [':']) false).word ≠ (split s.buffer false).word ∧
    tinyEnv.emoticon s.buffer = none ∧ tinyEnv.emoticon (s.buffer ++ [':']) = none ∧
    3 < s.suggestions.length ∧ s.suggestions.length = 4 ∧
    C02.shape (pKey tinyEnv cfgOn s 99 3).2 = some (3, 1) := by
  decide

/-- **the length statement is false at full strength** (English option on): `,` is punctuation the transliterator
    leaves alone, so the raw text is not offered (1 candidate); after the full stop — word part still empty, no
    emoticon — the transliteration `,।` differs from the raw `,.`, which is now appended (2 candidates).  The real
    transliterator behaves like this toy one on these two characters.  The list GROWS here, harmless for the index. -/
theorem list_length_same_word_fails :
    (split ([','] ++ ['.']) false).word = (split [','] false).word ∧
    tinyEnv.emoticon [','] = none ∧ tinyEnv.emoticon ([','] ++ ['.']) = none ∧
    (suggestList tinyEnv cfgEng [] [',']).length = 1 ∧ (suggestList tinyEnv cfgEng [] ([','] ++ ['.'])).length = 2 ∧
    rawAdded tinyEnv cfgEng [] [','] = false ∧ rawAdded tinyEnv cfgEng [] ([','] ++ ['.']) = true := by
  decide

/-- a transliterator that is NOT compositional on punctuation: `.` ↦ `x`, everything else unchanged -/
def oddEnv : Env := { tinyEnv with convert := fun s => if s == ['.'] then ['x'] else s, dictPhonetic := fun _ => some [] }

/-- **the raw-text proviso of `override_in_range_same_word_partial` is needed for an abstract transliterator**:
    English on, `a.` shows `ax` and the raw `a.` (2 candidates); the second full stop leaves the word part `a` alone, no
    emoticon, but now the wrapped transliteration `a..` IS the raw text, which `push_checked` drops: 1 candidate, and
    the caller's valid byte 1 is out of range.  (Needs `convert ".." = ".."` and `convert "." ≠ "."`.) -/
theorem override_same_word_out_of_range :
    let s := typeKeys oddEnv cfgEng [41110, 52]
    keycodeToChar 52 = some '.' ∧ isPunctOverride '.' = true ∧
    (split (s.buffer ++ ['.']) false).word = (split s.buffer false).word ∧
    oddEnv.emoticon s.buffer = none ∧ oddEnv.emoticon (s.buffer ++ ['.']) = none ∧
    rawAdded oddEnv cfgEng s.cache s.buffer = true ∧ rawAdded oddEnv cfgEng s.cache (s.buffer ++ ['.']) = false ∧
    1 < s.suggestions.length ∧ C02.shape (pKey oddEnv cfgEng s 52 1).2 = some (1, 1) := by
  decide

/-- the escape character after `ami.` keeps the word part, after `ami` or `ami:` it does not (`word_same_iff`) -/
example :
    (split (['a', 'm', 'i', '.'] ++ ['`']) false).word = (split ['a', 'm', 'i', '.'] false).word ∧
    (split (['a', 'm', 'i'] ++ ['`']) false).word ≠ (split ['a', 'm', 'i'] false).word ∧
    (split (['a', 'm', 'i', ':'] ++ ['`']) false).word ≠ (split ['a', 'm', 'i', ':'] false).word := by
  decide

end Riti.C02Selection
