/-
Props/C03 — phonetic output is the Avro transliteration of exactly what was typed.
Stated for every `Env` (so for every transliteration function `convert`), then tied to the
concrete okkhor model by `convert_nil`.
-/
import RitiModel.Model.Context
import RitiModel.Model.Okkhor
import RitiModel.Lemmas.Split
import RitiModel.Lemmas.Rank
import RitiModel.Lemmas.Phonetic
import RitiModel.Spec.LayoutSpec
namespace Riti.C03
open Riti Riti.Gen

/-- a text of letters and digits is all word -/
theorem split_alnum (w : Str) (h : ∀ c ∈ w, isAlnum c = true) (ic : Bool) : split w ic = ⟨[], w, []⟩ := by
  cases w with
  | nil => simp [split]
  | cons c cs =>
    have hc : isMeta c = false := alnum_not_meta c (h c (by simp))
    have hlast : isAlnum ((c :: cs).reverse.head (by simp)) = true := by
      apply h; rw [List.head_reverse]; exact List.getLast_mem _
    have hrev : ∃ d ds, (c :: cs).reverse = d :: ds ∧ isAlnum d = true := by
      cases hr : (c :: cs).reverse with
      | nil => simp at hr
      | cons d ds => exact ⟨d, ds, rfl, by simpa [hr] using hlast⟩
    obtain ⟨d, ds, hr, hd⟩ := hrev
    simp only [split, List.takeWhile, List.dropWhile, hc, hr, trailLen_stop _ d ds 0 0 hd]
    simp

/-- leading punctuation, a non-empty word of letters and digits, trailing punctuation: the three
    parts are cut exactly there (punctuation = the 27 characters of the property) -/
theorem split_wrapped (lead w trail : Str) (hw : w ≠ [])
    (hwa : ∀ c ∈ w, isAlnum c = true) (hl : ∀ c ∈ lead, isPunct27 c = true) (ht : ∀ c ∈ trail, isPunct27 c = true) :
    split (lead ++ w ++ trail) false = ⟨lead, w, trail⟩ := by
  obtain ⟨x, xs, rfl⟩ := List.exists_cons_of_ne_nil hw
  have hx : isMeta x = false := alnum_not_meta x (hwa x (by simp))
  have hlm : ∀ c ∈ lead, isMeta c = true := fun c hc => punct27_meta c (hl c hc)
  have e1 : (lead ++ (x :: xs) ++ trail).takeWhile isMeta = lead := by
    rw [List.append_assoc, List.cons_append]; exact takeWhile_append_stop lead x _ hlm hx
  have e2 : (lead ++ (x :: xs) ++ trail).dropWhile isMeta = x :: (xs ++ trail) := by
    rw [List.append_assoc, List.cons_append]; exact dropWhile_append_stop lead x _ hlm hx
  -- the reversed rest: trail.reverse ++ (x :: xs).reverse, and the word part ends in a letter/digit
  have hrevw : ∃ d ds, (x :: xs).reverse = d :: ds ∧ isAlnum d = true := by
    cases hr : (x :: xs).reverse with
    | nil => simp at hr
    | cons d ds =>
      refine ⟨d, ds, rfl, ?_⟩
      apply hwa
      have : d ∈ (x :: xs).reverse := by rw [hr]; simp
      exact List.mem_reverse.mp this
  obtain ⟨d, ds, hr, hd⟩ := hrevw
  have hrev : (x :: (xs ++ trail)).reverse = trail.reverse ++ (d :: ds) := by
    rw [← hr, ← List.cons_append, List.reverse_append]
  have htl : trailLen false (x :: (xs ++ trail)).reverse false 0 0 = trail.length := by
    rw [hrev]
    by_cases hte : trail = []
    · subst hte; simp [trailLen_stop _ d ds 0 0 hd]
    · have hm : ∀ c ∈ trail.reverse, isMeta c = true ∧ (c == '`') = false := by
        intro c hc
        have hc' : c ∈ trail := by simpa using hc
        exact ⟨punct27_meta c (ht c hc'), punct27_ne_backtick c (ht c hc')⟩
      rw [trailLen_punct false trail.reverse (d :: ds) 0 0 hm (by simpa using hte)]
      simp [trailLen_stop _ d ds _ _ hd]
  simp only [split, e1, e2, htl]
  have hlen : (x :: (xs ++ trail)).length - trail.length = (x :: xs).length := by simp; omega
  rw [hlen, ← List.cons_append]
  simp

/-- suggestions off: the single string is convert(pre) ++ convert(word) ++ convert(trail) -/
theorem lonely_is_parts (env : Env) (t : Str) :
    suggestOnlyPhonetic env t =
      env.convert (split t false).pre ++ env.convert (split t false).word ++ env.convert (split t false).trail := rfl

/-- clause 1 of the statement: letters and digits only -/
theorem c03_word (env : Env) (hnil : env.convert [] = []) (w : Str) (h : ∀ c ∈ w, isAlnum c = true) :
    suggestOnlyPhonetic env w = env.convert w := by
  rw [lonely_is_parts, split_alnum w h]; simp [hnil]

/-- clause 2: wrapped in punctuation -/
theorem c03_wrapped (env : Env) (lead w trail : Str) (hw : w ≠ [])
    (hwa : ∀ c ∈ w, isAlnum c = true) (hl : ∀ c ∈ lead, isPunct27 c = true) (ht : ∀ c ∈ trail, isPunct27 c = true) :
    suggestOnlyPhonetic env (lead ++ w ++ trail) = env.convert lead ++ env.convert w ++ env.convert trail := by
  rw [lonely_is_parts, split_wrapped lead w trail hw hwa hl ht]

/-- what the engine returns with suggestions off is `suggestOnlyPhonetic` of the buffer -/
theorem lonely_returned (env : Env) (cfg : Cfg) (s : PState) (h : cfg.phoneticSuggestion = false) :
    (pCreateSuggestion env cfg s).2 = .single (suggestOnlyPhonetic env s.buffer) cfg.ansi := by
  simp [pCreateSuggestion, h]

/-- clause 3: with suggestions on, the transliteration (modulo curling of the wrapping quotes) is
    always a candidate — for **every** typed text, configuration and memo state. -/
theorem translit_is_candidate (env : Env) (cfg : Cfg) (cache : Memo) (term : Str) :
    let s := split term false
    let curl := cfg.smartQuote && !s.word.isEmpty
    let p' := if curl then (env.convert s.pre).map openQuote else env.convert s.pre
    let r' := if curl then (env.convert s.trail).map closeQuote else env.convert s.trail
    (p' ++ env.convert s.word ++ r') ∈ (suggestList env cfg cache term).map Rank.text := by
  intro s curl p' r'
  -- the prepared parts
  have hparts : preparedParts env cfg term = ⟨p', s.word, r'⟩ := by
    simp only [preparedParts, smartQuoter, p', r', curl, s]
    cases hq : cfg.smartQuote <;> cases hw : (split term false).word.isEmpty <;> simp [hq, hw]
  -- the transliteration item survives push_checked, wrapping, the extra items and the sort
  obtain ⟨x, hx, hxt0⟩ := exists_text_pushChecked
    ((addSuffix env cache s.word).foldl pushChecked []) (.last (env.convert s.word) 2)
  have hxt : x.text = env.convert s.word := hxt0
  have hdict : ∃ y ∈ dictList env cache ⟨p', s.word, r'⟩, y.text = p' ++ env.convert s.word ++ r' := by
    simp only [dictList, wrapAll]
    split
    · exact ⟨x.setText (wrapText p' r' x.text), List.mem_map.mpr ⟨x, hx, rfl⟩, by simp [wrapText, hxt]⟩
    · rename_i hne
      simp at hne
      refine ⟨x, hx, ?_⟩
      simp [hxt, hne.1, hne.2]
  obtain ⟨y, hy, hyt⟩ := hdict
  have hextra : y ∈ addExtras env cfg term ⟨p', s.word, r'⟩ (dictList env cache ⟨p', s.word, r'⟩) :=
    mem_addExtras_of_mem hy
  apply List.mem_map.mpr
  refine ⟨y, ?_, hyt⟩
  simp only [suggestList, hparts]
  exact mem_sortStable.mpr hextra

/-- the list returned for a key is `suggestList` over the filled memo -/
theorem returned_list (env : Env) (cfg : Cfg) (st : PState) (term : Str) :
    (suggest env cfg st term).2.1 =
      suggestList env cfg (memoFill env st.userAutocorrect st.cache (preparedParts env cfg term).word) term := rfl

/-- every one of the 94 printable ASCII characters can be typed (regenerated key table) -/
theorem typeable : (List.range' 33 94).all (fun c => keyChar.any (fun p => p.2 == c)) = true := by decide

/-- the regenerated `keycode_to_char` table is the table transcribed from riti.h -/
theorem key_table_is_spec : Gen.keyChar = Spec.keyChars := by decide

/-- the okkhor model converts the empty text to the empty text -/
theorem convert_nil : okConvert [] = [] := rfl

/-- no pattern has an empty `find` (so the parser loop consumes input on every iteration) -/
theorem patterns_nonempty : okkhorPatterns.all (fun p => p.find.length > 0) = true := by decide +kernel

/-- non-vacuity: a concrete wrapped word meets the premises of `split_wrapped` -/
example : split "(\"ami\"!".toList false = ⟨"(\"".toList, "ami".toList, "\"!".toList⟩ := by decide

end Riti.C03
