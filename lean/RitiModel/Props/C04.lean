/-
Props/C04 — a fixed-layout key emits exactly the text the layout file assigns to it.
Property theorems only (helper lemmas live in Lemmas/).
-/
import RitiModel.Model.Context
import RitiModel.Spec.LayoutSpec
namespace Riti.C04
open Riti Riti.Gen

/-- the regenerated `get_char_for_key` rows are the table transcribed from riti.h -/
theorem layout_table_is_spec : Gen.layoutRows = Spec.layoutRows := by decide

/-- the numbers front-ends compile against (riti.h) are the numbers the library matches on -/
theorem header_eq_rust : Gen.vcHeader = Gen.vcRust ∧ Gen.vcNamesAgree = true := by decide

/-- Shift never selects the plane; AltGr alone does -/
theorem plane_ignores_shift (s a : Bool) : planeOf s a = if a then .altGr else .normal := by
  cases s <;> cases a <;> rfl

/-- AltGr is bit 1 of the modifier byte; every other bit (Shift, stray high bits) is irrelevant -/
theorem altgr_is_bit1 (m : Nat) : (getModifiers m).2 = ((m / 2) % 2 == 1) := by
  simp [getModifiers, modAltGrBit]

/-- `get_char_for_key` for **every** key code (not only 0…65535), every modifier byte and both
    number-pad settings, in terms of the specification table. -/
theorem get_char_spec (layout : Layout) (key m : Nat) (numpad : Bool) :
    getCharForKey layout key (getModifiers m) numpad =
      match lookupRow Spec.layoutRows key with
      | none => none
      | some (n, false) =>
          nonEmpty (layout ("Key_" ++ n.str ++ "_" ++ (if (m / 2) % 2 == 1 then "AltGr" else "Normal")))
      | some (n, true) => if numpad then nonEmpty (layout n.str) else none := by
  unfold getCharForKey
  rw [layout_table_is_spec]
  cases h : lookupRow Spec.layoutRows key with
  | none => rfl
  | some r =>
    obtain ⟨n, b⟩ := r
    cases b with
    | true => rfl
    | false =>
      simp only [layoutEntryName, plane_ignores_shift, altgr_is_bit1]
      by_cases hb : (m / 2 % 2 == 1) = true <;> simp [hb, Plane.str]

/-- a key code outside the table changes nothing -/
theorem unknown_key_inert (layout : Layout) (key : Nat) (mods : Bool × Bool) (numpad : Bool)
    (h : lookupRow Spec.layoutRows key = none) : getCharForKey layout key mods numpad = none := by
  unfold getCharForKey; rw [layout_table_is_spec, h]

/-- an empty assignment is no assignment -/
theorem empty_entry_inert (v : Option (List Char)) : nonEmpty v = none ↔ (v = none ∨ v = some []) := by
  cases v with
  | none => simp [nonEmpty]
  | some l => cases l <;> simp [nonEmpty]

/-- all composition helpers off -/
def helpersOff (cfg : Cfg) : Prop :=
  cfg.fixedVowel = false ∧ cfg.fixedChandra = false ∧ cfg.fixedKar = false ∧ cfg.fixedOldReph = false ∧ cfg.fixedKarOrder = false

/-- From an idle context with the helpers off, a key value `v` becomes the whole composition —
    PARTIAL: proved for values that are a single code point or do not start with a vowel sign.
    (Full statement `∀ v` is false of the code: see `idle_value_cut`.) -/
theorem idle_key_appends_partial (cfg : Cfg) (h : helpersOff cfg) (s : FState)
    (hidle : s.rbuf = [] ∧ s.pending = none) (v : Str)
    (hv : v.length ≤ 1 ∨ ∀ c, v.head? = some c → isKar c = false) :
    (processKeyValue cfg s v).buffer = v ∧ (processKeyValue cfg s v).pending = none := by
  obtain ⟨hb, hp⟩ := hidle
  obtain ⟨h1, h2, h3, h4, h5⟩ := h
  cases v with
  | nil => simp [processKeyValue, pkvBody, FState.buffer, hb, hp, h4, h5, zoFola, rephValue, pushStr]
  | cons c rest =>
    by_cases hk : isKar c = true
    · -- single vowel sign
      have hrest : rest = [] := by
        cases hv with
        | inl hl => cases rest with
          | nil => rfl
          | cons _ _ => simp at hl
        | inr hh => have := hh c rfl; simp [hk] at this
      subst hrest
      have hz : ([c] == zoFola) = false := by simp [zoFola, BEq.beq, List.beq]
      have e2 : ('\x00' == cHasanta) = false := by decide
      simp [processKeyValue, pkvBody, FState.buffer, hb, hp, h1, h2, h3, h4, h5, hz, hk, karTail,
        autoVowelPos, e2]
    · have hk' : isKar c = false := by simpa using hk
      have e1 : ('\x00' == cR) = false := by decide
      have e2 : ('\x00' == cHasanta) = false := by decide
      have e3 : isLeftStandingKar '\x00' = false := by decide
      have e4 : ('\x00' == cEKar) = false := by decide
      by_cases hz : (c :: rest == zoFola) = true
      · simp [processKeyValue, pkvBody, FState.buffer, hb, hp, h5, hz, e1, pushStr]
      · have hz' : (c :: rest == zoFola) = false := by simpa using hz
        simp [processKeyValue, pkvBody, FState.buffer, hb, hp, h4, h5, hz', hk', e2, e3, e4, pushStr]

/-- the full statement fails: a layout value of two code points that starts with a vowel sign
    (`াং`) is cut to its first code point (finding F15) -/
theorem idle_value_cut :
    (processKeyValue {} ({} : FState) [cAAKar, cAnushar]).buffer = [cAAKar] := by decide

/-- non-vacuity: the premises of `idle_key_appends_partial` are met by a reph value on a fresh state -/
example : (processKeyValue {} ({} : FState) rephValue).buffer = rephValue := by decide

end Riti.C04
