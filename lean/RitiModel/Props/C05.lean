/-
Props/C05 — in phonetic mode the suggestion shown for the current composition depends only on the
characters that survive in it, the configuration, the data files, the user auto-correct list and
the learned selections — not on the typing history, and not on what the context composed before
(warm memo, derived selection entries).

The proof is a refinement to a memo-free specification (`suggestionPure`); the theory is in
`Lemmas/Transparency.lean` (memo: `SoundMemo`/`PrefixComplete`; store: `StoreSound`/`StoreComplete`
relative to the store `S₀` as loaded or as of the last learning commit) and `Lemmas/SplitWord.lean`.
-/
import RitiModel.Model.Context
import RitiModel.Lemmas.Transparency
namespace Riti.C05
open Riti Riti.Gen

/-! ### the memo-free specification of what is shown -/

/-- the specification of `create_suggestion` with suggestions on: candidate texts and order from the
    memo-free list, preselected index = position of the wrapped effective learned value.
    A function of data (`env`), configuration, user auto-correct list, store `S₀` and text only. -/
def suggestionPure (env : Env) (cfg : Cfg) (ua S₀ : Store) (b : Str) : Sugg :=
  let parts := preparedParts env cfg b
  let l := suggestListPure env ua cfg b
  let target := wrapText parts.pre parts.trail ((effSel env S₀ parts.word).getD [])
  .full b (l.map Rank.text) ((l.findIdx? (fun r => r.text == target)).getD 0) cfg.ansi

/-- replace the preselected index (the punctuation keys that keep the caller's selection) -/
def withIndex : Sugg → Nat → Sugg
  | .full a l _ an, i => .full a l i an
  | x, _ => x

/-- candidate texts of a suggestion, in order -/
def candTexts : Sugg → List Str
  | .full _ l _ _ => l
  | .single s _ => [s]

/-- specification of the suggestion returned by a key press on composition `b` (suggestions on) -/
def keySpec (env : Env) (cfg : Cfg) (ua S₀ : Store) (b : Str) (key sel : Nat) : Sugg :=
  match keycodeToChar key with
  | none => if b.isEmpty then Sugg.empty else suggestionPure env cfg ua S₀ b
  | some ch =>
    if isPunctOverride ch then withIndex (suggestionPure env cfg ua S₀ (b ++ [ch])) sel
    else suggestionPure env cfg ua S₀ (b ++ [ch])

/-- specification of the suggestion returned by backspace on composition `b` (suggestions on) -/
def backspaceSpec (env : Env) (cfg : Cfg) (ua S₀ : Store) (b : Str) (ctrl : Bool) : Sugg :=
  if b.isEmpty || ctrl || b.dropLast.isEmpty then Sugg.empty else suggestionPure env cfg ua S₀ b.dropLast

/-! ### `create_suggestion` refines the specification -/

/-- the preselected index computed by `suggest` -/
theorem suggest_index (env : Env) (cfg : Cfg) (s : PState) (t : Str) :
    (suggest env cfg s t).2.2 =
      ((suggest env cfg s t).2.1.findIdx? (fun r => r.text ==
        wrapText (preparedParts env cfg t).pre (preparedParts env cfg t).trail
          (selectedFor env s.selections (word t)).1)).getD 0 := by
  simp [suggest, getPrevSelection, preparedParts_word]

/-- MEMO TRANSPARENCY at state level: the ranked list stored and shown by `create_suggestion` is the
    memo-free list of the composition -/
theorem create_list_pure (env : Env) (cfg : Cfg) (s : PState) (h : PreInv env s) :
    (suggest env cfg s s.buffer).2.1 = suggestListPure env s.userAutocorrect cfg s.buffer := by
  rw [suggest_list]; exact memo_transparent env _ cfg _ _ h.1 h.2

/-- FULL REFINEMENT: with suggestions on, what `create_suggestion` returns — candidate texts, order
    and preselected index — is `suggestionPure` of the composition -/
theorem create_is_pure (env : Env) (cfg : Cfg) (S₀ : Store) (s : PState) (hon : cfg.phoneticSuggestion = true)
    (h : PreInv env s) (hs : PreSelInv env S₀ s) :
    (pCreateSuggestion env cfg s).2 = suggestionPure env cfg s.userAutocorrect S₀ s.buffer := by
  rw [pCreate_on env cfg s hon]
  simp only [suggestionPure]
  rw [suggest_index, create_list_pure env cfg s h, (selectedFor_spec env S₀ _ _ hs.1 hs.2).1,
    preparedParts_word]

/-- candidate texts and order alone need no assumption on the selection store -/
theorem create_texts_pure (env : Env) (cfg : Cfg) (s : PState) (hon : cfg.phoneticSuggestion = true)
    (h : PreInv env s) :
    ∃ sel, (pCreateSuggestion env cfg s).2 =
      .full s.buffer ((suggestListPure env s.userAutocorrect cfg s.buffer).map Rank.text) sel cfg.ansi := by
  rw [pCreate_on env cfg s hon, create_list_pure env cfg s h]
  exact ⟨_, rfl⟩

/-- with suggestions off the single string shown is a function of the composition alone -/
theorem create_off_pure (env : Env) (cfg : Cfg) (s : PState) (hoff : cfg.phoneticSuggestion = false) :
    (pCreateSuggestion env cfg s).2 = .single (suggestOnlyPhonetic env s.buffer) cfg.ansi := by
  rw [pCreate_off env cfg s hoff]

/-! ### history independence -/

/-- C05 (candidate list): two phonetic states with sound memos that have seen the shorter prefixes
    (every reachable state, see `reach_inv`), holding the same composition under the same user
    auto-correct list, show the same candidate texts in the same order — whatever else their memos
    and selection stores contain -/
theorem c05_history_independent (env : Env) (cfg : Cfg) (s₁ s₂ : PState)
    (hon : cfg.phoneticSuggestion = true) (h₁ : PreInv env s₁) (h₂ : PreInv env s₂)
    (hb : s₁.buffer = s₂.buffer) (hu : s₁.userAutocorrect = s₂.userAutocorrect) :
    candTexts (pCreateSuggestion env cfg s₁).2 = candTexts (pCreateSuggestion env cfg s₂).2 ∧
    (pCreateSuggestion env cfg s₁).1.suggestions = (pCreateSuggestion env cfg s₂).1.suggestions := by
  obtain ⟨i₁, e₁⟩ := create_texts_pure env cfg s₁ hon h₁
  obtain ⟨i₂, e₂⟩ := create_texts_pure env cfg s₂ hon h₂
  refine ⟨by rw [e₁, e₂, hb, hu]; rfl, ?_⟩
  rw [pCreate_on env cfg s₁ hon, pCreate_on env cfg s₂ hon]
  have l₁ := create_list_pure env cfg s₁ h₁
  have l₂ := create_list_pure env cfg s₂ h₂
  simp only [suggest] at l₁ l₂ ⊢
  rw [l₁, l₂, hb, hu]

/-- C05 (whole suggestion, preselected index included): if moreover both selection stores extend
    the same loaded/learned store `S₀` by derived entries only (every reachable state without a
    learning commit in between, see `reach_inv`), the two suggestions are EQUAL -/
theorem c05_selection_independent (env : Env) (cfg : Cfg) (S₀ : Store) (s₁ s₂ : PState)
    (hon : cfg.phoneticSuggestion = true) (h₁ : PreInv env s₁) (h₂ : PreInv env s₂)
    (hs₁ : PreSelInv env S₀ s₁) (hs₂ : PreSelInv env S₀ s₂)
    (hb : s₁.buffer = s₂.buffer) (hu : s₁.userAutocorrect = s₂.userAutocorrect) :
    (pCreateSuggestion env cfg s₁).2 = (pCreateSuggestion env cfg s₂).2 := by
  rw [create_is_pure env cfg S₀ s₁ hon h₁ hs₁, create_is_pure env cfg S₀ s₂ hon h₂ hs₂, hb, hu]

/-- suggestions off: the same composition shows the same string, no assumption at all -/
theorem c05_off_history_independent (env : Env) (cfg : Cfg) (s₁ s₂ : PState)
    (hoff : cfg.phoneticSuggestion = false) (hb : s₁.buffer = s₂.buffer) :
    (pCreateSuggestion env cfg s₁).2 = (pCreateSuggestion env cfg s₂).2 := by
  rw [create_off_pure env cfg s₁ hoff, create_off_pure env cfg s₂ hoff, hb]

/-! ### the API events refine their specifications -/

/-- a key press (suggestions on) returns `keySpec` of the composition before the key: a function
    of the surviving characters, the key and the caller's selection byte -/
theorem key_is_pure (env : Env) (cfg : Cfg) (S₀ : Store) (s : PState) (key sel : Nat)
    (hon : cfg.phoneticSuggestion = true) (h : Inv env true s) (hs : SelInv env S₀ true s) :
    (pKey env cfg s key sel).2 = keySpec env cfg s.userAutocorrect S₀ s.buffer key sel := by
  unfold pKey keySpec
  cases keycodeToChar key with
  | none =>
    simp only
    split
    · rfl
    · exact create_is_pure env cfg S₀ s hon h.pre hs.pre
  | some ch =>
    simp only
    have hp : PreInv env { s with buffer := s.buffer ++ [ch] } :=
      ⟨h.1, by simpa only [List.dropLast_concat] using h.2 rfl⟩
    have hsp : PreSelInv env S₀ { s with buffer := s.buffer ++ [ch] } :=
      ⟨hs.1, by simpa only [List.dropLast_concat] using hs.2 rfl⟩
    have := create_is_pure env cfg S₀ _ hon hp hsp
    rw [show pCreateSuggestion env cfg { s with buffer := s.buffer ++ [ch] } =
      ((pCreateSuggestion env cfg { s with buffer := s.buffer ++ [ch] }).1,
       suggestionPure env cfg s.userAutocorrect S₀ (s.buffer ++ [ch])) from by rw [← this]]
    simp only [suggestionPure, withIndex]
    split <;> rfl

/-- backspace (suggestions on) returns `backspaceSpec` of the composition before it -/
theorem backspace_is_pure (env : Env) (cfg : Cfg) (S₀ : Store) (s : PState) (ctrl : Bool)
    (hon : cfg.phoneticSuggestion = true) (h : Inv env true s) (hs : SelInv env S₀ true s) :
    (pBackspace env cfg s ctrl).2 = backspaceSpec env cfg s.userAutocorrect S₀ s.buffer ctrl := by
  unfold pBackspace backspaceSpec
  by_cases he : s.buffer.isEmpty = true
  · simp [he]
  · cases ctrl with
    | true => simp [he]
    | false =>
      by_cases hd : s.buffer.dropLast.isEmpty = true
      · simp [he, hd]
      · have hp : PreInv env { s with buffer := s.buffer.dropLast } :=
          ⟨h.1, ((h.2 rfl).mono (List.dropLast_prefix _)).mono (List.dropLast_prefix _)⟩
        have hsp : PreSelInv env S₀ { s with buffer := s.buffer.dropLast } :=
          ⟨hs.1, ((hs.2 rfl).mono (List.dropLast_prefix _)).mono (List.dropLast_prefix _)⟩
        have := create_is_pure env cfg S₀ _ hon hp hsp
        simp only [he, hd, Bool.false_eq_true, Bool.not_false, ↓reduceIte, Bool.or_self]
        exact this

/-! ### every reachable state satisfies the invariants -/

/-- phonetic states reachable through the API.  Indices: the configuration in force and the
    selection store as loaded / as of the last learning commit.  `update_engine` (which may change
    the options and reload the user auto-correct list) is only taken while idle. -/
inductive Reach (env : Env) : Cfg → Store → PState → Prop
  | new (cfg : Cfg) (fs : FS) : Reach env cfg (fs.sel.content) (pNew fs)
  | key {cfg S₀ s} (key sel : Nat) : Reach env cfg S₀ s → Reach env cfg S₀ (pKey env cfg s key sel).1
  | backspace {cfg S₀ s} (ctrl : Bool) : Reach env cfg S₀ s → Reach env cfg S₀ (pBackspace env cfg s ctrl).1
  | commitKeep {cfg S₀ s s'} (i : Nat) : Reach env cfg S₀ s → pCommit cfg s i = .ok (s', none) → Reach env cfg S₀ s'
  | commitLearn {cfg S₀ s s'} (i : Nat) (st : Store) :
      Reach env cfg S₀ s → pCommit cfg s i = .ok (s', some st) → Reach env cfg s'.selections s'
  | finish {cfg S₀ s} : Reach env cfg S₀ s → Reach env cfg S₀ (pFinish s)
  | update {cfg S₀ s} (cfg' : Cfg) (fs : FS) : Reach env cfg S₀ s → s.buffer = [] → Reach env cfg' S₀ (pUpdate fs s)

/-- INVARIANT: every reachable phonetic state has a sound, prefix-complete memo and a selection
    store that extends `S₀` by effective (derived) values only, complete for the prefixes -/
theorem reach_inv (env : Env) (cfg : Cfg) (S₀ : Store) (s : PState) (r : Reach env cfg S₀ s) :
    Inv env cfg.phoneticSuggestion s ∧ SelInv env S₀ cfg.phoneticSuggestion s := by
  induction r with
  | new cfg fs => exact ⟨inv_pNew env _ fs, selInv_pNew env _ fs⟩
  | @key cfg S₀ s key sel _ ih =>
    cases hon : cfg.phoneticSuggestion with
    | true =>
      rw [hon] at ih
      exact ⟨pKey_inv_on env cfg s key sel hon ih.1, pKey_selInv_on env cfg S₀ s key sel hon ih.2⟩
    | false =>
      rw [hon] at ih
      exact ⟨pKey_inv_off env cfg s key sel hon ih.1, pKey_selInv_off env cfg S₀ s key sel hon ih.2⟩
  | @backspace cfg S₀ s ctrl _ ih =>
    cases hon : cfg.phoneticSuggestion with
    | true =>
      rw [hon] at ih
      exact ⟨pBackspace_inv_on env cfg s ctrl hon ih.1, pBackspace_selInv_on env cfg S₀ s ctrl hon ih.2⟩
    | false =>
      rw [hon] at ih
      exact ⟨pBackspace_inv_off env cfg s ctrl hon ih.1, pBackspace_selInv_off env cfg S₀ s ctrl hon ih.2⟩
  | @commitKeep cfg S₀ s s' i _ hc ih =>
    exact ⟨(pCommit_inv env cfg _ _ s s' i none ih.1 hc).1, pCommit_selInv_keep env cfg S₀ _ _ s s' i ih.2 hc⟩
  | @commitLearn cfg S₀ s s' i st _ hc ih =>
    exact ⟨(pCommit_inv env cfg _ _ s s' i (some st) ih.1 hc).1, pCommit_selInv env cfg _ s s' i (some st) hc⟩
  | @finish cfg S₀ s _ ih => exact ⟨(pFinish_inv env _ _ s ih.1).1, pFinish_selInv env S₀ _ _ s ih.2⟩
  | @update cfg S₀ s cfg' fs _ hb ih =>
    exact ⟨(pUpdate_inv env _ _ fs s ih.1 hb).1, pUpdate_selInv env S₀ _ _ fs s ih.2 hb⟩

/-- C05 for reachable contexts: two contexts — brand-new or warm, whatever they composed before —
    that hold the same composition under the same options, user auto-correct list and
    loaded/learned store answer the next key press and the next backspace with EQUAL suggestions
    (texts, order, preselected index).  Since the suggestion currently shown is the answer to the
    last such event (`key_is_pure`, `backspace_is_pure`), it is a function of the surviving text. -/
theorem c05_reachable_independent (env : Env) (cfg : Cfg) (S₀ : Store) (s₁ s₂ : PState)
    (r₁ : Reach env cfg S₀ s₁) (r₂ : Reach env cfg S₀ s₂)
    (hb : s₁.buffer = s₂.buffer) (hu : s₁.userAutocorrect = s₂.userAutocorrect) :
    (∀ key sel, (pKey env cfg s₁ key sel).2 = (pKey env cfg s₂ key sel).2) ∧
    (∀ ctrl, (pBackspace env cfg s₁ ctrl).2 = (pBackspace env cfg s₂ ctrl).2) := by
  have i₁ := reach_inv env cfg S₀ s₁ r₁
  have i₂ := reach_inv env cfg S₀ s₂ r₂
  cases hon : cfg.phoneticSuggestion with
  | true =>
    rw [hon] at i₁ i₂
    refine ⟨fun key sel => ?_, fun ctrl => ?_⟩
    · rw [key_is_pure env cfg S₀ s₁ key sel hon i₁.1 i₁.2, key_is_pure env cfg S₀ s₂ key sel hon i₂.1 i₂.2, hb, hu]
    · rw [backspace_is_pure env cfg S₀ s₁ ctrl hon i₁.1 i₁.2, backspace_is_pure env cfg S₀ s₂ ctrl hon i₂.1 i₂.2, hb, hu]
  | false =>
    refine ⟨fun key sel => ?_, fun ctrl => ?_⟩
    · unfold pKey
      rw [hb]
      cases keycodeToChar key with
      | none =>
        simp only
        split
        · rfl
        · exact c05_off_history_independent env cfg s₁ s₂ hon hb
      | some ch =>
        simp only [pCreate_off env cfg _ hon]
    · unfold pBackspace
      rw [hb]
      split
      · split
        · rfl
        · simp only [pCreate_off env cfg _ hon]
          split <;> rfl
      · rfl

/-- `Reach` is closed under the API (`step`): from a reachable phonetic state every event — an
    `update` only while idle — leads, if the context is still phonetic, to a reachable state
    (for the new options and the store as of the last learning commit) -/
theorem step_reach (w : World) (c c' : Ctx) (fs fs' : FS) (e : Event) (o : Out) (S₀ : Store) (s s' : PState)
    (hm : c.m = .phonetic s) (r : Reach w.env c.cfg S₀ s)
    (hidle : ∀ cfg lp, e = .update cfg lp → s.buffer = [])
    (hst : step w c fs e = .ok (c', fs', o)) (hm' : c'.m = .phonetic s') :
    ∃ S₀', Reach w.env c'.cfg S₀' s' := by
  cases e with
  | key code modifier selection =>
    simp only [step, hm, Except.ok.injEq, Prod.mk.injEq] at hst
    obtain ⟨rfl, _, _⟩ := hst
    simp only [MState.phonetic.injEq] at hm'
    exact ⟨S₀, hm' ▸ Reach.key code selection r⟩
  | backspace ctrl =>
    simp only [step, hm, Except.ok.injEq, Prod.mk.injEq] at hst
    obtain ⟨rfl, _, _⟩ := hst
    simp only [MState.phonetic.injEq] at hm'
    exact ⟨S₀, hm' ▸ Reach.backspace ctrl r⟩
  | commit i =>
    simp only [step, hm] at hst
    cases hc : pCommit c.cfg s i with
    | error p => rw [hc] at hst; cases hst
    | ok v =>
      obtain ⟨s'', wr⟩ := v
      rw [hc] at hst
      simp only [Except.ok.injEq, Prod.mk.injEq] at hst
      obtain ⟨rfl, _, _⟩ := hst
      simp only [MState.phonetic.injEq] at hm'
      subst hm'
      cases wr with
      | none => exact ⟨S₀, Reach.commitKeep i r hc⟩
      | some st => exact ⟨_, Reach.commitLearn i st r hc⟩
  | finish =>
    simp only [step, hm, Except.ok.injEq, Prod.mk.injEq] at hst
    obtain ⟨rfl, _, _⟩ := hst
    simp only [MState.phonetic.injEq] at hm'
    exact ⟨S₀, hm' ▸ Reach.finish r⟩
  | update cfg lp =>
    have hb := hidle cfg lp rfl
    simp only [step] at hst
    split at hst
    · cases hn : mNew w fs lp with
      | none => rw [hn] at hst; cases hst
      | some m =>
        rw [hn] at hst
        simp only [Except.ok.injEq, Prod.mk.injEq] at hst
        obtain ⟨rfl, _, _⟩ := hst
        simp only at hm'
        subst hm'
        unfold mNew at hn
        split at hn
        · simp only [Option.some.injEq, MState.phonetic.injEq] at hn
          exact ⟨_, hn ▸ Reach.new cfg fs⟩
        · split at hn <;> cases hn
    · rw [hm] at hst
      simp only [Except.ok.injEq, Prod.mk.injEq] at hst
      obtain ⟨rfl, _, _⟩ := hst
      simp only [MState.phonetic.injEq] at hm'
      exact ⟨S₀, hm' ▸ Reach.update cfg fs r hb⟩
  | setFs fs'' =>
    simp only [step, Except.ok.injEq, Prod.mk.injEq] at hst
    obtain ⟨rfl, _, _⟩ := hst
    rw [hm] at hm'
    simp only [MState.phonetic.injEq] at hm'
    exact ⟨S₀, hm' ▸ r⟩

/-! ### non-vacuity and the limit of the property -/

/-- a small world: `ab` has two dictionary hits, `c` is a known suffix (joined form `…Z`) -/
def wEnv : Env :=
  { convert := id
    dictPhonetic := fun w => if w == ['a', 'b'] then some [['x'], ['y']] else some []
    suffix := fun s => if s == ['c'] then some ['Z'] else none
    autocorrect := fun _ => none, emoticon := fun _ => none
    emojiByName := fun _ => none, emojiBengali := fun _ => none, bijoy := fun s => .ok s, fixedTable := fun _ => [] }

/-- suggestions on, everything else default -/
def wCfg : Cfg := { phoneticSuggestion := true }

/-- the selections file holds one learned word: `ab ↦ y` -/
def wFs : FS := { sel := .parsed [(['a', 'b'], ['y'])] }

/-- one key press in the small world (state only) -/
def press (s : PState) (key : Nat) : PState := (pKey wEnv wCfg s key 0).1

/-- a brand-new context in which `a b` was typed -/
def freshAb : PState := press (press (pNew wFs) 41110) 41111

/-- a warm context: `a b c` typed and finished, then `a b d` and one backspace -/
def warmAb : PState :=
  (pBackspace wEnv wCfg (press (press (press (pFinish (press (press (press (pNew wFs) 41110) 41111) 41112))
    41110) 41111) 41113) false).1

/-- the fresh context is reachable -/
theorem freshAb_reach : Reach wEnv wCfg [(['a', 'b'], ['y'])] freshAb :=
  .key 41111 0 (.key 41110 0 (.new wCfg wFs))

/-- the warm context is reachable -/
theorem warmAb_reach : Reach wEnv wCfg [(['a', 'b'], ['y'])] warmAb :=
  .backspace false (.key 41113 0 (.key 41111 0 (.key 41110 0 (.finish
    (.key 41112 0 (.key 41111 0 (.key 41110 0 (.new wCfg wFs))))))))

/-- NON-VACUITY: the fresh and the warm context are reachable, hold the same composition `ab`, but
    differ in memo (2 vs 4 entries) and selection store (the warm one holds the derived entry for
    `abc`); the hypotheses of `c05_reachable_independent`, `c05_selection_independent` and
    `c05_history_independent` hold for them, and the next key `c` is answered by both with the
    suffix candidates `xZ`, `yZ` and the derived preselection 1. -/
example :
    Reach wEnv wCfg [(['a', 'b'], ['y'])] freshAb ∧ Reach wEnv wCfg [(['a', 'b'], ['y'])] warmAb ∧
    freshAb.buffer = warmAb.buffer ∧ freshAb.userAutocorrect = warmAb.userAutocorrect ∧
    freshAb.cache.length = 2 ∧ warmAb.cache.length = 4 ∧
    freshAb.selections.length = 1 ∧ warmAb.selections.length = 2 ∧
    PreInv wEnv freshAb ∧ PreInv wEnv warmAb ∧
    (pKey wEnv wCfg freshAb 41112 0).2 = (pKey wEnv wCfg warmAb 41112 0).2 ∧
    (pKey wEnv wCfg freshAb 41112 0).2 =
      .full ['a', 'b', 'c'] [['x', 'Z'], ['y', 'Z'], ['a', 'b', 'c']] 1 false := by
  have hf := reach_inv _ _ _ _ freshAb_reach
  have hw := reach_inv _ _ _ _ warmAb_reach
  refine ⟨freshAb_reach, warmAb_reach, by decide, by decide, by decide, by decide, by decide, by decide,
    hf.1.pre, hw.1.pre, ?_, by decide⟩
  exact (c05_reachable_independent _ _ _ _ _ freshAb_reach warmAb_reach (by decide) (by decide)).1 41112 0

/-- the specification itself, evaluated: the derived preselection comes out of `effSel` -/
example : effSel wEnv [(['a', 'b'], ['y'])] ['a', 'b', 'c'] = some ['y', 'Z'] := by
  have h1 : effSel wEnv [(['a', 'b'], ['y'])] ['a', 'b'] = some ['y'] := effSel_of_stored _ _ _ _ (by decide)
  have hw : word ['a', 'b', 'c'] = ['a', 'b', 'c'] := by decide
  have hpts : (splitPoints ['a', 'b', 'c']).reverse = [(['a', 'b'], ['c']), (['a'], ['b', 'c'])] := by decide
  have hl : alookup [(['a', 'b'], ['y'])] ['a', 'b', 'c'] = none := by decide
  have hj : joinChecked ['y'] ['Z'] = some ['y', 'Z'] := by decide
  have hsfx : wEnv.suffix ['c'] = some ['Z'] := by decide
  rw [effSel_eq, hl]
  simp only
  rw [if_pos ⟨hw, by decide⟩, hpts]
  simp only [prevSelLoopF, hsfx, h1, hj]

/-- LIMIT (why `Reach.update` is restricted to idle contexts): `update_engine` in the MIDDLE of a
    word, when it reloads the user auto-correct file, empties the memo although the composition
    stays; the prefixes typed so far are then missing and the suffix candidates built from them are
    lost.  Same composition `ab`, same (empty) user auto-correct list, same store — but the next
    key `c` is answered differently from a context that did not reload, and the invariant fails. -/
theorem update_midword_not_transparent :
    let s := freshAb
    let s' := pUpdate { ac := some (1, some []) } freshAb
    s'.buffer = s.buffer ∧ s'.userAutocorrect = s.userAutocorrect ∧ s'.selections = s.selections ∧
    (pKey wEnv wCfg s 41112 0).2 = .full ['a', 'b', 'c'] [['x', 'Z'], ['y', 'Z'], ['a', 'b', 'c']] 1 false ∧
    (pKey wEnv wCfg s' 41112 0).2 = .full ['a', 'b', 'c'] [['a', 'b', 'c']] 0 false ∧
    ¬ Inv wEnv true s' := by
  refine ⟨by decide, by decide, by decide, by decide, by decide, ?_⟩
  intro h
  have := h.2 rfl ['a'] (by decide) (by decide)
  revert this
  decide

end Riti.C05
