/-
Props/C06 — ending a word erases every trace of it; the session flag tells the truth.
Fixed method: every terminating event leaves the three pieces of composition state empty, and
two states that agree on them are bisimilar.  Phonetic method: the composition is cleared and
the flag is right; equivalence of the *surviving* state (memo, learned selections) with a fresh
context is the memo/selection transparency of C05.
-/
import RitiModel.Model.Context
import RitiModel.Lemmas.Phonetic
namespace Riti.C06
open Riti Riti.Gen

/-! ### fixed method -/

/-- nothing of a word is left: composed text, raw keys, pending sign -/
def Idle (s : FState) : Prop := s.rbuf = [] ∧ s.rtyped = [] ∧ s.pending = none

/-- invariant: when nothing is being composed there are no raw keys either -/
def Clean (s : FState) : Prop := s.rbuf = [] → s.pending = none → s.rtyped = []

theorem fresh_clean : Clean {} := fun _ _ => rfl

/-- commit and finish clear the composed text, the raw keys and the pending sign -/
theorem clear_is_idle (s : FState) : Idle (fClear s) := ⟨rfl, rfl, rfl⟩

/-- the session flag is exactly "something is being composed" -/
theorem ongoing_iff (s : FState) : fOngoing s = false ↔ (s.rbuf = [] ∧ s.pending = none) := by
  rcases s with ⟨rbuf, rtyped, pending, sg⟩
  cases rbuf <;> cases pending <;> simp [fOngoing]

/-- **backspace that returns the empty suggestion ends the session and leaves nothing behind**
    (plain or ctrl, with or without a pending sign) — includes the clause repaired by `fix:` b5913e2 -/
theorem backspace_empty_is_idle (s : FState) (ctrl : Bool) (hc : Clean s)
    (h : (fBackspaceState s ctrl).2 = false) : Idle (fBackspaceState s ctrl).1 := by
  rcases s with ⟨rbuf, rtyped, pending, sg⟩
  cases rbuf with
  | nil =>
    cases pending with
    | none =>
      have : rtyped = [] := hc rfl rfl
      cases ctrl <;> simp [fBackspaceState, Idle, this]
    | some k => cases ctrl <;> simp [fBackspaceState, Idle]
  | cons c cs =>
    cases pending with
    | none =>
      cases ctrl
      · cases cs <;> simp [fBackspaceState, Idle] at h ⊢
      · simp [fBackspaceState, Idle]
    | some k =>
      cases ctrl
      · simp [fBackspaceState] at h
      · simp [fBackspaceState, Idle]

/-- ctrl-backspace on a non-empty composition ends the session in one step -/
theorem ctrl_backspace_clears (s : FState) (h : s.rbuf ≠ []) :
    Idle (fBackspaceState s true).1 ∧ (fBackspaceState s true).2 = false := by
  rcases s with ⟨rbuf, rtyped, pending, sg⟩
  cases rbuf with
  | nil => exact absurd rfl h
  | cons c cs => simp [fBackspaceState, Idle]

/-- a backspace when idle returns the empty suggestion and starts nothing -/
theorem idle_backspace_inert (s : FState) (ctrl : Bool) (h : Idle s) :
    fBackspaceState s ctrl = (s, false) := by
  rcases s with ⟨rbuf, rtyped, pending, sg⟩
  obtain ⟨h1, h2, h3⟩ := h
  simp at h1 h2 h3
  subst h1 h2 h3
  cases ctrl <;> simp [fBackspaceState]

/-- size of what is being composed -/
def measure (s : FState) : Nat := s.rbuf.length + (if s.pending.isSome then 1 else 0)

/-- every plain backspace on an ongoing session strictly shrinks the composition -/
theorem backspace_decreases (s : FState) (h : fOngoing s = true) :
    measure (fBackspaceState s false).1 < measure s := by
  rcases s with ⟨rbuf, rtyped, pending, sg⟩
  cases rbuf with
  | nil => cases pending <;> simp [fOngoing, fBackspaceState, measure] at h ⊢
  | cons c cs =>
    cases pending with
    | none => cases cs <;> simp [fBackspaceState, measure]
    | some k => simp [fBackspaceState, measure]

/-- `n` plain backspaces in a row -/
def backspaces : Nat → FState → FState
  | 0, s => s
  | n + 1, s => backspaces n (fBackspaceState s false).1

/-- … so repeated backspaces always reach the idle state (after at most `measure s` of them) -/
theorem backspaces_reach_idle (n : Nat) (s : FState) (h : measure s ≤ n) :
    fOngoing (backspaces n s) = false := by
  induction n generalizing s with
  | zero =>
    rcases s with ⟨rbuf, rtyped, pending, sg⟩
    cases rbuf <;> cases pending <;> simp [measure, fOngoing, backspaces] at h ⊢
  | succ n ih =>
    simp only [backspaces]
    apply ih
    by_cases ho : fOngoing s = true
    · have := backspace_decreases s ho; omega
    · have hi : fOngoing s = false := by simpa using ho
      rcases s with ⟨rbuf, rtyped, pending, sg⟩
      cases rbuf <;> cases pending <;> simp [fOngoing] at hi
      simp [fBackspaceState, measure]

/-- `Clean` is kept by backspace -/
theorem backspace_clean (s : FState) (ctrl : Bool) (hc : Clean s) : Clean (fBackspaceState s ctrl).1 := by
  rcases s with ⟨rbuf, rtyped, pending, sg⟩
  cases rbuf with
  | nil =>
    cases pending with
    | none => cases ctrl <;> simpa [fBackspaceState] using hc
    | some k => cases ctrl <;> simp [fBackspaceState, Clean]
  | cons c cs =>
    cases pending with
    | none => cases ctrl <;> cases cs <;> simp [fBackspaceState, Clean]
    | some k => cases ctrl <;> simp [fBackspaceState, Clean]

/-- suggestions off: non-empty pre-edit text implies an ongoing session -/
theorem lonely_preedit_implies_ongoing (s : FState) (h : s.buffer ≠ []) : fOngoing s = true := by
  rcases s with ⟨rbuf, rtyped, pending, sg⟩
  cases rbuf with
  | nil => simp [FState.buffer] at h
  | cons c cs => simp [fOngoing]

/-! ### phonetic method -/

/-- commit clears the composition -/
theorem p_commit_clears (cfg : Cfg) (s s' : PState) (i : Nat) (w : Option Store)
    (h : pCommit cfg s i = .ok (s', w)) : pOngoing s' = false := by
  unfold pCommit at h
  split at h
  · split at h
    · cases h
    · simp at h; obtain ⟨h1, _⟩ := h; subst h1; simp [pOngoing]
  · simp at h; obtain ⟨h1, _⟩ := h; subst h1; simp [pOngoing]

/-- finish clears the composition -/
theorem p_finish_clears (s : PState) : pOngoing (pFinish s) = false := by simp [pFinish, pOngoing]

/-- a backspace that returns the empty single suggestion *because the buffer became empty* ends
    the session; ctrl-backspace always does -/
theorem p_ctrl_backspace_clears (env : Env) (cfg : Cfg) (s : PState) :
    pOngoing (pBackspace env cfg s true).1 = false := by
  simp only [pBackspace]
  split
  · simp [pOngoing]
  · rename_i h; simpa [pOngoing] using h

/-- a backspace when idle returns the empty suggestion and changes nothing -/
theorem p_idle_backspace_inert (env : Env) (cfg : Cfg) (s : PState) (ctrl : Bool) (h : s.buffer = []) :
    pBackspace env cfg s ctrl = (s, Sugg.empty) := by
  simp [pBackspace, h]

/-- repeated backspaces reach the idle state: every one shortens the buffer by one -/
theorem p_backspace_shortens (env : Env) (cfg : Cfg) (s : PState) :
    (pBackspace env cfg s false).1.buffer = s.buffer.dropLast := by
  simp only [pBackspace]
  split
  · simp only [Bool.false_eq_true, if_false]
    split
    · rfl
    · exact pCreateSuggestion_buffer env cfg _
  · rename_i h
    have : s.buffer = [] := by simpa using h
    simp [this]

/-- the full statement "an empty suggestion from backspace ⇒ no session" FAILS for the phonetic
    method with suggestions off (known finding): what is left of the composition can
    transliterate to the empty string.  Witness: buffer "`a", one backspace, with a `convert`
    that drops a lone back-tick (as okkhor does). -/
theorem p_empty_suggestion_but_ongoing :
    let env : Env := { convert := fun s => s.filter (· != '`'), dictPhonetic := fun _ => some [], suffix := fun _ => none,
                       autocorrect := fun _ => none, emoticon := fun _ => none, emojiByName := fun _ => none,
                       emojiBengali := fun _ => none, bijoy := fun s => .ok s, fixedTable := fun _ => [] }
    let r := pBackspace env {} { buffer := ['`', 'a'] } false
    r.2 = Sugg.empty ∧ pOngoing r.1 = true := by decide

/-- PARTIAL (phonetic): if the returned single suggestion is empty and `convert` maps only the
    empty text to the empty text on what is left, the session is over -/
theorem p_backspace_empty_partial (env : Env) (cfg : Cfg) (s : PState)
    (hcfg : cfg.phoneticSuggestion = false)
    (hconv : suggestOnlyPhonetic env s.buffer.dropLast = [] → s.buffer.dropLast = [])
    (h : (pBackspace env cfg s false).2.isEmpty = true) : pOngoing (pBackspace env cfg s false).1 = false := by
  by_cases hb : s.buffer = []
  · simp [pBackspace, hb, pOngoing]
  · by_cases hd : s.buffer.dropLast = []
    · simp [pBackspace, hb, hd, pOngoing]
    · exfalso
      apply hd
      apply hconv
      simpa [pBackspace, hb, hd, pCreateSuggestion, hcfg, Sugg.isEmpty] using h

end Riti.C06
