/-
Props/C06Fixed — the fixed-layout half of C06 at full strength (possible since the repair 389b777: a key whose value
is dropped no longer leaves its raw key text behind).

* `Clean` ("nothing composed ⇒ no raw keys") is an invariant of EVERY call on EVERY context (`step_clean`,
  `run_clean`), so for every reachable context the session flag tells the truth:
  `flag_truth : not ongoing ⇒ Idle` (no composed text, no raw keys, no pending sign);
* a context whose flag says "not ongoing" answers every continuation exactly like a context newly created with its
  configuration over the same files (`not_ongoing_as_new`, through the simulation of C11).
-/
import RitiModel.Model.Context
import RitiModel.Lemmas.FixedStale
import RitiModel.Props.C06
import RitiModel.Props.C11
namespace Riti.C06F
open Riti Riti.C06 Riti.C11

/-- `Clean` lifted to contexts (the phonetic method has its own statement, Props/C06Phonetic) -/
def CleanCtx (c : Ctx) : Prop :=
  match c.m with
  | .fixed _ s => Clean s
  | .phonetic _ => True

/-- the state change of a key keeps `Clean`: either the value was dropped and the raw keys are cleared, or
    something is being composed -/
theorem keyState_clean (layout : Layout) (cfg : Cfg) (s s' : FState) (key modifier : Nat)
    (h : fKeyState layout cfg s key modifier = some s') : Clean s' := by
  unfold fKeyState at h
  split at h
  · cases h
  · simp only at h
    split at h
    · cases h; intro _ _; rfl
    · rename_i hne
      have hcl : ∀ t : FState, t.rbuf = (processKeyValue cfg s ‹_›).rbuf → t.pending = (processKeyValue cfg s ‹_›).pending → Clean t := by
        intro t e1 e2 hr hp
        exfalso; apply hne
        rw [e1] at hr; rw [e2] at hp
        simp [hr, hp]
      split at h
      · split at h <;> cases h <;> exact hcl _ rfl rfl
      · cases h; exact hcl _ rfl rfl

/-- building the suggestion changes neither the composed text, nor the raw keys, nor the pending sign -/
theorem fCreateSuggestion_frame (w : World) (cfg : Cfg) (s : FState) :
    (fCreateSuggestion w cfg s).1.rbuf = s.rbuf ∧ (fCreateSuggestion w cfg s).1.rtyped = s.rtyped ∧
    (fCreateSuggestion w cfg s).1.pending = s.pending := by
  unfold fCreateSuggestion fDictSuggestion
  split <;> exact ⟨rfl, rfl, rfl⟩

theorem clean_of_frame {s t : FState} (h : Clean s) (e1 : t.rbuf = s.rbuf) (e2 : t.rtyped = s.rtyped)
    (e3 : t.pending = s.pending) : Clean t := by
  intro hr hp; rw [e2]; exact h (e1 ▸ hr) (e3 ▸ hp)

/-- a key press keeps `Clean` (whatever the state before: no hypothesis) -/
theorem fKey_clean (w : World) (layout : Layout) (cfg : Cfg) (s : FState) (key modifier : Nat) (hc : Clean s) :
    Clean (fKey w layout cfg s key modifier).1 := by
  unfold fKey
  split
  · exact hc
  · rename_i s' hk
    have := keyState_clean layout cfg s s' key modifier hk
    split
    · exact this
    · obtain ⟨e1, e2, e3⟩ := fCreateSuggestion_frame w cfg s'
      exact clean_of_frame this e1 e2 e3

/-- a backspace keeps `Clean` -/
theorem fBackspace_clean (w : World) (cfg : Cfg) (s : FState) (ctrl : Bool) (hc : Clean s) :
    Clean (fBackspace w cfg s ctrl).1 := by
  have hb := backspace_clean s ctrl hc
  unfold fBackspace
  simp only
  split
  · obtain ⟨e1, e2, e3⟩ := fCreateSuggestion_frame w cfg (fBackspaceState s ctrl).1
    exact clean_of_frame hb e1 e2 e3
  · exact hb

/-- a key whose value leaves nothing composed returns the EMPTY suggestion and an idle state (nothing is offered
    without a session: the clause the known finding `empty-composition-offers-raw-keys` violated before the repair) -/
theorem key_nothing_composed_is_idle (w : World) (layout : Layout) (cfg : Cfg) (s : FState) (key modifier : Nat) (hc : Clean s)
    (h : fOngoing (fKey w layout cfg s key modifier).1 = false) :
    Idle (fKey w layout cfg s key modifier).1 ∧
    ((fKey w layout cfg s key modifier).2 = Sugg.empty ∨ (fKey w layout cfg s key modifier).2 = fCurrentSuggestion cfg s) := by
  have hcl := fKey_clean w layout cfg s key modifier hc
  obtain ⟨hr, hp⟩ := (ongoing_iff _).mp h
  refine ⟨⟨hr, hcl hr hp, hp⟩, ?_⟩
  cases hk : fKeyState layout cfg s key modifier with
  | none => exact .inr (by simp [fKey, hk])
  | some s' =>
    simp only [fKey, hk] at hr hp ⊢
    by_cases hi : (s'.rbuf.isEmpty && s'.pending.isNone) = true
    · simp [hi]
    · exfalso
      simp only [hi, Bool.false_eq_true, if_false] at hr hp
      obtain ⟨e1, _, e3⟩ := fCreateSuggestion_frame w cfg s'
      rw [e1] at hr; rw [e3] at hp
      simp [hr, hp] at hi

/-- a newly created context is clean -/
theorem new_clean (w : World) (fs : FS) (cfg : Cfg) (p : String) (c : Ctx) (h : Ctx.new w fs cfg p = some c) : CleanCtx c := by
  unfold Ctx.new at h
  cases hm : mNew w fs p with
  | none => simp [hm] at h
  | some m =>
    simp only [hm, Option.map_some, Option.some.injEq] at h
    subst h
    unfold mNew at hm
    split at hm
    · cases hm; simp [CleanCtx]
    · split at hm
      · cases hm; simp only [CleanCtx]; exact fresh_clean
      · cases hm

/-- every call keeps `Clean` -/
theorem step_clean (w : World) (c c' : Ctx) (fs fs' : FS) (e : Event) (o : Out) (hc : CleanCtx c)
    (hs : step w c fs e = .ok (c', fs', o)) : CleanCtx c' := by
  cases e with
  | key code m sel =>
    cases hm : c.m with
    | phonetic ps => simp [step, hm] at hs; obtain ⟨h1, _⟩ := hs; subst h1; simp [CleanCtx]
    | fixed l s =>
      simp [step, hm] at hs; obtain ⟨h1, _⟩ := hs; subst h1
      have : Clean s := by simpa [CleanCtx, hm] using hc
      simpa [CleanCtx] using fKey_clean w l c.cfg s code m this
  | backspace ctrl =>
    cases hm : c.m with
    | phonetic ps => simp [step, hm] at hs; obtain ⟨h1, _⟩ := hs; subst h1; simp [CleanCtx]
    | fixed l s =>
      simp [step, hm] at hs; obtain ⟨h1, _⟩ := hs; subst h1
      have : Clean s := by simpa [CleanCtx, hm] using hc
      simpa [CleanCtx] using fBackspace_clean w c.cfg s ctrl this
  | finish =>
    cases hm : c.m with
    | phonetic ps => simp [step, hm] at hs; obtain ⟨h1, _⟩ := hs; subst h1; simp [CleanCtx]
    | fixed l s =>
      simp [step, hm] at hs; obtain ⟨h1, _⟩ := hs; subst h1
      simp only [CleanCtx]; intro _ _; rfl
  | setFs f => simp [step] at hs; obtain ⟨h1, _⟩ := hs; subst h1; exact hc
  | commit i =>
    cases hm : c.m with
    | fixed l s =>
      simp [step, hm] at hs; obtain ⟨h1, _⟩ := hs; subst h1
      simp only [CleanCtx]; intro _ _; rfl
    | phonetic s =>
      simp only [step, hm] at hs
      cases hcm : pCommit c.cfg s i with
      | error p => simp [hcm] at hs
      | ok r => simp [hcm] at hs; obtain ⟨h1, _⟩ := hs; subst h1; simp [CleanCtx]
  | update cfg p =>
    by_cases hp : c.layoutPath = p
    · subst hp
      cases hm : c.m with
      | fixed l s =>
        rw [update_same_layout_fixed w c fs cfg l s hm] at hs
        simp at hs; obtain ⟨h1, _⟩ := hs; subst h1; simpa [CleanCtx, hm] using hc
      | phonetic s =>
        rw [update_same_layout_phonetic w c fs cfg s hm] at hs
        simp at hs; obtain ⟨h1, _⟩ := hs; subst h1; simp [CleanCtx]
    · exact new_clean w fs cfg p c' (update_layout_changed_is_new w c c' fs fs' cfg p o hp hs).1

/-- … and stays clean through every history -/
theorem run_clean (w : World) (evs : List Event) (c c' : Ctx) (fs fs' : FS) (os : List Out) (hc : CleanCtx c)
    (h : runFrom w c fs evs = .ok (c', fs', os)) : CleanCtx c' := by
  induction evs generalizing c fs os with
  | nil => simp only [runFrom, Except.ok.injEq, Prod.mk.injEq] at h; obtain ⟨rfl, rfl, _⟩ := h; exact hc
  | cons e es ih =>
    unfold runFrom at h
    split at h
    · cases h
    · rename_i c1 fs1 o1 hs
      split at h
      · cases h
      · rename_i c2 fs2 os2 hr
        simp only [Except.ok.injEq, Prod.mk.injEq] at h; obtain ⟨rfl, rfl, _⟩ := h
        exact ih c1 fs1 os2 (step_clean w c c1 fs fs1 e o1 hc hs) hr

/-- **the session flag tells the truth** (fixed method): in every context reached from a new one by any history,
    "not ongoing" means that nothing at all is left — no composed text, no raw key text, no pending sign -/
theorem flag_truth (w : World) (fs0 : FS) (cfg0 : Cfg) (p : String) (c0 : Ctx) (hnew : Ctx.new w fs0 cfg0 p = some c0)
    (evs : List Event) (c : Ctx) (fs : FS) (os : List Out) (hrun : runFrom w c0 fs0 evs = .ok (c, fs, os))
    (l : Layout) (s : FState) (hm : c.m = .fixed l s) (hflag : c.ongoing = false) : Idle s := by
  have hc : CleanCtx c := run_clean w evs c0 c fs0 fs os (new_clean w fs0 cfg0 p c0 hnew) hrun
  have hcl : Clean s := by simpa [CleanCtx, hm] using hc
  have : fOngoing s = false := by simpa [Ctx.ongoing, hm] using hflag
  obtain ⟨hr, hp⟩ := (ongoing_iff s).mp this
  exact ⟨hr, hcl hr hp, hp⟩

/-- well-formedness survives a history (C11.step_wf along a run) -/
theorem run_wf (w : World) (evs : List Event) (c c' : Ctx) (fs fs' : FS) (os : List Out) (hwf : WF w c)
    (h : runFrom w c fs evs = .ok (c', fs', os)) : WF w c' := by
  induction evs generalizing c fs os with
  | nil => simp only [runFrom, Except.ok.injEq, Prod.mk.injEq] at h; obtain ⟨rfl, rfl, _⟩ := h; exact hwf
  | cons e es ih =>
    unfold runFrom at h
    split at h
    · cases h
    · rename_i c1 fs1 o1 hs
      split at h
      · cases h
      · rename_i c2 fs2 os2 hr
        simp only [Except.ok.injEq, Prod.mk.injEq] at h; obtain ⟨rfl, rfl, _⟩ := h
        exact ih c1 fs1 os2 (step_wf w c c1 fs fs1 e o1 hwf hs) hr

/-- **ending a word erases every trace of it** (fixed method, full strength): take ANY history from a new context;
    if afterwards the context reports no ongoing session — after a commit, a finish, backspaces that emptied the
    composition, a ctrl-backspace, or a key whose value was dropped — then for EVERY continuation (in which
    `update_engine` is only called when idle) it returns exactly the outputs, leaves exactly the files and panics
    exactly where a context newly created with the same configuration over the same files does. -/
theorem not_ongoing_as_new (w : World) (fs0 : FS) (cfg0 : Cfg) (p : String) (c0 : Ctx) (hnew : Ctx.new w fs0 cfg0 p = some c0)
    (hist : List Event) (c : Ctx) (fs : FS) (os : List Out) (hrun : runFrom w c0 fs0 hist = .ok (c, fs, os))
    (l : Layout) (s : FState) (hm : c.m = .fixed l s) (hflag : c.ongoing = false) (cont : List Event) :
    ∃ cn, Ctx.new w fs c.cfg c.layoutPath = some cn ∧
      (UpdatesIdle w cn fs cont →
        (∀ cn' fs' outs, runFrom w cn fs cont = .ok (cn', fs', outs) → ∃ c', runFrom w c fs cont = .ok (c', fs', outs)) ∧
        (∀ q, runFrom w cn fs cont = .error q → runFrom w c fs cont = .error q)) := by
  have hidle := flag_truth w fs0 cfg0 p c0 hnew hist c fs os hrun l s hm hflag
  have hwf : WF w c := run_wf w hist c0 c fs0 fs os (new_wf w fs0 cfg0 p c0 hnew) hrun
  have hw : isPhoneticPath c.layoutPath = false ∧ w.layouts c.layoutPath = some l := by simpa [WF, hm] using hwf
  refine ⟨⟨c.cfg, c.layoutPath, .fixed l {}⟩, by simp [Ctx.new, mNew, hw.1, hw.2], fun hu => ?_⟩
  have hsim : CSim c ⟨c.cfg, c.layoutPath, .fixed l {}⟩ := by
    refine .inr ⟨rfl, rfl, l, s, {}, hm, rfl, ⟨s.suggestions, ?_⟩, fun _ hne => absurd rfl hne⟩
    rcases s with ⟨rbuf, rtyped, pending, sg⟩
    obtain ⟨e1, e2, e3⟩ := hidle
    simp only at e1 e2 e3
    subst e1 e2 e3
    rfl
  obtain ⟨hok, herr⟩ := run_sim w cont _ _ fs hsim hu
  exact ⟨fun cn' fs' outs hr => (hok cn' fs' outs hr).imp (fun _ h => h.1), herr⟩

/-- non-vacuity and the repaired case itself: Probhat's AltGr+d (ৄ, no independent form) at the start of a word with
    automatic vowel forming, suggestions and English on: the value is dropped, the EMPTY suggestion is returned and
    nothing — in particular not the raw key text "d" — is kept -/
def exLayout : Layout := fun n => if n == "Key_d_AltGr" then some [Char.ofNat 0x09C4] else none
def exCfg : Cfg := { fixedSuggestion := true, includeEnglish := true, fixedVowel := true }
def exEnv : Env :=
  { convert := id, dictPhonetic := fun _ => some [], suffix := fun _ => none, autocorrect := fun _ => none
    emoticon := fun _ => none, emojiByName := fun _ => none, emojiBengali := fun _ => none
    bijoy := fun s => .ok s, fixedTable := fun _ => [] }
example : (fKey ⟨exEnv, fun _ => none, sortStable⟩ exLayout exCfg {} 41113 2).2 = Sugg.empty ∧
          Idle (fKey ⟨exEnv, fun _ => none, sortStable⟩ exLayout exCfg {} 41113 2).1 := by
  refine ⟨by decide, by decide, by decide, by decide⟩

end Riti.C06F
