/-
Props/C06Phonetic — the phonetic half of C06: after the word has ended the context behaves from
then on like a newly created one.

`ObsEq env cfg S₀ a b` relates two phonetic states that satisfy the invariants of reachable states
(`PInv`, implied by `C05.Reach`) for the same options and the same EFFECTIVE store `S₀` (the
selections as loaded / as of the last learning commit), hold the same composition and the same
user auto-correct list.  Their memos, their in-memory stores (entries derived by
`get_prev_selection`) and their stale list/index may differ.

* `ObsEq` is a bisimulation for key presses, backspaces, `finish` and every commit that learns
  nothing: equal answers, related successors (`pKey_obsEq`, `pBackspace_obsEq`, `pFinish_obsEq`,
  `pCommit_obsEq_keep`); a learning commit learns the SAME BINDING on both sides
  (`pCommit_same_binding`) but writes each side's own in-memory store.
* FULL STRENGTH FAILS across a learning commit (`p_continuations_equal_false`): derived entries
  pending in the used context are written out with the next learned word and shadow a re-learning
  of their base (the C06 face of `C09.derived_entry_shadows_relearning`).
* `ObsEqS` = `ObsEq` + equal in-memory stores is a bisimulation for ALL in-contract events
  (`p_continuations_equal`); `ObsEq` alone for all runs without a learning commit
  (`p_continuations_equal_partial`), in particular for every run with suggestions off.
* `p_terminated_is_fresh`: after commit / finish / ctrl-backspace / emptying backspace the context
  is idle and `ObsEq` to `pNew fs'` whenever the selections file holds the effective store;
  `ObsEqS` whenever it holds the in-memory store (always true right after a learning commit whose
  save succeeded).

Not covered: `update_engine` (compares the recorded mtime, which a used context and a new one need
not share) — that is C11.

Remark on `Reach`: it has a constructor for every call (also `finish`), but its store index can only
change at a learning commit; an idle state cannot be re-indexed to its own in-memory store, which
`ObsEqS` needs.  The relation is therefore stated over `PInv` (`Lemmas/PhoneticBisim`), which every
`Reach`-able state satisfies (`PInv.of_reach`) and which can be re-indexed (`PInv.reindex_idle`).
-/
import RitiModel.Model.Context
import RitiModel.Lemmas.Transparency
import RitiModel.Lemmas.PhoneticBisim
import RitiModel.Props.C05
import RitiModel.Props.C06
namespace Riti.C06P
open Riti Riti.Gen Riti.C05

/-! ### the relation -/

/-- two phonetic contexts that cannot be told apart by key presses, backspaces and `finish`:
    invariants of reachable states for the same options and effective store `S₀`, same
    composition, same user auto-correct list -/
structure ObsEq (env : Env) (cfg : Cfg) (S₀ : Store) (a b : PState) : Prop where
  ia : PInv env cfg S₀ a
  ib : PInv env cfg S₀ b
  buf : a.buffer = b.buffer
  ua : a.userAutocorrect = b.userAutocorrect

/-- two API-reachable contexts (same options, same effective store) with the same composition and
    user list are related -/
theorem ObsEq.of_reach {env : Env} {cfg : Cfg} {S₀ : Store} {a b : PState}
    (ra : Reach env cfg S₀ a) (rb : Reach env cfg S₀ b)
    (hb : a.buffer = b.buffer) (hu : a.userAutocorrect = b.userAutocorrect) : ObsEq env cfg S₀ a b :=
  ⟨PInv.of_reach ra, PInv.of_reach rb, hb, hu⟩

/-- the relation is symmetric -/
theorem ObsEq.symm {env : Env} {cfg : Cfg} {S₀ : Store} {a b : PState} (h : ObsEq env cfg S₀ a b) :
    ObsEq env cfg S₀ b a := ⟨h.ib, h.ia, h.buf.symm, h.ua.symm⟩

/-- `ObsEq⁺`: the two contexts moreover agree on the list last built and its preselected index —
    the two fields `commit` reads -/
def SameList (a b : PState) : Prop := a.suggestions = b.suggestions ∧ a.prevSelection = b.prevSelection

/-- related contexts in the middle of a word (suggestions on) are `ObsEq⁺`: the list on display and
    its preselected index are the same, whatever was typed before -/
theorem ObsEq.sameList {env : Env} {cfg : Cfg} {S₀ : Store} {a b : PState} (h : ObsEq env cfg S₀ a b)
    (hon : cfg.phoneticSuggestion = true) (hne : a.buffer ≠ []) : SameList a b := by
  obtain ⟨l₁, p₁⟩ := h.ia.list hon hne
  obtain ⟨l₂, p₂⟩ := h.ib.list hon (h.buf ▸ hne)
  exact ⟨by rw [l₁, l₂, h.buf, h.ua], by rw [p₁, p₂, h.buf, h.ua]⟩

/-- the strong relation: moreover the in-memory selection stores (learned AND derived entries)
    are equal.  `S₀` is then immaterial. -/
def ObsEqS (env : Env) (cfg : Cfg) (a b : PState) : Prop :=
  (∃ S₀, ObsEq env cfg S₀ a b) ∧ a.selections = b.selections

/-! ### 1. bisimulation: key press, backspace, finish -/

/-- KEY PRESS: related contexts return EQUAL suggestions and stay related -/
theorem pKey_obsEq {env : Env} {cfg : Cfg} {S₀ : Store} {a b : PState} (h : ObsEq env cfg S₀ a b) (key sel : Nat) :
    (pKey env cfg a key sel).2 = (pKey env cfg b key sel).2 ∧
    ObsEq env cfg S₀ (pKey env cfg a key sel).1 (pKey env cfg b key sel).1 :=
  ⟨pKey_out_congr env cfg S₀ a b h.ia h.ib h.buf h.ua key sel,
    ⟨h.ia.key key sel, h.ib.key key sel, by rw [pKey_buffer, pKey_buffer, h.buf], by rw [pKey_ua, pKey_ua, h.ua]⟩⟩

/-- BACKSPACE (plain or ctrl): related contexts return EQUAL suggestions and stay related -/
theorem pBackspace_obsEq {env : Env} {cfg : Cfg} {S₀ : Store} {a b : PState} (h : ObsEq env cfg S₀ a b) (ctrl : Bool) :
    (pBackspace env cfg a ctrl).2 = (pBackspace env cfg b ctrl).2 ∧
    ObsEq env cfg S₀ (pBackspace env cfg a ctrl).1 (pBackspace env cfg b ctrl).1 :=
  ⟨pBackspace_out_congr env cfg S₀ a b h.ia h.ib h.buf h.ua ctrl,
    ⟨h.ia.backspace ctrl, h.ib.backspace ctrl, by rw [pBackspace_buffer, pBackspace_buffer, h.buf],
      by rw [pBackspace_ua, pBackspace_ua, h.ua]⟩⟩

/-- FINISH (no output): related contexts stay related -/
theorem pFinish_obsEq {env : Env} {cfg : Cfg} {S₀ : Store} {a b : PState} (h : ObsEq env cfg S₀ a b) :
    ObsEq env cfg S₀ (pFinish a) (pFinish b) :=
  ⟨h.ia.finish, h.ib.finish, rfl, h.ua⟩

/-- key press under the strong relation: the in-memory stores stay equal too -/
theorem pKey_obsEqS {env : Env} {cfg : Cfg} {a b : PState} (h : ObsEqS env cfg a b) (key sel : Nat) :
    (pKey env cfg a key sel).2 = (pKey env cfg b key sel).2 ∧
    ObsEqS env cfg (pKey env cfg a key sel).1 (pKey env cfg b key sel).1 := by
  obtain ⟨⟨S₀, h₀⟩, hs⟩ := h
  exact ⟨(pKey_obsEq h₀ key sel).1, ⟨S₀, (pKey_obsEq h₀ key sel).2⟩,
    pKey_selections_congr env cfg a b key sel h₀.buf hs⟩

/-- backspace under the strong relation -/
theorem pBackspace_obsEqS {env : Env} {cfg : Cfg} {a b : PState} (h : ObsEqS env cfg a b) (ctrl : Bool) :
    (pBackspace env cfg a ctrl).2 = (pBackspace env cfg b ctrl).2 ∧
    ObsEqS env cfg (pBackspace env cfg a ctrl).1 (pBackspace env cfg b ctrl).1 := by
  obtain ⟨⟨S₀, h₀⟩, hs⟩ := h
  exact ⟨(pBackspace_obsEq h₀ ctrl).1, ⟨S₀, (pBackspace_obsEq h₀ ctrl).2⟩,
    pBackspace_selections_congr env cfg a b ctrl h₀.buf hs⟩

/-- finish under the strong relation -/
theorem pFinish_obsEqS {env : Env} {cfg : Cfg} {a b : PState} (h : ObsEqS env cfg a b) :
    ObsEqS env cfg (pFinish a) (pFinish b) := by
  obtain ⟨⟨S₀, h₀⟩, hs⟩ := h
  exact ⟨⟨S₀, pFinish_obsEq h₀⟩, hs⟩

/-! ### 1'. bisimulation: commit -/

/-- the contract of `commit`: with suggestions on it is only called while a word is being composed
    (the index then refers to the list on display).  On an idle context `commit` reads the stale
    list of the previous word — out of contract, see `C11.commit_before_typing_differs`. -/
def CommitOk (cfg : Cfg) (s : PState) : Prop := cfg.phoneticSuggestion = true → pOngoing s = true

/-- the contract is symmetric in related contexts -/
theorem ObsEq.commitOk {env : Env} {cfg : Cfg} {S₀ : Store} {a b : PState} (h : ObsEq env cfg S₀ a b)
    (hc : CommitOk cfg a) : CommitOk cfg b := fun hon => by
  have := hc hon
  simpa [pOngoing, h.buf] using this

/-- in contract, related contexts learn the same thing from `commit i`: nothing, the same binding
    (typed word ↦ chosen word), or the same panic when `i` is outside the list -/
theorem ObsEq.learned_eq {env : Env} {cfg : Cfg} {S₀ : Store} {a b : PState} (h : ObsEq env cfg S₀ a b)
    (hc : CommitOk cfg a) (i : Nat) : pLearned cfg a i = pLearned cfg b i := by
  cases hon : cfg.phoneticSuggestion with
  | true =>
    have hne : a.buffer ≠ [] := by
      have := hc hon
      intro h0; simp [pOngoing, h0] at this
    obtain ⟨hl, hp⟩ := h.sameList hon hne
    exact pLearned_congr cfg a b i h.buf hl hp
  | false => rw [pLearned_off cfg a i hon, pLearned_off cfg b i hon]

/-- COMMIT, the three outcomes on related contexts: the same panic; or nothing learned and nothing
    written on either side; or the SAME BINDING `k ↦ v` inserted into each side's in-memory store,
    which is what that side hands to `fs::write` -/
theorem pCommit_same_binding {env : Env} {cfg : Cfg} {S₀ : Store} {a b : PState} (h : ObsEq env cfg S₀ a b)
    (hc : CommitOk cfg a) (i : Nat) :
    (∃ e, pCommit cfg a i = .error e ∧ pCommit cfg b i = .error e) ∨
    (pCommit cfg a i = .ok ({ a with buffer := [] }, none) ∧ pCommit cfg b i = .ok ({ b with buffer := [] }, none)) ∨
    (∃ k v,
      pCommit cfg a i = .ok ({ a with selections := ainsert a.selections k v, buffer := [] }, some (ainsert a.selections k v)) ∧
      pCommit cfg b i = .ok ({ b with selections := ainsert b.selections k v, buffer := [] }, some (ainsert b.selections k v))) := by
  have he := h.learned_eq hc i
  rw [pCommit_eq cfg a i, pCommit_eq cfg b i, ← he]
  cases pLearned cfg a i with
  | error e => exact Or.inl ⟨e, rfl, rfl⟩
  | ok o =>
    cases o with
    | none => exact Or.inr (Or.inl ⟨rfl, rfl⟩)
    | some kv => exact Or.inr (Or.inr ⟨kv.1, kv.2, rfl, rfl⟩)

/-- COMMIT that panics (index outside the list): the same panic in the related context -/
theorem pCommit_obsEq_error {env : Env} {cfg : Cfg} {S₀ : Store} {a b : PState} (h : ObsEq env cfg S₀ a b)
    (hc : CommitOk cfg a) (i : Nat) (e : Panic) (he : pCommit cfg a i = .error e) : pCommit cfg b i = .error e := by
  rcases pCommit_same_binding h hc i with ⟨e', h1, h2⟩ | ⟨h1, _⟩ | ⟨k, v, h1, _⟩
  · rw [h1] at he; cases he; exact h2
  · rw [h1] at he; cases he
  · rw [h1] at he; cases he

/-- COMMIT that learns nothing (the preselected candidate, or suggestions off): nothing is written
    on either side and the contexts stay related for the same `S₀` -/
theorem pCommit_obsEq_keep {env : Env} {cfg : Cfg} {S₀ : Store} {a b a' : PState} (h : ObsEq env cfg S₀ a b)
    (hc : CommitOk cfg a) (i : Nat) (ha : pCommit cfg a i = .ok (a', none)) :
    ∃ b', pCommit cfg b i = .ok (b', none) ∧ ObsEq env cfg S₀ a' b' := by
  rcases pCommit_same_binding h hc i with ⟨e', h1, _⟩ | ⟨h1, h2⟩ | ⟨k, v, h1, _⟩
  · rw [h1] at ha; cases ha
  · refine ⟨_, h2, ?_⟩
    have hb := h.ib.commitKeep h2
    have ha' := h.ia.commitKeep ha
    rw [h1] at ha
    simp only [Except.ok.injEq, Prod.mk.injEq, and_true] at ha
    subst ha
    exact ⟨ha', hb, rfl, h.ua⟩
  · rw [h1] at ha; simp at ha

/-- LEARNING COMMIT under the strong relation: the same store is written on both sides and the
    contexts stay strongly related (the new effective store is the store just written) -/
theorem pCommit_obsEqS {env : Env} {cfg : Cfg} {a b a' : PState} {wr : Option Store} (h : ObsEqS env cfg a b)
    (hc : CommitOk cfg a) (i : Nat) (ha : pCommit cfg a i = .ok (a', wr)) :
    ∃ b', pCommit cfg b i = .ok (b', wr) ∧ ObsEqS env cfg a' b' := by
  obtain ⟨⟨S₀, h₀⟩, hs⟩ := h
  rcases pCommit_same_binding h₀ hc i with ⟨e', h1, _⟩ | ⟨h1, h2⟩ | ⟨k, v, h1, h2⟩
  · rw [h1] at ha; cases ha
  · have hw : wr = none := by rw [h1] at ha; simp only [Except.ok.injEq, Prod.mk.injEq] at ha; exact ha.2.symm
    subst hw
    obtain ⟨b', hb', hr⟩ := pCommit_obsEq_keep h₀ hc i ha
    refine ⟨b', hb', ⟨S₀, hr⟩, ?_⟩
    rw [h1] at ha; rw [h2] at hb'
    simp only [Except.ok.injEq, Prod.mk.injEq, and_true] at ha hb'
    subst ha; subst hb'
    exact hs
  · have pa := h₀.ia.commit ha
    have pb := h₀.ib.commit h2
    rw [h1] at ha
    simp only [Except.ok.injEq, Prod.mk.injEq] at ha
    obtain ⟨ha1, ha2⟩ := ha
    subst ha1; subst ha2
    refine ⟨{ b with selections := ainsert b.selections k v, buffer := [] }, by rw [h2, hs],
      ⟨ainsert a.selections k v, ⟨pa, ?_, rfl, h₀.ua⟩⟩, ?_⟩
    · rw [hs]; exact pb
    · simp only [hs]

/-! ### 2. whole continuations -/

/-- the calls of the phonetic method whose effect can be observed -/
inductive PEv where
  | key (code sel : Nat)
  | backspace (ctrl : Bool)
  | finish
  | commit (i : Nat)
  deriving DecidableEq, Repr

/-- what the outside sees of one call: the suggestion returned; for `commit` the store handed to
    `fs::write` (if any); a panic ends the run -/
inductive PObs where
  | sugg (s : Sugg)
  | done
  | wrote (st : Option Store)
  | panic (p : Panic)
  deriving DecidableEq, Repr

/-- one call (`step` of Model/Context restricted to the phonetic method, files left out) -/
def pStep (env : Env) (cfg : Cfg) (s : PState) : PEv → Res (PState × PObs)
  | .key k sel => .ok ((pKey env cfg s k sel).1, .sugg (pKey env cfg s k sel).2)
  | .backspace c => .ok ((pBackspace env cfg s c).1, .sugg (pBackspace env cfg s c).2)
  | .finish => .ok (pFinish s, .done)
  | .commit i =>
    match pCommit cfg s i with
    | .error p => .error p
    | .ok r => .ok (r.1, .wrote r.2)

/-- run a list of calls and collect what is observed (up to and including a panic) -/
def pRun (env : Env) (cfg : Cfg) : PState → List PEv → List PObs
  | _, [] => []
  | s, e :: es =>
    match pStep env cfg s e with
    | .error p => [.panic p]
    | .ok r => r.2 :: pRun env cfg r.1 es

/-- is this call in contract in this state (only `commit` has a precondition, `CommitOk`) -/
def evOk (cfg : Cfg) (s : PState) : PEv → Bool
  | .commit _ => !cfg.phoneticSuggestion || pOngoing s
  | _ => true

/-- every `commit` of the run is made in contract -/
def inContract (env : Env) (cfg : Cfg) : PState → List PEv → Bool
  | _, [] => true
  | s, e :: es =>
    evOk cfg s e &&
    match pStep env cfg s e with
    | .error _ => true
    | .ok r => inContract env cfg r.1 es

/-- no `commit` of the run learns (writes) anything -/
def noLearning (env : Env) (cfg : Cfg) : PState → List PEv → Bool
  | _, [] => true
  | s, e :: es =>
    match pStep env cfg s e with
    | .error _ => true
    | .ok r => (match r.2 with | .wrote (some _) => false | _ => true) && noLearning env cfg r.1 es

/-- `evOk` for a commit is `CommitOk` -/
theorem evOk_commit {cfg : Cfg} {s : PState} {i : Nat} (h : evOk cfg s (.commit i) = true) : CommitOk cfg s := by
  intro hon
  simpa [evOk, hon] using h

/-- ONE CALL under the strong relation: the same panic, or the same observation (suggestion
    returned / store written) and strongly related successors -/
theorem pStep_obsEqS {env : Env} {cfg : Cfg} {a b : PState} (h : ObsEqS env cfg a b) (e : PEv)
    (hok : evOk cfg a e = true) :
    (∃ p, pStep env cfg a e = .error p ∧ pStep env cfg b e = .error p) ∨
    (∃ a' b' o, pStep env cfg a e = .ok (a', o) ∧ pStep env cfg b e = .ok (b', o) ∧ ObsEqS env cfg a' b') := by
  cases e with
  | key k sel =>
    obtain ⟨ho, hr⟩ := pKey_obsEqS h k sel
    exact Or.inr ⟨_, _, _, rfl, by simp only [pStep, ho], hr⟩
  | backspace c =>
    obtain ⟨ho, hr⟩ := pBackspace_obsEqS h c
    exact Or.inr ⟨_, _, _, rfl, by simp only [pStep, ho], hr⟩
  | finish => exact Or.inr ⟨_, _, _, rfl, rfl, pFinish_obsEqS h⟩
  | commit i =>
    have hc := evOk_commit hok
    cases ha : pCommit cfg a i with
    | error p =>
      obtain ⟨⟨S₀, h₀⟩, _⟩ := h
      have hb := pCommit_obsEq_error h₀ hc i p ha
      exact Or.inl ⟨p, by simp only [pStep, ha], by simp only [pStep, hb]⟩
    | ok r =>
      obtain ⟨a', wr⟩ := r
      obtain ⟨b', hb, hr⟩ := pCommit_obsEqS h hc i ha
      exact Or.inr ⟨a', b', .wrote wr, by simp only [pStep, ha], by simp only [pStep, hb], hr⟩

/-- ONE CALL under `ObsEq` alone: the same panic, or the same observation and related successors —
    unless the call is a commit that learns -/
theorem pStep_obsEq {env : Env} {cfg : Cfg} {S₀ : Store} {a b : PState} (h : ObsEq env cfg S₀ a b) (e : PEv)
    (hok : evOk cfg a e = true) :
    (∃ p, pStep env cfg a e = .error p ∧ pStep env cfg b e = .error p) ∨
    (∃ a' b' o, pStep env cfg a e = .ok (a', o) ∧ pStep env cfg b e = .ok (b', o) ∧ ObsEq env cfg S₀ a' b') ∨
    (∃ a' st, pStep env cfg a e = .ok (a', .wrote (some st))) := by
  cases e with
  | key k sel =>
    obtain ⟨ho, hr⟩ := pKey_obsEq h k sel
    exact Or.inr (Or.inl ⟨_, _, _, rfl, by simp only [pStep, ho], hr⟩)
  | backspace c =>
    obtain ⟨ho, hr⟩ := pBackspace_obsEq h c
    exact Or.inr (Or.inl ⟨_, _, _, rfl, by simp only [pStep, ho], hr⟩)
  | finish => exact Or.inr (Or.inl ⟨_, _, _, rfl, rfl, pFinish_obsEq h⟩)
  | commit i =>
    have hc := evOk_commit hok
    cases ha : pCommit cfg a i with
    | error p =>
      have hb := pCommit_obsEq_error h hc i p ha
      exact Or.inl ⟨p, by simp only [pStep, ha], by simp only [pStep, hb]⟩
    | ok r =>
      obtain ⟨a', wr⟩ := r
      cases wr with
      | none =>
        obtain ⟨b', hb, hr⟩ := pCommit_obsEq_keep h hc i ha
        exact Or.inr (Or.inl ⟨a', b', .wrote none, by simp only [pStep, ha], by simp only [pStep, hb], hr⟩)
      | some st => exact Or.inr (Or.inr ⟨a', st, by simp only [pStep, ha]⟩)

/-- **p_continuations_equal**: two contexts with the same options, composition, user list and
    in-memory selection store (and the invariants of reachable states) give the SAME observations —
    every suggestion returned, every store written, the same panic if any — on EVERY list of key
    presses, backspaces, finishes and in-contract commits, learning ones included -/
theorem p_continuations_equal {env : Env} {cfg : Cfg} (evs : List PEv) {a b : PState} (h : ObsEqS env cfg a b)
    (hc : inContract env cfg a evs = true) : pRun env cfg a evs = pRun env cfg b evs := by
  induction evs generalizing a b with
  | nil => rfl
  | cons e es ih =>
    simp only [inContract, Bool.and_eq_true] at hc
    obtain ⟨hok, hrest⟩ := hc
    rcases pStep_obsEqS h e hok with ⟨p, ha, hb⟩ | ⟨a', b', o, ha, hb, hr⟩
    · simp only [pRun, ha, hb]
    · rw [ha] at hrest
      simp only [pRun, ha, hb]
      rw [ih hr hrest]

/-- **p_continuations_equal_partial**: under `ObsEq` alone (the in-memory stores may differ in
    derived entries) the observations are the same on every in-contract run in which no commit
    learns.  EXCLUDED: runs containing a learning commit — there the statement is false, see
    `p_continuations_equal_false`. -/
theorem p_continuations_equal_partial {env : Env} {cfg : Cfg} {S₀ : Store} (evs : List PEv) {a b : PState}
    (h : ObsEq env cfg S₀ a b) (hc : inContract env cfg a evs = true) (hn : noLearning env cfg a evs = true) :
    pRun env cfg a evs = pRun env cfg b evs := by
  induction evs generalizing a b with
  | nil => rfl
  | cons e es ih =>
    simp only [inContract, Bool.and_eq_true] at hc
    obtain ⟨hok, hrest⟩ := hc
    simp only [noLearning] at hn
    rcases pStep_obsEq h e hok with ⟨p, ha, hb⟩ | ⟨a', b', o, ha, hb, hr⟩ | ⟨a', st, ha⟩
    · simp only [pRun, ha, hb]
    · rw [ha] at hrest hn
      simp only [Bool.and_eq_true] at hn
      simp only [pRun, ha, hb]
      rw [ih hr hrest hn.2]
    · rw [ha] at hn
      simp at hn

/-- with suggestions off no run learns and every run is in contract … -/
theorem off_runs_free (env : Env) (cfg : Cfg) (hoff : cfg.phoneticSuggestion = false) (evs : List PEv) (s : PState) :
    inContract env cfg s evs = true ∧ noLearning env cfg s evs = true := by
  induction evs generalizing s with
  | nil => exact ⟨rfl, rfl⟩
  | cons e es ih =>
    cases e with
    | key k sel => simpa [inContract, noLearning, evOk, pStep] using ih _
    | backspace c => simpa [inContract, noLearning, evOk, pStep] using ih _
    | finish => simpa [inContract, noLearning, evOk, pStep] using ih _
    | commit i =>
      have : pCommit cfg s i = .ok ({ s with buffer := [] }, none) := by
        rw [pCommit_eq, pLearned_off cfg s i hoff]
      simpa [inContract, noLearning, evOk, pStep, this, hoff] using ih _

/-- … so with suggestions off `ObsEq` contexts agree on EVERY run -/
theorem p_continuations_equal_off {env : Env} {cfg : Cfg} {S₀ : Store} (evs : List PEv) {a b : PState}
    (h : ObsEq env cfg S₀ a b) (hoff : cfg.phoneticSuggestion = false) :
    pRun env cfg a evs = pRun env cfg b evs :=
  p_continuations_equal_partial evs h (off_runs_free env cfg hoff evs a).1 (off_runs_free env cfg hoff evs a).2

/-! ### 3. a context whose word has ended is as good as new -/

/-- the four ways a word ends: `Terminates env cfg s s' wr` — from `s` the call leads to `s'` and
    hands `wr` to `fs::write`.  Commit (learning or not), finish, ctrl-backspace, and a plain
    backspace after which the composition is empty. -/
inductive Terminates (env : Env) (cfg : Cfg) (s : PState) : PState → Option Store → Prop
  | commit (i : Nat) (s' : PState) (wr : Option Store) : pCommit cfg s i = .ok (s', wr) → Terminates env cfg s s' wr
  | finish : Terminates env cfg s (pFinish s) none
  | ctrlBackspace : Terminates env cfg s (pBackspace env cfg s true).1 none
  | backspaceEmpty : (pBackspace env cfg s false).1.buffer = [] → Terminates env cfg s (pBackspace env cfg s false).1 none

/-- after each of them the session flag is down -/
theorem terminated_not_ongoing {env : Env} {cfg : Cfg} {s s' : PState} {wr : Option Store}
    (ht : Terminates env cfg s s' wr) : pOngoing s' = false := by
  cases ht with
  | commit i s' wr hc => exact C06.p_commit_clears cfg s s' i wr hc
  | finish => exact C06.p_finish_clears s
  | ctrlBackspace => exact C06.p_ctrl_backspace_clears env cfg s
  | backspaceEmpty hb => simp [pOngoing, hb]

/-- a learning commit leaves exactly the written store in memory -/
theorem commit_written_is_memory {cfg : Cfg} {s s' : PState} {i : Nat} {st : Store}
    (hc : pCommit cfg s i = .ok (s', some st)) : s'.selections = st := by
  rw [pCommit_eq] at hc
  cases hl : pLearned cfg s i with
  | error e => rw [hl] at hc; cases hc
  | ok o =>
    rw [hl] at hc
    cases o with
    | none => simp at hc
    | some kv =>
      simp only [Except.ok.injEq, Prod.mk.injEq, Option.some.injEq] at hc
      obtain ⟨h1, h2⟩ := hc
      subst h1; exact h2

/-- after a terminating call the invariant holds for the effective store after the call: the written
    store for a learning commit, else the old one -/
theorem terminated_inv {env : Env} {cfg : Cfg} {S₀ : Store} {s s' : PState} {wr : Option Store}
    (h : PInv env cfg S₀ s) (ht : Terminates env cfg s s' wr) : PInv env cfg (wr.getD S₀) s' := by
  cases ht with
  | commit i s' wr hc =>
    cases wr with
    | none => exact h.commitKeep hc
    | some st =>
      have := h.commit hc
      have hst : s'.selections = st := commit_written_is_memory hc
      rw [hst] at this
      exact this
  | finish => exact h.finish
  | ctrlBackspace => exact h.backspace true
  | backspaceEmpty _ => exact h.backspace false

/-- an idle context is `ObsEq` to a context newly created over files whose selections file holds
    the effective store and whose user auto-correct list is the one in use -/
theorem idle_is_fresh {env : Env} {cfg : Cfg} {S₀ : Store} {s : PState} (h : PInv env cfg S₀ s) (hb : s.buffer = [])
    (fs : FS) (hsel : fs.sel.content = S₀) (hua : (pNew fs).userAutocorrect = s.userAutocorrect) :
    ObsEq env cfg S₀ s (pNew fs) :=
  ⟨h, hsel ▸ PInv.new env cfg fs, hb, hua.symm⟩

/-- an idle context is STRONGLY related to a context newly created over files whose selections file
    holds the in-memory store (learned and derived entries) -/
theorem idle_is_fresh_strong {env : Env} {cfg : Cfg} {S₀ : Store} {s : PState} (h : PInv env cfg S₀ s)
    (hb : s.buffer = []) (fs : FS) (hsel : fs.sel.content = s.selections)
    (hua : (pNew fs).userAutocorrect = s.userAutocorrect) : ObsEqS env cfg s (pNew fs) :=
  ⟨⟨s.selections, idle_is_fresh (h.reindex_idle hb) hb fs hsel hua⟩, hsel.symm⟩

/-- **p_terminated_is_fresh**: let a reachable phonetic context end its word by a commit (learning
    or not), finish, ctrl-backspace or an emptying backspace.  It then reports no ongoing session,
    and it is `ObsEq` to the context `pNew fs'` created over the user files after the call PROVIDED
    the selections file holds the effective store — the store written by a learning commit (i.e.
    the save succeeded), else the old effective store `S₀` — and the user auto-correct file is the
    one loaded.  The file hypothesis cannot be dropped: a failed save, a file changed by another
    process or a never-written entry make the two differ (`C11.selections_not_reread`,
    `C11.selections_not_reread_observable`). -/
theorem p_terminated_is_fresh {env : Env} {cfg : Cfg} {S₀ : Store} {s s' : PState} {wr : Option Store}
    (r : Reach env cfg S₀ s) (ht : Terminates env cfg s s' wr) (fs' : FS)
    (hsel : fs'.sel.content = wr.getD S₀) (hua : (pNew fs').userAutocorrect = s'.userAutocorrect) :
    pOngoing s' = false ∧ ObsEq env cfg (wr.getD S₀) s' (pNew fs') := by
  have hng := terminated_not_ongoing ht
  have hb : s'.buffer = [] := by simpa [pOngoing] using hng
  exact ⟨hng, idle_is_fresh (terminated_inv (PInv.of_reach r) ht) hb fs' hsel hua⟩

/-- **p_terminated_is_fresh_strong**: if the selections file holds the whole in-memory store (no
    derived entry is waiting to be written) the ended context and the new one are strongly related:
    they agree on every in-contract continuation, learning commits included -/
theorem p_terminated_is_fresh_strong {env : Env} {cfg : Cfg} {S₀ : Store} {s s' : PState} {wr : Option Store}
    (r : Reach env cfg S₀ s) (ht : Terminates env cfg s s' wr) (fs' : FS)
    (hsel : fs'.sel.content = s'.selections) (hua : (pNew fs').userAutocorrect = s'.userAutocorrect) :
    pOngoing s' = false ∧ ObsEqS env cfg s' (pNew fs') := by
  have hng := terminated_not_ongoing ht
  have hb : s'.buffer = [] := by simpa [pOngoing] using hng
  exact ⟨hng, idle_is_fresh_strong (terminated_inv (PInv.of_reach r) ht) hb fs' hsel hua⟩

/-- a LEARNING commit whose save succeeded (the file now parses to the written store): the context
    and a new one are strongly related, no further hypothesis on the store -/
theorem p_learning_commit_is_fresh {env : Env} {cfg : Cfg} {S₀ : Store} {s s' : PState} {i : Nat} {st : Store}
    (r : Reach env cfg S₀ s) (hc : pCommit cfg s i = .ok (s', some st)) (fs' : FS)
    (hsel : fs'.sel = .parsed st) (hua : (pNew fs').userAutocorrect = s'.userAutocorrect) :
    pOngoing s' = false ∧ ObsEqS env cfg s' (pNew fs') :=
  p_terminated_is_fresh_strong r (.commit i s' (some st) hc) fs'
    (by rw [hsel, commit_written_is_memory hc]; rfl) hua

/-- hence: after the word has ended, every in-contract continuation without a learning commit is
    answered by the used context exactly as by the new one -/
theorem p_terminated_continuations {env : Env} {cfg : Cfg} {S₀ : Store} {s s' : PState} {wr : Option Store}
    (r : Reach env cfg S₀ s) (ht : Terminates env cfg s s' wr) (fs' : FS)
    (hsel : fs'.sel.content = wr.getD S₀) (hua : (pNew fs').userAutocorrect = s'.userAutocorrect)
    (evs : List PEv) (hc : inContract env cfg s' evs = true) (hn : noLearning env cfg s' evs = true) :
    pRun env cfg s' evs = pRun env cfg (pNew fs') evs :=
  p_continuations_equal_partial evs (p_terminated_is_fresh r ht fs' hsel hua).2 hc hn

/-- … and EVERY in-contract continuation when the file holds the in-memory store -/
theorem p_terminated_continuations_strong {env : Env} {cfg : Cfg} {S₀ : Store} {s s' : PState} {wr : Option Store}
    (r : Reach env cfg S₀ s) (ht : Terminates env cfg s s' wr) (fs' : FS)
    (hsel : fs'.sel.content = s'.selections) (hua : (pNew fs').userAutocorrect = s'.userAutocorrect)
    (evs : List PEv) (hc : inContract env cfg s' evs = true) :
    pRun env cfg s' evs = pRun env cfg (pNew fs') evs :=
  p_continuations_equal evs (p_terminated_is_fresh_strong r ht fs' hsel hua).2 hc

/-- with suggestions on, a plain backspace that returns the empty suggestion has emptied the
    composition (so it is one of the terminating events; with suggestions off this fails, see
    `C06.p_empty_suggestion_but_ongoing`) -/
theorem backspace_empty_on {env : Env} {cfg : Cfg} {s : PState} (hon : cfg.phoneticSuggestion = true)
    (h : (pBackspace env cfg s false).2 = Sugg.empty) : (pBackspace env cfg s false).1.buffer = [] := by
  rw [pBackspace_buffer]
  simp only [Bool.false_eq_true, if_false]
  unfold pBackspace at h
  split at h
  · simp only [Bool.false_eq_true, if_false] at h
    split at h
    · rename_i he; simpa using he
    · rw [pCreate_on env cfg _ hon] at h
      simp [Sugg.empty] at h
  · rename_i he
    have : s.buffer = [] := by simpa using he
    simp [this]

/-! ### 3'. at the level of the API (`step`): the file hypothesis is kept by the engine itself -/

/-- the phonetic calls as API events (the modifier byte is not read by the phonetic method) -/
def PEv.toEvent (modifier : Nat) : PEv → Event
  | .key code sel => .key code modifier sel
  | .backspace ctrl => .backspace ctrl
  | .finish => .finish
  | .commit i => .commit i

/-- the user files after a call: a written store replaces the selections file when the write succeeds -/
def fsAfter (fs : FS) : PObs → FS
  | .wrote (some st) => if fs.writable then { fs with sel := .parsed st } else fs
  | _ => fs

/-- the API output of a call -/
def PObs.toOut : PObs → Out
  | .sugg s => .sugg s
  | _ => .unit

/-- `pStep` is `step` of Model/Context on a phonetic context (state, files, output, panic) -/
theorem step_is_pStep (w : World) (c : Ctx) (fs : FS) (e : PEv) (modifier : Nat) (s : PState) (hm : c.m = .phonetic s) :
    step w c fs (e.toEvent modifier) =
      match pStep w.env c.cfg s e with
      | .error p => .error p
      | .ok r => .ok ({ c with m := .phonetic r.1 }, fsAfter fs r.2, r.2.toOut) := by
  cases e with
  | key code sel => simp only [PEv.toEvent, step, hm, pStep, fsAfter, PObs.toOut]
  | backspace ctrl => simp only [PEv.toEvent, step, hm, pStep, fsAfter, PObs.toOut]
  | finish => simp only [PEv.toEvent, step, hm, pStep, fsAfter, PObs.toOut]
  | commit i =>
    simp only [PEv.toEvent, step, hm, pStep]
    cases pCommit c.cfg s i with
    | error p => rfl
    | ok r =>
      obtain ⟨s', wr⟩ := r
      cases wr <;> rfl

/-- **the file hypothesis is an invariant of the engine**: if the selections file holds the effective
    store before a call (key, backspace, commit, finish) and the file is writable, then after the
    call the context is reachable for the store the file holds NOW; and if the context is idle after
    the call it is `ObsEq` to the context `new` would create over the files as they are now
    (provided the user auto-correct file is still the one loaded).  Failed saves and foreign edits
    are what breaks the hypothesis (`C11.selections_not_reread`). -/
theorem idle_after_step_is_fresh (w : World) (c c' : Ctx) (fs fs' : FS) (e : PEv) (modifier : Nat) (o : Out)
    (S₀ : Store) (s s' : PState) (hm : c.m = .phonetic s) (r : Reach w.env c.cfg S₀ s)
    (hfile : fs.sel.content = S₀) (hw : fs.writable = true)
    (hst : step w c fs (e.toEvent modifier) = .ok (c', fs', o)) (hm' : c'.m = .phonetic s') :
    c'.cfg = c.cfg ∧ Reach w.env c.cfg fs'.sel.content s' ∧
    (c'.ongoing = false → (pNew fs').userAutocorrect = s'.userAutocorrect →
      ObsEq w.env c.cfg fs'.sel.content s' (pNew fs')) := by
  have key : c'.cfg = c.cfg ∧ Reach w.env c.cfg fs'.sel.content s' := by
    rw [step_is_pStep w c fs e modifier s hm] at hst
    cases e with
    | key code sel =>
      simp only [pStep, fsAfter, Except.ok.injEq, Prod.mk.injEq] at hst
      obtain ⟨rfl, rfl, _⟩ := hst
      simp only [MState.phonetic.injEq] at hm'
      subst hm'
      exact ⟨rfl, hfile ▸ Reach.key code sel r⟩
    | backspace ctrl =>
      simp only [pStep, fsAfter, Except.ok.injEq, Prod.mk.injEq] at hst
      obtain ⟨rfl, rfl, _⟩ := hst
      simp only [MState.phonetic.injEq] at hm'
      subst hm'
      exact ⟨rfl, hfile ▸ Reach.backspace ctrl r⟩
    | finish =>
      simp only [pStep, fsAfter, Except.ok.injEq, Prod.mk.injEq] at hst
      obtain ⟨rfl, rfl, _⟩ := hst
      simp only [MState.phonetic.injEq] at hm'
      subst hm'
      exact ⟨rfl, hfile ▸ Reach.finish r⟩
    | commit i =>
      simp only [pStep] at hst
      cases hc : pCommit c.cfg s i with
      | error p => rw [hc] at hst; cases hst
      | ok v =>
        obtain ⟨s'', wr⟩ := v
        rw [hc] at hst
        cases wr with
        | none =>
          simp only [fsAfter, Except.ok.injEq, Prod.mk.injEq] at hst
          obtain ⟨rfl, rfl, _⟩ := hst
          simp only [MState.phonetic.injEq] at hm'
          subst hm'
          exact ⟨rfl, hfile ▸ Reach.commitKeep i r hc⟩
        | some st =>
          simp only [fsAfter, hw, if_true, Except.ok.injEq, Prod.mk.injEq] at hst
          obtain ⟨rfl, rfl, _⟩ := hst
          simp only [MState.phonetic.injEq] at hm'
          subst hm'
          refine ⟨rfl, ?_⟩
          have := Reach.commitLearn i st r hc
          rw [commit_written_is_memory hc] at this
          exact this
  refine ⟨key.1, key.2, fun hidle hua => ?_⟩
  have hb : s'.buffer = [] := by simpa [Ctx.ongoing, hm', pOngoing] using hidle
  exact idle_is_fresh (PInv.of_reach key.2) hb fs' rfl hua

/-! ### 5. non-vacuity, and the limit of `ObsEq` -/

/-- `a b c` typed into a new context of the small world of C05 -/
def typedAbc : PState := press (press (press (pNew wFs) 41110) 41111) 41112

/-- … is reachable -/
theorem typedAbc_reach : Reach wEnv wCfg [(['a', 'b'], ['y'])] typedAbc :=
  .key 41112 0 (.key 41111 0 (.key 41110 0 (.new wCfg wFs)))

/-- a used context in the small world of C05 (`ab ↦ y` learned, `c` a suffix): `a b c` typed and
    finished — its memo has three entries and its store the derived entry `abc ↦ yZ` -/
def usedCtx : PState := pFinish typedAbc

/-- a context newly created over the same files -/
def freshCtx : PState := pNew wFs

/-- the used context is reachable -/
theorem usedCtx_reach : Reach wEnv wCfg [(['a', 'b'], ['y'])] usedCtx := .finish typedAbc_reach

/-- NON-VACUITY: the used context and the new one are `ObsEq` although they differ in memo, store
    and stale list; the hypotheses of `p_terminated_is_fresh` hold for `finish`; and they answer
    `a b c` identically (here: the derived preselection 1 for `abc`) -/
example :
    ObsEq wEnv wCfg [(['a', 'b'], ['y'])] usedCtx freshCtx ∧
    usedCtx.cache.length = 3 ∧ freshCtx.cache.length = 0 ∧
    usedCtx.selections.length = 2 ∧ freshCtx.selections.length = 1 ∧
    usedCtx.suggestions.length = 3 ∧ freshCtx.suggestions.length = 0 ∧
    pRun wEnv wCfg usedCtx [.key 41110 0, .key 41111 0, .key 41112 0, .backspace false, .commit 1] =
      pRun wEnv wCfg freshCtx [.key 41110 0, .key 41111 0, .key 41112 0, .backspace false, .commit 1] ∧
    (pRun wEnv wCfg freshCtx [.key 41110 0, .key 41111 0, .key 41112 0])[2]? =
      some (.sugg (.full ['a', 'b', 'c'] [['x', 'Z'], ['y', 'Z'], ['a', 'b', 'c']] 1 false)) := by
  have hsel : wFs.sel.content = (none : Option Store).getD [(['a', 'b'], ['y'])] := by decide
  have hua : (pNew wFs).userAutocorrect = usedCtx.userAutocorrect := by decide
  have h : ObsEq wEnv wCfg [(['a', 'b'], ['y'])] usedCtx freshCtx :=
    (p_terminated_is_fresh typedAbc_reach .finish wFs hsel hua).2
  refine ⟨h, by decide, by decide, by decide, by decide, by decide, by decide, ?_, by decide⟩
  exact p_continuations_equal_partial _ h (by decide) (by decide)

/-- the same by hand: both are reachable for the same options and effective store -/
example : ObsEq wEnv wCfg [(['a', 'b'], ['y'])] usedCtx freshCtx :=
  ObsEq.of_reach usedCtx_reach (.new wCfg wFs) (by decide) (by decide)

/-- **p_continuations_equal_false** — the full-strength statement (`ObsEq` contexts agree on every
    in-contract continuation) is FALSE (known finding, the C06 face of
    `C09.derived_entry_shadows_relearning`).  The used context still holds the derived entry
    `abc ↦ yZ`, never written to the file.  Both contexts are asked: `a b`, commit candidate 0 (`x`
    instead of the preselected `y` — a learning commit, the same binding `ab ↦ x` on both sides),
    then `a b c`.  They write different stores, and for `abc` the used context preselects the
    stale `yZ` (index 1) while the new one derives `xZ` (index 0): something of the old word leaked
    into a later one. -/
theorem p_continuations_equal_false :
    let evs : List PEv := [.key 41110 0, .key 41111 0, .commit 0, .key 41110 0, .key 41111 0, .key 41112 0]
    ObsEq wEnv wCfg [(['a', 'b'], ['y'])] usedCtx freshCtx ∧
    inContract wEnv wCfg usedCtx evs = true ∧
    pRun wEnv wCfg usedCtx evs ≠ pRun wEnv wCfg freshCtx evs ∧
    (pRun wEnv wCfg usedCtx evs)[2]? = some (.wrote (some [(['a', 'b'], ['x']), (['a', 'b', 'c'], ['y', 'Z'])])) ∧
    (pRun wEnv wCfg freshCtx evs)[2]? = some (.wrote (some [(['a', 'b'], ['x'])])) ∧
    (pRun wEnv wCfg usedCtx evs)[5]? =
      some (.sugg (.full ['a', 'b', 'c'] [['x', 'Z'], ['y', 'Z'], ['a', 'b', 'c']] 1 false)) ∧
    (pRun wEnv wCfg freshCtx evs)[5]? =
      some (.sugg (.full ['a', 'b', 'c'] [['x', 'Z'], ['y', 'Z'], ['a', 'b', 'c']] 0 false)) := by
  refine ⟨ObsEq.of_reach usedCtx_reach (.new wCfg wFs) (by decide) (by decide),
    by decide, by decide, by decide, by decide, by decide, by decide⟩

/-- the negation in quantified form: `ObsEq` is not enough for all in-contract continuations -/
theorem p_continuations_equal_not_obsEq :
    ¬ (∀ (env : Env) (cfg : Cfg) (S₀ : Store) (a b : PState) (evs : List PEv), ObsEq env cfg S₀ a b →
        inContract env cfg a evs = true → pRun env cfg a evs = pRun env cfg b evs) := by
  intro h
  obtain ⟨h1, h2, h3, _⟩ := p_continuations_equal_false
  exact h3 (h _ _ _ _ _ _ h1 h2)

/-- the user files after the used context's store has been written out -/
def usedFs : FS := { sel := .parsed usedCtx.selections }

/-- … while the strong relation does hold once the pending entry has been written: a used context
    and the new context created over the file it wrote agree on the same run -/
example :
    let evs : List PEv := [.key 41110 0, .key 41111 0, .commit 0, .key 41110 0, .key 41111 0, .key 41112 0]
    ObsEqS wEnv wCfg usedCtx (pNew usedFs) ∧ pRun wEnv wCfg usedCtx evs = pRun wEnv wCfg (pNew usedFs) evs := by
  have hsel : usedFs.sel.content = usedCtx.selections := rfl
  have hua : (pNew usedFs).userAutocorrect = usedCtx.userAutocorrect := by decide
  have h : ObsEqS wEnv wCfg usedCtx (pNew usedFs) :=
    (p_terminated_is_fresh_strong typedAbc_reach .finish usedFs hsel hua).2
  exact ⟨h, p_continuations_equal _ h (by decide)⟩

end Riti.C06P
