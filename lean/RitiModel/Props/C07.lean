/-
Props/C07 — phonetic candidates are ranked best-first by a fixed, explainable order.
Part A: the comparator (`impl Ord for Rank`, from the GENERATED arm table `Gen.cmpArm`).
Part B: the stable sort.  Part C: the six clauses about `suggestList`.
-/
import RitiModel.Model.Phonetic
import RitiModel.Lemmas.Rank
import RitiModel.Lemmas.Phonetic
import RitiModel.Lemmas.Sort
namespace Riti.C07
open Riti Riti.Gen

/-! ## A. the comparator -/

/-- the class order of `impl Ord for Rank`: the auto-correct item is strictly below everything
    else, the `Last` items strictly above everything else and ordered by their number, dictionary
    words ordered by their number, emoji mutually equal, and an emoji against a dictionary word
    compares the two numbers.  (Read off the generated arms: flipping an arm breaks this.) -/
theorem class_order :
    (∀ a b : Rank, a.variant = .first → b.variant ≠ .first → a.cmp b = .lt ∧ b.cmp a = .gt) ∧
    (∀ a b : Rank, a.variant ≠ .last → b.variant = .last → a.cmp b = .lt ∧ b.cmp a = .gt) ∧
    (∀ s t, (Rank.first s).cmp (.first t) = .eq) ∧
    (∀ s t m n, (Rank.last s m).cmp (.last t n) = natCmp m n) ∧
    (∀ s t m n, (Rank.other s m).cmp (.other t n) = natCmp m n) ∧
    (∀ s t m n, (Rank.emoji s m).cmp (.emoji t n) = .eq) ∧
    (∀ s t e n, (Rank.emoji s e).cmp (.other t n) = natCmp e n) ∧
    (∀ s t e n, (Rank.other t n).cmp (.emoji s e) = natCmp n e) := by
  refine ⟨?_, ?_, fun _ _ => rfl, fun _ _ _ _ => rfl, fun _ _ _ _ => rfl, fun _ _ _ _ => rfl,
    fun _ _ _ _ => rfl, fun _ _ _ _ => rfl⟩
  · intro a b ha hb
    cases a <;> cases b <;> simp_all [Rank.cmp, Rank.variant, cmpArm]
  · intro a b ha hb
    cases a <;> cases b <;> simp_all [Rank.cmp, Rank.variant, cmpArm]

/-- swapping the arguments of the comparator swaps `Less` and `Greater` -/
theorem cmp_lt_iff_gt (a b : Rank) : a.cmp b = .lt ↔ b.cmp a = .gt := by
  cases a <;> cases b <;> simp [Rank.cmp, Rank.variant, Rank.num, cmpArm]

/-- `Equal` is symmetric -/
theorem cmp_eq_symm (a b : Rank) : a.cmp b = .eq ↔ b.cmp a = .eq := by
  cases a <;> cases b <;> simp [Rank.cmp, Rank.variant, Rank.num, cmpArm] <;> omega

/-- the comparator is antisymmetric in the sense `Ord` requires: `a < b ⇔ b > a`, `a = b ⇔ b = a` -/
theorem cmp_antisymm (a b : Rank) :
    (a.cmp b = .lt ↔ b.cmp a = .gt) ∧ (a.cmp b = .eq ↔ b.cmp a = .eq) :=
  ⟨cmp_lt_iff_gt a b, cmp_eq_symm a b⟩

/-- every candidate compares `Equal` to itself -/
theorem cmp_refl (a : Rank) : a.cmp a = .eq := by
  cases a <;> simp [Rank.cmp, Rank.variant, Rank.num, cmpArm]

/-- any two candidates are comparable -/
theorem le_total (a b : Rank) : a.le b = true ∨ b.le a = true := by
  unfold Rank.le
  cases h : a.cmp b
  · simp
  · simp
  · right
    have : b.cmp a = .lt := (cmp_lt_iff_gt b a).mpr h
    simp [this]

/-- "not strictly below" is "above or equal" -/
theorem le_of_not_lt {a b : Rank} (h : b.cmp a ≠ .lt) : a.le b = true := by
  unfold Rank.le
  cases h' : a.cmp b
  · simp
  · simp
  · exact absurd ((cmp_lt_iff_gt b a).mpr h') h

/-- strictly below implies below-or-equal -/
theorem le_of_lt {a b : Rank} (h : a.cmp b = .lt) : a.le b = true := by
  simp [Rank.le, h]

/-- every dictionary rank number in the list is below all emoji rank numbers in it, or above all
    of them, or equal to all of them -/
def RanksSeparated (l : List Rank) : Prop :=
  ∀ s n, Rank.other s n ∈ l →
    (∀ t e, Rank.emoji t e ∈ l → n < e) ∨ (∀ t e, Rank.emoji t e ∈ l → e < n) ∨
      (∀ t e, Rank.emoji t e ∈ l → n = e)

/-- on the members of a separated list "less or equal" is transitive — together with `cmp_refl`,
    `le_total` and `cmp_antisymm` the comparator is a total preorder there, so "the" stable sort is
    well defined (and `slice::sort` cannot meet an inconsistent order) -/
theorem le_trans_of_separated {l : List Rank} (hsep : RanksSeparated l) {a b c : Rank}
    (ha : a ∈ l) (hb : b ∈ l) (hc : c ∈ l) (hab : a.le b = true) (hbc : b.le c = true) :
    a.le c = true := by
  cases a <;> cases b <;> cases c <;>
    simp [Rank.le, Rank.cmp, Rank.variant, Rank.num, cmpArm] at hab hbc ⊢ <;>
    first
    | omega
    | skip
  · -- emoji ≤ emoji ≤ other
    rename_i s1 e1 s2 e2 s3 n
    rcases hsep s3 n hc with h | h | h
    · have := h s2 e2 hb; omega
    · have := h s1 e1 ha; omega
    · have := h s1 e1 ha; omega
  · -- other ≤ emoji ≤ emoji
    rename_i s1 n s2 e2 s3 e3
    rcases hsep s1 n ha with h | h | h
    · have := h s3 e3 hc; omega
    · have := h s2 e2 hb; omega
    · have := h s3 e3 hc; omega

/-- without separation the comparator is NOT a preorder: `Other 10 ≤ Emoji 10 ≤ Emoji 1` but
    `Other 10 > Emoji 1` (known finding: `Emoji`/`Emoji` is `Equal` whatever the numbers) -/
theorem not_preorder_witness :
    (Rank.other [] 10).le (.emoji [] 10) = true ∧ (Rank.emoji [] 10).le (.emoji [] 1) = true ∧
      (Rank.other [] 10).le (.emoji [] 1) = false := by decide

/-- … and `Equal` is not transitive either -/
theorem eq_not_transitive_witness :
    (Rank.other [] 10).cmp (.emoji [] 10) = .eq ∧ (Rank.emoji [] 10).cmp (.emoji [] 1) = .eq ∧
      (Rank.other [] 10).cmp (.emoji [] 1) = .gt := by decide

/-- when no `as u8` wrap-around happened (dictionary numbers are multiples of 10 below 256) and the
    emoji numbers are 1…9, the list is separated -/
theorem separated_of_nowrap (l : List Rank)
    (ho : ∀ s n, Rank.other s n ∈ l → n % 10 = 0 ∧ n < 256)
    (he : ∀ s e, Rank.emoji s e ∈ l → 1 ≤ e ∧ e ≤ 9) : RanksSeparated l := by
  intro s n hn
  have h1 := (ho s n hn).1
  by_cases h0 : n = 0
  · exact Or.inl (fun t e hm => by have := he t e hm; omega)
  · exact Or.inr (Or.inl (fun t e hm => by have := he t e hm; omega))

/-- separation is inherited by every list with fewer members -/
theorem RanksSeparated.of_subset {l l' : List Rank} (h : RanksSeparated l) (hs : ∀ x ∈ l', x ∈ l) :
    RanksSeparated l' := by
  intro s n hn
  rcases h s n (hs _ hn) with h1 | h1 | h1
  · exact Or.inl (fun t e hm => h1 t e (hs _ hm))
  · exact Or.inr (Or.inl (fun t e hm => h1 t e (hs _ hm)))
  · exact Or.inr (Or.inr (fun t e hm => h1 t e (hs _ hm)))

/-! ## B. the stable sort -/

/-- the sorted list is ascending: every item is `≤` every later one -/
theorem sortStable_sorted {l : List Rank} (hsep : RanksSeparated l) :
    (sortStable l).Pairwise (fun a b => a.le b = true) := by
  apply sortStable_pairwise
  · exact fun a ha b hb c hc => le_trans_of_separated hsep ha hb hc
  · exact fun a _ b _ h => le_of_lt h
  · exact List.pairwise_of_forall_mem_list (fun a _ b _ h => le_of_not_lt h)

/-- on a separated list `Equal` is transitive (an equivalence, with `cmp_refl` and `cmp_eq_symm`) -/
theorem eq_trans_of_separated {l : List Rank} (hsep : RanksSeparated l) {a b c : Rank}
    (ha : a ∈ l) (hb : b ∈ l) (hc : c ∈ l) (hab : a.cmp b = .eq) (hbc : b.cmp c = .eq) :
    a.cmp c = .eq := by
  have h1 := le_trans_of_separated hsep ha hb hc (by simp [Rank.le, hab]) (by simp [Rank.le, hbc])
  have h2 := le_trans_of_separated hsep hc hb ha (by simp [Rank.le, (cmp_eq_symm b c).mp hbc])
    (by simp [Rank.le, (cmp_eq_symm a b).mp hab])
  cases h : a.cmp c
  · have := (cmp_lt_iff_gt a c).mp h
    simp [Rank.le, this] at h2
  · rfl
  · simp [Rank.le, h] at h1

/-- on a separated list the comparator is a total preorder and `Equal` is an equivalence: reflexive,
    total, transitive (on the members), `Equal` symmetric and transitive -/
theorem cmp_total_preorder {l : List Rank} (hsep : RanksSeparated l) :
    (∀ a : Rank, a.cmp a = .eq) ∧ (∀ a b : Rank, a.le b = true ∨ b.le a = true) ∧
    (∀ a ∈ l, ∀ b ∈ l, ∀ c ∈ l, a.le b = true → b.le c = true → a.le c = true) ∧
    (∀ a b : Rank, a.cmp b = .eq ↔ b.cmp a = .eq) ∧
    (∀ a ∈ l, ∀ b ∈ l, ∀ c ∈ l, a.cmp b = .eq → b.cmp c = .eq → a.cmp c = .eq) :=
  ⟨cmp_refl, le_total, fun _ ha _ hb _ hc => le_trans_of_separated hsep ha hb hc, cmp_eq_symm,
    fun _ ha _ hb _ hc => eq_trans_of_separated hsep ha hb hc⟩

/-- stability: the items that compare `Equal` to `x` keep their input order (`x` from the list, or
    any `x` that keeps the list separated) -/
theorem sortStable_stable {l : List Rank} (x : Rank) (hsep : RanksSeparated (x :: l)) :
    (sortStable l).filter (fun y => y.cmp x == .eq) = l.filter (fun y => y.cmp x == .eq) := by
  apply sortStable_filter
  apply List.pairwise_of_forall_mem_list
  intro a ha b hb hax hbx
  have hax' : a.cmp x = .eq := by simpa using hax
  have hbx' : b.cmp x = .eq := by simpa using hbx
  have := eq_trans_of_separated hsep (List.mem_cons_of_mem _ hb) (List.mem_cons_self) (List.mem_cons_of_mem _ ha)
    hbx' ((cmp_eq_symm a x).mp hax')
  simp [this]

/-- stability for a reference item taken from the list itself -/
theorem sortStable_stable_mem {l : List Rank} (hsep : RanksSeparated l) (x : Rank) (hx : x ∈ l) :
    (sortStable l).filter (fun y => y.cmp x == .eq) = l.filter (fun y => y.cmp x == .eq) :=
  sortStable_stable x (hsep.of_subset (by intro y hy; rcases List.mem_cons.mp hy with rfl | h <;> assumption))

/-- for a reference item that breaks the separation, "the class of `x`" is not a class and its
    members may be reordered: `Other 3`, `Emoji 4` are both `Equal` to `Emoji 3` but are swapped -/
theorem sortStable_stable_needs_separation :
    let l := [Rank.emoji ['a'] 4, Rank.other ['b'] 3]
    let x := Rank.emoji [] 3
    RanksSeparated l ∧
      (sortStable l).filter (fun y => y.cmp x == .eq) ≠ l.filter (fun y => y.cmp x == .eq) := by
  refine ⟨?_, by decide⟩
  intro s n hn
  simp at hn
  refine Or.inl (fun t e he => ?_)
  simp at he
  omega

/-- an item that nothing else is strictly below stays first -/
theorem sortStable_head (x : Rank) (l : List Rank) (h : ∀ y ∈ l, y.cmp x ≠ .lt) :
    sortStable (x :: l) = x :: sortStable l := sortStable_cons_min x l h

/-- a final item that is strictly below nothing stays last -/
theorem sortStable_last (x : Rank) (l : List Rank) (h : ∀ y ∈ l, x.cmp y ≠ .lt) :
    sortStable (l ++ [x]) = sortStable l ++ [x] := sortStable_append_max x l h


/-! ## C. the candidate list -/

/-- the candidate list before the sort -/
def unsorted (env : Env) (cfg : Cfg) (cache : Memo) (term : Str) : List Rank :=
  addExtras env cfg term (preparedParts env cfg term) (dictList env cache (preparedParts env cfg term))

/-- the list handed to the front-end is the stable sort of `unsorted` -/
theorem suggestList_eq (env : Env) (cfg : Cfg) (cache : Memo) (term : Str) :
    suggestList env cfg cache term = sortStable (unsorted env cfg cache term) := rfl

/-- the sort is ascending for every numeric key that the comparator refines on the input -/
theorem sortStable_key (key : Rank → Nat) (l : List Rank)
    (h : ∀ a ∈ l, ∀ b ∈ l, key a < key b → a.cmp b = .lt) :
    (sortStable l).Pairwise (fun a b => key a ≤ key b) := by
  apply sortStable_pairwise
  · exact fun a _ b _ c _ h1 h2 => Nat.le_trans h1 h2
  · intro a ha b hb hlt
    apply Nat.le_of_not_lt
    intro hk
    have := (cmp_lt_iff_gt b a).mp (h b hb a ha hk)
    rw [hlt] at this; cases this
  · apply List.pairwise_of_forall_mem_list
    intro a ha b hb hnl
    apply Nat.le_of_not_lt
    intro hk
    exact hnl (h b hb a ha hk)

/-- the coarse class of a candidate: auto-correct, then words and emoji, then the `Last` items by number -/
def classKey : Rank → Nat
  | .first _ => 0 | .emoji _ _ => 1 | .other _ _ => 1 | .last _ n => 2 + n

/-- the comparator refines the coarse class order (read off the generated arms) -/
theorem cmp_lt_of_classKey_lt (a b : Rank) (h : classKey a < classKey b) : a.cmp b = .lt := by
  cases a <;> cases b <;> simp [classKey, Rank.cmp, Rank.variant, Rank.num, cmpArm] at h ⊢ <;> omega

/-- for EVERY input, memo and option vector the returned list is ascending in the coarse class
    (no separation hypothesis: the comparator refines the class order even where it is not a preorder) -/
theorem c07_class_sorted (env : Env) (cfg : Cfg) (cache : Memo) (term : Str) :
    (suggestList env cfg cache term).Pairwise (fun a b => classKey a ≤ classKey b) :=
  sortStable_key classKey _ (fun a _ b _ => cmp_lt_of_classKey_lt a b)

/-- every dictionary word and every auto-correct item stands before the plain transliteration
    (`Last _ 2`) — indeed before every `Last` item, for EVERY input, memo and option vector -/
theorem c07_translit_after_dict (env : Env) (cfg : Cfg) (cache : Memo) (term : Str)
    (i j : Nat) (hi : i < (suggestList env cfg cache term).length) (hj : j < (suggestList env cfg cache term).length)
    (h1 : (suggestList env cfg cache term)[i].variant = .other ∨ (suggestList env cfg cache term)[i].variant = .first)
    (h2 : (suggestList env cfg cache term)[j].variant = .last) : i < j := by
  apply index_lt_of_pairwise (c07_class_sorted env cfg cache term) hi hj
  · intro he; subst he; rw [h2] at h1; simp at h1
  · generalize (suggestList env cfg cache term)[i] = a at h1
    generalize (suggestList env cfg cache term)[j] = b at h2
    cases a <;> cases b <;> simp [Rank.variant, classKey] at h1 h2 ⊢ <;> omega

/-- the `Last` items stand in the order emoticon text (1), transliteration (2), raw English (3) -/
theorem c07_last_order (env : Env) (cfg : Cfg) (cache : Memo) (term : Str)
    (i j : Nat) (hi : i < (suggestList env cfg cache term).length) (hj : j < (suggestList env cfg cache term).length)
    (s t : Str) (m n : Nat) (h1 : (suggestList env cfg cache term)[i] = .last s m)
    (h2 : (suggestList env cfg cache term)[j] = .last t n) (hmn : m < n) : i < j := by
  apply index_lt_of_pairwise (c07_class_sorted env cfg cache term) hi hj
  · intro he; subst he; rw [h1] at h2; injection h2; omega
  · rw [h1, h2]; simp [classKey]; omega

/-- with a clean memo (`MemoClean`: what every reachable memo is) the unsorted list holds only
    auto-correct items, dictionary words, emoji numbered from 1 and `Last` items numbered ≤ 3 -/
theorem unsorted_kinds {env : Env} {cfg : Cfg} {cache : Memo} {term : Str} (hclean : MemoClean cache)
    {r : Rank} (hr : r ∈ unsorted env cfg cache term) :
    r.variant = .first ∨ r.variant = .other ∨ (r.variant = .emoji ∧ 1 ≤ r.num) ∨
      (r.variant = .last ∧ r.num ≤ 3) := by
  rcases mem_addExtras hr with h | h | h | h
  · rcases mem_dictList h with ⟨k, e, b, he, hb, hv, _⟩ | ⟨hv, hn⟩
    · rcases hclean k e he b hb with h' | h'
      · exact Or.inl (hv.trans h')
      · exact Or.inr (Or.inl (hv.trans h'))
    · exact Or.inr (Or.inr (Or.inr ⟨hv, by omega⟩))
  · exact Or.inr (Or.inr (Or.inl h))
  · subst h; exact Or.inr (Or.inr (Or.inr ⟨rfl, by simp [Rank.num]⟩))
  · subst h; exact Or.inr (Or.inr (Or.inr ⟨rfl, by simp [Rank.num]⟩))

/-- like `classKey`, but with the exact matches (`Other _ 0`) in a class of their own below the emoji -/
def exactKey : Rank → Nat
  | .first _ => 0 | .other _ n => 1 + min n 1 | .emoji _ _ => 2 | .last _ n => 3 + n

/-- the comparator refines the class order with exact matches split off, when emoji numbers are ≥ 1 -/
theorem cmp_lt_of_exactKey_lt (a b : Rank) (ha : a.variant = .emoji → 1 ≤ a.num)
    (hb : b.variant = .emoji → 1 ≤ b.num) (h : exactKey a < exactKey b) : a.cmp b = .lt := by
  cases a <;> cases b <;>
    simp [exactKey, Rank.cmp, Rank.variant, Rank.num, cmpArm] at h ha hb ⊢ <;> omega

/-- a dictionary word equal to the transliteration (distance 0) stands before every emoji — for
    every input and option vector and every clean memo (emoji numbers start at 1) -/
theorem c07_emoji_after_exact_match (env : Env) (cfg : Cfg) (cache : Memo) (term : Str)
    (hclean : MemoClean cache)
    (i j : Nat) (hi : i < (suggestList env cfg cache term).length) (hj : j < (suggestList env cfg cache term).length)
    (h1 : ∃ s, (suggestList env cfg cache term)[i] = .other s 0)
    (h2 : (suggestList env cfg cache term)[j].variant = .emoji) : i < j := by
  have hem : ∀ a ∈ unsorted env cfg cache term, a.variant = .emoji → 1 ≤ a.num := by
    intro a ha hv
    rcases unsorted_kinds hclean ha with h | h | h | h
    · rw [hv] at h; cases h
    · rw [hv] at h; cases h
    · exact h.2
    · rw [hv] at h; cases h.1
  have hsorted : (suggestList env cfg cache term).Pairwise (fun a b => exactKey a ≤ exactKey b) :=
    sortStable_key exactKey _ (fun a ha b hb => cmp_lt_of_exactKey_lt a b (hem a ha) (hem b hb))
  obtain ⟨s, h1⟩ := h1
  apply index_lt_of_pairwise hsorted hi hj
  · intro he; subst he; rw [h1] at h2; cases h2
  · rw [h1]
    generalize (suggestList env cfg cache term)[j] = b at h2
    cases b <;> simp [Rank.variant, exactKey] at h2 ⊢

/-- without the clean-memo hypothesis an `Emoji _ 0` smuggled into the memo would tie with an exact match:
    the comparator itself only gives `Other _ 0 < Emoji _ e` for `e ≥ 1` -/
theorem exact_vs_emoji (s t : Str) (e : Nat) :
    (Rank.other s 0).cmp (.emoji t e) = (if e = 0 then .eq else .lt) := by
  simp only [Rank.cmp, Rank.variant, Rank.num, cmpArm, natCmp]
  by_cases h : e = 0
  · simp [h]
  · have : 0 < e := by omega
    simp [h, this]

/-- the dictionary words occur in non-decreasing stored rank number (on a separated list) -/
theorem c07_distance_monotone (env : Env) (cfg : Cfg) (cache : Memo) (term : Str)
    (hsep : RanksSeparated (unsorted env cfg cache term)) :
    (suggestList env cfg cache term).Pairwise
      (fun a b => a.variant = .other → b.variant = .other → a.num ≤ b.num) := by
  refine (sortStable_sorted hsep).imp ?_
  intro a b hab ha hb
  cases a <;> cases b <;> simp [Rank.variant] at ha hb
  simpa [Rank.le, Rank.cmp, Rank.variant, Rank.num, cmpArm] using hab

/-- index form of `c07_distance_monotone` -/
theorem c07_distance_monotone_idx (env : Env) (cfg : Cfg) (cache : Memo) (term : Str)
    (hsep : RanksSeparated (unsorted env cfg cache term))
    (i j : Nat) (hij : i < j) (hj : j < (suggestList env cfg cache term).length)
    (s t : Str) (m n : Nat) (h1 : (suggestList env cfg cache term)[i] = .other s m)
    (h2 : (suggestList env cfg cache term)[j] = .other t n) : m ≤ n := by
  have := List.pairwise_iff_getElem.mp (c07_distance_monotone env cfg cache term hsep) i j (by omega) hj hij
  rw [h1, h2] at this
  exact this rfl rfl

/-- the stored number of a dictionary hit is ten times its edit distance from the transliteration,
    as long as that fits a byte -/
theorem rank_is_distance (s b : Str) (h : editDistance b s * 10 < 256) :
    (Rank.newSuggestion s b).num = 10 * editDistance b s := by
  simp only [Rank.newSuggestion, Rank.num, rankFactor, rankModulus]
  omega

/-- … and wraps around otherwise (known finding, `as u8`): distance 26 is stored as 4, i.e. ranked
    as if the word were closer than a distance-1 word -/
theorem rank_wraps :
    editDistance (List.replicate 26 'a') [] = 26 ∧
      (Rank.newSuggestion [] (List.replicate 26 'a')).num = 4 := by decide

/-- a suffix-built word carries the class and number of its base word: it "inherits the distance" -/
theorem suffix_inherits_rank {env : Env} {cache : Memo} {ks : Str × Str} {r : Rank}
    (hr : r ∈ suffixedAt env cache ks) :
    ∃ sfx e b, env.suffix ks.2 = some sfx ∧ alookup cache ks.1 = some e ∧ b ∈ e ∧
      joinChecked b.text sfx = some r.text ∧ r.variant = b.variant ∧ r.num = b.num := by
  obtain ⟨sfx, e, b, h1, h2, h3, h4, h5⟩ := mem_suffixedAt hr
  exact ⟨sfx, e, b, h1, h2, h3, h4, by rw [h5]; simp, by rw [h5]; simp⟩

/-- a list with a non-empty prefix starts with the prefix's head -/
theorem cons_of_prefix {α : Type} {x : α} {t l : List α} (h : (x :: t) <+: l) : ∃ t', l = x :: t' := by
  obtain ⟨u, hu⟩ := h
  exact ⟨t ++ u, by rw [← hu]; rfl⟩

/-- nothing is strictly below an auto-correct item -/
theorem not_lt_first (x y : Rank) (hx : x.variant = .first) : y.cmp x ≠ .lt := by
  cases x <;> cases y <;> simp [Rank.variant, Rank.cmp, cmpArm] at hx ⊢

/-- if the word part has an auto-correct entry (user list first, else the bundled one) and the memo
    holds the entry computed for the word, candidate 0 is the (wrapped) transliteration of the
    correction — whatever else is in the memo, whatever the options -/
theorem c07_autocorrect_first (env : Env) (cfg : Cfg) (cache : Memo) (term : Str) (ua : Store) (c : Str)
    (hmemo : alookup cache (preparedParts env cfg term).word =
      some (computeEntry env ua (preparedParts env cfg term).word))
    (hac : searchCorrected env ua (preparedParts env cfg term).word = some c) :
    (suggestList env cfg cache term).head?.map Rank.text =
      some (wrapText (preparedParts env cfg term).pre (preparedParts env cfg term).trail (env.convert c)) := by
  generalize hp : preparedParts env cfg term = parts at hmemo hac
  -- the suffix stage starts with the auto-correct item
  have h1 : ∃ tl, addSuffix env cache parts.word = Rank.first (env.convert c) :: tl := by
    unfold addSuffix
    simp only [hmemo, computeEntry, hac, Option.getD_some]
    split
    · exact ⟨_, rfl⟩
    · exact ⟨_, rfl⟩
  obtain ⟨tl, h1⟩ := h1
  have h2 : ∃ t2, pushChecked ((addSuffix env cache parts.word).foldl pushChecked [])
      (.last (env.convert parts.word) 2) = Rank.first (env.convert c) :: t2 := by
    rw [h1]
    apply cons_of_prefix (t := [])
    refine List.IsPrefix.trans ?_ (pushChecked_prefix _ _)
    have := foldl_pushChecked_prefix tl (pushChecked [] (Rank.first (env.convert c)))
    simpa [pushChecked] using this
  obtain ⟨t2, h2⟩ := h2
  have h3 : ∃ x t3, dictList env cache parts = x :: t3 ∧ x.variant = .first ∧
      x.text = wrapText parts.pre parts.trail (env.convert c) := by
    unfold dictList
    simp only [h2, wrapAll]
    split
    · exact ⟨_, _, rfl, rfl, rfl⟩
    · rename_i hne
      simp at hne
      exact ⟨_, _, rfl, rfl, by simp [Rank.text, wrapText, hne.1, hne.2]⟩
  obtain ⟨x, t3, h3, hxv, hxt⟩ := h3
  obtain ⟨t4, h4⟩ := cons_of_prefix (h3 ▸ addExtras_prefix env cfg term parts (dictList env cache parts))
  have h5 : suggestList env cfg cache term = x :: sortStable t4 := by
    simp only [suggestList, hp]
    rw [h3, h4]
    exact sortStable_head x t4 (fun y _ => not_lt_first x y hxv)
  rw [h5]
  simp [hxt]

/-- the same for the list `suggest` returns when the word is looked up for the first time (the memo
    entry is then computed from the current auto-correct lists) -/
theorem c07_autocorrect_first_suggest (env : Env) (cfg : Cfg) (s : PState) (term : Str) (c : Str)
    (hnew : alookup s.cache (preparedParts env cfg term).word = none)
    (hac : searchCorrected env s.userAutocorrect (preparedParts env cfg term).word = some c) :
    (suggest env cfg s term).2.1.head?.map Rank.text =
      some (wrapText (preparedParts env cfg term).pre (preparedParts env cfg term).trail (env.convert c)) := by
  show (suggestList env cfg (memoFill env s.userAutocorrect s.cache (preparedParts env cfg term).word) term).head?.map
    Rank.text = _
  apply c07_autocorrect_first env cfg _ term s.userAutocorrect c _ hac
  simp [memoFill, hnew, alookup_ainsert]

/-! ### distance order without the separation hypothesis -/

/-- the order the sort really realises on pipeline lists: class, then number (emoji included) -/
def fineKey : Rank → Nat × Nat
  | .first _ => (0, 0) | .emoji _ e => (1, e) | .other _ n => (1, n) | .last _ n => (2, n)

/-- lexicographic `≤` on `fineKey`: a genuine total preorder on ALL candidates -/
def fineLe (a b : Rank) : Prop :=
  (fineKey a).1 < (fineKey b).1 ∨ ((fineKey a).1 = (fineKey b).1 ∧ (fineKey a).2 ≤ (fineKey b).2)

/-- the emoji of the list carry non-decreasing numbers in list order (the pipeline numbers them 1, 2, 3, …) -/
def EmojiAscending (l : List Rank) : Prop :=
  l.Pairwise (fun a b => a.variant = .emoji → b.variant = .emoji → a.num ≤ b.num)

/-- if the emoji come in ascending number, the stable sort under the (non-transitive) comparator is
    ascending for the transitive order `fineLe` — no separation needed -/
theorem sortStable_fine (l : List Rank) (hasc : EmojiAscending l) : (sortStable l).Pairwise fineLe := by
  apply sortStable_pairwise
  · intro a _ b _ c _ h1 h2
    simp only [fineLe] at *
    omega
  · intro a _ b _ h
    cases a <;> cases b <;>
      simp [fineLe, fineKey, Rank.cmp, Rank.variant, Rank.num, cmpArm] at h ⊢ <;> omega
  · refine hasc.imp ?_
    intro a b hab h
    cases a <;> cases b <;>
      simp [fineLe, fineKey, Rank.cmp, Rank.variant, Rank.num, cmpArm] at h hab ⊢ <;> omega

/-- a list without emoji has its emoji ascending -/
theorem emojiAscending_of_none {l : List Rank} (h : ∀ r ∈ l, r.variant ≠ .emoji) : EmojiAscending l :=
  List.pairwise_of_forall_mem_list (fun a ha _ _ hv => absurd hv (h a ha))

/-- emoji-free items in front do not disturb the ascending emoji numbers -/
theorem emojiAscending_append {l m : List Rank} (h : ∀ r ∈ l, r.variant ≠ .emoji) (hm : EmojiAscending m) :
    EmojiAscending (l ++ m) := by
  unfold EmojiAscending
  rw [List.pairwise_append]
  exact ⟨emojiAscending_of_none h, hm, fun a ha _ _ hv => absurd hv (h a ha)⟩

/-- pushing a non-emoji item keeps the emoji ascending -/
theorem emojiAscending_pushChecked {l : List Rank} {x : Rank} (h : EmojiAscending l) (hx : x.variant ≠ .emoji) :
    EmojiAscending (pushChecked l x) := by
  unfold pushChecked
  split
  · exact h
  · unfold EmojiAscending
    rw [List.pairwise_append]
    refine ⟨h, by simp, ?_⟩
    intro a _ b hb _ hv
    simp at hb; subst hb; exact absurd hv hx

/-- `enumerate`/`zip(1..)` numbers the items in ascending order -/
theorem zipIdx_pairwise_snd {α : Type} (l : List α) (k : Nat) :
    (l.zipIdx k).Pairwise (fun p q => p.2 ≤ q.2) := by
  induction l generalizing k with
  | nil => simp
  | cons a as ih =>
    rw [List.zipIdx_cons, List.pairwise_cons]
    refine ⟨fun q hq => ?_, ih (k + 1)⟩
    have := List.le_snd_of_mem_zipIdx hq
    simp only; omega

/-- with a clean memo the dictionary stage holds no emoji -/
theorem dictList_no_emoji {env : Env} {cache : Memo} {parts : Parts} (hclean : MemoClean cache) :
    ∀ r ∈ dictList env cache parts, r.variant ≠ .emoji := by
  intro r hr hv
  rcases mem_dictList hr with ⟨k, e, b, he, hb, hv', _⟩ | ⟨hv', _⟩
  · rcases hclean k e he b hb with h | h <;> rw [← hv', hv] at h <;> cases h
  · rw [hv] at hv'; cases hv'

/-- the unsorted pipeline list has its emoji in ascending number (clean memo) -/
theorem unsorted_emojiAscending (env : Env) (cfg : Cfg) (cache : Memo) (term : Str) (hclean : MemoClean cache) :
    EmojiAscending (unsorted env cfg cache term) := by
  have hD := dictList_no_emoji (env := env) (parts := preparedParts env cfg term) hclean
  have hstage : EmojiAscending
      (emojiStage env cfg term (preparedParts env cfg term) (dictList env cache (preparedParts env cfg term))).1 := by
    unfold emojiStage
    split
    · exact emojiAscending_of_none hD
    · split
      · apply emojiAscending_append
        · split
          · intro r hr
            rcases mem_pushChecked hr with h | h
            · exact hD r h
            · subst h; simp [Rank.variant]
          · exact hD
        · exact List.pairwise_singleton _ _
      · split
        · apply emojiAscending_append hD
          unfold EmojiAscending
          rw [List.pairwise_map]
          exact (zipIdx_pairwise_snd _ 1).imp (fun h _ _ => h)
        · exact emojiAscending_of_none hD
  unfold unsorted addExtras
  simp only
  split
  · exact emojiAscending_pushChecked hstage (by simp [Rank.variant])
  · exact hstage

/-- for every input and option vector and every clean memo — NO separation hypothesis — the whole
    list is ascending in (class, number); in particular the dictionary words occur in
    non-decreasing stored number even when emoji numbers and word numbers interleave -/
theorem c07_fine_sorted (env : Env) (cfg : Cfg) (cache : Memo) (term : Str) (hclean : MemoClean cache) :
    (suggestList env cfg cache term).Pairwise fineLe :=
  sortStable_fine _ (unsorted_emojiAscending env cfg cache term hclean)

/-- `c07_distance_monotone` for clean memos without `RanksSeparated` -/
theorem c07_distance_monotone_clean (env : Env) (cfg : Cfg) (cache : Memo) (term : Str) (hclean : MemoClean cache) :
    (suggestList env cfg cache term).Pairwise
      (fun a b => a.variant = .other → b.variant = .other → a.num ≤ b.num) := by
  refine (c07_fine_sorted env cfg cache term hclean).imp ?_
  intro a b hab ha hb
  cases a <;> cases b <;> simp [Rank.variant] at ha hb
  simpa [fineLe, fineKey, Rank.num] using hab

/-! ### the raw English text -/

/-- the list built before the raw English text is considered -/
def beforeEnglish (env : Env) (cfg : Cfg) (cache : Memo) (term : Str) : List Rank :=
  (emojiStage env cfg term (preparedParts env cfg term) (dictList env cache (preparedParts env cfg term))).1

/-- when no emoticon matched, the 'typed text already added' flag is off -/
theorem emojiStage_snd_false {env : Env} {cfg : Cfg} {term : Str} {parts : Parts} {l : List Rank}
    (h : env.emoticon term = none) : (emojiStage env cfg term parts l).2 = false := by
  unfold emojiStage
  split
  · rfl
  · simp only [h]
    split <;> rfl

/-- when the English option is on, no emoticon matched and the text is not pure punctuation, the
    unsorted list is the earlier list with `Last term 3` pushed by `push_checked` -/
theorem unsorted_english {env : Env} {cfg : Cfg} {cache : Memo} {term : Str}
    (heng : cfg.english = true) (hemo : env.emoticon term = none)
    (hne : term ≠ (preparedParts env cfg term).pre) :
    unsorted env cfg cache term = pushChecked (beforeEnglish env cfg cache term) (.last term 3) := by
  simp only [unsorted, addExtras, beforeEnglish, heng, emojiStage_snd_false hemo]
  simp [hne]

/-- nothing in a clean pipeline ranks above the raw English item -/
theorem not_lt_english (term : Str) (y : Rank)
    (h : y.variant = .first ∨ y.variant = .other ∨ (y.variant = .emoji ∧ 1 ≤ y.num) ∨
      (y.variant = .last ∧ y.num ≤ 3)) : (Rank.last term 3).cmp y ≠ .lt := by
  cases y <;> simp [Rank.variant, Rank.num, Rank.cmp, cmpArm] at h ⊢
  omega

/-- English option on, no emoticon matched, text not pure punctuation.  Either the typed text is not
    yet the text of a candidate, and then `Last term 3` is appended and ends up LAST (clean memo);
    or `push_checked` found a candidate with that text (e.g. the transliteration left the text
    unchanged), and then nothing is added: the list is the sort of the earlier list, which contains
    the typed text — not necessarily at the end (`c07_english_last_fails`). -/
theorem c07_english_last (env : Env) (cfg : Cfg) (cache : Memo) (term : Str)
    (hclean : MemoClean cache) (heng : cfg.english = true) (hemo : env.emoticon term = none)
    (hne : term ≠ (preparedParts env cfg term).pre) :
    (term ∉ (beforeEnglish env cfg cache term).map Rank.text ∧
      suggestList env cfg cache term = sortStable (beforeEnglish env cfg cache term) ++ [.last term 3]) ∨
    (term ∈ (beforeEnglish env cfg cache term).map Rank.text ∧
      suggestList env cfg cache term = sortStable (beforeEnglish env cfg cache term)) := by
  have hu := unsorted_english (cache := cache) heng hemo hne
  by_cases hmem : term ∈ (beforeEnglish env cfg cache term).map Rank.text
  · right
    refine ⟨hmem, ?_⟩
    rw [suggestList_eq, hu, pushChecked, if_pos]
    exact text_mem_of_any.mpr hmem
  · left
    refine ⟨hmem, ?_⟩
    have hpc : pushChecked (beforeEnglish env cfg cache term) (.last term 3) =
        beforeEnglish env cfg cache term ++ [.last term 3] := by
      rw [pushChecked, if_neg]
      exact fun h => hmem (text_mem_of_any.mp h)
    rw [suggestList_eq, hu, hpc]
    apply sortStable_last
    intro y hy
    apply not_lt_english
    apply unsorted_kinds (env := env) (cfg := cfg) (term := term) hclean
    rw [hu, hpc]
    exact List.mem_append_left _ hy

/-- the restriction under which the property's wording holds literally: the typed text is not
    already a candidate text (excluded: texts the transliteration leaves unchanged, where
    `push_checked` suppresses the raw item).  Then the last candidate IS the raw text. -/
theorem c07_english_last_partial (env : Env) (cfg : Cfg) (cache : Memo) (term : Str)
    (hclean : MemoClean cache) (heng : cfg.english = true) (hemo : env.emoticon term = none)
    (hne : term ≠ (preparedParts env cfg term).pre)
    (hfresh : term ∉ (beforeEnglish env cfg cache term).map Rank.text) :
    (suggestList env cfg cache term).getLast? = some (.last term 3) := by
  rcases c07_english_last env cfg cache term hclean heng hemo hne with ⟨_, h⟩ | ⟨h, _⟩
  · rw [h]; simp
  · exact absurd h hfresh

/-- in both cases the typed text is one of the candidates -/
theorem c07_english_candidate (env : Env) (cfg : Cfg) (cache : Memo) (term : Str)
    (heng : cfg.english = true) (hemo : env.emoticon term = none)
    (hne : term ≠ (preparedParts env cfg term).pre) :
    term ∈ (suggestList env cfg cache term).map Rank.text := by
  obtain ⟨x, hx, hxt⟩ := exists_text_pushChecked (beforeEnglish env cfg cache term) (.last term 3)
  rw [← unsorted_english (cache := cache) heng hemo hne] at hx
  exact List.mem_map.mpr ⟨x, mem_sortStable.mpr hx, hxt⟩

/-! ### no text twice -/

theorem wrapText_inj (p t a b : Str) (h : wrapText p t a = wrapText p t b) : a = b := by
  unfold wrapText at h
  rw [List.append_assoc, List.append_assoc] at h
  exact List.append_cancel_right (List.append_cancel_left h)

/-- wrapping all candidates in the same punctuation keeps the texts distinct -/
theorem nodup_wrapAll (parts : Parts) (l : List Rank) (h : (l.map Rank.text).Nodup) :
    ((wrapAll parts l).map Rank.text).Nodup := by
  unfold wrapAll
  split
  · rw [List.map_map]
    rw [List.nodup_iff_pairwise_ne, List.pairwise_map] at h ⊢
    refine h.imp ?_
    intro a b hab he
    simp at he
    exact hab (wrapText_inj _ _ _ _ he)
  · exact h

/-- `suggestion_with_dict` never yields a text twice (every push is a `push_checked`) -/
theorem nodup_dictList (env : Env) (cache : Memo) (parts : Parts) :
    ((dictList env cache parts).map Rank.text).Nodup := by
  unfold dictList
  exact nodup_wrapAll _ _ (nodup_pushChecked _ (nodup_foldl_pushChecked _ [] (by simp)))

/-- the emoji appended (without a duplicate check) are new: the emoticon's emoji is not a text of
    the dictionary stage nor the typed text itself; the emoji found by name are pairwise distinct
    and, wrapped, not texts of the dictionary stage -/
def EmojiFresh (env : Env) (cfg : Cfg) (term : Str) (parts : Parts) (D : List Rank) : Prop :=
  cfg.ansi = false →
    (∀ e, env.emoticon term = some e → e ∉ D.map Rank.text ∧ (term ≠ parts.pre → e ≠ term)) ∧
    (env.emoticon term = none → ∀ es, env.emojiByName parts.word = some es →
      es.Nodup ∧ ∀ s ∈ es, wrapText parts.pre parts.trail s ∉ D.map Rank.text)

/-- the emoji stage keeps the texts distinct when the emoji are fresh -/
theorem nodup_emojiStage {env : Env} {cfg : Cfg} {term : Str} {parts : Parts} {D : List Rank}
    (hD : (D.map Rank.text).Nodup) (hf : EmojiFresh env cfg term parts D) :
    (((emojiStage env cfg term parts D).1).map Rank.text).Nodup := by
  unfold emojiStage
  split
  · exact hD
  · rename_i hansi
    obtain ⟨hf1, hf2⟩ := hf (by simpa using hansi)
    split
    · rename_i e he
      obtain ⟨he1, he2⟩ := hf1 e he
      simp only [List.map_append, List.map_cons, List.map_nil, Rank.text]
      rw [List.nodup_append]
      refine ⟨?_, by simp, ?_⟩
      · split
        · exact nodup_pushChecked _ hD
        · exact hD
      · intro a ha b hb
        simp at hb
        subst hb
        intro hab
        subst hab
        split at ha
        · rename_i hne
          obtain ⟨x, hx, rfl⟩ := List.mem_map.mp ha
          rcases mem_pushChecked hx with h | h
          · exact he1 (List.mem_map.mpr ⟨x, h, rfl⟩)
          · subst h
            exact he2 (by simpa using hne) rfl
        · exact he1 ha
    · rename_i he
      split
      · rename_i es hes
        obtain ⟨hn, hfr⟩ := hf2 he es hes
        rw [List.map_append, List.nodup_append]
        refine ⟨hD, ?_, ?_⟩
        · rw [List.map_map]
          have : (es.zipIdx 1).map (Rank.text ∘ fun x => Rank.emoji (wrapText parts.pre parts.trail x.1) x.2) =
              ((es.zipIdx 1).map Prod.fst).map (wrapText parts.pre parts.trail) := by
            rw [List.map_map]; rfl
          rw [this, List.zipIdx_map_fst]
          rw [List.nodup_iff_pairwise_ne] at hn ⊢
          rw [List.pairwise_map]
          exact hn.imp (fun hab h => hab (wrapText_inj _ _ _ _ h))
        · intro a ha b hb hab
          subst hab
          obtain ⟨r, hr, rfl⟩ := List.mem_map.mp hb
          obtain ⟨p, hp, rfl⟩ := List.mem_map.mp hr
          exact hfr p.1 (List.fst_mem_of_mem_zipIdx hp) ha
      · exact hD

/-- no candidate text occurs twice — PARTIAL: under `EmojiFresh` (the emoji are appended without
    `push_checked`, so an emoji equal to another candidate, or listed twice, is shown twice:
    `c07_nodup_fails`) -/
theorem c07_nodup_partial (env : Env) (cfg : Cfg) (cache : Memo) (term : Str)
    (hf : EmojiFresh env cfg term (preparedParts env cfg term) (dictList env cache (preparedParts env cfg term))) :
    ((suggestList env cfg cache term).map Rank.text).Nodup := by
  have hu : ((unsorted env cfg cache term).map Rank.text).Nodup := by
    unfold unsorted addExtras
    simp only
    split
    · exact nodup_pushChecked _ (nodup_emojiStage (nodup_dictList _ _ _) hf)
    · exact nodup_emojiStage (nodup_dictList _ _ _) hf
  exact ((sortStable_perm _).map Rank.text).nodup_iff.mpr hu

/-- with ANSI output (no emoji at all) the list is duplicate-free unconditionally -/
theorem c07_nodup_ansi (env : Env) (cfg : Cfg) (cache : Memo) (term : Str) (h : cfg.ansi = true) :
    ((suggestList env cfg cache term).map Rank.text).Nodup :=
  c07_nodup_partial env cfg cache term (fun h' => by rw [h] at h'; cases h')

/-! ### witnesses: non-vacuity, and the negations of the full-strength statements -/

/-- a toy transliteration: `k ↦ ক`, `m ↦ ম`, everything else unchanged -/
def wConv (s : Str) : Str := s.map (fun c => if c == 'k' then 'ক' else if c == 'm' then 'ম' else c)

/-- a small world: `k` has an auto-correct entry, two dictionary words (one an exact match) and an
    emoji; `m` has one dictionary word; `a` is left unchanged by the transliteration and has the
    dictionary words `a`, `b`; `e` names an emoji whose text is `e` -/
def wEnv : Env :=
  { convert := wConv
    dictPhonetic := fun w =>
      if w == ['k'] then some [['ক', 'ি'], ['ক']]
      else if w == ['m'] then some [['ম', 'া']]
      else if w == ['a'] then some [['a'], ['b']]
      else some []
    suffix := fun _ => none
    autocorrect := fun w => if w == ['k'] then some ['k', 'k'] else none
    emoticon := fun _ => none
    emojiByName := fun w => if w == ['k'] then some [['☺']] else if w == ['e'] then some [['e']] else none
    emojiBengali := fun _ => none, bijoy := fun s => .ok s, fixedTable := fun _ => [] }

/-- English option on -/
def wCfg : Cfg := { includeEnglish := true }

/-- the memo after the engine looked the word up, starting from the empty memo -/
def wMemo (w : Str) : Memo := memoFill wEnv [] [] w

/-- the witness memo is clean, being filled from the empty memo -/
theorem wMemo_clean (w : Str) : MemoClean (wMemo w) := memoClean_fill _ _ _ _ memoClean_nil

/-- non-vacuity: one list showing all six clauses at work — auto-correct item, exact match, emoji,
    farther word, raw English text (the transliteration `ক` is the exact match, so not repeated) -/
example : suggestList wEnv wCfg (wMemo ['k']) ['k'] =
    [.first ['ক', 'ক'], .other ['ক'] 0, .emoji ['☺'] 1, .other ['ক', 'ি'] 10, .last ['k'] 3] := by decide

/-- non-vacuity: dictionary word, transliteration, raw English text -/
example : suggestList wEnv wCfg (wMemo ['m']) ['m'] =
    [.other ['ম', 'া'] 10, .last ['ম'] 2, .last ['m'] 3] := by decide

/-- non-vacuity of `c07_autocorrect_first`: its two hypotheses hold for the word `k` -/
example : alookup (wMemo ['k']) (preparedParts wEnv wCfg ['k']).word =
      some (computeEntry wEnv [] (preparedParts wEnv wCfg ['k']).word) ∧
    searchCorrected wEnv [] (preparedParts wEnv wCfg ['k']).word = some ['k', 'k'] := by decide

/-- non-vacuity of `c07_distance_monotone`: the unsorted list for `k` is separated (by `separated_of_nowrap`) -/
example : RanksSeparated (unsorted wEnv wCfg (wMemo ['k']) ['k']) := by
  have h : unsorted wEnv wCfg (wMemo ['k']) ['k'] =
      [.first ['ক', 'ক'], .other ['ক', 'ি'] 10, .other ['ক'] 0, .emoji ['☺'] 1, .last ['k'] 3] := by decide
  rw [h]
  apply separated_of_nowrap
  · intro s n hn
    simp at hn
    rcases hn with ⟨_, rfl⟩ | ⟨_, rfl⟩ <;> omega
  · intro s e he
    simp at he
    omega

/-- non-vacuity of `c07_english_last_partial`: its hypotheses hold for the word `m` -/
example : wCfg.english = true ∧ wEnv.emoticon ['m'] = none ∧ ['m'] ≠ (preparedParts wEnv wCfg ['m']).pre ∧
    ['m'] ∉ (beforeEnglish wEnv wCfg (wMemo ['m']) ['m']).map Rank.text := by decide

/-- non-vacuity of `c07_nodup_partial`: `EmojiFresh` holds for the word `k` (which has an emoji) -/
example : EmojiFresh wEnv wCfg ['k'] (preparedParts wEnv wCfg ['k'])
    (dictList wEnv (wMemo ['k']) (preparedParts wEnv wCfg ['k'])) := by
  have hp : preparedParts wEnv wCfg ['k'] = ⟨[], ['k'], []⟩ := by decide
  rw [hp]
  intro _
  refine ⟨fun e he => by simp [wEnv] at he, fun _ es hes => ?_⟩
  have : es = [['☺']] := by
    have h : wEnv.emojiByName ['k'] = some [['☺']] := by decide
    rw [h] at hes; injection hes with hes; exact hes.symm
  subst this
  decide

/-- the full-strength "raw English text is last" FAILS when the transliteration leaves the typed
    text unchanged: for `a` the candidates are `a` (distance 0) and `b`; `push_checked` finds `a`
    present, adds nothing, and the last candidate is `b` -/
theorem c07_english_last_fails :
    wCfg.english = true ∧ wEnv.emoticon ['a'] = none ∧ ['a'] ≠ (preparedParts wEnv wCfg ['a']).pre ∧
      (suggestList wEnv wCfg (wMemo ['a']) ['a']).getLast?.map Rank.text = some ['b'] := by decide

/-- the full-strength "no text twice" FAILS: an emoji whose text equals the transliteration is
    appended unchecked (here the word `e` names the emoji `e`) -/
theorem c07_nodup_fails :
    ¬ ((suggestList wEnv wCfg (wMemo ['e']) ['e']).map Rank.text).Nodup := by decide

/-- a world for the wrap-around: the transliteration is the typed text; the word `o`×26 has a
    dictionary neighbour at distance 1 and one at distance 26 -/
def wrapEnv : Env :=
  { wEnv with
    convert := id
    dictPhonetic := fun _ => some [List.replicate 25 'o' ++ ['x'], List.replicate 26 'z'] }

/-- "non-decreasing EDIT DISTANCE" FAILS in the pipeline (known finding, `as u8`): the distance-26
    word (stored 260 mod 256 = 4) is shown before the distance-1 word (stored 10).  Only the stored
    numbers are monotone (`c07_distance_monotone`); they are the distances when nothing wraps
    (`rank_is_distance`). -/
theorem c07_distance_wraps :
    let t := List.replicate 26 'o'
    let L := suggestList wrapEnv {} (memoFill wrapEnv [] [] t) t
    L.map (fun r => (r.num, editDistance t r.text)) = [(4, 26), (10, 1), (2, 0)] := by decide +kernel

/-- a world where the word `m` has a dictionary word at distance 1 and ten emoji -/
def manyEnv : Env :=
  { wEnv with
    dictPhonetic := fun _ => some [['ম', 'া']]
    emojiByName := fun _ => some ((List.range 10).map (fun i => [Char.ofNat (48 + i)])) }

/-- `RanksSeparated` can FAIL in the pipeline (ten emoji numbered 1…10 and a word numbered 10) — the
    reason `c07_distance_monotone_clean` / `c07_fine_sorted` are proved without it -/
theorem separation_can_fail :
    ¬ RanksSeparated (unsorted manyEnv {} (memoFill manyEnv [] [] ['m']) ['m']) := by
  intro h
  have hm : Rank.other ['ম', 'া'] 10 ∈ unsorted manyEnv {} (memoFill manyEnv [] [] ['m']) ['m'] := by decide
  rcases h _ _ hm with h1 | h1 | h1
  · have := h1 ['0'] 1 (by decide); omega
  · have := h1 ['9'] 10 (by decide); omega
  · have := h1 ['0'] 1 (by decide); omega

/-- … and the list is still in (class, number) order: nine emoji, the word, the tenth emoji, the transliteration -/
example : (suggestList manyEnv {} (memoFill manyEnv [] [] ['m']) ['m']).map (fun r => (r.variant, r.num)) =
    [(.emoji, 1), (.emoji, 2), (.emoji, 3), (.emoji, 4), (.emoji, 5), (.emoji, 6), (.emoji, 7), (.emoji, 8),
     (.emoji, 9), (.other, 10), (.emoji, 10), (.last, 2)] := by decide

end Riti.C07
