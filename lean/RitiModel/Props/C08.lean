/-
Props/C08 — dictionary-derived candidates are justified, and suffix forms are complete.
The dictionary matcher (`env.dictPhonetic`: okkhor regex + regex crate + tables) is a parameter:
the theorems hold for any matcher; that the real matcher selects exactly the words matching the
Avro pattern is decided by the correspondence tie, not by a theorem.
-/
import RitiModel.Model.Context
import RitiModel.Lemmas.Rank
import RitiModel.Lemmas.Phonetic
namespace Riti.C08
open Riti Riti.Gen

/-- the three joining rules are disjoint: ৎ and ং are not vowels -/
theorem rules_disjoint : isVowel cKhandaTa = false ∧ isVowel cAnushar = false ∧ (cKhandaTa == cAnushar) = false := by decide

/-- **joining rule**: য় between a final vowel (sign) and an initial vowel sign; a final ৎ becomes ত;
    a final ং becomes ঙ; otherwise plain concatenation — in that priority, which is immaterial
    because the rules are disjoint (`rules_disjoint`) -/
theorem join_spec (b s j : Str) (h : joinChecked b s = some j) :
    ∃ rmc lmc, b.getLast? = some rmc ∧ s.head? = some lmc ∧
      ((isVowel rmc = true ∧ isKar lmc = true → j = b ++ [cY] ++ s) ∧
       (rmc = cKhandaTa → j = b.dropLast ++ [cT] ++ s) ∧
       (rmc = cAnushar → j = b.dropLast ++ [cNga] ++ s) ∧
       (¬(isVowel rmc = true ∧ isKar lmc = true) → rmc ≠ cKhandaTa → rmc ≠ cAnushar → j = b ++ s)) := by
  unfold joinChecked at h
  cases hb : b.getLast? with
  | none => simp [hb] at h
  | some rmc =>
    cases hs : s.head? with
    | none => simp [hb, hs] at h
    | some lmc =>
      simp [hb, hs] at h
      refine ⟨rmc, lmc, rfl, rfl, ?_, ?_, ?_, ?_⟩
      · intro hv; simp [joinSuffix, hv.1, hv.2] at h; simp [← h]
      · intro hk
        subst hk
        have := rules_disjoint.1
        simp [joinSuffix, this] at h; simp [← h]
      · intro ha
        subst ha
        have h1 := rules_disjoint.2.1
        have h2 : (cAnushar == cKhandaTa) = false := by decide
        simp [joinSuffix, h1, h2] at h; simp [← h]
      · intro hv hk ha
        have h1 : (isVowel rmc && isKar lmc) = false := by
          cases hv1 : isVowel rmc <;> cases hv2 : isKar lmc <;> simp_all
        have h2 : (rmc == cKhandaTa) = false := by simpa using hk
        have h3 : (rmc == cAnushar) = false := by simpa using ha
        simp [joinSuffix, h1, h2, h3] at h; exact h.symm

/-- joining fails only when the base or the suffix is empty -/
theorem join_none_iff (b s : Str) : joinChecked b s = none ↔ (b = [] ∨ s = []) := by
  unfold joinChecked
  cases hb : b.getLast? with
  | none => simp [List.getLast?_eq_none_iff.mp hb]
  | some x =>
    have hbne : b ≠ [] := by intro h; simp [h] at hb
    cases hs : s.head? with
    | none =>
      have : s = [] := by cases s <;> simp_all
      simp [this]
    | some y =>
      have hsne : s ≠ [] := by intro h; simp [h] at hs
      simp [hbne, hsne]

/-- **the loop visits exactly the decompositions `k ++ r` with both parts non-empty** -/
theorem split_points_exact (w k r : Str) :
    (k, r) ∈ splitPoints w ↔ (k ≠ [] ∧ r ≠ [] ∧ k ++ r = w) := by
  simp only [splitPoints, List.mem_map, List.mem_range]
  constructor
  · rintro ⟨i, hi, heq⟩
    simp at heq
    obtain ⟨h1, h2⟩ := heq
    subst h1 h2
    refine ⟨?_, ?_, List.take_append_drop _ _⟩
    · intro h; have := congrArg List.length h; rw [List.length_take] at this; simp only [List.length_nil] at this; omega
    · intro h; have := congrArg List.length h; rw [List.length_drop] at this; simp only [List.length_nil] at this; omega
  · rintro ⟨hk, hr, hw⟩
    subst hw
    refine ⟨k.length - 1, ?_, ?_⟩
    · have : k.length > 0 := List.length_pos_iff.mpr hk
      have : r.length > 0 := List.length_pos_iff.mpr hr
      simp; omega
    · have hkl : k.length > 0 := List.length_pos_iff.mpr hk
      have : k.length - 1 + 1 = k.length := by omega
      simp [this]

theorem foldl_pushChecked_acc (l acc : List Rank) (x : Rank) (h : x ∈ acc) : x ∈ l.foldl pushChecked acc := by
  induction l generalizing acc with
  | nil => exact h
  | cons a as ih => exact ih _ (mem_pushChecked_of_mem h)

/-- de-duplication by text keeps at least one item for every text -/
theorem foldl_pushChecked_text (l acc : List Rank) (x : Rank) (h : x ∈ l) :
    ∃ y ∈ l.foldl pushChecked acc, y.text = x.text := by
  induction l generalizing acc with
  | nil => simp at h
  | cons a as ih =>
    simp only [List.foldl]
    cases List.mem_cons.mp h with
    | inl hx =>
      subst hx
      obtain ⟨y, hy, hyt⟩ := exists_text_pushChecked acc x
      exact ⟨y, foldl_pushChecked_acc as _ y hy, hyt⟩
    | inr hx => exact ih _ hx

/-- … and never invents one -/
theorem foldl_pushChecked_sub (l acc : List Rank) (y : Rank) (h : y ∈ l.foldl pushChecked acc) :
    y ∈ acc ∨ y ∈ l := by
  induction l generalizing acc with
  | nil => exact Or.inl h
  | cons a as ih =>
    simp only [List.foldl] at h
    cases ih _ h with
    | inl h1 =>
      cases mem_pushChecked h1 with
      | inl h2 => exact Or.inl h2
      | inr h2 => exact Or.inr (by simp [h2])
    | inr h1 => exact Or.inr (by simp [h1])

/-- a text that is offered for the dictionary stage is offered in the final list (wrapped) -/
theorem text_survives (env : Env) (cfg : Cfg) (cache : Memo) (term : Str) (x : Rank)
    (hx : x ∈ addSuffix env cache (preparedParts env cfg term).word) :
    wrapText (preparedParts env cfg term).pre (preparedParts env cfg term).trail x.text ∈
      (suggestList env cfg cache term).map Rank.text := by
  obtain ⟨y, hy, hyt⟩ := foldl_pushChecked_text _ [] x hx
  have hy' : y ∈ pushChecked ((addSuffix env cache (preparedParts env cfg term).word).foldl pushChecked [])
      (.last (env.convert (preparedParts env cfg term).word) 2) := mem_pushChecked_of_mem hy
  have hd : ∃ z ∈ dictList env cache (preparedParts env cfg term),
      z.text = wrapText (preparedParts env cfg term).pre (preparedParts env cfg term).trail x.text := by
    simp only [dictList, wrapAll]
    split
    · exact ⟨_, List.mem_map.mpr ⟨y, hy', rfl⟩, by simp [hyt]⟩
    · rename_i hne
      simp at hne
      exact ⟨y, hy', by simp [wrapText, hne.1, hne.2, hyt]⟩
  obtain ⟨z, hz, hzt⟩ := hd
  exact List.mem_map.mpr ⟨z, mem_sortStable.mpr (mem_addExtras_of_mem hz), hzt⟩

/-- **completeness**: the typed word is longer than two characters and is `k ++ r` with `r` a known
    suffix; then every candidate `b` in the memo entry of the base `k` is offered in joined form,
    wrapped in the same punctuation.  (That the memo entry of every base that was itself typed is
    present and equals its direct candidates is C05's memo transparency.) -/
theorem c08_complete (env : Env) (cfg : Cfg) (cache : Memo) (term : Str) (k r sfx j : Str) (entry : List Rank) (b : Rank)
    (hlen : (preparedParts env cfg term).word.length > 2)
    (hsplit : k ≠ [] ∧ r ≠ [] ∧ k ++ r = (preparedParts env cfg term).word)
    (hs : env.suffix r = some sfx) (hc : alookup cache k = some entry) (hb : b ∈ entry)
    (hj : joinChecked b.text sfx = some j) :
    wrapText (preparedParts env cfg term).pre (preparedParts env cfg term).trail j ∈
      (suggestList env cfg cache term).map Rank.text := by
  have hmem : b.setText j ∈ addSuffix env cache (preparedParts env cfg term).word := by
    simp only [addSuffix, hlen, if_true]
    apply List.mem_append_right
    apply List.mem_flatMap.mpr
    refine ⟨(k, r), (split_points_exact _ k r).mpr hsplit, ?_⟩
    simp only [suffixedAt, hs, hc]
    apply List.mem_filterMap.mpr
    exact ⟨b, hb, by simp [hj]⟩
  simpa using text_survives env cfg cache term (b.setText j) hmem

/-- direct candidates (the memo entry of the word itself) are offered too -/
theorem c08_direct_offered (env : Env) (cfg : Cfg) (cache : Memo) (term : Str) (entry : List Rank) (b : Rank)
    (hc : alookup cache (preparedParts env cfg term).word = some entry) (hb : b ∈ entry) :
    wrapText (preparedParts env cfg term).pre (preparedParts env cfg term).trail b.text ∈
      (suggestList env cfg cache term).map Rank.text := by
  apply text_survives
  simp only [addSuffix, hc, Option.getD]
  split <;> simp [hb]

/-- **soundness**: every item of the dictionary stage is (a) a member of the memo entry of the
    word, (b) the transliteration, or (c) a member `b` of the memo entry of a proper prefix `k`
    joined to the Bengali form of the known suffix `r` with `k ++ r = word` -/
theorem c08_sound (env : Env) (cache : Memo) (parts : Parts) (x : Rank) (hx : x ∈ dictList env cache parts) :
    ∃ t, x.text = (if !parts.pre.isEmpty || !parts.trail.isEmpty then wrapText parts.pre parts.trail t else t) ∧
      ((∃ entry b, alookup cache parts.word = some entry ∧ b ∈ entry ∧ b.text = t) ∨
       t = env.convert parts.word ∨
       (∃ k r sfx entry b, k ≠ [] ∧ r ≠ [] ∧ k ++ r = parts.word ∧ env.suffix r = some sfx ∧
          alookup cache k = some entry ∧ b ∈ entry ∧ joinChecked b.text sfx = some t)) := by
  -- where does an item of the unwrapped list come from?
  have core : ∀ y, y ∈ pushChecked ((addSuffix env cache parts.word).foldl pushChecked []) (.last (env.convert parts.word) 2) →
      ((∃ entry b, alookup cache parts.word = some entry ∧ b ∈ entry ∧ b.text = y.text) ∨
       y.text = env.convert parts.word ∨
       (∃ k r sfx entry b, k ≠ [] ∧ r ≠ [] ∧ k ++ r = parts.word ∧ env.suffix r = some sfx ∧
          alookup cache k = some entry ∧ b ∈ entry ∧ joinChecked b.text sfx = some y.text)) := by
    intro y hy
    cases mem_pushChecked hy with
    | inr h => right; left; rw [h]; rfl
    | inl h =>
      cases foldl_pushChecked_sub _ [] y h with
      | inl h0 => simp at h0
      | inr h1 =>
        have hbase : y ∈ (alookup cache parts.word).getD [] → ∃ entry b, alookup cache parts.word = some entry ∧ b ∈ entry ∧ b.text = y.text := by
          intro hm
          cases hl : alookup cache parts.word with
          | none => simp [hl] at hm
          | some entry => exact ⟨entry, y, rfl, by simpa [hl] using hm, rfl⟩
        simp only [addSuffix] at h1
        split at h1
        · cases List.mem_append.mp h1 with
          | inl hm => exact Or.inl (hbase hm)
          | inr hm =>
            right; right
            obtain ⟨⟨k, r⟩, hkr, hy2⟩ := List.mem_flatMap.mp hm
            have hsp := (split_points_exact _ k r).mp hkr
            simp only [suffixedAt] at hy2
            cases hs : env.suffix r with
            | none => simp [hs] at hy2
            | some sfx =>
              cases hc : alookup cache k with
              | none => simp [hs, hc] at hy2
              | some entry =>
                simp only [hs, hc] at hy2
                obtain ⟨b, hb, hbj⟩ := List.mem_filterMap.mp hy2
                cases hj : joinChecked b.text sfx with
                | none => simp [hj] at hbj
                | some j =>
                  simp [hj] at hbj
                  refine ⟨k, r, sfx, entry, b, hsp.1, hsp.2.1, hsp.2.2, hs, hc, hb, ?_⟩
                  rw [← hbj]; simp [hj]
        · exact Or.inl (hbase h1)
  simp only [dictList, wrapAll] at hx
  split at hx
  · rename_i hw
    obtain ⟨y, hy, hyx⟩ := List.mem_map.mp hx
    refine ⟨y.text, ?_, core y hy⟩
    rw [← hyx]; simp [hw]
  · rename_i hw
    refine ⟨x.text, ?_, core x hx⟩
    simp [hw]

/-- non-vacuity: a concrete join of each kind -/
example : joinChecked "মা".toList "ের".toList = some ("মা".toList ++ [cY] ++ "ের".toList) ∧
          joinChecked "সৎ".toList "ের".toList = some ("স".toList ++ [cT] ++ "ের".toList) ∧
          joinChecked "রং".toList "ের".toList = some ("র".toList ++ [cNga] ++ "ের".toList) ∧
          joinChecked "কাজ".toList "ের".toList = some "কাজের".toList := by decide

end Riti.C08
