/-
Props/C09 — learned selections: what a commit stores, how it is recalled (directly and for the
word followed by a known suffix), what a restart sees, and what the on-disk store can hold.
Findings proved here as concrete counter-examples: a stored value that keeps characters the
stripping does not know (curly quotes) or that is the raw English text is never recalled;
a derived (suffixed) entry becomes an entry of its own and shadows later re-learning of the base.
-/
import RitiModel.Model.Context
import RitiModel.Lemmas.Store
import RitiModel.Props.C01
namespace Riti.C09
open Riti Riti.Gen Riti.AList

/-! ### what a commit learns -/

/-- the key a commit learns under: the typed text without its punctuation -/
def learnKey (s : PState) : Str := (split s.buffer false).word

/-- the value a commit learns: the chosen candidate without its punctuation (colon included) -/
def learnValue (r : Rank) : Str := (split r.text true).word

/-- **learn_stores**: committing a candidate other than the preselected one (suggestions on)
    binds the stripped typed text to the stripped candidate, hands exactly that store to the
    file write, clears the composition and changes nothing else -/
theorem learn_stores (cfg : Cfg) (s : PState) (i : Nat) (r : Rank)
    (hne : s.prevSelection ≠ i) (hcfg : cfg.phoneticSuggestion = true) (hr : s.suggestions[i]? = some r) :
    pCommit cfg s i =
      .ok ({ s with selections := ainsert s.selections (learnKey s) (learnValue r), buffer := [] },
           some (ainsert s.selections (learnKey s) (learnValue r))) := by
  have hb : (s.prevSelection != i) = true := by simpa using hne
  simp [pCommit, hb, hcfg, hr, learnKey, learnValue]

/-- **commit_preselected_inert**: committing the preselected candidate learns nothing and
    writes nothing; only the composition is cleared -/
theorem commit_preselected_inert (cfg : Cfg) (s : PState) (i : Nat) (h : i = s.prevSelection) :
    pCommit cfg s i = .ok ({ s with buffer := [] }, none) := by
  subst h; simp [pCommit]

/-- with suggestions off nothing is ever learned or written -/
theorem commit_suggestions_off_inert (cfg : Cfg) (s : PState) (i : Nat) (h : cfg.phoneticSuggestion = false) :
    pCommit cfg s i = .ok ({ s with buffer := [] }, none) := by
  simp [pCommit, h]

/-- whatever a commit does, the store it leaves in memory is the old one or the old one with
    one binding inserted, and the store written (if any) is the one kept in memory -/
theorem commit_store_cases (cfg : Cfg) (s s' : PState) (i : Nat) (wr : Option Store)
    (h : pCommit cfg s i = .ok (s', wr)) :
    (s'.selections = s.selections ∧ wr = none) ∨
    (∃ r, s.suggestions[i]? = some r ∧ s.prevSelection ≠ i ∧ cfg.phoneticSuggestion = true ∧
      s'.selections = ainsert s.selections (learnKey s) (learnValue r) ∧ wr = some s'.selections) := by
  unfold pCommit at h
  split at h
  · next hc =>
    simp at hc
    split at h
    · cases h
    · next r hr =>
      simp at h; obtain ⟨h1, h2⟩ := h; subst h1 h2
      exact .inr ⟨r, hr, hc.1, hc.2, rfl, rfl⟩
  · simp at h; obtain ⟨h1, h2⟩ := h; subst h1 h2; exact .inl ⟨rfl, rfl⟩

/-- API level: a learning commit replaces the selections file by the new store when the
    directory is writable and leaves the files untouched otherwise -/
theorem step_learn (w : World) (c : Ctx) (fs : FS) (s : PState) (i : Nat) (r : Rank)
    (hm : c.m = .phonetic s) (hne : s.prevSelection ≠ i) (hcfg : c.cfg.phoneticSuggestion = true)
    (hr : s.suggestions[i]? = some r) :
    step w c fs (.commit i) =
      .ok ({ c with m := .phonetic { s with selections := ainsert s.selections (learnKey s) (learnValue r), buffer := [] } },
           (if fs.writable then { fs with sel := .parsed (ainsert s.selections (learnKey s) (learnValue r)) } else fs),
           .unit) := by
  simp only [step, hm, learn_stores c.cfg s i r hne hcfg hr]

/-- API level: committing the preselected candidate touches neither the store nor the files -/
theorem step_commit_preselected (w : World) (c : Ctx) (fs : FS) (s : PState) (hm : c.m = .phonetic s) :
    step w c fs (.commit s.prevSelection) = .ok ({ c with m := .phonetic { s with buffer := [] } }, fs, .unit) := by
  simp only [step, hm, commit_preselected_inert c.cfg s s.prevSelection rfl]

/-- a store whose keys are distinct (a JSON object) stays one under learning -/
theorem learned_store_keys_distinct (cfg : Cfg) (s s' : PState) (i : Nat) (wr : Option Store)
    (h : pCommit cfg s i = .ok (s', wr)) (hd : (akeys s.selections).Nodup) : (akeys s'.selections).Nodup := by
  rcases commit_store_cases cfg s s' i wr h with ⟨h1, _⟩ | ⟨r, _, _, _, h1, _⟩
  · rw [h1]; exact hd
  · rw [h1]; exact akeys_ainsert_nodup _ _ _ hd

/-! ### recall -/

/-- smart quoting and transliteration of the punctuation never touch the word part: the key
    looked up when a text is typed is the key a commit of that text learns under -/
theorem preparedParts_word (env : Env) (cfg : Cfg) (term : Str) :
    (preparedParts env cfg term).word = (split term false).word := by
  simp only [preparedParts, smartQuoter]
  split
  · split <;> rfl
  · rfl

/-- a word with a learned choice: the look-up returns it and leaves the store alone -/
theorem selectedFor_learned (env : Env) (st : Store) (w v : Str) (h : alookup st w = some v) :
    selectedFor env st w = (v, st) := by
  simp [selectedFor, h]

/-- … in particular right after learning -/
theorem selectedFor_after_learn (env : Env) (st : Store) (k v : Str) :
    selectedFor env (ainsert st k v) k = (v, ainsert st k v) :=
  selectedFor_learned env _ k v (alookup_ainsert_self st k v)

/-- with a learned choice `v` for the word part, the preselected index is the position of the
    first candidate whose text is `pre ++ v ++ trail` (0 when there is none) -/
theorem getPrevSelection_learned (env : Env) (parts : Parts) (l : List Rank) (st : Store) (v : Str)
    (h : alookup st parts.word = some v) :
    getPrevSelection env parts l st =
      ((l.findIdx? (fun r => r.text == wrapText parts.pre parts.trail v)).getD 0, st) := by
  simp [getPrevSelection, selectedFor_learned env st parts.word v h]

/-- `findIdx?` finds the first index satisfying the predicate as soon as some index does -/
theorem findIdx_first {α : Type} (p : α → Bool) (l : List α) (j : Nat) (x : α)
    (hj : l[j]? = some x) (hp : p x = true) :
    ∃ j₀ x₀, l.findIdx? p = some j₀ ∧ l[j₀]? = some x₀ ∧ p x₀ = true ∧ j₀ ≤ j ∧
      ∀ i y, i < j₀ → l[i]? = some y → p y = false := by
  induction l generalizing j with
  | nil => simp at hj
  | cons a as ih =>
    by_cases ha : p a = true
    · exact ⟨0, a, by simp [List.findIdx?_cons, ha], by simp, ha, Nat.zero_le _, by intro i y hi; omega⟩
    · have ha' : p a = false := by simpa using ha
      cases j with
      | zero => simp at hj; subst hj; simp [hp] at ha
      | succ j =>
        simp at hj
        obtain ⟨j₀, x₀, h1, h2, h3, h4, h5⟩ := ih j hj
        refine ⟨j₀ + 1, x₀, by simp [List.findIdx?_cons, ha', h1], by simpa using h2, h3, by omega, ?_⟩
        intro i y hi hy
        cases i with
        | zero => simp at hy; subst hy; exact ha'
        | succ i => simp at hy; exact h5 i y (by omega) hy

/-- **c09_recall**: once `k ↦ v` is in the store, typing a text whose word part is `k`
    preselects the FIRST candidate whose text is `pre ++ v ++ trail`; so whenever such a
    candidate is offered (at any index `j`), the preselected index points at the same
    candidate text, and the store is not changed by the look-up -/
theorem c09_recall (env : Env) (parts : Parts) (l : List Rank) (st : Store) (k v : Str) (j : Nat) (r : Rank)
    (hk : alookup st k = some v) (hw : parts.word = k)
    (hj : l[j]? = some r) (ht : r.text = wrapText parts.pre parts.trail v) :
    ∃ r₀, l[(getPrevSelection env parts l st).1]? = some r₀ ∧ r₀.text = r.text ∧
      (getPrevSelection env parts l st).1 ≤ j ∧
      (∀ i y, i < (getPrevSelection env parts l st).1 → l[i]? = some y → y.text ≠ r.text) ∧
      (getPrevSelection env parts l st).2 = st := by
  subst hw
  rw [getPrevSelection_learned env parts l st v hk]
  obtain ⟨j₀, x₀, h1, h2, h3, h4, h5⟩ :=
    findIdx_first (fun r => r.text == wrapText parts.pre parts.trail v) l j r hj (by simp [ht])
  refine ⟨x₀, by simpa [h1] using h2, by simpa [ht] using h3, by simpa [h1] using h4, ?_, rfl⟩
  intro i y hi hy
  have := h5 i y (by simpa [h1] using hi) hy
  simpa [ht] using this

/-- … immediately after the learning commit (store `ainsert st k v`) -/
theorem c09_recall_after_learn (env : Env) (parts : Parts) (l : List Rank) (st : Store) (k v : Str) (j : Nat) (r : Rank)
    (hw : parts.word = k) (hj : l[j]? = some r) (ht : r.text = wrapText parts.pre parts.trail v) :
    ∃ r₀, l[(getPrevSelection env parts l (ainsert st k v)).1]? = some r₀ ∧ r₀.text = r.text := by
  obtain ⟨r₀, h1, h2, _⟩ := c09_recall env parts l (ainsert st k v) k v j r (alookup_ainsert_self st k v) hw hj ht
  exact ⟨r₀, h1, h2⟩

/-- when no candidate has the target text the preselected index falls back to 0 -/
theorem getPrevSelection_no_match (env : Env) (parts : Parts) (l : List Rank) (st : Store) (v : Str)
    (h : alookup st parts.word = some v) (hno : ∀ r ∈ l, r.text ≠ wrapText parts.pre parts.trail v) :
    (getPrevSelection env parts l st).1 = 0 := by
  rw [getPrevSelection_learned env parts l st v h]
  have : l.findIdx? (fun r => r.text == wrapText parts.pre parts.trail v) = none := by
    rw [List.findIdx?_eq_none_iff]; intro x hx; simpa using hno x hx
  simp [this]

/-! ### what `suggest` reports (the index the front end shows) -/

/-- the list, the preselected index and the store after `suggest`, spelled out -/
theorem suggest_eq (env : Env) (cfg : Cfg) (s : PState) (term : Str) :
    let parts := preparedParts env cfg term
    let l := suggestList env cfg (memoFill env s.userAutocorrect s.cache parts.word) term
    (suggest env cfg s term).2.1 = l ∧
    (suggest env cfg s term).2.2 = (getPrevSelection env parts l s.selections).1 ∧
    (suggest env cfg s term).1.selections = (getPrevSelection env parts l s.selections).2 ∧
    (suggest env cfg s term).1.suggestions = l := by
  simp [suggest]

/-- the candidate's own core survives the punctuation stripping used when storing -/
def StripStable (pre trail core : Str) : Prop := (split (wrapText pre trail core) true).word = core

/-- **c09_recall_same_candidate** (user level).  A context showed candidate `i` with text
    `pre ++ core ++ trail` (`StripStable`), the user committed it instead of the preselected one.
    In any later state that still has the learned binding (same context: `learned_entry_persists`;
    new context: `c09_restart`), typing a text with the same word part and the same prepared
    punctuation preselects a candidate with that very text whenever one is offered. -/
theorem c09_recall_same_candidate (env : Env) (cfg cfg' : Cfg) (s s₁ : PState) (i : Nat) (r : Rank) (wr : Option Store)
    (pre trail core : Str)
    (hcommit : pCommit cfg s i = .ok (s₁, wr)) (hne : s.prevSelection ≠ i) (hcfg : cfg.phoneticSuggestion = true)
    (hr : s.suggestions[i]? = some r) (htext : r.text = wrapText pre trail core) (hstable : StripStable pre trail core)
    (s₂ : PState) (term : Str)
    (hkept : alookup s₂.selections (learnKey s) = alookup s₁.selections (learnKey s))
    (hword : (split term false).word = (split s.buffer false).word)
    (hpre : (preparedParts env cfg' term).pre = pre) (htrail : (preparedParts env cfg' term).trail = trail)
    (j : Nat) (r' : Rank) (hoffered : (suggest env cfg' s₂ term).2.1[j]? = some r') (hsame : r'.text = r.text) :
    ∃ r₀, (suggest env cfg' s₂ term).2.1[(suggest env cfg' s₂ term).2.2]? = some r₀ ∧ r₀.text = r.text ∧
      (suggest env cfg' s₂ term).2.2 ≤ j := by
  rw [learn_stores cfg s i r hne hcfg hr] at hcommit
  simp at hcommit
  obtain ⟨hs₁, _⟩ := hcommit
  have hval : learnValue r = core := by simp [learnValue, htext]; exact hstable
  have hk : alookup s₂.selections (learnKey s) = some core := by
    rw [hkept, ← hs₁]; simp only; rw [alookup_ainsert_self, hval]
  obtain ⟨e1, e2, _, _⟩ := suggest_eq env cfg' s₂ term
  rw [e2]
  rw [e1] at hoffered ⊢
  have hw : (preparedParts env cfg' term).word = learnKey s := by
    rw [preparedParts_word, hword]; rfl
  obtain ⟨r₀, h1, h2, h3, _⟩ := c09_recall env (preparedParts env cfg' term) _ s₂.selections (learnKey s) core j r' hk hw hoffered
    (by rw [hsame, htext, hpre, htrail])
  exact ⟨r₀, h1, by rw [h2, hsame], h3⟩

/-! ### the statement without `StripStable` is false (known findings) -/

/-- a small world: `e` transliterates to `এ`, the dictionary also offers the sign `ে` -/
def envQ : Env :=
  { convert := fun s => if s == ['e'] then ['এ'] else s,
    dictPhonetic := fun s => if s == ['e'] then some [['এ'], ['ে']] else some [],
    suffix := fun _ => none, autocorrect := fun _ => none, emoticon := fun _ => none,
    emojiByName := fun _ => none, emojiBengali := fun _ => none, bijoy := fun s => .ok s, fixedTable := fun _ => [] }

/-- a small world: `sesh` ↦ `শেষ`, `.` ↦ `।` -/
def envE : Env :=
  { convert := fun s => if s == ['.'] then ['।'] else if s == ['s', 'e', 's', 'h'] then ['শ', 'ে', 'ষ'] else s,
    dictPhonetic := fun s => if s == ['s', 'e', 's', 'h'] then some [['শ', 'ে', 'ষ']] else some [],
    suffix := fun _ => none, autocorrect := fun _ => none, emoticon := fun _ => none,
    emojiByName := fun _ => none, emojiBengali := fun _ => none, bijoy := fun s => .ok s, fixedTable := fun _ => [] }

/-- the state after a commit (the default state if it panicked; the examples check it did not) -/
def okState : Res (PState × Option Store) → PState
  | .ok (s, _) => s
  | .error _ => {}

/-- KNOWN FINDING (smart-quote / learning drift).  Smart quotes on, the user types `"e"` and
    commits the second candidate `“ে”`.  The stored value keeps the curly quotes (they are not
    in the META set the stripping knows), so when `"e"` is typed again the look-up searches for
    `““ে””`, finds nothing and preselects index 0 although the very same list is offered. -/
theorem curly_value_not_recalled :
    let cfg : Cfg := { phoneticSuggestion := true }
    let s₁ := (pCreateSuggestion envQ cfg { buffer := ['"', 'e', '"'] }).1
    let s₂ := okState (pCommit cfg s₁ 1)
    let s₃ := (pCreateSuggestion envQ cfg { s₂ with buffer := ['"', 'e', '"'] }).1
    s₁.prevSelection = 0 ∧ s₁.suggestions.map Rank.text = [['“', 'এ', '”'], ['“', 'ে', '”']] ∧
    (pCommit cfg s₁ 1).toBool = true ∧ s₂.selections = [(['e'], ['“', 'ে', '”'])] ∧
    s₃.suggestions = s₁.suggestions ∧ s₃.prevSelection = 0 := by decide

/-- the candidate of that example is not `StripStable` -/
theorem curly_not_stripStable : ¬ StripStable ['“'] ['”'] ['ে'] := by unfold StripStable; decide

/-- KNOWN FINDING (English candidate).  English candidate on, the user types `sesh.` and commits
    the raw English candidate `sesh.`.  It is stored as `sesh`; typing `sesh.` again searches for
    `sesh` + `।`, which no candidate has, and preselects index 0. -/
theorem english_value_not_recalled :
    let cfg : Cfg := { phoneticSuggestion := true, includeEnglish := true }
    let s₁ := (pCreateSuggestion envE cfg { buffer := ['s', 'e', 's', 'h', '.'] }).1
    let s₂ := okState (pCommit cfg s₁ 1)
    let s₃ := (pCreateSuggestion envE cfg { s₂ with buffer := ['s', 'e', 's', 'h', '.'] }).1
    s₁.prevSelection = 0 ∧ s₁.suggestions.map Rank.text = [['শ', 'ে', 'ষ', '।'], ['s', 'e', 's', 'h', '.']] ∧
    (pCommit cfg s₁ 1).toBool = true ∧ s₂.selections = [(['s', 'e', 's', 'h'], ['s', 'e', 's', 'h'])] ∧
    s₃.suggestions = s₁.suggestions ∧ s₃.prevSelection = 0 := by decide

/-- why: the English candidate carries the RAW punctuation (`.`) while the look-up wraps the
    stored core in the PREPARED punctuation (`।`), so it is not of the form
    `prepared pre ++ core ++ prepared trail` that `c09_recall_same_candidate` asks for -/
theorem english_trail_differs :
    (preparedParts envE { phoneticSuggestion := true, includeEnglish := true } ['s', 'e', 's', 'h', '.']).trail = ['।'] ∧
    (split ['s', 'e', 's', 'h', '.'] true).trail = ['.'] := by decide

/-- **the full statement is false**: `c09_recall_same_candidate` without `StripStable` fails at
    the curly-quote witness (every other hypothesis holds, the conclusion does not) -/
theorem c09_recall_same_candidate_needs_stripStable :
    ¬ (∀ (env : Env) (cfg cfg' : Cfg) (s s₁ : PState) (i : Nat) (r : Rank) (wr : Option Store) (pre trail core : Str),
        pCommit cfg s i = .ok (s₁, wr) → s.prevSelection ≠ i → cfg.phoneticSuggestion = true →
        s.suggestions[i]? = some r → r.text = wrapText pre trail core →
        ∀ (s₂ : PState) (term : Str),
        alookup s₂.selections (learnKey s) = alookup s₁.selections (learnKey s) →
        (split term false).word = (split s.buffer false).word →
        (preparedParts env cfg' term).pre = pre → (preparedParts env cfg' term).trail = trail →
        ∀ (j : Nat) (r' : Rank), (suggest env cfg' s₂ term).2.1[j]? = some r' → r'.text = r.text →
        ∃ r₀, (suggest env cfg' s₂ term).2.1[(suggest env cfg' s₂ term).2.2]? = some r₀ ∧ r₀.text = r.text) := by
  intro h
  let cfg : Cfg := { phoneticSuggestion := true }
  let s : PState := (pCreateSuggestion envQ cfg { buffer := ['"', 'e', '"'] }).1
  let r : Rank := .other ['“', 'ে', '”'] 10
  have hc := learn_stores cfg s 1 r (by decide) rfl (by decide)
  obtain ⟨r₀, h1, h2⟩ := h envQ cfg cfg s _ 1 r _ ['“'] ['”'] ['ে'] hc (by decide) rfl (by decide) (by decide)
    { s with selections := ainsert s.selections (learnKey s) (learnValue r), buffer := [] } ['"', 'e', '"']
    rfl (by decide) (by decide) (by decide) 1 r (by decide) rfl
  have h0 : (suggest envQ cfg { s with selections := ainsert s.selections (learnKey s) (learnValue r), buffer := [] }
      ['"', 'e', '"']).2.1[(suggest envQ cfg { s with selections := ainsert s.selections (learnKey s) (learnValue r), buffer := [] }
      ['"', 'e', '"']).2.2]? = some (.other ['“', 'এ', '”'] 0) := by decide
  rw [h0] at h1
  cases h1
  revert h2; decide

/-- non-vacuity of `c09_recall_same_candidate`, and the good case: typing `e`, committing the second
    candidate `ে` (strip-stable), typing `e` again preselects index 1 -/
theorem plain_value_recalled :
    let cfg : Cfg := { phoneticSuggestion := true }
    let s₁ := (pCreateSuggestion envQ cfg { buffer := ['e'] }).1
    let s₂ := okState (pCommit cfg s₁ 1)
    let s₃ := (pCreateSuggestion envQ cfg { s₂ with buffer := ['e'] }).1
    s₁.prevSelection = 0 ∧ s₁.suggestions.map Rank.text = [['এ'], ['ে']] ∧
    (pCommit cfg s₁ 1).toBool = true ∧ s₂.selections = [(['e'], ['ে'])] ∧
    s₃.suggestions = s₁.suggestions ∧ s₃.prevSelection = 1 ∧ StripStable [] [] ['ে'] := by
  unfold StripStable; decide

/-! ### later in the same context: a learned binding stays until the same word is re-learned -/

/-- the look-up only ever adds a binding for a word that had none: existing bindings survive -/
theorem selectedFor_keeps (env : Env) (st : Store) (w k v : Str) (h : alookup st k = some v) :
    alookup (selectedFor env st w).2 k = some v := by
  unfold selectedFor
  split
  · exact h
  · next hw =>
    split
    · split
      · next j _ =>
        have hne : k ≠ w := by intro e; subst e; rw [h] at hw; cases hw
        simpa [alookup_ainsert_ne st w k j hne] using h
      · exact h
    · exact h

theorem pCreateSuggestion_keeps (env : Env) (cfg : Cfg) (s : PState) (k v : Str)
    (h : alookup s.selections k = some v) : alookup (pCreateSuggestion env cfg s).1.selections k = some v := by
  simp only [pCreateSuggestion]
  split
  · simp only [suggest, getPrevSelection]
    exact selectedFor_keeps env s.selections _ k v h
  · exact h

/-- typing never forgets a learned choice -/
theorem pKey_keeps (env : Env) (cfg : Cfg) (s : PState) (key sel : Nat) (k v : Str)
    (h : alookup s.selections k = some v) : alookup (pKey env cfg s key sel).1.selections k = some v := by
  unfold pKey
  cases keycodeToChar key with
  | none =>
    simp only
    split
    · exact h
    · exact pCreateSuggestion_keeps env cfg s k v h
  | some ch =>
    simp only
    have := pCreateSuggestion_keeps env cfg { s with buffer := s.buffer ++ [ch] } k v h
    revert this
    generalize pCreateSuggestion env cfg { s with buffer := s.buffer ++ [ch] } = res
    obtain ⟨s', sg⟩ := res
    intro this
    cases sg <;> simpa using this

/-- backspace never forgets a learned choice -/
theorem pBackspace_keeps (env : Env) (cfg : Cfg) (s : PState) (ctrl : Bool) (k v : Str)
    (h : alookup s.selections k = some v) : alookup (pBackspace env cfg s ctrl).1.selections k = some v := by
  unfold pBackspace
  split
  · split
    · exact h
    · simp only
      split
      · exact h
      · exact pCreateSuggestion_keeps env cfg { s with buffer := s.buffer.dropLast } k v h
  · exact h

/-- a commit keeps every learned choice except the one for the word being re-learned, which it replaces -/
theorem pCommit_keeps (cfg : Cfg) (s s' : PState) (i : Nat) (wr : Option Store) (k v : Str)
    (hc : pCommit cfg s i = .ok (s', wr)) (h : alookup s.selections k = some v) :
    alookup s'.selections k = some v ∨
    (learnKey s = k ∧ s.prevSelection ≠ i ∧ ∃ r, s.suggestions[i]? = some r ∧ alookup s'.selections k = some (learnValue r)) := by
  rcases commit_store_cases cfg s s' i wr hc with ⟨h1, _⟩ | ⟨r, hr, hne, _, h1, _⟩
  · left; rw [h1]; exact h
  · by_cases hk : learnKey s = k
    · right; refine ⟨hk, hne, r, hr, ?_⟩; rw [h1, hk]; exact alookup_ainsert_self _ _ _
    · left; rw [h1, alookup_ainsert_ne _ _ _ _ (fun e => hk e.symm)]; exact h

/-- the selections of a context (`[]` for the fixed method, which has none) -/
def ctxSelections (c : Ctx) : Store :=
  match c.m with
  | .phonetic s => s.selections
  | .fixed _ _ => []

/-- **learned_entry_persists** ("later in the same context"): a learned choice `k ↦ v` is still
    there after ANY event — keys, backspaces, finish, file changes, a same-layout `update_engine`,
    commits of other words — unless the event is a learning commit of the same word or an
    `update_engine` that changes the layout (which builds a new method from the files: `c09_restart`) -/
theorem learned_entry_persists (w : World) (c c' : Ctx) (fs fs' : FS) (e : Event) (o : Out) (k v : Str)
    (hs : step w c fs e = .ok (c', fs', o)) (h : alookup (ctxSelections c) k = some v) :
    alookup (ctxSelections c') k = some v ∨
    (∃ i s, e = .commit i ∧ c.m = .phonetic s ∧ learnKey s = k ∧ s.prevSelection ≠ i) ∨
    (∃ cfg p, e = .update cfg p ∧ c.layoutPath ≠ p) := by
  cases hm : c.m with
  | fixed l s => simp [ctxSelections, hm, alookup] at h
  | phonetic s =>
    simp only [ctxSelections, hm] at h
    cases e with
    | key code m sel =>
      simp [step, hm] at hs; obtain ⟨h1, _, _⟩ := hs; subst h1
      exact .inl (pKey_keeps w.env c.cfg s code sel k v h)
    | backspace ctrl =>
      simp [step, hm] at hs; obtain ⟨h1, _, _⟩ := hs; subst h1
      exact .inl (pBackspace_keeps w.env c.cfg s ctrl k v h)
    | finish =>
      simp [step, hm] at hs; obtain ⟨h1, _, _⟩ := hs; subst h1
      exact .inl h
    | setFs f =>
      simp [step] at hs; obtain ⟨h1, _, _⟩ := hs; subst h1
      exact .inl (by simpa [ctxSelections, hm] using h)
    | commit i =>
      simp only [step, hm] at hs
      cases hc : pCommit c.cfg s i with
      | error p => simp [hc] at hs
      | ok r =>
        obtain ⟨s', wr⟩ := r
        simp [hc] at hs; obtain ⟨h1, _, _⟩ := hs; subst h1
        rcases pCommit_keeps c.cfg s s' i wr k v hc h with h2 | ⟨h2, h3, _⟩
        · exact .inl h2
        · exact .inr (.inl ⟨i, s, rfl, rfl, h2, h3⟩)
    | update cfg p =>
      by_cases hp : c.layoutPath = p
      · have hb : (c.layoutPath != p) = false := by simpa using hp
        simp [step, hb, hm] at hs; obtain ⟨h1, _, _⟩ := hs; subst h1
        left
        simp only [ctxSelections, pUpdate]
        split
        · split <;> exact h
        · split <;> exact h
      · exact .inr (.inr ⟨cfg, p, rfl, hp⟩)

/-! ### the word followed by a known suffix -/

/-- a split point contributes nothing: unknown suffix, base not learned, or not joinable -/
def NoHit (env : Env) (st : Store) (ks : Str × Str) : Prop :=
  ∀ sfx base, env.suffix ks.2 = some sfx → alookup st ks.1 = some base → joinChecked base sfx = none

theorem prevSelLoop_skip (env : Env) (st : Store) (ks : Str × Str) (rest : List (Str × Str)) (h : NoHit env st ks) :
    prevSelLoop env st (ks :: rest) = prevSelLoop env st rest := by
  obtain ⟨key, test⟩ := ks
  simp only [prevSelLoop]
  split
  · rfl
  · next sfx hs =>
    split
    · rfl
    · next base hb => simp [h sfx base hs hb]

theorem prevSelLoop_hit (env : Env) (st : Store) (key test sfx base j : Str) (rest : List (Str × Str))
    (hs : env.suffix test = some sfx) (hb : alookup st key = some base) (hj : joinChecked base sfx = some j) :
    prevSelLoop env st ((key, test) :: rest) = some j := by
  simp [prevSelLoop, hs, hb, hj]

/-- the `i`-th split point (key = first `i + 1` characters) -/
def splitAt (w : Str) (i : Nat) : Str × Str := (w.take (i + 1), w.drop (i + 1))

theorem splitPoints_eq (w : Str) : splitPoints w = (List.range (w.length - 1)).map (splitAt w) := rfl

/-- the loop tries the longest key first and skips every split point that contributes nothing -/
theorem prevSelLoop_skip_longer (env : Env) (st : Store) (w : Str) (m N : Nat) (hm : m < N)
    (hskip : ∀ i, m < i → i < N → NoHit env st (splitAt w i)) :
    prevSelLoop env st ((List.range N).reverse.map (splitAt w)) =
      prevSelLoop env st ((List.range (m + 1)).reverse.map (splitAt w)) := by
  induction N with
  | zero => omega
  | succ N ih =>
    by_cases hN : m = N
    · subst hN; rfl
    · rw [List.range_succ, List.reverse_append, List.reverse_singleton, List.singleton_append, List.map_cons,
        prevSelLoop_skip env st _ _ (hskip N (by omega) (by omega))]
      exact ih (by omega) (fun i h1 h2 => hskip i h1 (by omega))

/-- **c09_suffix**: `k ↦ base` is learned, `r` is a known suffix (`sfx`), the suffixed text `k ++ r`
    has no learned choice of its own, and no LONGER split of `k ++ r` yields a learned, joinable
    base with a known suffix (the loop takes the longest such base).  Then the look-up for
    `k ++ r` returns the joined form, and stores it as an entry of its own. -/
theorem c09_suffix (env : Env) (st : Store) (k r base sfx j : Str)
    (hk : k ≠ []) (hr : r ≠ [])
    (hbase : alookup st k = some base) (hsfx : env.suffix r = some sfx)
    (hnone : alookup st (k ++ r) = none)
    (hlongest : ∀ i, k.length ≤ i → i + 1 < (k ++ r).length → NoHit env st (splitAt (k ++ r) i))
    (hj : joinChecked base sfx = some j) :
    selectedFor env st (k ++ r) = (j, ainsert st (k ++ r) j) := by
  have hkl : 0 < k.length := List.length_pos_iff.mpr hk
  have hrl : 0 < r.length := List.length_pos_iff.mpr hr
  have hlen : (k ++ r).length = k.length + r.length := List.length_append
  have hloop : prevSelLoop env st (splitPoints (k ++ r)).reverse = some j := by
    rw [splitPoints_eq, ← List.map_reverse,
      prevSelLoop_skip_longer env st (k ++ r) (k.length - 1) ((k ++ r).length - 1) (by omega)
        (fun i h1 h2 => hlongest i (by omega) (by omega))]
    have : k.length - 1 + 1 = k.length := by omega
    rw [List.range_succ, List.reverse_append, List.reverse_singleton, List.singleton_append, List.map_cons]
    have hsp : splitAt (k ++ r) (k.length - 1) = (k, r) := by simp [splitAt, this]
    rw [hsp]
    exact prevSelLoop_hit env st k r sfx base j _ hsfx hbase hj
  simp [selectedFor, hnone, hloop]
  omega

/-- … so the preselected index for `k ++ r` points at the first candidate whose text is the joined
    form (wrapped in the prepared punctuation), whenever such a candidate is offered -/
theorem c09_suffix_index (env : Env) (parts : Parts) (l : List Rank) (st : Store) (k r base sfx j : Str)
    (hw : parts.word = k ++ r) (hk : k ≠ []) (hr : r ≠ [])
    (hbase : alookup st k = some base) (hsfx : env.suffix r = some sfx) (hnone : alookup st (k ++ r) = none)
    (hlongest : ∀ i, k.length ≤ i → i + 1 < (k ++ r).length → NoHit env st (splitAt (k ++ r) i))
    (hj : joinChecked base sfx = some j)
    (n : Nat) (x : Rank) (hn : l[n]? = some x) (ht : x.text = wrapText parts.pre parts.trail j) :
    ∃ x₀, l[(getPrevSelection env parts l st).1]? = some x₀ ∧ x₀.text = x.text ∧
      (getPrevSelection env parts l st).2 = ainsert st (k ++ r) j := by
  have hsel := c09_suffix env st k r base sfx j hk hr hbase hsfx hnone hlongest hj
  obtain ⟨j₀, x₀, h1, h2, h3, _, _⟩ :=
    findIdx_first (fun y => y.text == wrapText parts.pre parts.trail j) l n x hn (by simp [ht])
  refine ⟨x₀, ?_, ?_, ?_⟩
  · simpa [getPrevSelection, hw, hsel, h1] using h2
  · simpa [ht] using h3
  · simp [getPrevSelection, hw, hsel]

/-- a derived entry, once stored, answers every later look-up of that word — whatever happens to
    the entry of the base it was derived from -/
theorem derived_entry_sticks (env : Env) (st : Store) (w j k v : Str) (hne : k ≠ w)
    (h : alookup st w = some j) : selectedFor env (ainsert st k v) w = (j, ainsert st k v) :=
  selectedFor_learned env _ w j (by rw [alookup_ainsert_ne st k w v (fun e => hne e.symm)]; exact h)

/-- a world with the suffix `e` ↦ `ে` -/
def envS : Env :=
  { convert := id, dictPhonetic := fun _ => some [],
    suffix := fun s => if s == ['e'] then some ['ে'] else none, autocorrect := fun _ => none, emoticon := fun _ => none,
    emojiByName := fun _ => none, emojiBengali := fun _ => none, bijoy := fun s => .ok s, fixedTable := fun _ => [] }

/-- KNOWN FINDING (staleness of derived entries).  Learn `kor ↦ কর`; looking `kore` up derives
    `করে` and stores it.  Re-learn `kor ↦ কোর`: `kore` still answers `করে`, not `কোরে` — the derived
    entry is now an entry of its own and shadows the re-learned base (a fresh store would give `কোরে`). -/
theorem derived_entry_shadows_relearning :
    let st₁ : Store := ainsert [] ['k', 'o', 'r'] ['ক', 'র']
    let look₁ := selectedFor envS st₁ ['k', 'o', 'r', 'e']
    let st₂ := ainsert look₁.2 ['k', 'o', 'r'] ['ক', 'ো', 'র']
    let look₂ := selectedFor envS st₂ ['k', 'o', 'r', 'e']
    look₁.1 = ['ক', 'র', 'ে'] ∧
    look₁.2 = [(['k', 'o', 'r'], ['ক', 'র']), (['k', 'o', 'r', 'e'], ['ক', 'র', 'ে'])] ∧
    look₂.1 = ['ক', 'র', 'ে'] ∧
    (selectedFor envS (ainsert [] ['k', 'o', 'r'] ['ক', 'ো', 'র']) ['k', 'o', 'r', 'e']).1 = ['ক', 'ো', 'র', 'ে'] := by
  decide

/-- the statement WITHOUT the longest-base hypothesis is false: with `kor ↦ কর`, `kore ↦ কোরে` learned
    and the suffixes `ei`, `i`, `e` known, `korei` is `kor` + `ei` (joined form `করেই`) but the loop
    takes the longer learned base `kore` + `i` and answers `কোরেই` -/
theorem suffix_longest_base_wins :
    let env : Env := { envS with suffix := fun s =>
      if s == ['e', 'i'] then some ['ে', 'ই'] else if s == ['i'] then some ['ই'] else if s == ['e'] then some ['ে'] else none }
    let st : Store := [(['k', 'o', 'r'], ['ক', 'র']), (['k', 'o', 'r', 'e'], ['ক', 'ো', 'র', 'ে'])]
    alookup st ['k', 'o', 'r'] = some ['ক', 'র'] ∧ env.suffix ['e', 'i'] = some ['ে', 'ই'] ∧
    alookup st (['k', 'o', 'r'] ++ ['e', 'i']) = none ∧
    joinChecked ['ক', 'র'] ['ে', 'ই'] = some ['ক', 'র', 'ে', 'ই'] ∧
    (selectedFor env st (['k', 'o', 'r'] ++ ['e', 'i'])).1 = ['ক', 'ো', 'র', 'ে', 'ই'] := by decide

/-- non-vacuity of `c09_suffix`: `kor ↦ কর`, suffix `e ↦ ে` -/
example : selectedFor envS [(['k', 'o', 'r'], ['ক', 'র'])] (['k', 'o', 'r'] ++ ['e']) =
    (['ক', 'র', 'ে'], ainsert [(['k', 'o', 'r'], ['ক', 'র'])] (['k', 'o', 'r'] ++ ['e']) ['ক', 'র', 'ে']) :=
  c09_suffix envS _ ['k', 'o', 'r'] ['e'] ['ক', 'র'] ['ে'] ['ক', 'র', 'ে'] (by decide) (by decide) (by decide) (by decide)
    (by decide) (by intro i h1 h2; simp at h1 h2; omega) (by decide)

/-! ### restart, and what the file can hold -/

/-- **c09_restart**: a new method over a directory whose selections file parses to `st` starts
    with exactly `st` -/
theorem c09_restart (fs : FS) (st : Store) : (pNew { fs with sel := .parsed st }).selections = st := rfl

/-- a context created over the directory written by a learning commit (writable) starts with
    exactly the committing context's store -/
theorem restart_after_learn (w : World) (c c' : Ctx) (fs fs' : FS) (s : PState) (i : Nat) (r : Rank) (o : Out)
    (cfg' : Cfg)
    (hm : c.m = .phonetic s) (hne : s.prevSelection ≠ i) (hcfg : c.cfg.phoneticSuggestion = true)
    (hr : s.suggestions[i]? = some r) (hw : fs.writable = true)
    (hs : step w c fs (.commit i) = .ok (c', fs', o)) :
    ∃ cn, Ctx.new w fs' cfg' "avro_phonetic" = some cn ∧ ctxSelections cn = ctxSelections c' ∧
      alookup (ctxSelections cn) (learnKey s) = some (learnValue r) := by
  rw [step_learn w c fs s i r hm hne hcfg hr] at hs
  simp [hw] at hs
  obtain ⟨h1, h2, _⟩ := hs
  subst h1 h2
  refine ⟨⟨cfg', "avro_phonetic", .phonetic (pNew { fs with sel := .parsed (ainsert s.selections (learnKey s) (learnValue r)) })⟩,
    by simp [Ctx.new, mNew, isPhoneticPath, hw], ?_, ?_⟩
  · simp [ctxSelections, pNew, FileState.content]
  · simp [ctxSelections, pNew, FileState.content, alookup_ainsert_self]

/-- the selections file holds a JSON object of strings -/
def Loadable : FileState → Prop
  | .parsed _ => True
  | _ => False

/-- one call leaves the selections file alone, or it is the outside world that changed the files,
    or a commit wrote the (loadable) store it keeps in memory — a commit never writes anything else -/
theorem step_sel_cases (w : World) (c c' : Ctx) (fs fs' : FS) (e : Event) (o : Out)
    (hs : step w c fs e = .ok (c', fs', o)) :
    fs' = fs ∨ (e = .setFs fs') ∨
    (∃ i, e = .commit i ∧ fs.writable = true ∧ fs' = { fs with sel := .parsed (ctxSelections c') }) := by
  cases e with
  | key code m sel => cases hm : c.m <;> simp [step, hm] at hs <;> exact .inl hs.2.1.symm
  | backspace ctrl => cases hm : c.m <;> simp [step, hm] at hs <;> exact .inl hs.2.1.symm
  | finish => cases hm : c.m <;> simp [step, hm] at hs <;> exact .inl hs.2.1.symm
  | setFs f => simp [step] at hs; exact .inr (.inl (by rw [hs.2.1]))
  | update cfg p =>
    simp only [step] at hs
    split at hs
    · split at hs
      · simp at hs; exact .inl hs.2.1.symm
      · cases hs
    · cases hm : c.m <;> simp [hm] at hs <;> exact .inl hs.2.1.symm
  | commit i =>
    cases hm : c.m with
    | fixed l s => simp [step, hm] at hs; exact .inl hs.2.1.symm
    | phonetic s =>
      simp only [step, hm] at hs
      cases hc : pCommit c.cfg s i with
      | error p => simp [hc] at hs
      | ok r =>
        obtain ⟨s', wr⟩ := r
        simp [hc] at hs
        obtain ⟨h1, h2, _⟩ := hs
        rcases commit_store_cases c.cfg s s' i wr hc with ⟨_, hwr⟩ | ⟨_, _, _, _, _, hwr⟩
        · subst hwr; exact .inl h2.symm
        · subst hwr
          by_cases hw : fs.writable = true
          · simp [hw] at h2
            exact .inr (.inr ⟨i, rfl, hw, by subst h1 h2; simp [ctxSelections, hw]⟩)
          · simp [hw] at h2; exact .inl h2.symm

/-- **store_always_loadable**: along any history, if the selections file was loadable at the start
    and the outside world only ever puts loadable content there, it is loadable at the end: the
    engine itself never writes anything but a JSON object of strings -/
theorem store_always_loadable (w : World) (evs : List Event) (c c' : Ctx) (fs fs' : FS) (os : List Out)
    (hworld : ∀ f, Event.setFs f ∈ evs → Loadable f.sel)
    (h0 : Loadable fs.sel) (hr : runFrom w c fs evs = .ok (c', fs', os)) : Loadable fs'.sel := by
  induction evs generalizing c fs os with
  | nil => simp [runFrom] at hr; rw [← hr.2.1]; exact h0
  | cons e es ih =>
    simp only [runFrom] at hr
    cases hs : step w c fs e with
    | error p => simp [hs] at hr
    | ok r1 =>
      obtain ⟨c1, fs1, o1⟩ := r1
      simp only [hs] at hr
      cases hrest : runFrom w c1 fs1 es with
      | error p => simp [hrest] at hr
      | ok r2 =>
        obtain ⟨c2, fs2, os2⟩ := r2
        simp [hrest] at hr
        obtain ⟨h1, h2, _⟩ := hr
        subst h1 h2
        apply ih c1 fs1 os2 (fun f hf => hworld f (by simp [hf])) _ hrest
        rcases step_sel_cases w c c1 fs fs1 e o1 hs with h | h | ⟨i, _, _, h⟩
        · rw [h]; exact h0
        · exact hworld fs1 (by simp [h])
        · rw [h]; trivial

/-- … and whatever the outside world did, the file is what it last put there or what a commit wrote:
    without any outside change the file is the initial one or a loadable store -/
theorem store_initial_or_loadable (w : World) (evs : List Event) (c c' : Ctx) (fs fs' : FS) (os : List Out)
    (hworld : ∀ f, Event.setFs f ∉ evs)
    (hr : runFrom w c fs evs = .ok (c', fs', os)) : fs'.sel = fs.sel ∨ Loadable fs'.sel := by
  induction evs generalizing c fs os with
  | nil => simp [runFrom] at hr; rw [← hr.2.1]; exact .inl rfl
  | cons e es ih =>
    simp only [runFrom] at hr
    cases hs : step w c fs e with
    | error p => simp [hs] at hr
    | ok r1 =>
      obtain ⟨c1, fs1, o1⟩ := r1
      simp only [hs] at hr
      cases hrest : runFrom w c1 fs1 es with
      | error p => simp [hrest] at hr
      | ok r2 =>
        obtain ⟨c2, fs2, os2⟩ := r2
        simp [hrest] at hr
        obtain ⟨h1, h2, _⟩ := hr
        subst h1 h2
        have ih' := ih c1 fs1 os2 (fun f hf => hworld f (by simp [hf])) hrest
        rcases step_sel_cases w c c1 fs fs1 e o1 hs with h | h | ⟨i, _, _, h⟩
        · rw [h] at ih'; exact ih'
        · exact absurd (by simp [h]) (hworld fs1)
        · rcases ih' with h' | h'
          · right; rw [h', h]; trivial
          · exact .inr h'

end Riti.C09
