/-
Props/C10 — the optional per-user files can be in any state (absent, unreadable, crash-truncated,
read-only directory) at any time: creating a context, typing, committing and re-loading the
configuration keep working; unreadable content is treated as absent; a failed save loses at most
the choices learned since the last successful save, and the next successful save restores them all.
-/
import RitiModel.Model.Context
import RitiModel.Lemmas.Store
import RitiModel.Props.C01
import RitiModel.Props.C09
namespace Riti.C10
open Riti Riti.Gen Riti.C01 Riti.C09 Riti.AList

/-! ### creating a context -/

/-- **new_total** (phonetic): a phonetic context can be created over ANY state of the user files -/
theorem new_total (w : World) (fs : FS) (cfg : Cfg) : ∃ c, Ctx.new w fs cfg "avro_phonetic" = some c :=
  new_phonetic_total w fs cfg

/-- **new_total** (fixed): a fixed-layout context is created whenever the layout loads, whatever
    the user files hold — it does not look at them at all -/
theorem new_total_fixed (w : World) (fs : FS) (cfg : Cfg) (p : String) (hp : isPhoneticPath p = false)
    (hl : (w.layouts p).isSome = true) : ∃ c, Ctx.new w fs cfg p = some c := by
  cases h : w.layouts p with
  | none => simp [h] at hl
  | some l => simp [Ctx.new, mNew, hp, h]

/-- the fixed method ignores the user files -/
theorem new_fixed_ignores_files (w : World) (fs fs' : FS) (cfg : Cfg) (p : String) (hp : isPhoneticPath p = false) :
    Ctx.new w fs cfg p = Ctx.new w fs' cfg p := by
  simp [Ctx.new, mNew, hp]

/-- **unreadable_is_absent** (selections file): a file that is not a JSON object of strings gives
    the same method as no file -/
theorem unreadable_is_absent (fs : FS) : pNew { fs with sel := .unreadable } = pNew { fs with sel := .absent } := rfl

/-- **unreadable_is_absent** (auto-correct file): a file that cannot be parsed gives the same
    method as a file that cannot be opened — its mtime is not even recorded -/
theorem unreadable_ac_is_absent (fs : FS) (t : Nat) :
    pNew { fs with ac := some (t, none) } = pNew { fs with ac := none } := rfl

/-- both at once, at the level of `RitiContext::new_with_config` -/
theorem new_unreadable_is_absent (w : World) (fs : FS) (cfg : Cfg) (p : String) (t : Nat) :
    Ctx.new w { fs with sel := .unreadable, ac := some (t, none) } cfg p =
    Ctx.new w { fs with sel := .absent, ac := none } cfg p := by
  simp only [Ctx.new, mNew]
  split
  · rfl
  · rfl

/-- a new method over absent / unreadable files is the empty one -/
theorem new_over_nothing (fs : FS) (h1 : fs.sel = .absent ∨ fs.sel = .unreadable)
    (h2 : fs.ac = none ∨ ∃ t, fs.ac = some (t, none)) : pNew fs = {} := by
  rcases fs with ⟨sel, ac, wr⟩
  simp only at h1 h2
  rcases h1 with h1 | h1 <;> rcases h2 with h2 | ⟨t, h2⟩ <;> subst h1 h2 <;> rfl

/-! ### re-loading (`update_engine`) with a damaged auto-correct file -/

/-- exactly what a reload does with an unreadable file that is newer than what was loaded:
    the user list and the memo are emptied, the file's mtime is recorded -/
theorem pUpdate_unreadable_newer (fs : FS) (s : PState) (t : Nat) (hac : fs.ac = some (t, none)) (ht : t > s.modified) :
    pUpdate fs s = { s with userAutocorrect := [], cache := [], modified := t } := by
  simp [pUpdate, hac, ht]

/-- exactly what a reload does when the file is gone after one had been loaded: the user list
    and the memo are emptied, the recorded mtime is reset -/
theorem pUpdate_absent_after_loaded (fs : FS) (s : PState) (hac : fs.ac = none) (hm : s.modified ≠ 0) :
    pUpdate fs s = { s with userAutocorrect := [], cache := [], modified := 0 } := by
  have : (s.modified != 0) = true := by simpa using hm
  simp [pUpdate, hac, this]

/-- a reload when there is no file and none had been loaded changes nothing -/
theorem pUpdate_absent_never_loaded (fs : FS) (s : PState) (hac : fs.ac = none) (hm : s.modified = 0) :
    pUpdate fs s = s := by
  simp [pUpdate, hac, hm]

/-- **reload: unreadable is absent** (a file had been loaded, the damaged file is newer): the
    observable state — user auto-correct list, memo, and every other field that influences later
    suggestions — is the same as if the file had been removed.  Only the recorded mtime differs
    (`t` against 0): a later repaired file must again be newer than the damaged one to be loaded. -/
theorem reload_unreadable_is_absent (fs : FS) (s : PState) (t : Nat) (hm : s.modified ≠ 0) (ht : t > s.modified) :
    let a := pUpdate { fs with ac := some (t, none) } s
    let b := pUpdate { fs with ac := none } s
    a.userAutocorrect = b.userAutocorrect ∧ a.cache = b.cache ∧ a.selections = b.selections ∧
    a.buffer = b.buffer ∧ a.suggestions = b.suggestions ∧ a.prevSelection = b.prevSelection ∧
    a.modified = t ∧ b.modified = 0 := by
  rw [pUpdate_unreadable_newer _ s t rfl ht, pUpdate_absent_after_loaded _ s rfl hm]
  simp

/-- … hence the same candidates for every later text -/
theorem reload_unreadable_same_suggestions (env : Env) (cfg : Cfg) (fs : FS) (s : PState) (t : Nat) (term : Str)
    (hm : s.modified ≠ 0) (ht : t > s.modified) :
    (suggest env cfg (pUpdate { fs with ac := some (t, none) } s) term).2 =
    (suggest env cfg (pUpdate { fs with ac := none } s) term).2 := by
  rw [pUpdate_unreadable_newer _ s t rfl ht, pUpdate_absent_after_loaded _ s rfl hm]
  rfl

/-- **reload: unreadable is absent** (no file had ever been loaded, so the list is empty): the user
    list is empty either way; the damaged file additionally empties the memo, which is harmless
    (the memo is only a cache of look-ups made with the same, empty, list — C05) -/
theorem reload_unreadable_is_absent_never_loaded (fs : FS) (s : PState) (t : Nat)
    (hm : s.modified = 0) (hua : s.userAutocorrect = []) (ht : t > 0) :
    let a := pUpdate { fs with ac := some (t, none) } s
    let b := pUpdate { fs with ac := none } s
    a.userAutocorrect = [] ∧ b.userAutocorrect = [] ∧ a.cache = [] ∧ b.cache = s.cache ∧
    a.selections = b.selections ∧ a.modified = t ∧ b.modified = 0 := by
  rw [pUpdate_unreadable_newer _ s t rfl (by omega), pUpdate_absent_never_loaded _ s rfl hm]
  simp [hua, hm]

/-- a file whose mtime is NOT newer than the recorded one is not looked at, readable or not:
    the reload changes nothing (the list loaded earlier stays in use) -/
theorem pUpdate_not_newer (fs : FS) (s : PState) (t : Nat) (parsed : Option Store)
    (hac : fs.ac = some (t, parsed)) (ht : t ≤ s.modified) : pUpdate fs s = s := by
  have : ¬ t > s.modified := by omega
  simp [pUpdate, hac, this]

/-- whatever the files hold, a reload only ever touches the user list, the memo and the recorded
    mtime: composition, candidates, learned choices and preselection are untouched -/
theorem pUpdate_frame (fs : FS) (s : PState) :
    (pUpdate fs s).buffer = s.buffer ∧ (pUpdate fs s).suggestions = s.suggestions ∧
    (pUpdate fs s).selections = s.selections ∧ (pUpdate fs s).prevSelection = s.prevSelection := by
  simp only [pUpdate]
  split
  · split <;> simp
  · split <;> simp

/-! ### every call keeps working after any fault -/

/-- a change of the user files by the outside world is always "in contract": the engine has no say -/
theorem setFs_in_contract (w : World) (c : Ctx) (fs' : FS) : InContractEv w c (.setFs fs') := trivial

/-- … it returns normally and does not touch the context -/
theorem setFs_step (w : World) (c : Ctx) (fs fs' : FS) : step w c fs (.setFs fs') = .ok (c, fs', .unit) := rfl

/-- a history that starts with a fault is in contract iff the rest is, over the damaged files -/
theorem inContract_setFs (w : World) (c : Ctx) (fs fs' : FS) (es : List Event) :
    InContract w c fs (.setFs fs' :: es) ↔ InContract w c fs' es := by
  simp only [InContract, InContractEv, true_and, setFs_step]
  constructor
  · intro h; exact h c fs' .unit rfl
  · intro h c' f o he; simp at he; obtain ⟨h1, h2, _⟩ := he; subst h1 h2; exact h

/-- the faults of the property: files removed, replaced by garbage / truncated by a crash
    (`.unreadable`, `some (t, none)`), replaced by other well-formed content, directory made read-only -/
def faults (fs : FS) (t : Nat) (st ua : Store) : List FS :=
  [ { fs with sel := .absent }, { fs with sel := .unreadable }, { fs with sel := .parsed st },
    { fs with ac := none }, { fs with ac := some (t, none) }, { fs with ac := some (t, some ua) },
    { fs with writable := false }, { sel := .unreadable, ac := some (t, none), writable := false } ]

/- The contract of a call (`InContractEv w c e`) does not mention the user files at all: no state of
   the files can make an otherwise legal call illegal. -/

/-- **works_after_faults**: take any history `pre`, let any fault happen (arbitrary new state `bad`
    of the files — in particular every element of `faults`), continue with any in-contract history
    `post`; every call returns normally.  (`no_panic` of C01 already quantifies over all file states
    and over `setFs` anywhere in the history; this spells the fault out.) -/
theorem works_after_faults (w : World) (c : Ctx) (fs bad : FS) (pre post : List Event)
    (h : InContract w c fs (pre ++ .setFs bad :: post)) :
    ∃ r, runFrom w c fs (pre ++ .setFs bad :: post) = .ok r :=
  no_panic w c fs _ h

/-- one fault, one call: after ANY change of the files, in ANY state, each kind of call returns normally
    (`commit` inside the shown list, `update_engine` with a layout that loads) -/
theorem every_call_after_fault (w : World) (c : Ctx) (fs bad : FS) (e : Event) (he : InContractEv w c e) :
    ∃ r, runFrom w c fs [.setFs bad, e] = .ok r := by
  apply no_panic
  rw [inContract_setFs]
  exact ⟨he, fun _ _ _ _ => trivial⟩

/-- creating a context over damaged files and then making any in-contract call works as well -/
theorem new_then_call_over_damaged_files (w : World) (bad : FS) (cfg : Cfg) (e : Event) :
    ∃ c, Ctx.new w bad cfg "avro_phonetic" = some c ∧ (InContractEv w c e → ∃ r, step w c bad e = .ok r) := by
  obtain ⟨c, hc⟩ := new_total w bad cfg
  exact ⟨c, hc, step_total w c bad e⟩

/-! ### a failed save -/

/-- **failed_save_loses_one** (1): when the save fails the files are exactly as before, while the
    running context has the new choice -/
theorem failed_save_keeps_memory (w : World) (c : Ctx) (fs : FS) (s : PState) (i : Nat) (r : Rank)
    (hm : c.m = .phonetic s) (hne : s.prevSelection ≠ i) (hcfg : c.cfg.phoneticSuggestion = true)
    (hr : s.suggestions[i]? = some r) (hw : fs.writable = false) :
    ∃ c', step w c fs (.commit i) = .ok (c', fs, .unit) ∧
      ctxSelections c' = ainsert s.selections (learnKey s) (learnValue r) ∧
      alookup (ctxSelections c') (learnKey s) = some (learnValue r) := by
  refine ⟨{ c with m := .phonetic { s with selections := ainsert s.selections (learnKey s) (learnValue r), buffer := [] } },
    by rw [step_learn w c fs s i r hm hne hcfg hr]; simp [hw], ?_, ?_⟩
  · simp [ctxSelections]
  · simp [ctxSelections, alookup_ainsert_self]

/-- **failed_save_loses_one** (2): a later successful save writes the WHOLE in-memory store: every
    choice the context still has — in particular one whose own save failed — is in the written file
    (or has just been replaced by the choice being learned for the same word) -/
theorem later_save_contains_earlier (w : World) (c c' : Ctx) (fs fs' : FS) (s : PState) (i : Nat) (r : Rank) (o : Out)
    (k v : Str)
    (hm : c.m = .phonetic s) (hne : s.prevSelection ≠ i) (hcfg : c.cfg.phoneticSuggestion = true)
    (hr : s.suggestions[i]? = some r) (hw : fs.writable = true)
    (hearlier : alookup s.selections k = some v)
    (hs : step w c fs (.commit i) = .ok (c', fs', o)) :
    ∃ st, fs'.sel = .parsed st ∧ st = ctxSelections c' ∧
      alookup st (learnKey s) = some (learnValue r) ∧ (k ≠ learnKey s → alookup st k = some v) := by
  rw [step_learn w c fs s i r hm hne hcfg hr] at hs
  simp [hw] at hs
  obtain ⟨h1, h2, _⟩ := hs
  subst h1 h2
  refine ⟨_, rfl, by simp [ctxSelections], alookup_ainsert_self _ _ _, fun hk => ?_⟩
  rw [alookup_ainsert_ne _ _ _ _ hk]; exact hearlier

/-- … and the earlier choice is still in memory at that later time (`learned_entry_persists` of C09):
    between the failed and the successful save nothing but re-learning the same word removes it.
    Spelled out for a whole history: -/
theorem entry_survives_history (w : World) (evs : List Event) (c c' : Ctx) (fs fs' : FS) (os : List Out) (k v : Str)
    (hno_relearn : ∀ e ∈ evs, (∀ i, e ≠ .commit i) ∧ (∀ cfg p, e ≠ .update cfg p))
    (h : alookup (ctxSelections c) k = some v)
    (hr : runFrom w c fs evs = .ok (c', fs', os)) : alookup (ctxSelections c') k = some v := by
  induction evs generalizing c fs os with
  | nil => simp [runFrom] at hr; rw [← hr.1]; exact h
  | cons e es ih =>
    simp only [runFrom] at hr
    cases hs : step w c fs e with
    | error p => simp [hs] at hr
    | ok r1 =>
      obtain ⟨c1, fs1, o1⟩ := r1
      simp only [hs] at hr
      cases hrest : runFrom w c1 fs1 es with
      | error p => simp [hrest] at hr
      | ok r2 =>
        obtain ⟨c2, fs2, os2⟩ := r2
        simp [hrest] at hr
        obtain ⟨h1, h2, _⟩ := hr
        subst h1 h2
        apply ih c1 fs1 os2 (fun e' he' => hno_relearn e' (by simp [he'])) _ hrest
        have hne := hno_relearn e (by simp)
        rcases learned_entry_persists w c c1 fs fs1 e o1 k v hs h with h' | ⟨i, _, he, _⟩ | ⟨cfg, p, he, _⟩
        · exact h'
        · exact absurd he (hne.1 i)
        · exact absurd he (hne.2 cfg p)

/-- **failed_save_loses_one** (3): a restart after the failed save sees exactly the previously saved
    store — it lacks only what was learned since that save -/
theorem restart_after_failed_save (w : World) (c : Ctx) (fs : FS) (s : PState) (i : Nat) (r : Rank) (cfg' : Cfg)
    (hm : c.m = .phonetic s) (hne : s.prevSelection ≠ i) (hcfg : c.cfg.phoneticSuggestion = true)
    (hr : s.suggestions[i]? = some r) (hw : fs.writable = false) :
    ∃ c' cn, step w c fs (.commit i) = .ok (c', fs, .unit) ∧ Ctx.new w fs cfg' "avro_phonetic" = some cn ∧
      ctxSelections cn = fs.sel.content := by
  obtain ⟨c', h1, _⟩ := failed_save_keeps_memory w c fs s i r hm hne hcfg hr hw
  exact ⟨c', ⟨cfg', "avro_phonetic", .phonetic (pNew fs)⟩, h1, by simp [Ctx.new, mNew, isPhoneticPath],
    by simp [ctxSelections, pNew]⟩

/-- if all earlier saves had succeeded (file = store in memory before the commit), the restarted
    context differs from the running one in exactly the one choice whose save failed -/
theorem failed_save_loses_exactly_one (fs : FS) (s : PState) (k v : Str) (hsync : fs.sel = .parsed s.selections) :
    (pNew fs).selections = s.selections ∧
    ∀ k', k' ≠ k → alookup (ainsert s.selections k v) k' = alookup (pNew fs).selections k' := by
  have : (pNew fs).selections = s.selections := by simp [pNew, hsync, FileState.content]
  exact ⟨this, fun k' hk => by rw [this, alookup_ainsert_ne _ _ _ _ hk]⟩

/-- **failed_save_loses_one** (summary): the save fails ⇒ the files are untouched, the running context
    has the new choice and still every older one, and a context started now over the same directory
    has exactly what the file held — only what was learned since the last successful save is missing there -/
theorem failed_save_loses_one (w : World) (c : Ctx) (fs : FS) (s : PState) (i : Nat) (r : Rank) (cfg' : Cfg)
    (hm : c.m = .phonetic s) (hne : s.prevSelection ≠ i) (hcfg : c.cfg.phoneticSuggestion = true)
    (hr : s.suggestions[i]? = some r) (hw : fs.writable = false) :
    ∃ c' cn, step w c fs (.commit i) = .ok (c', fs, .unit) ∧
      alookup (ctxSelections c') (learnKey s) = some (learnValue r) ∧
      (∀ k v, k ≠ learnKey s → alookup s.selections k = some v → alookup (ctxSelections c') k = some v) ∧
      Ctx.new w fs cfg' "avro_phonetic" = some cn ∧ ctxSelections cn = fs.sel.content := by
  obtain ⟨c', h1, h2, h3⟩ := failed_save_keeps_memory w c fs s i r hm hne hcfg hr hw
  refine ⟨c', ⟨cfg', "avro_phonetic", .phonetic (pNew fs)⟩, h1, h3, ?_, by simp [Ctx.new, mNew, isPhoneticPath],
    by simp [ctxSelections, pNew]⟩
  intro k v hk hv
  rw [h2, alookup_ainsert_ne _ _ _ _ hk]; exact hv

/-! ### empty strings in the files are harmless -/

/-- an empty learned / memo base is skipped by the joining rule … -/
theorem joinChecked_nil_left (s : Str) : joinChecked [] s = none := by simp [joinChecked]

/-- … and so is an empty suffix -/
theorem joinChecked_nil_right (b : Str) : joinChecked b [] = none := by
  simp only [joinChecked, List.head?_nil]
  split <;> simp_all

/-- **empty_strings_harmless**: an empty base or an empty suffix is skipped (`none`), never an error -/
theorem empty_strings_harmless (b s : Str) : joinChecked [] s = none ∧ joinChecked b [] = none :=
  ⟨joinChecked_nil_left s, joinChecked_nil_right b⟩

/-- the joining rule answers exactly when both parts are non-empty; it is a total function, there
    is no error value it could return (the `unwrap`s of the original code are gone) -/
theorem joinChecked_isSome_iff (b s : Str) : (joinChecked b s).isSome = true ↔ b ≠ [] ∧ s ≠ [] := by
  cases hb : b.getLast? with
  | none =>
    have : b = [] := by simpa using hb
    simp [joinChecked, this]
  | some rmc =>
    have hb' : b ≠ [] := by intro e; simp [e] at hb
    cases s with
    | nil => simp [joinChecked, hb]
    | cons x xs => simp [joinChecked, hb, hb']

/-- a learned EMPTY value (`"kor": ""` in a hand-edited file) is skipped by the suffix loop -/
theorem prevSelLoop_skips_empty_value (env : Env) (st : Store) (key test : Str) (rest : List (Str × Str))
    (h : alookup st key = some []) : prevSelLoop env st ((key, test) :: rest) = prevSelLoop env st rest := by
  apply prevSelLoop_skip
  intro sfx base _ hb
  simp only at hb
  rw [h] at hb; cases hb
  exact joinChecked_nil_left sfx

/-- an EMPTY suffix value is skipped by the suffix loop -/
theorem prevSelLoop_skips_empty_suffix (env : Env) (st : Store) (key test : Str) (rest : List (Str × Str))
    (h : env.suffix test = some []) : prevSelLoop env st ((key, test) :: rest) = prevSelLoop env st rest := by
  apply prevSelLoop_skip
  intro sfx base hs _
  simp only at hs
  rw [h] at hs; cases hs
  exact joinChecked_nil_right base

theorem filterMap_join_skips_empty (sfx : Str) (entry : List Rank) :
    entry.filterMap (fun b => (joinChecked b.text sfx).map b.setText) =
    (entry.filter (fun b => !b.text.isEmpty)).filterMap (fun b => (joinChecked b.text sfx).map b.setText) := by
  induction entry with
  | nil => rfl
  | cons b bs ih =>
    by_cases hb : b.text = []
    · simp [hb, joinChecked_nil_left, ih]
    · have he : b.text.isEmpty = false := by simpa using hb
      simp only [List.filterMap_cons, List.filter_cons, he, Bool.not_false, if_true, ih]

/-- EMPTY memo items (an auto-correct entry mapping to "") contribute no suffixed candidate -/
theorem suffixedAt_skips_empty_items (env : Env) (cache : Memo) (ks : Str × Str) (entry : List Rank)
    (h : alookup cache ks.1 = some entry) :
    suffixedAt env cache ks =
      suffixedAt env (ainsert cache ks.1 (entry.filter (fun b => !b.text.isEmpty))) ks := by
  simp only [suffixedAt, h, alookup_ainsert_self]
  cases env.suffix ks.2 with
  | none => rfl
  | some sfx =>
    exact filterMap_join_skips_empty sfx entry

/-- an EMPTY suffix value contributes no suffixed candidate -/
theorem suffixedAt_empty_suffix (env : Env) (cache : Memo) (ks : Str × Str) (h : env.suffix ks.2 = some []) :
    suffixedAt env cache ks = [] := by
  simp only [suffixedAt, h]
  split
  · rfl
  · simp [joinChecked_nil_right]

/-- every suffixed candidate has a non-empty text -/
theorem suffixedAt_texts_nonempty (env : Env) (cache : Memo) (ks : Str × Str) :
    ∀ x ∈ suffixedAt env cache ks, ∃ (b : Rank) (sfx j : Str), b.text ≠ [] ∧ sfx ≠ [] ∧ joinChecked b.text sfx = some j ∧ x = b.setText j := by
  intro x hx
  simp only [suffixedAt] at hx
  split at hx
  · simp at hx
  · next sfx _ =>
    split at hx
    · simp at hx
    · simp only [List.mem_filterMap, Option.map_eq_some_iff] at hx
      obtain ⟨b, _, j, hj, hxj⟩ := hx
      have := (joinChecked_isSome_iff b.text sfx).mp (by simp [hj])
      exact ⟨b, sfx, j, this.1, this.2, hj, hxj.symm⟩

/-- a look-up over a store with an empty value for the word itself returns the empty text and
    leaves the store alone: no candidate matches the bare punctuation unless one is exactly that,
    and nothing can go wrong — `selectedFor`, `getPrevSelection` are total functions into plain data -/
theorem selectedFor_empty_value (env : Env) (st : Store) (w : Str) (h : alookup st w = some []) :
    selectedFor env st w = ([], st) := selectedFor_learned env st w [] h

/-! ### non-vacuity -/

/-- the hypotheses of `reload_unreadable_is_absent` are satisfiable and the two reloads really differ
    from the state before (a loaded list is dropped) -/
example :
    let s : PState := { userAutocorrect := [(['a'], ['b'])], cache := [(['a'], [])], modified := 5 }
    (pUpdate { ac := some (7, none) } s).userAutocorrect = [] ∧ (pUpdate { ac := none } s).userAutocorrect = [] ∧
    (pUpdate { ac := some (7, none) } s).modified = 7 ∧ (pUpdate { ac := none } s).modified = 0 ∧
    (pUpdate { ac := some (5, none) } s).userAutocorrect = [(['a'], ['b'])] := by decide

/-- the context and files after a call (a dummy if it panicked; the example checks it did not) -/
def okStep : Res (Ctx × FS × Out) → Ctx × FS
  | .ok (c, fs, _) => (c, fs)
  | .error _ => (⟨{}, "", .phonetic {}⟩, {})

/-- a failed save followed by a successful one (a concrete run of the API model): the file is
    untouched by the failed save, and holds BOTH choices after the successful one -/
example :
    let cfg : Cfg := { phoneticSuggestion := true }
    let w : World := ⟨envQ, fun _ => none, sortStable⟩
    let c : Ctx := ⟨cfg, "avro_phonetic", .phonetic { buffer := ['e'], suggestions := [.other ['এ'] 0, .other ['ে'] 10] }⟩
    let r₁ := okStep (step w c { writable := false } (.commit 1))
    let c₁ : Ctx := ⟨cfg, "avro_phonetic", .phonetic
      { buffer := ['i'], suggestions := [.other ['ই'] 0, .other ['ি'] 10], selections := ctxSelections r₁.1 }⟩
    let r₂ := okStep (step w c₁ { r₁.2 with writable := true } (.commit 1))
    r₁.2.sel.content = [] ∧ ctxSelections r₁.1 = [(['e'], ['ে'])] ∧
    r₂.2.sel.content = [(['e'], ['ে']), (['i'], ['ি'])] := by decide

end Riti.C10
