/-
Props/C11 — `update_engine` on an idle context against a context newly created with the new
configuration over the same user files.  Layout change: the method IS a new one.  Same layout:
the configuration is replaced (every option is read from it at each call); the phonetic method
re-reads an auto-correct file that is newer than the one it loaded and forgets its memo, so the
edit is honoured for every word.  What is NOT re-read is the learned-selections store; and the
stale list / preselected index of the last word survive until the next key (both proved as
concrete differences, with the exact conditions under which the two contexts coincide).
-/
import RitiModel.Model.Context
import RitiModel.Lemmas.Store
import RitiModel.Lemmas.FixedStale
import RitiModel.Props.C01
import RitiModel.Props.C09
namespace Riti.C11
open Riti Riti.Gen Riti.C01 Riti.C09 Riti.AList

/-! ### layout changed -/

/-- **update_layout_changed_is_new**: when the layout path differs, the context after
    `update_engine` is literally the context `new_with_config` builds over the same files — new
    method, new layout, new configuration; the files are not touched -/
theorem update_layout_changed_is_new (w : World) (c c' : Ctx) (fs fs' : FS) (cfg : Cfg) (p : String) (o : Out)
    (hp : c.layoutPath ≠ p) (hs : step w c fs (.update cfg p) = .ok (c', fs', o)) :
    Ctx.new w fs cfg p = some c' ∧ fs' = fs ∧ o = .unit := by
  have hb : (c.layoutPath != p) = true := by simpa using hp
  simp only [step, hb, if_true] at hs
  cases hm : mNew w fs p with
  | none => simp [hm] at hs
  | some m =>
    simp [hm] at hs
    obtain ⟨h1, h2, h3⟩ := hs
    subst h1 h2 h3
    simp [Ctx.new, hm]

/-- conversely a layout that loads always switches (the call is in contract and returns) -/
theorem update_layout_changed_switches (w : World) (c cn : Ctx) (fs : FS) (cfg : Cfg) (p : String)
    (hp : c.layoutPath ≠ p) (hn : Ctx.new w fs cfg p = some cn) :
    step w c fs (.update cfg p) = .ok (cn, fs, .unit) := by
  have hb : (c.layoutPath != p) = true := by simpa using hp
  simp only [Ctx.new] at hn
  cases hm : mNew w fs p with
  | none => simp [hm] at hn
  | some m =>
    simp [hm] at hn
    subst hn
    simp [step, hb, hm]

/-! ### same layout: the configuration is replaced, options take effect at once -/

/-- **update_same_layout_fixed**: for a fixed layout the method state is untouched, only the
    configuration is replaced -/
theorem update_same_layout_fixed (w : World) (c : Ctx) (fs : FS) (cfg : Cfg) (l : Layout) (s : FState)
    (hm : c.m = .fixed l s) :
    step w c fs (.update cfg c.layoutPath) = .ok ({ c with cfg := cfg }, fs, .unit) := by
  simp [step, hm]

/-- same layout, phonetic: the configuration is replaced and the method reloads the auto-correct file -/
theorem update_same_layout_phonetic (w : World) (c : Ctx) (fs : FS) (cfg : Cfg) (s : PState)
    (hm : c.m = .phonetic s) :
    step w c fs (.update cfg c.layoutPath) = .ok ({ c with cfg := cfg, m := .phonetic (pUpdate fs s) }, fs, .unit) := by
  simp [step, hm]

/-- after `update_engine` the configuration of the context is the new one, whatever happened -/
theorem update_sets_cfg (w : World) (c c' : Ctx) (fs fs' : FS) (cfg : Cfg) (p : String) (o : Out)
    (hs : step w c fs (.update cfg p) = .ok (c', fs', o)) : c'.cfg = cfg ∧ c'.layoutPath = p := by
  simp only [step] at hs
  split at hs
  · split at hs
    · simp at hs; obtain ⟨h, _⟩ := hs; subst h; exact ⟨rfl, rfl⟩
    · cases hs
  · cases hm : c.m <;> simp [hm] at hs <;> (obtain ⟨h, _⟩ := hs; subst h; exact ⟨rfl, rfl⟩)

/-- **options take effect at once**: every call reads the options from the configuration stored
    in the context — a key / backspace / commit after the update is computed with the NEW
    configuration and nothing of the old one (the context has no other copy of it) -/
theorem later_calls_use_new_cfg (w : World) (cfg : Cfg) (p : String) (fs : FS) :
    (∀ s code m sel, step w ⟨cfg, p, .phonetic s⟩ fs (.key code m sel) =
      .ok (⟨cfg, p, .phonetic (pKey w.env cfg s code sel).1⟩, fs, .sugg (pKey w.env cfg s code sel).2)) ∧
    (∀ l s code m sel, step w ⟨cfg, p, .fixed l s⟩ fs (.key code m sel) =
      .ok (⟨cfg, p, .fixed l (fKey w l cfg s code m).1⟩, fs, .sugg (fKey w l cfg s code m).2)) ∧
    (∀ s ctrl, step w ⟨cfg, p, .phonetic s⟩ fs (.backspace ctrl) =
      .ok (⟨cfg, p, .phonetic (pBackspace w.env cfg s ctrl).1⟩, fs, .sugg (pBackspace w.env cfg s ctrl).2)) ∧
    (∀ l s ctrl, step w ⟨cfg, p, .fixed l s⟩ fs (.backspace ctrl) =
      .ok (⟨cfg, p, .fixed l (fBackspace w cfg s ctrl).1⟩, fs, .sugg (fBackspace w cfg s ctrl).2)) := by
  refine ⟨?_, ?_, ?_, ?_⟩ <;> intros <;> simp [step]

/-- a context is well formed when its method is the one its layout path names, with the layout
    that path loads (true of every created context and kept by every call) -/
def WF (w : World) (c : Ctx) : Prop :=
  match c.m with
  | .phonetic _ => isPhoneticPath c.layoutPath = true
  | .fixed l _ => isPhoneticPath c.layoutPath = false ∧ w.layouts c.layoutPath = some l

theorem mNew_wf (w : World) (fs : FS) (cfg : Cfg) (p : String) (m : MState) (h : mNew w fs p = some m) :
    WF w ⟨cfg, p, m⟩ := by
  simp only [mNew] at h
  split at h
  · next hp => simp at h; subst h; exact hp
  · next hp =>
    split at h
    · next l hl => simp at h; subst h; exact ⟨by simpa using hp, hl⟩
    · cases h

/-- a created context is well formed -/
theorem new_wf (w : World) (fs : FS) (cfg : Cfg) (p : String) (c : Ctx) (h : Ctx.new w fs cfg p = some c) : WF w c := by
  simp only [Ctx.new] at h
  cases hm : mNew w fs p with
  | none => simp [hm] at h
  | some m => simp [hm] at h; subst h; exact mNew_wf w fs cfg p m hm

/-- every call keeps the context well formed -/
theorem step_wf (w : World) (c c' : Ctx) (fs fs' : FS) (e : Event) (o : Out) (h : WF w c)
    (hs : step w c fs e = .ok (c', fs', o)) : WF w c' := by
  cases e with
  | key code m sel =>
    cases hm : c.m <;> simp [step, hm] at hs <;> (obtain ⟨h1, _⟩ := hs; subst h1; simpa [WF, hm] using h)
  | backspace ctrl =>
    cases hm : c.m <;> simp [step, hm] at hs <;> (obtain ⟨h1, _⟩ := hs; subst h1; simpa [WF, hm] using h)
  | finish =>
    cases hm : c.m <;> simp [step, hm] at hs <;> (obtain ⟨h1, _⟩ := hs; subst h1; simpa [WF, hm] using h)
  | setFs f => simp [step] at hs; obtain ⟨h1, _⟩ := hs; subst h1; exact h
  | commit i =>
    cases hm : c.m with
    | fixed l s => simp [step, hm] at hs; obtain ⟨h1, _⟩ := hs; subst h1; simpa [WF, hm] using h
    | phonetic s =>
      simp only [step, hm] at hs
      cases hc : pCommit c.cfg s i with
      | error p => simp [hc] at hs
      | ok r => simp [hc] at hs; obtain ⟨h1, _⟩ := hs; subst h1; simpa [WF, hm] using h
  | update cfg p =>
    by_cases hp : c.layoutPath = p
    · subst hp
      cases hm : c.m with
      | fixed l s =>
        rw [update_same_layout_fixed w c fs cfg l s hm] at hs
        simp at hs; obtain ⟨h1, _⟩ := hs; subst h1; simpa [WF, hm] using h
      | phonetic s =>
        rw [update_same_layout_phonetic w c fs cfg s hm] at hs
        simp at hs; obtain ⟨h1, _⟩ := hs; subst h1; simpa [WF, hm] using h
    · exact new_wf w fs cfg p c' (update_layout_changed_is_new w c c' fs fs' cfg p o hp hs).1

/-- fixed layout, same path: the updated context and the new one have the same configuration, path
    and layout; they differ at most in the method state (`s` against the initial state) -/
theorem update_fixed_vs_new (w : World) (c : Ctx) (fs : FS) (cfg : Cfg) (l : Layout) (s : FState)
    (hwf : WF w c) (hm : c.m = .fixed l s) :
    step w c fs (.update cfg c.layoutPath) = .ok (⟨cfg, c.layoutPath, .fixed l s⟩, fs, .unit) ∧
    Ctx.new w fs cfg c.layoutPath = some ⟨cfg, c.layoutPath, .fixed l {}⟩ := by
  simp only [WF, hm] at hwf
  refine ⟨by simp [step, hm], by simp [Ctx.new, mNew, hwf.1, hwf.2]⟩

/-! ### fixed layout: the idle updated context behaves exactly like a new one -/

/-- two contexts that behave alike: equal, or fixed-method contexts over the same layout and
    configuration whose states differ at most in the list last built, where it cannot be read -/
def CSim (c d : Ctx) : Prop :=
  c = d ∨ (c.cfg = d.cfg ∧ c.layoutPath = d.layoutPath ∧
    ∃ l a b, c.m = .fixed l a ∧ d.m = .fixed l b ∧ Stale c.cfg a b)

/-- the precondition of the property: `update_engine` is only called on an idle context -/
def updateIdle (c : Ctx) : Event → Prop
  | .update _ _ => c.ongoing = false
  | _ => True

theorem fOngoing_false_rbuf (s : FState) (h : fOngoing s = false) : s.rbuf = [] := by
  rcases s with ⟨rbuf, rtyped, pending, sg⟩
  cases rbuf <;> simp_all [fOngoing]

/-- one call on two alike contexts: same result (same files, same output, same panic if any) and
    the contexts stay alike -/
theorem step_sim (w : World) (c d : Ctx) (fs : FS) (e : Event) (h : CSim c d) (hidle : updateIdle d e) :
    (∀ d' fs' o, step w d fs e = .ok (d', fs', o) → ∃ c', step w c fs e = .ok (c', fs', o) ∧ CSim c' d') ∧
    (∀ p, step w d fs e = .error p → step w c fs e = .error p) := by
  rcases h with h | ⟨hcfg, hpath, l, a, b, hca, hdb, hst⟩
  · subst h
    exact ⟨fun d' fs' o hs => ⟨d', hs, .inl rfl⟩, fun p hp => hp⟩
  · rcases c with ⟨ccfg, cpath, cm⟩
    rcases d with ⟨dcfg, dpath, dm⟩
    simp only at hcfg hpath hca hdb hst
    subst hcfg hpath hca hdb
    cases e with
    | key code m sel =>
      obtain ⟨h1, h2⟩ := fKey_stale w l ccfg a b code m hst
      refine ⟨fun d' fs' o hs => ?_, fun p hp => by simp [step] at hp⟩
      simp only [step, Except.ok.injEq, Prod.mk.injEq] at hs
      obtain ⟨e1, e2, e3⟩ := hs
      subst e1 e2 e3
      exact ⟨⟨ccfg, cpath, .fixed l (fKey w l ccfg a code m).1⟩, by simp [step, h1], .inr ⟨rfl, rfl, l, _, _, rfl, rfl, h2⟩⟩
    | backspace ctrl =>
      obtain ⟨h1, h2⟩ := fBackspace_stale w ccfg a b ctrl hst
      refine ⟨fun d' fs' o hs => ?_, fun p hp => by simp [step] at hp⟩
      simp only [step, Except.ok.injEq, Prod.mk.injEq] at hs
      obtain ⟨e1, e2, e3⟩ := hs
      subst e1 e2 e3
      exact ⟨⟨ccfg, cpath, .fixed l (fBackspace w ccfg a ctrl).1⟩, by simp [step, h1], .inr ⟨rfl, rfl, l, _, _, rfl, rfl, h2⟩⟩
    | commit i =>
      refine ⟨fun d' fs' o hs => ?_, fun p hp => by simp [step] at hp⟩
      simp only [step, Except.ok.injEq, Prod.mk.injEq] at hs
      obtain ⟨e1, e2, e3⟩ := hs
      subst e1 e2 e3
      exact ⟨⟨ccfg, cpath, .fixed l (fClear a)⟩, by simp [step], .inr ⟨rfl, rfl, l, _, _, rfl, rfl, fClear_stale ccfg a b hst⟩⟩
    | finish =>
      refine ⟨fun d' fs' o hs => ?_, fun p hp => by simp [step] at hp⟩
      simp only [step, Except.ok.injEq, Prod.mk.injEq] at hs
      obtain ⟨e1, e2, e3⟩ := hs
      subst e1 e2 e3
      exact ⟨⟨ccfg, cpath, .fixed l (fClear a)⟩, by simp [step], .inr ⟨rfl, rfl, l, _, _, rfl, rfl, fClear_stale ccfg a b hst⟩⟩
    | setFs f =>
      refine ⟨fun d' fs' o hs => ?_, fun p hp => by simp [step] at hp⟩
      simp only [step, Except.ok.injEq, Prod.mk.injEq] at hs
      obtain ⟨e1, e2, e3⟩ := hs
      subst e1 e2 e3
      exact ⟨⟨ccfg, cpath, .fixed l a⟩, by simp [step], .inr ⟨rfl, rfl, l, _, _, rfl, rfl, hst⟩⟩
    | update cfg p =>
      by_cases hp : cpath = p
      · subst hp
        have hb : b.rbuf = [] := fOngoing_false_rbuf b (by simpa [updateIdle, Ctx.ongoing] using hidle)
        refine ⟨fun d' fs' o hs => ?_, fun q hq => by simp [step] at hq⟩
        simp only [step, bne_self_eq_false, Bool.false_eq_true, if_false, Except.ok.injEq, Prod.mk.injEq] at hs
        obtain ⟨e1, e2, e3⟩ := hs
        subst e1 e2 e3
        exact ⟨⟨cfg, cpath, .fixed l a⟩, by simp [step], .inr ⟨rfl, rfl, l, _, _, rfl, rfl, stale_cfg_idle ccfg cfg a b hst hb⟩⟩
      · have hne : (cpath != p) = true := by simpa using hp
        simp only [step, hne, if_true]
        cases mNew w fs p with
        | none => exact ⟨fun d' fs' o hs => by simp at hs, fun q hq => hq⟩
        | some m => exact ⟨fun d' fs' o hs => ⟨d', hs, .inl rfl⟩, fun q hq => by simp at hq⟩

/-- histories in which `update_engine` is only ever called on an idle context -/
def UpdatesIdle (w : World) : Ctx → FS → List Event → Prop
  | _, _, [] => True
  | c, fs, e :: es => updateIdle c e ∧ ∀ c' fs' o, step w c fs e = .ok (c', fs', o) → UpdatesIdle w c' fs' es

/-- whole histories on two alike contexts: same outputs, same files, same panic if any -/
theorem run_sim (w : World) (evs : List Event) (c d : Ctx) (fs : FS) (h : CSim c d) (hu : UpdatesIdle w d fs evs) :
    (∀ d' fs' os, runFrom w d fs evs = .ok (d', fs', os) → ∃ c', runFrom w c fs evs = .ok (c', fs', os) ∧ CSim c' d') ∧
    (∀ p, runFrom w d fs evs = .error p → runFrom w c fs evs = .error p) := by
  induction evs generalizing c d fs with
  | nil =>
    refine ⟨fun d' fs' os hr => ?_, fun p hp => by simp [runFrom] at hp⟩
    simp only [runFrom, Except.ok.injEq, Prod.mk.injEq] at hr
    obtain ⟨e1, e2, e3⟩ := hr
    subst e1 e2 e3
    exact ⟨c, rfl, h⟩
  | cons e es ih =>
    obtain ⟨hi, hrest⟩ := hu
    obtain ⟨hok, herr⟩ := step_sim w c d fs e h hi
    cases hs : step w d fs e with
    | error p =>
      refine ⟨fun d' fs' os hr => by simp [runFrom, hs] at hr, fun q hq => ?_⟩
      simp only [runFrom, hs] at hq
      simp [runFrom, herr p hs, ← hq]
    | ok r =>
      obtain ⟨d1, fs1, o1⟩ := r
      obtain ⟨c1, hc1, hsim1⟩ := hok d1 fs1 o1 hs
      obtain ⟨ihok, iherr⟩ := ih c1 d1 fs1 hsim1 (hrest d1 fs1 o1 hs)
      cases hr : runFrom w d1 fs1 es with
      | error p =>
        refine ⟨fun d' fs' os hr' => by simp [runFrom, hs, hr] at hr', fun q hq => ?_⟩
        simp only [runFrom, hs, hr] at hq
        simp [runFrom, hc1, iherr p hr, ← hq]
      | ok r2 =>
        obtain ⟨d2, fs2, os2⟩ := r2
        obtain ⟨c2, hc2, hsim2⟩ := ihok d2 fs2 os2 hr
        refine ⟨fun d' fs' os hr' => ?_, fun q hq => by simp [runFrom, hs, hr] at hq⟩
        simp only [runFrom, hs, hr, Except.ok.injEq, Prod.mk.injEq] at hr'
        obtain ⟨e1, e2, e3⟩ := hr'
        subst e1 e2 e3
        exact ⟨c2, by simp [runFrom, hc1, hc2], hsim2⟩

/-- **update_idle_fixed_as_new**: fixed layout, idle context (`Idle` of C06: nothing composed, no raw
    keys, no pending sign — the state every commit / finish / emptying backspace leaves),
    `update_engine` with the same layout path and ANY new configuration.  Then for EVERY later
    history (in which `update_engine` is again only called when idle) the updated context and a
    context newly created with that configuration over the same files return exactly the same
    outputs, leave the same files, and panic at the same call if at all. -/
theorem update_idle_fixed_as_new (w : World) (c : Ctx) (fs : FS) (cfg : Cfg) (l : Layout) (s : FState)
    (hwf : WF w c) (hm : c.m = .fixed l s) (hidle : s.rbuf = [] ∧ s.rtyped = [] ∧ s.pending = none)
    (evs : List Event) :
    ∃ cu cn, step w c fs (.update cfg c.layoutPath) = .ok (cu, fs, .unit) ∧
      Ctx.new w fs cfg c.layoutPath = some cn ∧
      (UpdatesIdle w cn fs evs →
        (∀ cn' fs' os, runFrom w cn fs evs = .ok (cn', fs', os) → ∃ cu', runFrom w cu fs evs = .ok (cu', fs', os)) ∧
        (∀ p, runFrom w cn fs evs = .error p → runFrom w cu fs evs = .error p)) := by
  obtain ⟨h1, h2⟩ := update_fixed_vs_new w c fs cfg l s hwf hm
  refine ⟨_, _, h1, h2, fun hu => ?_⟩
  have hsim : CSim ⟨cfg, c.layoutPath, .fixed l s⟩ ⟨cfg, c.layoutPath, .fixed l {}⟩ := by
    refine .inr ⟨rfl, rfl, l, s, {}, rfl, rfl, ⟨s.suggestions, ?_⟩, fun _ hne => absurd rfl hne⟩
    rcases s with ⟨rbuf, rtyped, pending, sg⟩
    obtain ⟨e1, e2, e3⟩ := hidle
    simp only at e1 e2 e3
    subst e1 e2 e3
    rfl
  obtain ⟨hok, herr⟩ := run_sim w evs _ _ fs hsim hu
  exact ⟨fun cn' fs' os hr => (hok cn' fs' os hr).imp (fun _ h => h.1), herr⟩

/-- the outputs of a run (none if it panicked) -/
def outs : Res (Ctx × FS × List Out) → Option (List Out)
  | .ok (_, _, os) => some os
  | .error _ => none

/-- the idleness condition cannot be dropped (FINDING, minor): the fixed method keeps the candidate
    list of the last word.  Suggestions off, one key typed, then `update_engine` MID-WORD turns
    suggestions on, then a key without a value: the old context shows the previous word's list
    (`খ`) for the new word `ক`; a new context shows an empty list. -/
theorem midword_update_shows_stale_list :
    let lay : Layout := fun _ => some ['ক']
    let w : World := ⟨envS, fun _ => some lay, sortStable⟩
    let evs : List Event := [.key 2 0 0, .update { fixedSuggestion := true } "x", .key 0 0 0]
    let old : Ctx := ⟨{}, "x", .fixed lay (fClear { suggestions := [.first ['খ']] })⟩
    let fresh : Ctx := ⟨{}, "x", .fixed lay {}⟩
    outs (runFrom w old {} evs) = some [.sugg (.single ['ক'] false), .unit, .sugg (.full ['ক'] [['খ']] 0 false)] ∧
    outs (runFrom w fresh {} evs) = some [.sugg (.single ['ক'] false), .unit, .sugg (.full ['ক'] [] 0 false)] := by
  decide

/-! ### same layout, phonetic: the auto-correct file -/

/-- **update_phonetic_reload**: exactly what `update_engine` does to the phonetic method.
    (a) a file newer than the one loaded: the user list becomes the file's content (empty if
    unreadable), the memo is EMPTIED (the clause repaired by `fix:` 7364a28) and the mtime recorded;
    (b) no file after one had been loaded: list and memo emptied, mtime reset;
    (c) otherwise nothing changes. -/
theorem update_phonetic_reload (fs : FS) (s : PState) :
    (∀ t parsed, fs.ac = some (t, parsed) → t > s.modified →
      pUpdate fs s = { s with userAutocorrect := parsed.getD [], cache := [], modified := t }) ∧
    (fs.ac = none → s.modified ≠ 0 →
      pUpdate fs s = { s with userAutocorrect := [], cache := [], modified := 0 }) ∧
    (∀ t parsed, fs.ac = some (t, parsed) → t ≤ s.modified → pUpdate fs s = s) ∧
    (fs.ac = none → s.modified = 0 → pUpdate fs s = s) := by
  refine ⟨?_, ?_, ?_, ?_⟩
  · intro t parsed h ht; simp [pUpdate, h, ht]
  · intro h hm
    have : (s.modified != 0) = true := by simpa using hm
    simp [pUpdate, h, this]
  · intro t parsed h ht
    have : ¬ t > s.modified := by omega
    simp [pUpdate, h, this]
  · intro h hm; simp [pUpdate, h, hm]

/-- the memo after a reload is empty whenever the user list changed: `update_engine` either leaves
    list and memo both alone or replaces the list and empties the memo -/
theorem update_memo_empty_or_untouched (fs : FS) (s : PState) :
    ((pUpdate fs s).cache = [] ) ∨
    ((pUpdate fs s).cache = s.cache ∧ (pUpdate fs s).userAutocorrect = s.userAutocorrect) := by
  simp only [pUpdate]
  split
  · split
    · exact .inl rfl
    · exact .inr ⟨rfl, rfl⟩
  · split
    · exact .inl rfl
    · exact .inr ⟨rfl, rfl⟩

/-- the file system keeps its promise: a file whose mtime is not newer than the recorded one still
    has the content the context loaded (every edit advances the mtime), and a missing file with
    nothing recorded means nothing was loaded -/
def EditAdvancesClock (fs : FS) (s : PState) : Prop :=
  match fs.ac with
  | some (t, parsed) => t ≤ s.modified → s.userAutocorrect = parsed.getD []
  | none => s.modified = 0 → s.userAutocorrect = []

/-- a new method satisfies the promise for the files it was created over -/
theorem new_clock (fs : FS) : EditAdvancesClock fs (pNew fs) := by
  rcases fs with ⟨sel, ac, wr⟩
  rcases ac with _ | ⟨t, _ | st⟩ <;> simp [EditAdvancesClock, pNew]

/-- … and a reload keeps it (the promise is only ever broken by the outside world) -/
theorem update_clock (fs : FS) (s : PState) (h : EditAdvancesClock fs s) : EditAdvancesClock fs (pUpdate fs s) := by
  rcases fs with ⟨sel, ac, wr⟩
  rcases ac with _ | ⟨t, parsed⟩
  · simp only [EditAdvancesClock] at h
    simp only [EditAdvancesClock, pUpdate]
    split
    · simp
    · exact h
  · simp only [EditAdvancesClock] at h
    simp only [EditAdvancesClock, pUpdate]
    split
    · simp
    · exact h

/-- FINDING (corner case): the recorded mtime 0 doubles as "no file loaded".  A user file whose mtime
    is exactly the epoch is loaded by a new context, but its later removal is not noticed by
    `update_engine` (and, symmetrically, such a file appearing later is never loaded): the promise
    `EditAdvancesClock` fails although no edit went unnoticed by the clock -/
theorem epoch_mtime_removal_missed :
    let fs : FS := { ac := some (0, some [(['a'], ['x'])]) }
    let gone : FS := { ac := none }
    (pUpdate gone (pNew fs)).userAutocorrect = [(['a'], ['x'])] ∧ (pNew gone).userAutocorrect = [] ∧
    (pUpdate fs (pNew gone)).userAutocorrect = [] ∧ (pNew fs).userAutocorrect = [(['a'], ['x'])] := by decide

/-- **the edited file is honoured**: under `EditAdvancesClock` the user list after `update_engine`
    is the list a new context would load, whatever the state of the file (readable, unreadable, gone) -/
theorem update_userAutocorrect_as_new (fs : FS) (s : PState) (hclock : EditAdvancesClock fs s) :
    (pUpdate fs s).userAutocorrect = (pNew fs).userAutocorrect := by
  rcases fs with ⟨sel, ac, wr⟩
  rcases ac with _ | ⟨t, parsed⟩
  · simp only [EditAdvancesClock] at hclock
    simp only [pUpdate, pNew]
    split
    · rfl
    · next h => simp at h; exact hclock h
  · simp only [EditAdvancesClock] at hclock
    simp only [pUpdate]
    split
    · cases parsed <;> rfl
    · next h =>
      rw [hclock (by omega)]
      cases parsed <;> rfl

/-- the statement WITHOUT `EditAdvancesClock` is false: a file edited without its mtime advancing
    (same-second edit on a coarse clock, `cp -p`, `touch -r`) is ignored by `update_engine` while a
    new context loads it -/
theorem edit_without_clock_ignored :
    let fs : FS := { ac := some (5, some [(['a'], ['x'])]) }
    let fs' : FS := { ac := some (5, some [(['a'], ['y'])]) }
    (pUpdate fs' (pNew fs)).userAutocorrect = [(['a'], ['x'])] ∧ (pNew fs').userAutocorrect = [(['a'], ['y'])] := by
  decide

/-- **words typed before the edit**: after a reload that replaced the list, every later text gets
    exactly the candidates a new context computes — the memo holds nothing computed with the old list -/
theorem reload_candidates_as_new (env : Env) (cfg : Cfg) (fs : FS) (s : PState) (t : Nat) (parsed : Option Store)
    (hac : fs.ac = some (t, parsed)) (ht : t > s.modified) (term : Str) :
    (suggest env cfg (pUpdate fs s) term).2.1 = (suggest env cfg (pNew fs) term).2.1 := by
  have h1 : (pUpdate fs s).cache = [] ∧ (pUpdate fs s).userAutocorrect = parsed.getD [] := by
    simp [pUpdate, hac, ht]
  have h2 : (pNew fs).cache = [] ∧ (pNew fs).userAutocorrect = parsed.getD [] := by
    cases parsed <;> simp [pNew, hac]
  simp only [suggest, h1.1, h1.2, h2.1, h2.2]

/-- the same when the file has been removed -/
theorem removed_candidates_as_new (env : Env) (cfg : Cfg) (fs : FS) (s : PState)
    (hac : fs.ac = none) (hm : s.modified ≠ 0) (term : Str) :
    (suggest env cfg (pUpdate fs s) term).2.1 = (suggest env cfg (pNew fs) term).2.1 := by
  have : (s.modified != 0) = true := by simpa using hm
  have h1 : (pUpdate fs s).cache = [] ∧ (pUpdate fs s).userAutocorrect = [] := by
    simp [pUpdate, hac, this]
  have h2 : (pNew fs).cache = [] ∧ (pNew fs).userAutocorrect = [] := by simp [pNew, hac]
  simp only [suggest, h1.1, h1.2, h2.1, h2.2]

/-- the regression the fix removed, as a concrete run: `a` typed (memo filled with the old
    auto-correction `x`), the file edited to `a ↦ y`, `update_engine`; typing `a` again offers `y` -/
theorem memo_not_stale_after_reload :
    let env : Env := { envS with dictPhonetic := fun _ => some [] }
    let cfg : Cfg := { phoneticSuggestion := true }
    let fs : FS := { ac := some (5, some [(['a'], ['x'])]) }
    let fs' : FS := { ac := some (6, some [(['a'], ['y'])]) }
    let s₁ := (pCreateSuggestion env cfg { pNew fs with buffer := ['a'] }).1
    let s₂ := pUpdate fs' { s₁ with buffer := [] }
    let s₃ := (pCreateSuggestion env cfg { s₂ with buffer := ['a'] }).1
    s₁.suggestions.map Rank.text = [['x'], ['a']] ∧ s₁.cache ≠ [] ∧ s₂.cache = [] ∧
    s₃.suggestions.map Rank.text = [['y'], ['a']] := by decide

/-! ### same layout, phonetic: the whole state against a new one -/

/-- **update_phonetic_matches_new_partial**.  Idle context, `update_engine`, same files `fs`.
    Against `pNew fs`:
    * `buffer` — both empty;
    * `userAutocorrect` — equal under `EditAdvancesClock`;
    * `cache` — empty like the new one whenever a reload happened, otherwise the old memo is kept
      together with the (unchanged) list it was computed with;
    * `selections` — equal IF the file holds the in-memory store (`fs.sel = .parsed s.selections`:
      every save succeeded, no derived entry is waiting to be written, nobody else wrote the file);
      NOT in general (`selections_not_reread`);
    * `modified` — equal when the file is readable or absent (an unreadable newer file records its
      mtime, a new context records none);
    * `suggestions`, `prevSelection` — NOT reset: the last word's list and index stay until the next
      key builds a list (`stale_list_survives_update`, `first_key_forgets_stale`). -/
theorem update_phonetic_matches_new_partial (fs : FS) (s : PState) (hidle : s.buffer = [])
    (hclock : EditAdvancesClock fs s) :
    (pUpdate fs s).buffer = (pNew fs).buffer ∧
    (pUpdate fs s).userAutocorrect = (pNew fs).userAutocorrect ∧
    ((pUpdate fs s).cache = (pNew fs).cache ∨
      ((pUpdate fs s).cache = s.cache ∧ (pUpdate fs s).userAutocorrect = s.userAutocorrect)) ∧
    (fs.sel = .parsed s.selections → (pUpdate fs s).selections = (pNew fs).selections) ∧
    ((∀ t, fs.ac ≠ some (t, none)) → (∀ t p, fs.ac = some (t, p) → s.modified ≤ t) →
      (pUpdate fs s).modified = (pNew fs).modified) := by
  refine ⟨?_, update_userAutocorrect_as_new fs s hclock, ?_, ?_, ?_⟩
  · rw [(C10_frame fs s).1, hidle]; rfl
  · rcases update_memo_empty_or_untouched fs s with h | h
    · left; rw [h]; rfl
    · exact .inr h
  · intro h; rw [(C10_frame fs s).2]; simp [pNew, h, FileState.content]
  · intro hread hmono
    rcases fs with ⟨sel, ac, wr⟩
    rcases ac with _ | ⟨t, _ | st⟩
    · simp only [pUpdate, pNew]; split
      · rfl
      · next h => simpa using h
    · exact absurd rfl (hread t)
    · have := hmono t (some st) rfl
      simp only [pUpdate, pNew]; split
      · rfl
      · next h => show s.modified = t; omega
where
  C10_frame (fs : FS) (s : PState) : (pUpdate fs s).buffer = s.buffer ∧ (pUpdate fs s).selections = s.selections := by
    simp only [pUpdate]
    split
    · split <;> simp
    · split <;> simp

/-- exact coincidence: when a reload of a readable file happened, every save had succeeded and the
    context is idle, the updated method IS the new one except for the stale list and index -/
theorem update_reload_equals_new_up_to_stale (fs : FS) (s : PState) (t : Nat) (ua : Store)
    (hidle : s.buffer = []) (hac : fs.ac = some (t, some ua)) (ht : t > s.modified)
    (hsel : fs.sel = .parsed s.selections) :
    { pUpdate fs s with suggestions := [], prevSelection := 0 } = pNew fs := by
  simp [pUpdate, pNew, hac, ht, hsel, hidle, FileState.content]

/-- `selections` is NOT re-read by `update_engine`: a choice whose save failed (or a derived entry
    never written, or a file changed by another process) is in the updated context and not in a new one -/
theorem selections_not_reread :
    let s : PState := { selections := [(['e'], ['ে'])] }
    let fs : FS := { sel := .absent }
    (pUpdate fs s).selections = [(['e'], ['ে'])] ∧ (pNew fs).selections = [] := by decide

/-- **the full statement is false** for the phonetic method: an idle updated method is not, in
    general, the method a new context gets over the same files -/
theorem update_is_not_new : ¬ (∀ (fs : FS) (s : PState), s.buffer = [] →
    (pUpdate fs s).selections = (pNew fs).selections) := by
  intro h
  have := h { sel := .absent } { selections := [(['e'], ['ে'])] } rfl
  revert this; decide

/-- … and it shows: the preselected index for `e` is 1 in the updated context and 0 in a new one -/
theorem selections_not_reread_observable :
    let cfg : Cfg := { phoneticSuggestion := true }
    let s : PState := { selections := [(['e'], ['ে'])] }
    let fs : FS := { sel := .absent }
    (pCreateSuggestion envQ cfg { pUpdate fs s with buffer := ['e'] }).1.prevSelection = 1 ∧
    (pCreateSuggestion envQ cfg { pNew fs with buffer := ['e'] }).1.prevSelection = 0 := by decide

/-! ### the stale list and index -/

/-- the candidate list and preselected index of the last word are not reset by `update_engine` -/
theorem stale_list_survives_update (fs : FS) (s : PState) :
    (pUpdate fs s).suggestions = s.suggestions ∧ (pUpdate fs s).prevSelection = s.prevSelection := by
  simp only [pUpdate]
  split
  · split <;> simp
  · split <;> simp

/-- **first_key_forgets_stale**: with suggestions on, the first key that types a character
    overwrites both; from then on nothing of them is left — state and output are those of a
    method that had them reset -/
theorem first_key_forgets_stale (env : Env) (cfg : Cfg) (s : PState) (key sel : Nat) (ch : Char)
    (hk : keycodeToChar key = some ch) (hcfg : cfg.phoneticSuggestion = true) :
    pKey env cfg s key sel = pKey env cfg { s with suggestions := [], prevSelection := 0 } key sel := by
  simp [pKey, hk, pCreateSuggestion, hcfg, suggest]

/-- with suggestions off the two fields are never read (a commit learns nothing) nor written -/
theorem stale_unread_when_off (cfg : Cfg) (s : PState) (i : Nat) (hcfg : cfg.phoneticSuggestion = false) :
    pCommit cfg s i = .ok ({ s with buffer := [] }, none) := commit_suggestions_off_inert cfg s i hcfg

/-- **after update + reload + first key the two contexts are EQUAL**: idle context, readable newer
    file, store in sync with the file, suggestions on; after the first character key the updated
    method and the new one are the same state and returned the same suggestion — hence every later
    event behaves identically -/
theorem update_then_key_is_new_then_key (env : Env) (cfg : Cfg) (fs : FS) (s : PState) (t : Nat) (ua : Store)
    (key sel : Nat) (ch : Char)
    (hidle : s.buffer = []) (hac : fs.ac = some (t, some ua)) (ht : t > s.modified)
    (hsel : fs.sel = .parsed s.selections)
    (hk : keycodeToChar key = some ch) (hcfg : cfg.phoneticSuggestion = true) :
    pKey env cfg (pUpdate fs s) key sel = pKey env cfg (pNew fs) key sel := by
  rw [first_key_forgets_stale env cfg (pUpdate fs s) key sel ch hk hcfg,
    update_reload_equals_new_up_to_stale fs s t ua hidle hac ht hsel]

/-- FINDING (minor): a `commit` made on the idle updated context BEFORE any key reads the stale
    index and list.  Here the last word had index 1 preselected; `commit 0` with nothing typed
    learns the empty word ↦ the old first candidate and rewrites the selections file, while in a new
    context the same call does nothing.  (The same happens without any `update_engine`: it is the
    idle state, not the update, that keeps the two fields — see C06.) -/
theorem commit_before_typing_differs :
    let cfg : Cfg := { phoneticSuggestion := true }
    let s : PState := { suggestions := [.other ['এ'] 0, .other ['ে'] 10], prevSelection := 1, selections := [(['e'], ['ে'])] }
    let fs : FS := { sel := .parsed [(['e'], ['ে'])] }
    (okState (pCommit cfg (pUpdate fs s) 0)).selections = [(['e'], ['ে']), ([], ['এ'])] ∧
    (okState (pCommit cfg (pNew fs) 0)).selections = [(['e'], ['ে'])] := by decide

/-! ### at the level of the API -/

/-- same layout, phonetic, at the API: the updated context against `new_with_config` -/
theorem update_phonetic_vs_new (w : World) (c : Ctx) (fs : FS) (cfg : Cfg) (s : PState)
    (hwf : WF w c) (hm : c.m = .phonetic s) :
    step w c fs (.update cfg c.layoutPath) = .ok (⟨cfg, c.layoutPath, .phonetic (pUpdate fs s)⟩, fs, .unit) ∧
    Ctx.new w fs cfg c.layoutPath = some ⟨cfg, c.layoutPath, .phonetic (pNew fs)⟩ := by
  simp only [WF, hm] at hwf
  exact ⟨by simp [step, hm], by simp [Ctx.new, mNew, hwf]⟩

/-- **update_then_key_as_new** (API): under the conditions of `update_then_key_is_new_then_key`, the
    call sequence `update_engine; key` on the old context and `new_with_config; key` give the same
    context, the same files and the same suggestion -/
theorem update_then_key_as_new (w : World) (c : Ctx) (fs : FS) (cfg : Cfg) (s : PState) (t : Nat) (ua : Store)
    (code m sel : Nat) (ch : Char)
    (hwf : WF w c) (hm : c.m = .phonetic s)
    (hidle : s.buffer = []) (hac : fs.ac = some (t, some ua)) (ht : t > s.modified)
    (hsel : fs.sel = .parsed s.selections)
    (hk : keycodeToChar code = some ch) (hcfg : cfg.phoneticSuggestion = true) :
    ∃ cn, Ctx.new w fs cfg c.layoutPath = some cn ∧
      runFrom w c fs [.update cfg c.layoutPath, .key code m sel] =
        (runFrom w cn fs [.key code m sel]).map (fun r => (r.1, r.2.1, .unit :: r.2.2)) := by
  obtain ⟨h1, h2⟩ := update_phonetic_vs_new w c fs cfg s hwf hm
  refine ⟨_, h2, ?_⟩
  simp only [runFrom, h1]
  simp only [step, update_then_key_is_new_then_key w.env cfg fs s t ua code sel ch hidle hac ht hsel hk hcfg]
  rfl

/-! ### non-vacuity -/

/-- the hypotheses of `update_then_key_is_new_then_key` hold in a concrete run (key code 30 is `a`) -/
example :
    let fs : FS := { sel := .parsed [(['e'], ['ে'])], ac := some (6, some [(['a'], ['y'])]) }
    let s : PState := { selections := [(['e'], ['ে'])], userAutocorrect := [(['a'], ['x'])], modified := 5,
                        cache := [(['a'], [.first ['x']])], suggestions := [.first ['x']], prevSelection := 0 }
    s.buffer = [] ∧ fs.ac = some (6, some [(['a'], ['y'])]) ∧ 6 > s.modified ∧ fs.sel = .parsed s.selections ∧
    (pUpdate fs s).userAutocorrect = [(['a'], ['y'])] ∧ (pUpdate fs s).cache = [] := by
  refine ⟨rfl, rfl, by decide, rfl, by decide, by decide⟩

end Riti.C11
