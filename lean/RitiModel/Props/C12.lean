/-
Props/C12 — fixed-layout composition helpers rewrite the text exactly as documented.

With the old vowel-sign order option off, `processKeyValue` (the model of `process_key_value`,
src/fixed/method.rs) is compared with the declarative priority list `Spec.rules`
(Spec/FixedRules.lean).  The full-strength statement is FALSE of the code (two witnesses below:
F15 `value_cut_after_sign`, F20 `rofola_after_hasanta_lost`); the strongest true restriction is
`process_eq_rules_partial`.  Buffers are reversed lists (head = right-most code point).
-/
import RitiModel.Model.Fixed
import RitiModel.Spec.FixedRules
import RitiModel.Lemmas.Fixed
namespace Riti.C12
open Riti Riti.Spec

/-- one key value typed after `text` (given left-to-right), result left-to-right -/
def typeAfter (cfg : Cfg) (text v : Str) : Str := (processKeyValue cfg { rbuf := text.reverse } v).buffer

/-- what the rule list says for the same input, left-to-right -/
def specAfter (cfg : Cfg) (text v : Str) : Str := (applyFirst rules cfg text.reverse v).reverse

/-- `get_fixed_method_defaults()` (src/config.rs) -/
def fixedDefaults : Cfg :=
  { fixedSuggestion := true, fixedVowel := true, fixedChandra := true, fixedKar := true,
    fixedNumpad := true, fixedOldReph := true, fixedKarOrder := false }

/-! ### the main theorem -/

/-- C12, PARTIAL.  Old vowel-sign order off; the old-reph key excluded when old-style reph is on
    (that key is C13's subject); value `v` *covered*: a single code point, or the zo-fola value, or
    a value whose first code point is neither a vowel sign, hasanta nor the AU length mark.  Then,
    for EVERY buffer, every setting of the other options and every state (the pending sign, if any,
    is ignored by the code when the option is off): the new text is what the first applicable
    documented rule gives — else plain appending — and nothing else in the state changes.
    Excluded values are those of ≥ 2 code points that start with a sign / hasanta / length mark:
    there the code looks at the first code point only and the rest of the value is lost, see
    `value_cut_after_sign` and `rofola_after_hasanta_lost`. -/
theorem process_eq_rules_partial (cfg : Cfg) (s : FState) (v : Str)
    (hko : cfg.fixedKarOrder = false)
    (hr : cfg.fixedOldReph = false ∨ v ≠ rephValue)
    (hv : CoveredValue v) :
    (processKeyValue cfg s v).rbuf = applyFirst rules cfg s.rbuf v ∧
    (processKeyValue cfg s v).pending = s.pending ∧
    (processKeyValue cfg s v).rtyped = s.rtyped ∧
    (processKeyValue cfg s v).suggestions = s.suggestions := by
  rw [processKeyValue_noOrder cfg s v hko]
  exact ⟨stepBuf_eq_rules cfg s.rbuf v hv hr, rfl, rfl, rfl⟩

/-- the same, left-to-right: the composed text after the key is the rule list's text -/
theorem process_eq_rules_partial_text (cfg : Cfg) (text v : Str)
    (hko : cfg.fixedKarOrder = false) (hr : cfg.fixedOldReph = false ∨ v ≠ rephValue) (hv : CoveredValue v) :
    typeAfter cfg text v = specAfter cfg text v := by
  simp only [typeAfter, specAfter, FState.buffer]
  rw [(process_eq_rules_partial cfg { rbuf := text.reverse } v hko hr hv).1]

/-- when no rule applies the value is appended at the right end of the text -/
theorem default_appends (cfg : Cfg) (text v : Str) (h : firstRule rules cfg text.reverse v = none) :
    specAfter cfg text v = text ++ v := by
  simp [specAfter, applyFirst, h, append]

/-! ### the two witnesses that force the restriction (each refutes the full-strength statement) -/

/-- F15: a key value of two code points that starts with a vowel sign (`াং`) is cut to its first
    code point — the documented default says `কাং` -/
theorem value_cut_after_sign :
    typeAfter {} ['ক'] ['া', 'ং'] = ['ক', 'া'] ∧ specAfter {} ['ক'] ['া', 'ং'] = ['ক', 'া', 'ং'] := by decide

/-- F20: `ক্` + the ro-fola value `্র` gives `ক্‌` (hasanta + non-joiner): the "second hasanta"
    rule tests only the first code point of the value and the র is dropped — the documented rules
    say `ক্্র` (no rule applies to a value that is not a lone hasanta) -/
theorem rofola_after_hasanta_lost :
    typeAfter {} ['ক', '্'] ['্', 'র'] = ['ক', '্', '\u200c'] ∧
    specAfter {} ['ক', '্'] ['্', 'র'] = ['ক', '্', '্', 'র'] := by decide

/-- the full-strength statement (all values) is false of the code -/
theorem process_eq_rules_false :
    ¬ ∀ (cfg : Cfg) (s : FState) (v : Str), cfg.fixedKarOrder = false →
      (cfg.fixedOldReph = false ∨ v ≠ rephValue) →
      (processKeyValue cfg s v).rbuf = applyFirst rules cfg s.rbuf v := by
  intro h
  have := h {} { rbuf := ['্', 'ক'] } ['্', 'র'] rfl (Or.inl rfl)
  revert this
  decide

/-- the restriction of `process_eq_rules_partial` is TIGHT: for every value that is not covered
    there is an input (text `্`, all options off) on which the code and the documented rules
    differ — so "covered" is exactly the set of values on which the property holds for all texts
    and settings -/
theorem coverage_is_tight (v : Str) (h : ¬ CoveredValue v) :
    ∃ (cfg : Cfg) (s : FState), cfg.fixedKarOrder = false ∧ cfg.fixedOldReph = false ∧
      (processKeyValue cfg s v).rbuf ≠ applyFirst rules cfg s.rbuf v := by
  refine ⟨{}, { rbuf := [cHasanta] }, rfl, rfl, ?_⟩
  rw [processKeyValue_noOrder _ _ _ rfl]
  exact stepBuf_ne_rules_of_not_covered v h

/-- neither witness is a covered value; the values of the theorem's non-vacuity examples are -/
example : ¬ CoveredValue ['া', 'ং'] ∧ ¬ CoveredValue ['্', 'র'] := by decide
example : CoveredValue [cAAKar] ∧ CoveredValue zoFola ∧ CoveredValue rephValue ∧ CoveredValue ['ক', '্', 'ষ'] ∧
    CoveredValue [] := by decide

/-! ### what the code does with the values that are not covered (complete description) -/

/-- a value of ≥ 2 code points (zo-fola apart) that starts with a vowel sign — in any position — or
    with hasanta / the length mark when the text ends in hasanta, acts exactly like its first code
    point alone: the rest of the value is lost (F15, F20 in general) -/
theorem uncovered_value_cut (cfg : Cfg) (s : FState) (c d : Char) (t : Str)
    (hko : cfg.fixedKarOrder = false) (hz : c :: d :: t ≠ zoFola)
    (h : isKar c = true ∨ ((c = cHasanta ∨ c = cLengthMark) ∧ s.rbuf.head? = some cHasanta)) :
    (processKeyValue cfg s (c :: d :: t)).rbuf = (processKeyValue cfg s [c]).rbuf := by
  rw [processKeyValue_noOrder _ _ _ hko, processKeyValue_noOrder _ _ _ hko]
  exact stepBuf_cut cfg s.rbuf c d t hz h

/-- in the remaining case (value starts with hasanta or the length mark, text does not end in
    hasanta) the whole value is appended, as documented -/
theorem uncovered_value_appended (cfg : Cfg) (s : FState) (c d : Char) (t : Str)
    (hko : cfg.fixedKarOrder = false) (hz : c :: d :: t ≠ zoFola)
    (hc : c = cHasanta ∨ c = cLengthMark) (hl : s.rbuf.head? ≠ some cHasanta) :
    (processKeyValue cfg s (c :: d :: t)).rbuf = (c :: d :: t).reverse ++ s.rbuf := by
  rw [processKeyValue_noOrder _ _ _ hko]
  exact stepBuf_uncovered_append cfg s.rbuf c d t hz hc hl

/-! ### which rule wins (`firedRule` = name of the first applicable rule of the specification;
    the second conjunct is what the code does in the same situation) -/

/-- a sign right after chandrabindu, **also with automatic vowel forming on**: chandrabindu is
    neither a vowel nor punctuation, so R2 does not apply; R3 fires iff automatic chandrabindu is
    on, otherwise the sign is simply appended (R4/R5 cannot apply either) -/
theorem rule_priority_after_chandra (cfg : Cfg) (s : FState) (rest : Str) (k : Char)
    (hko : cfg.fixedKarOrder = false) (hk : isKar k = true) :
    firedRule cfg (cChandra :: rest) [k] = (if cfg.fixedChandra then some r3.name else none) ∧
    (processKeyValue cfg { s with rbuf := cChandra :: rest } [k]).rbuf =
      (if cfg.fixedChandra then cChandra :: k :: rest else k :: cChandra :: rest) := by
  obtain ⟨g1, g2, g3, g4, g5, g6, g7⟩ := guards_unfold cfg (cChandra :: rest) [k]
  obtain ⟨c1, c2, c3, c4, c5⟩ := chandra_facts
  obtain ⟨k1, k2, k3⟩ := kar_value_facts k hk
  have hfire : firedRule cfg (cChandra :: rest) [k] = (if cfg.fixedChandra then some r3.name else none) := by
    rw [firedRule_eq, g1, g2, g3, g4, g5, g6, g7]
    simp [signOf_kar k hk, lastIs, c1, c2, c3, c4, k1, k2, k3]
  refine ⟨hfire, ?_⟩
  rw [(process_eq_rules_partial cfg _ [k] hko (Or.inr (by simp [rephValue])) (Or.inl rfl)).1, applyFirst_rules,
    g1, g2, g3, g4, g5, g6, g7]
  simp [signOf_kar k hk, lastIs, c1, c2, c3, c4, k1, k2, k3, r3, append, dropLast1]
  rw [lit_chandra]

/-- a sign right after hasanta, **also with automatic vowel forming on** (and whatever the other
    options): hasanta is neither vowel nor punctuation nor chandrabindu, so R4 fires: the independent
    vowel replaces the hasanta; for `ৄ` (no independent form) nothing changes -/
theorem rule_priority_after_hasanta (cfg : Cfg) (s : FState) (rest : Str) (k : Char)
    (hko : cfg.fixedKarOrder = false) (hk : isKar k = true) :
    firedRule cfg (cHasanta :: rest) [k] = some r4.name ∧
    (processKeyValue cfg { s with rbuf := cHasanta :: rest } [k]).rbuf =
      (match independentOf k with | some w => w :: rest | none => cHasanta :: rest) := by
  obtain ⟨g1, g2, g3, g4, g5, g6, g7⟩ := guards_unfold cfg (cHasanta :: rest) [k]
  obtain ⟨c1, c2, c3, c4, c5⟩ := hasanta_facts
  obtain ⟨k1, k2, k3⟩ := kar_value_facts k hk
  have hfire : firedRule cfg (cHasanta :: rest) [k] = some r4.name := by
    rw [firedRule_eq, g1, g2, g3, g4, g5, g6, g7]
    simp [signOf_kar k hk, lastIs, c1, c2, c4, k1]
  refine ⟨hfire, ?_⟩
  rw [(process_eq_rules_partial cfg _ [k] hko (Or.inr (by simp [rephValue])) (Or.inl rfl)).1, applyFirst_rules,
    g1, g2, g3, g4, g5, g6, g7]
  simp [signOf_kar k hk, lastIs, c1, c2, c4, k1, r4, dropLast1]
  rfl

/-- R5 never applies when R4 does (hasanta is not a consonant): their order is immaterial -/
theorem rule_priority_r4_excludes_r5 (cfg : Cfg) (rbuf v : Str) (h : r4.guard cfg rbuf v = true) :
    r5.guard cfg rbuf v = false := by
  obtain ⟨-, -, -, g4, g5, -, -⟩ := guards_unfold cfg rbuf v
  rw [g4] at h; rw [g5]
  cases rbuf with
  | nil => simp [lastIs]
  | cons a rest =>
    simp only [lastIs, Bool.and_eq_true, beq_iff_eq] at h
    simp [lastIs, h.2, hasanta_facts.2.2.1]

/-- the priority order of the rule list is in fact immaterial: for every configuration, text and
    value at most one guard holds (so R2 ≻ R3 ≻ R4 ≻ R5 of the code, or any other order, describe
    the same function) — a consequence of the regenerated classes: chandrabindu, hasanta and the
    joiners are neither vowel, punctuation nor consonant, and vowels/punctuation are not consonants -/
theorem rule_priority_immaterial (cfg : Cfg) (rbuf v : Str) :
    (rules.filter (fun r => r.guard cfg rbuf v)).length ≤ 1 := guards_exclusive cfg rbuf v

/-- after a joiner or a non-joiner no rule applies, whatever the value and the options: the value
    is appended (by the code: for every covered value, the old-reph key excepted) -/
theorem rule_priority_after_joiner (cfg : Cfg) (s : FState) (j : Char) (rest v : Str)
    (hj : j = cZWJ ∨ j = cZWNJ) :
    firedRule cfg (j :: rest) v = none ∧
    (cfg.fixedKarOrder = false → (cfg.fixedOldReph = false ∨ v ≠ rephValue) → CoveredValue v →
      (processKeyValue cfg { s with rbuf := j :: rest } v).rbuf = v.reverse ++ j :: rest) := by
  obtain ⟨g1, g2, g3, g4, g5, g6, g7⟩ := guards_unfold cfg (j :: rest) v
  have hc : isVowel j = false ∧ isMark j = false ∧ isPureConsonant j = false ∧
      (j == cChandra) = false ∧ (j == cHasanta) = false ∧ (j == cR) = false := by
    rcases hj with rfl | rfl
    · exact zwj_facts
    · exact zwnj_facts
  obtain ⟨c1, c2, c3, c4, c5, c6⟩ := hc
  have hfire : firedRule cfg (j :: rest) v = none := by
    rw [firedRule_eq, g1, g2, g3, g4, g5, g6, g7]
    simp [lastIs, c1, c2, c3, c4, c5, c6]
  refine ⟨hfire, fun hko hr hv => ?_⟩
  rw [(process_eq_rules_partial cfg _ v hko hr hv).1]
  simp only [firedRule, Option.map_eq_none_iff] at hfire
  simp [applyFirst, hfire, append]

/-- OBSERVATION: the sign `ৄ` (U+09C4, in `is_kar`, no independent vowel) typed right after
    hasanta is silently dropped, under every setting with the old vowel-sign order off -/
theorem vocalic_rr_after_hasanta_dropped (cfg : Cfg) (s : FState) (rest : Str) (hko : cfg.fixedKarOrder = false) :
    (processKeyValue cfg { s with rbuf := cHasanta :: rest } ['ৄ']).rbuf = cHasanta :: rest := by
  rw [(rule_priority_after_hasanta cfg s rest 'ৄ' hko (by decide)).2]
  have : independentOf 'ৄ' = none := by decide
  rw [this]

/-- OBSERVATION: with automatic vowel forming, `ৄ` typed at the start of a word is silently dropped
    as well -/
theorem vocalic_rr_at_start_dropped (cfg : Cfg) (s : FState) (hko : cfg.fixedKarOrder = false)
    (hv : cfg.fixedVowel = true) :
    (processKeyValue cfg { s with rbuf := [] } ['ৄ']).rbuf = [] := by
  rw [processKeyValue_noOrder cfg _ _ hko]
  have h1 : (['ৄ'] == zoFola) = false := by decide
  have h2 : (['ৄ'] == rephValue) = false := by decide
  have h3 : isKar 'ৄ' = true := by decide
  have h4 : karToVowel 'ৄ' = none := by decide
  simp [stepBuf, h1, h2, h3, h4, karTail, hv, autoVowelPos]

/-- … whereas after a consonant it is appended like any other sign -/
example : typeAfter fixedDefaults ['ক'] ['ৄ'] = ['ক', 'ৄ'] ∧ typeAfter fixedDefaults ['ক', '্'] ['ৄ'] = ['ক', '্'] ∧
    typeAfter fixedDefaults [] ['ৄ'] = [] := by decide

/-! ### locality -/

/-- the effect of a key value depends only on the last two code points of the text, the value and
    the options: on a text of ≥ 2 code points the code pops `(localEffect cfg a b v).1 ≤ 1` code
    points and pushes `(localEffect cfg a b v).2` — `localEffect` (Lemmas/Fixed) is a function of
    `(cfg, a, b, v)` only; for ALL values (no coverage restriction), old vowel-sign order off, old-reph
    key excluded (its scan is unbounded: C13).  This is what justifies the short exhaustive
    histories of the correspondence check. -/
theorem process_local (cfg : Cfg) (s : FState) (a b : Char) (rest v : Str)
    (hko : cfg.fixedKarOrder = false) (hr : cfg.fixedOldReph = false ∨ v ≠ rephValue) :
    (localEffect cfg a b v).1 ≤ 1 ∧
    (processKeyValue cfg { s with rbuf := a :: b :: rest } v).rbuf =
      (localEffect cfg a b v).2 ++ (a :: b :: rest).drop (localEffect cfg a b v).1 := by
  rw [processKeyValue_noOrder cfg _ v hko]
  exact ⟨localEffect_le cfg a b v, stepBuf_local cfg a b rest v hr⟩

/-- locality, the form used by the tie: the result on a long text is the result on its last two
    code points with the untouched left part put back (left-to-right: `xs ++ [y, z]` ↦
    `xs ++ result [y, z]`) -/
theorem process_local_suffix (cfg : Cfg) (s : FState) (a b : Char) (rest v : Str)
    (hko : cfg.fixedKarOrder = false) (hr : cfg.fixedOldReph = false ∨ v ≠ rephValue) :
    (processKeyValue cfg { s with rbuf := a :: b :: rest } v).rbuf =
      (processKeyValue cfg { s with rbuf := [a, b] } v).rbuf ++ rest := by
  have hle := (process_local cfg s a b rest v hko hr).1
  rw [(process_local cfg s a b rest v hko hr).2, (process_local cfg s a b [] v hko hr).2]
  have : (localEffect cfg a b v).1 = 0 ∨ (localEffect cfg a b v).1 = 1 := by omega
  rcases this with h | h <;> simp [h]

/-- the same left-to-right -/
theorem process_local_text (cfg : Cfg) (xs : Str) (y z : Char) (v : Str)
    (hko : cfg.fixedKarOrder = false) (hr : cfg.fixedOldReph = false ∨ v ≠ rephValue) :
    typeAfter cfg (xs ++ [y, z]) v = xs ++ typeAfter cfg [y, z] v := by
  simp only [typeAfter, FState.buffer]
  have := process_local_suffix cfg { rbuf := [] } z y xs.reverse v hko hr
  simp only [] at this
  simp [this]

/-- old-style reph is NOT local in this sense (the reason for its exclusion): the same last two
    code points, different results further left -/
example : typeAfter fixedDefaults ['ক', '্', 'ক', 'া'] rephValue = ['র', '্', 'ক', '্', 'ক', 'া'] ∧
    typeAfter fixedDefaults ['ক', 'ক', 'া'] rephValue = ['ক', 'র', '্', 'ক', 'া'] := by decide

/-! ### backspace -/

/-- Backspace (no pending sign) removes exactly the last code point of the composed text -/
theorem backspace_pops_one (s : FState) (c : Char) (rest : Str)
    (hp : s.pending = none) (hb : s.rbuf = c :: rest) :
    (fBackspaceState s false).1.rbuf = rest ∧ (fBackspaceState s false).1.pending = none := by
  simp only [fBackspaceState, hp, hb]
  cases rest <;> simp

/-- the same, left-to-right: the text loses its last code point -/
theorem backspace_dropLast (s : FState) (hp : s.pending = none) :
    (fBackspaceState s false).1.buffer = s.buffer.dropLast := by
  cases hb : s.rbuf with
  | nil => simp [fBackspaceState, hp, hb, FState.buffer]
  | cons c rest =>
    rw [FState.buffer, (backspace_pops_one s c rest hp hb).1, FState.buffer, hb]
    simp

/-- Ctrl-backspace on a non-empty composition clears everything (text, typed keys, pending sign) -/
theorem ctrl_backspace_clears (s : FState) (h : s.rbuf ≠ []) :
    (fBackspaceState s true).1.rbuf = [] ∧ (fBackspaceState s true).1.rtyped = [] ∧
    (fBackspaceState s true).1.pending = none ∧ (fBackspaceState s true).2 = false := by
  cases hb : s.rbuf with
  | nil => exact absurd hb h
  | cons c rest => simp [fBackspaceState, hb]

/-! ### non-vacuity: the assertions of the Rust test `test_features` (src/fixed/method.rs) and of
    `test_z_zofola`, on the model — every one an instance of the hypotheses of
    `process_eq_rules_partial` -/

-- Automatic Vowel Forming
example : typeAfter fixedDefaults [] [cAAKar] = ['আ'] := by decide
example : typeAfter fixedDefaults ['আ'] [cIKar] = ['আ', 'ই'] := by decide
-- Automatic Chandra position
example : typeAfter fixedDefaults ['ক', 'ঁ'] [cAAKar] = ['ক', 'া', 'ঁ'] := by decide
-- Traditional Kar joining
example : typeAfter fixedDefaults ['র'] [cUKar] = ['র', '\u200c', 'ু'] := by decide
-- Without Traditional Kar joining
example : typeAfter { fixedDefaults with fixedKar := false } ['র'] [cUKar] = ['র', 'ু'] := by decide
-- Vowel making with Hasanta
example : typeAfter { fixedDefaults with fixedKar := false } ['্'] [cUKar] = ['উ'] := by decide
example : typeAfter { fixedDefaults with fixedKar := false } ['্'] [cLengthMark] = ['ঔ'] := by decide
-- Double Hasanta for Hasanta + ZWNJ
example : typeAfter { fixedDefaults with fixedKar := false } [cHasanta] [cHasanta] = ['্', '\u200c'] := by decide
-- Others
example : typeAfter { fixedDefaults with fixedKar := false } ['ক'] ['খ'] = ['ক', 'খ'] := by decide
example : typeAfter { fixedDefaults with fixedKar := false } ['ক'] [cAAKar] = ['ক', 'া'] := by decide
-- test_z_zofola
example : typeAfter fixedDefaults ['র', '্'] ['য'] = ['র', '্', 'য'] := by decide
example : typeAfter fixedDefaults ['র'] ['্', 'য'] = ['র', '\u200d', '্', 'য'] := by decide
example : typeAfter fixedDefaults ['ক', '্', 'র'] ['্', 'য'] = ['ক', '্', 'র', '্', 'য'] := by decide
example : typeAfter fixedDefaults ['খ', '্'] ['য'] = ['খ', '্', 'য'] := by decide
example : typeAfter fixedDefaults ['খ'] ['্', 'য'] = ['খ', '্', 'য'] := by decide

/-- the hypotheses of `process_eq_rules_partial` hold at a concrete non-trivial input, and its
    conclusion there is the third assertion of `test_features` -/
example : fixedDefaults.fixedKarOrder = false ∧ (fixedDefaults.fixedOldReph = false ∨ [cAAKar] ≠ rephValue) ∧
    CoveredValue [cAAKar] ∧ specAfter fixedDefaults ['ক', 'ঁ'] [cAAKar] = ['ক', 'া', 'ঁ'] := by decide

end Riti.C12
