/-
Props/C13 — old-style reph: the reph key inserts র্ at one position of the composed text and changes
nothing else; where that position is (before the final conjunct / at the end); option off = append.
Helper lemmas live in Lemmas/Reph.  `rbuf` is the REVERSED buffer, `p` the text as the user sees it.
-/
import RitiModel.Lemmas.Reph
namespace Riti.C13
open Riti Riti.Gen

/-! ## 1. Conservation: র্ is inserted at one position, nothing else changes (every buffer) -/

/-- `insert_old_style_reph` only inserts the two code points of the reph at one position of the
    (reversed) buffer — every buffer, the empty one included; nothing is lost, duplicated or reordered -/
theorem reph_conserves (rbuf : Str) : ∃ i ≤ rbuf.length,
    insertOldStyleReph rbuf = rbuf.take i ++ [cHasanta, cR] ++ rbuf.drop i := by
  unfold insertOldStyleReph
  split
  · exact ⟨_, by simpa using rephScan_le rbuf 0 false false false false 0, rfl⟩
  · exact ⟨0, by omega, by simp⟩

/-- the same in reading order: the new text is the old text `p` with র্ inserted at some position `j` -/
theorem reph_conserves_forward (p : Str) : ∃ j ≤ p.length,
    (insertOldStyleReph p.reverse).reverse = p.take j ++ [cR, cHasanta] ++ p.drop j := by
  obtain ⟨i, _, h⟩ := reph_conserves p.reverse
  refine ⟨p.length - i, by omega, ?_⟩
  rw [h]
  simp [List.reverse_take, List.reverse_drop]

/-! ## 2. The reph key with the option on -/

/-- with old-style reph on, the reph key does `insert_old_style_reph` on the buffer and touches
    nothing else (raw keys, pending left-standing sign, suggestion list) — whatever the other options -/
theorem reph_key_state (cfg : Cfg) (hon : cfg.fixedOldReph = true) (s : FState) :
    processKeyValue cfg s rephValue = { s with rbuf := insertOldStyleReph s.rbuf } := by
  have hz : (rephValue == zoFola) = false := by decide
  simp [processKeyValue, pkvBody, hz, hon]

/-- with old-style reph on, the reph key changes only the buffer, by inserting র্ at one position -/
theorem reph_key_conserves (cfg : Cfg) (hon : cfg.fixedOldReph = true) (s : FState) :
    ∃ i ≤ s.rbuf.length,
      processKeyValue cfg s rephValue =
        { s with rbuf := s.rbuf.take i ++ [cHasanta, cR] ++ s.rbuf.drop i } := by
  obtain ⟨i, hi, h⟩ := reph_conserves s.rbuf
  exact ⟨i, hi, by rw [reph_key_state cfg hon, h]⟩

/-- the same in reading order: the composed text `p` becomes `p` with the key's value র্ inserted at
    one position; pending sign, raw keys and suggestion list are untouched -/
theorem reph_key_conserves_forward (cfg : Cfg) (hon : cfg.fixedOldReph = true) (s : FState) :
    ∃ j ≤ s.buffer.length,
      (processKeyValue cfg s rephValue).buffer = s.buffer.take j ++ rephValue ++ s.buffer.drop j ∧
      (processKeyValue cfg s rephValue).pending = s.pending ∧
      (processKeyValue cfg s rephValue).rtyped = s.rtyped ∧
      (processKeyValue cfg s rephValue).suggestions = s.suggestions := by
  obtain ⟨j, hj, h⟩ := reph_conserves_forward s.buffer
  refine ⟨j, hj, ?_, ?_, ?_, ?_⟩ <;> rw [reph_key_state cfg hon]
  simpa [FState.buffer, rephValue] using h

/-- a physical key press: if the layout gives the pressed key the value র্ and old-style reph is on,
    the key is consumed and the composed text becomes the old one with র্ inserted at one position
    (the pending sign is untouched; only the raw-key log may grow) -/
theorem reph_keypress_conserves (layout : Layout) (cfg : Cfg) (hon : cfg.fixedOldReph = true) (s : FState)
    (key modifier : Nat)
    (hv : getCharForKey layout key (getModifiers modifier) cfg.fixedNumpad = some rephValue) :
    ∃ s', fKeyState layout cfg s key modifier = some s' ∧ s'.pending = s.pending ∧
      ∃ j ≤ s.buffer.length, s'.buffer = s.buffer.take j ++ rephValue ++ s.buffer.drop j := by
  obtain ⟨j, hj, hb, hp, _, _⟩ := reph_key_conserves_forward cfg hon s
  simp only [fKeyState, hv]
  split
  · exact ⟨_, rfl, hp, j, hj, hb⟩
  · split
    · split
      · exact ⟨_, rfl, hp, j, hj, hb⟩
      · exact ⟨_, rfl, hp, j, hj, hb⟩
    · exact ⟨_, rfl, hp, j, hj, hb⟩

/-! ## 3. The reph key with the option off -/

/-- with old-style reph off the reph key appends its value র্ and changes nothing else — whatever the
    other options; in particular with old kar order on a pending left-standing sign STAYS pending
    (the value ends in hasanta), it is not flushed after the reph -/
theorem reph_off_state (cfg : Cfg) (hoff : cfg.fixedOldReph = false) (s : FState) :
    processKeyValue cfg s rephValue = { s with rbuf := cHasanta :: cR :: s.rbuf } := by
  have hz : (rephValue == zoFola) = false := by decide
  have hh : rephValue.head? = some cR := rfl
  have hl : rephValue.getLast? = some cHasanta := rfl
  have hk : isKar cR = false := by decide
  have e1 : (cR == cHasanta) = false := by decide
  have e2 : (cR == cLengthMark) = false := by decide
  have hp : pushStr s.rbuf rephValue = cHasanta :: cR :: s.rbuf := rfl
  cases hko : cfg.fixedKarOrder <;> cases hpd : s.pending <;>
    simp [processKeyValue, pkvBody, hz, hoff, hh, hl, hk, e1, e2, hp, hko, hpd]

/-- with old-style reph (and old kar order) off the reph key simply appends its value -/
theorem reph_off_appends (cfg : Cfg) (hoff : cfg.fixedOldReph = false) (_hko : cfg.fixedKarOrder = false)
    (s : FState) : (processKeyValue cfg s rephValue).rbuf = cHasanta :: cR :: s.rbuf := by
  rw [reph_off_state cfg hoff]

/-- … in reading order, and for any kar-order setting: the text becomes `p ++ র্` -/
theorem reph_off_appends_forward (cfg : Cfg) (hoff : cfg.fixedOldReph = false) (s : FState) :
    (processKeyValue cfg s rephValue).buffer = s.buffer ++ rephValue := by
  rw [reph_off_state cfg hoff]; simp [FState.buffer, rephValue]

/-- old kar order on, a left-standing sign pending (typed before its consonant), option off: the
    reph is appended and the sign is still pending afterwards -/
theorem reph_off_pending_kept (cfg : Cfg) (hoff : cfg.fixedOldReph = false) (s : FState) (k : Char)
    (hp : s.pending = some k) :
    (processKeyValue cfg s rephValue).rbuf = cHasanta :: cR :: s.rbuf ∧
    (processKeyValue cfg s rephValue).pending = some k := by
  rw [reph_off_state cfg hoff]; exact ⟨rfl, hp⟩

/-! ## 4. Empty buffer -/

/-- on an empty buffer `insert_old_style_reph` gives just র্ (no panic: `unwrap_or_default`) -/
theorem reph_empty : insertOldStyleReph [] = [cHasanta, cR] := by decide

/-- the reph key on an empty composition gives the text র্, with the option on or off -/
theorem reph_key_empty (cfg : Cfg) (s : FState) (he : s.rbuf = []) :
    (processKeyValue cfg s rephValue).buffer = [cR, cHasanta] := by
  cases hon : cfg.fixedOldReph with
  | true => rw [reph_key_state cfg hon, he]; simp only [FState.buffer, reph_empty]; rfl
  | false => rw [reph_off_state cfg hon, he]; rfl

/-! ## 5. Placement

Grammar (decidable, `Lemmas/Reph`): `isConjunct` = `c (্ c)*` with pure consonants `c`;
`optVowel` = zero or one `isVowel` code point (independent vowel or sign); `optChandra` = zero or
one chandrabindu.  The text is split as `pre ++ conj ++ vow ++ chn`. -/

/-- the side condition on the code point `d` just before the final conjunct under which the code
    finds the conjunct's left edge: no `d` at all, a pure consonant (previous syllable without sign),
    a chandrabindu, or a vowel/sign — the last one NOT when the syllable is consonants + chandrabindu
    without a vowel.  A hasanta is not allowed here: after a consonant it would belong to the
    conjunct (maximality), otherwise the text is ill-formed. -/
def goodBefore (pre vow chn : Str) : Bool :=
  match pre.getLast? with
  | none => true
  | some d => isPureConsonant d || d == cChandra || (isVowel d && (!vow.isEmpty || chn.isEmpty))

/-- `goodBefore` is the reading-order form of the scan's stop condition `stopsAt` -/
theorem goodBefore_stopsAt (pre vow chn : Str) :
    stopsAt (!vow.isEmpty) (!chn.isEmpty) pre.reverse = goodBefore pre vow chn := by
  simp only [stopsAt, goodBefore, List.head?_reverse]
  cases pre.getLast? <;> simp

/-- the reversed text, regrouped -/
theorem shape_reverse (pre conj vow chn : Str) (hvow : optVowel vow = true) (hchn : optChandra chn = true) :
    (pre ++ conj ++ vow ++ chn).reverse = chn ++ vow ++ conj.reverse ++ pre.reverse := by
  simp [optVowel_reverse hvow, optChandra_reverse hchn]

/-- PARTIAL (scan count): when the text ends in a conjunct, an optional vowel and an optional
    chandrabindu, the scan moves exactly that syllable.  Excluded (hypothesis `goodBefore`): the code
    point before the conjunct is (a) outside the four classes of the scan — ZWNJ, ZWJ, anusvara,
    visarga, digits, Latin … — see `reph_wrong_after_explicit_hasanta`; (b) a vowel/sign while the
    syllable is conjunct + chandrabindu without vowel — see `reph_wrong_chandra_after_vowel`;
    (c) a hasanta (ill-formed unless it belongs to the conjunct) — see `reph_wrong_orphan_hasanta`. -/
theorem reph_scan_count_partial (pre conj vow chn : Str) (hconj : isConjunct conj = true)
    (hvow : optVowel vow = true) (hchn : optChandra chn = true) (hpre : goodBefore pre vow chn = true) :
    rephScan (pre ++ conj ++ vow ++ chn).reverse 0 false false false false 0 =
      conj.length + vow.length + chn.length := by
  rw [shape_reverse pre conj vow chn hvow hchn,
    rephScan_shape chn vow conj.reverse pre.reverse hchn hvow (isConjunct_reverse conj hconj)
      (by rw [goodBefore_stopsAt]; exact hpre)]
  simp; omega

/-- PARTIAL (placement): when the text ends in a (maximal) conjunct, an optional vowel (sign) and an
    optional chandrabindu, র্ lands immediately before that conjunct and nothing else changes.
    Excluded by `goodBefore`: exactly the classes (a), (b), (c) listed at `reph_scan_count_partial`,
    on which the code puts the reph elsewhere (counter-examples below). -/
theorem reph_placement_partial (pre conj vow chn : Str) (hconj : isConjunct conj = true)
    (hvow : optVowel vow = true) (hchn : optChandra chn = true) (hpre : goodBefore pre vow chn = true) :
    (insertOldStyleReph (pre ++ conj ++ vow ++ chn).reverse).reverse =
      pre ++ [cR, cHasanta] ++ conj ++ vow ++ chn := by
  have hscan := reph_scan_count_partial pre conj vow chn hconj hvow hchn hpre
  have hmv : isRephMoveable (pre ++ conj ++ vow ++ chn).reverse = true := by
    rw [shape_reverse pre conj vow chn hvow hchn]
    exact isRephMoveable_shape chn vow conj.reverse pre.reverse hchn hvow (isConjunct_reverse conj hconj)
  simp only [insertOldStyleReph, hmv, if_true, hscan]
  rw [shape_reverse pre conj vow chn hvow hchn]
  have hl : (chn ++ vow ++ conj.reverse).length = conj.length + vow.length + chn.length := by
    simp; omega
  rw [List.take_left' hl, List.drop_left' hl]
  simp [optVowel_reverse hvow, optChandra_reverse hchn]

/-- the same for the reph key (option on) on the composed text -/
theorem reph_key_placement_partial (cfg : Cfg) (hon : cfg.fixedOldReph = true) (s : FState)
    (pre conj vow chn : Str) (hs : s.buffer = pre ++ conj ++ vow ++ chn) (hconj : isConjunct conj = true)
    (hvow : optVowel vow = true) (hchn : optChandra chn = true) (hpre : goodBefore pre vow chn = true) :
    (processKeyValue cfg s rephValue).buffer = pre ++ rephValue ++ conj ++ vow ++ chn := by
  have hr : s.rbuf = (pre ++ conj ++ vow ++ chn).reverse := by
    rw [← hs, FState.buffer, List.reverse_reverse]
  rw [reph_key_state cfg hon, FState.buffer]
  simp only [hr]
  exact reph_placement_partial pre conj vow chn hconj hvow hchn hpre

/-- "the end of p otherwise", in the code's own terms: when `is_reph_moveable` says no, the reph is
    appended at the end -/
theorem reph_end_otherwise_partial (rbuf : Str) (h : isRephMoveable rbuf = false) :
    insertOldStyleReph rbuf = cHasanta :: cR :: rbuf := by
  simp [insertOldStyleReph, h]

/-- `is_reph_moveable` characterised: after dropping one trailing chandrabindu the last code point is
    a pure consonant, or it is a vowel (sign) preceded by a pure consonant -/
theorem moveable_iff (rbuf : Str) : isRephMoveable rbuf = true ↔
    (∃ c rest, dropChandra rbuf = c :: rest ∧ isPureConsonant c = true) ∨
    (∃ v c rest, dropChandra rbuf = v :: c :: rest ∧ isVowel v = true ∧ isPureConsonant c = true) :=
  isRephMoveable_iff rbuf

/-- what the reph key (option on) makes of the text `p`, in reading order -/
def rephText (p : Str) : Str := (insertOldStyleReph p.reverse).reverse

/-- the conjunct that follows `pre` is maximal: `pre` does not end in "pure consonant, hasanta" -/
def conjMaximal (pre : Str) : Bool := rMaximal pre.reverse

/-- `is_reph_moveable` says yes exactly when the text ends in conjunct + optional vowel + optional
    chandrabindu; the conjunct can then be chosen maximal -/
theorem moveable_iff_shape (p : Str) : isRephMoveable p.reverse = true ↔
    ∃ pre conj vow chn, p = pre ++ conj ++ vow ++ chn ∧ isConjunct conj = true ∧ optVowel vow = true ∧
      optChandra chn = true ∧ conjMaximal pre = true := by
  rw [isRephMoveable_iff_shape]
  constructor
  · rintro ⟨chn, vow, cj, rest, he, hchn, hvow, hcj, hmx⟩
    refine ⟨rest.reverse, cj.reverse, vow, chn, ?_, isConjunct_reverse cj hcj, hvow, hchn, by simpa [conjMaximal] using hmx⟩
    have := congrArg List.reverse he
    simpa [optVowel_reverse hvow, optChandra_reverse hchn] using this
  · rintro ⟨pre, conj, vow, chn, rfl, hconj, hvow, hchn, hmx⟩
    exact ⟨chn, vow, conj.reverse, pre.reverse, shape_reverse pre conj vow chn hvow hchn, hchn, hvow,
      isConjunct_reverse conj hconj, hmx⟩

/-- "the end of p otherwise", FULL strength: whenever the text does NOT end in conjunct + optional
    vowel + optional chandrabindu (the empty text included) the reph is appended at the end -/
theorem reph_end_otherwise (p : Str)
    (h : ¬ ∃ pre conj vow chn, p = pre ++ conj ++ vow ++ chn ∧ isConjunct conj = true ∧
      optVowel vow = true ∧ optChandra chn = true) :
    rephText p = p ++ [cR, cHasanta] := by
  have hm : isRephMoveable p.reverse = false := by
    cases hmv : isRephMoveable p.reverse with
    | false => rfl
    | true =>
      obtain ⟨pre, conj, vow, chn, he, h1, h2, h3, _⟩ := (moveable_iff_shape p).mp hmv
      exact absurd ⟨pre, conj, vow, chn, he, h1, h2, h3⟩ h
  simp [rephText, reph_end_otherwise_partial _ hm]

/-- every text falls under one of the two clauses: either it does not end in a syllable and the reph
    is appended, or it splits as `pre ++ conj ++ vow ++ chn` with a MAXIMAL conjunct and — if the code
    point before the conjunct is `goodBefore` — the reph lands immediately before the conjunct -/
theorem reph_cases (p : Str) :
    ((¬ ∃ pre conj vow chn, p = pre ++ conj ++ vow ++ chn ∧ isConjunct conj = true ∧
        optVowel vow = true ∧ optChandra chn = true) ∧ rephText p = p ++ [cR, cHasanta]) ∨
    (∃ pre conj vow chn, p = pre ++ conj ++ vow ++ chn ∧ isConjunct conj = true ∧ optVowel vow = true ∧
        optChandra chn = true ∧ conjMaximal pre = true ∧
        (goodBefore pre vow chn = true → rephText p = pre ++ [cR, cHasanta] ++ conj ++ vow ++ chn)) := by
  by_cases h : ∃ pre conj vow chn, p = pre ++ conj ++ vow ++ chn ∧ isConjunct conj = true ∧
        optVowel vow = true ∧ optChandra chn = true
  · right
    obtain ⟨pre, conj, vow, chn, rfl, h1, h2, h3⟩ := h
    have hmv : isRephMoveable (pre ++ conj ++ vow ++ chn).reverse = true := by
      rw [shape_reverse pre conj vow chn h2 h3]
      exact isRephMoveable_shape chn vow conj.reverse pre.reverse h3 h2 (isConjunct_reverse conj h1)
    obtain ⟨pre', conj', vow', chn', he, h1', h2', h3', hmx⟩ := (moveable_iff_shape _).mp hmv
    exact ⟨pre', conj', vow', chn', he, h1', h2', h3', hmx,
      fun hg => by rw [he]; exact reph_placement_partial pre' conj' vow' chn' h1' h2' h3' hg⟩
  · exact Or.inl ⟨h, reph_end_otherwise p h⟩

/-- case analysis behind `not_goodBefore_iff`: the stop test on one code point `d` fails exactly in
    the three listed classes (`Q` = "no pure consonant before `d`", known when `d` is a hasanta) -/
theorem not_good_aux (d : Char) (vow chn : Str) (Q : Prop) (hq : d = cHasanta → Q) :
    (isPureConsonant d || d == cChandra || (isVowel d && (!vow.isEmpty || chn.isEmpty))) = false ↔
      ((isPureConsonant d = false ∧ d ≠ cHasanta ∧ isVowel d = false ∧ d ≠ cChandra) ∨
       (isVowel d = true ∧ vow = [] ∧ chn ≠ []) ∨ (d = cHasanta ∧ Q)) := by
  by_cases h1 : isPureConsonant d = true
  · have hv : isVowel d = false := by
      cases hv : isVowel d with
      | false => rfl
      | true => rw [isVowel_not_cons hv] at h1; cases h1
    have hh : d ≠ cHasanta := by simpa using cons_ne_hasanta h1
    simp [h1, hv, hh]
  · have h1 : isPureConsonant d = false := by simpa using h1
    by_cases h2 : isVowel d = true
    · have hh : d ≠ cHasanta := by simpa using isVowel_ne_hasanta h2
      have hc : d ≠ cChandra := by simpa using isVowel_ne_chandra h2
      simp [h1, h2, hh, hc]
    · have h2 : isVowel d = false := by simpa using h2
      by_cases h3 : d = cChandra
      · subst h3
        have hh : cChandra ≠ cHasanta := by decide
        simp [cons_chandra, vowel_chandra, hh]
      · by_cases h4 : d = cHasanta
        · subst h4
          have hh : (cHasanta == cChandra) = false := by decide
          have hh' : cHasanta ≠ cChandra := by decide
          simp [cons_hasanta, vowel_hasanta, hh, hh', hq rfl]
        · simp [h1, h2, h3, h4]

/-- the excluded inputs of `reph_placement_partial` are EXACTLY three classes: with a maximal
    conjunct, `goodBefore` fails iff the code point `d` before the conjunct is (a) in none of the
    scan's four classes, (b) a vowel while the syllable is conjunct + chandrabindu without vowel, or
    (c) a hasanta that is not preceded by a pure consonant (ill-formed text) -/
theorem not_goodBefore_iff (pre vow chn : Str) (hmx : conjMaximal pre = true) :
    goodBefore pre vow chn = false ↔ ∃ d, pre.getLast? = some d ∧
      ((isPureConsonant d = false ∧ d ≠ cHasanta ∧ isVowel d = false ∧ d ≠ cChandra) ∨
       (isVowel d = true ∧ vow = [] ∧ chn ≠ []) ∨
       (d = cHasanta ∧ ∀ k, pre.dropLast.getLast? = some k → isPureConsonant k = false)) := by
  have hgl : pre.getLast? = pre.reverse.head? := by simp
  have hdl : pre.dropLast.getLast? = (pre.reverse.drop 1).head? := by
    rw [← List.head?_reverse]; simp
  simp only [goodBefore, conjMaximal, hgl, hdl] at *
  generalize pre.reverse = r at *
  match r, hmx with
  | [], _ => simp
  | [d], _ =>
    simpa using not_good_aux d vow chn True (fun _ => trivial)
  | d :: k :: r', hmx =>
    simp only [rMaximal, Bool.not_eq_true', Bool.and_eq_false_iff, beq_eq_false_iff_ne, ne_eq] at hmx
    have := not_good_aux d vow chn (isPureConsonant k = false) (fun h => by simpa [h] using hmx)
    simpa using this

/-! ### the excluded classes are real: the code misplaces the reph there -/

/-- (a) a code point outside the scan's four classes directly before the final conjunct is skipped
    WITHOUT being counted: in `ক্‌ক` (ka, hasanta, ZWNJ, ka — explicit hasanta) the final conjunct is
    the last ka, the reph belongs before it (`ক্‌র্ক`), but the code cuts between the first ka and its
    hasanta.  The hypotheses of the placement theorem other than `goodBefore` hold. -/
theorem reph_wrong_after_explicit_hasanta :
    let pre := "ক্".toList ++ [cZWNJ]
    let conj := "ক".toList
    isConjunct conj = true ∧ conjMaximal pre = true ∧ goodBefore pre [] [] = false ∧
    rephText (pre ++ conj) = "কর্্".toList ++ [cZWNJ] ++ "ক".toList ∧
    rephText (pre ++ conj) ≠ pre ++ [cR, cHasanta] ++ conj := by decide

/-- (a) again with other unclassified code points: anusvara and a digit before the conjunct — the
    scan walks through them into the previous syllable -/
theorem reph_wrong_after_unclassified :
    rephText "ক্ংক".toList = "কর্্ংক".toList ∧ rephText "ক্1ক".toList = "কর্্1ক".toList := by decide

/-- (b) conjunct + chandrabindu without vowel sign, preceded by a vowel (sign): once the chandrabindu
    flag is set the scan accepts a vowel at any depth.  `কাকঁ` gives `কর্াকঁ` (expected `কার্কঁ`) and
    `আকঁ` gives `র্আকঁ` (expected `আর্কঁ`).  Both texts are well-formed. -/
theorem reph_wrong_chandra_after_vowel :
    (isConjunct "ক".toList = true ∧ conjMaximal "কা".toList = true ∧
      goodBefore "কা".toList [] "ঁ".toList = false ∧
      rephText "কাকঁ".toList = "কর্াকঁ".toList ∧ rephText "কাকঁ".toList ≠ "কার্কঁ".toList) ∧
    (goodBefore "আ".toList [] "ঁ".toList = false ∧
      rephText "আকঁ".toList = "র্আকঁ".toList ∧ rephText "আকঁ".toList ≠ "আর্কঁ".toList) := by decide

/-- (c) a hasanta that does not follow a consonant (ill-formed text) before the conjunct is counted
    into it: `া্ক` gives `ার্্ক` instead of `া্র্ক` -/
theorem reph_wrong_orphan_hasanta :
    conjMaximal "া্".toList = true ∧ goodBefore "া্".toList [] [] = false ∧
    rephText "া্ক".toList = "ার্্ক".toList ∧ rephText "া্ক".toList ≠ "া্র্ক".toList := by decide

/-- the FULL-strength placement statement (every text ending in maximal conjunct + optional vowel +
    optional chandrabindu) is FALSE of the code — witness `কাকঁ` -/
theorem reph_placement_full_false :
    ¬ ∀ pre conj vow chn : Str, isConjunct conj = true → optVowel vow = true → optChandra chn = true →
        conjMaximal pre = true →
        rephText (pre ++ conj ++ vow ++ chn) = pre ++ [cR, cHasanta] ++ conj ++ vow ++ chn := by
  intro h
  have := h "কা".toList "ক".toList [] "ঁ".toList (by decide) (by decide) (by decide) (by decide)
  revert this
  decide

/-! ## 6. Non-vacuity: the seven buffers of the Rust test `test_reph_insertion` -/

example : rephText "অক".toList = "অর্ক".toList := by decide
example : rephText "ক".toList = "র্ক".toList := by decide
example : rephText "কত".toList = "কর্ত".toList := by decide
example : rephText "অক্কা".toList = "অর্ক্কা".toList := by decide
example : rephText "কক্ষ্ম".toList = "কর্ক্ষ্ম".toList := by decide
example : rephText "কব্যা".toList = "কর্ব্যা".toList := by decide
example : rephText "কব্যাঁ".toList = "কর্ব্যাঁ".toList := by decide

/-- the hypotheses of `reph_placement_partial` hold on the last test buffer `কব্যাঁ`
    (pre = ক, conjunct = ব্য, vowel sign = া, chandrabindu), and its conclusion is the test's answer -/
example :
    isConjunct "ব্য".toList = true ∧ optVowel "া".toList = true ∧ optChandra "ঁ".toList = true ∧
    goodBefore "ক".toList "া".toList "ঁ".toList = true ∧ conjMaximal "ক".toList = true ∧
    "ক".toList ++ "ব্য".toList ++ "া".toList ++ "ঁ".toList = "কব্যাঁ".toList ∧
    "ক".toList ++ [cR, cHasanta] ++ "ব্য".toList ++ "া".toList ++ "ঁ".toList = "কর্ব্যাঁ".toList := by decide

/-- the key-level theorems are not vacuous: option on, the whole key path on `কব্যাঁ` -/
example : (processKeyValue { fixedOldReph := true } { rbuf := "কব্যাঁ".toList.reverse } rephValue).buffer
    = "কর্ব্যাঁ".toList := by decide

/-- option off: the same key just appends -/
example : (processKeyValue {} { rbuf := "কব্যাঁ".toList.reverse } rephValue).buffer
    = "কব্যাঁর্".toList := by decide

/-- "the end of p otherwise" is not vacuous: a text ending in anusvara, one ending in an independent
    vowel, and the empty text get the reph appended -/
example : rephText "কং".toList = "কংর্".toList ∧ rephText "আ".toList = "আর্".toList ∧
    rephText [] = "র্".toList := by decide

end Riti.C13
