/-
Props/C14 — old vowel-sign ("kar") order.  With the option on, typing each syllable in typewriter
order (ি ে ৈ before the consonant or conjunct, ো / ৌ as ে before plus া / ৌ / ৗ after) gives exactly
the composed text of the same syllables typed in Unicode order with the option off; a sign that is
waiting for its consonant is not shown, counts as an ongoing session and is discarded by one
backspace.  Helper lemmas and the syllable language live in Lemmas/KarOrder.
`rbuf` is the REVERSED buffer; `FState.buffer` the text as the user sees it.
-/
import RitiModel.Lemmas.KarOrder
namespace Riti.C14
open Riti Riti.Gen

/-! ## 1. The waiting sign: hidden, a session, one backspace -/

/-- a left-standing sign (ি ে ৈ) typed with the option on, when the text does not end in a hasanta,
    is captured: the pre-edit text (and everything else) is unchanged, the sign waits -/
theorem pending_hidden (cfg : Cfg) (hon : cfg.fixedKarOrder = true) (s : FState) (k : Char)
    (hk : k = cIKar ∨ k = cEKar ∨ k = cOIKar) (hh : s.rbuf.head? ≠ some cHasanta) :
    (processKeyValue cfg s [k]).rbuf = s.rbuf ∧ (processKeyValue cfg s [k]).pending = some k ∧
    (processKeyValue cfg s [k]).buffer = s.buffer := by
  rcases s with ⟨u, t, p, sg⟩
  have h1 : (u.headD '\x00' == cHasanta) = false := by
    cases u with
    | nil => decide
    | cons a r => simpa using hh
  rw [pkv_capture cfg hon u t p sg k ((isLeftStandingKar_iff k).mpr hk) h1]
  exact ⟨rfl, rfl, rfl⟩

/-- the same as a state equation: only the `pending_kar` field changes -/
theorem pending_hidden_state (cfg : Cfg) (hon : cfg.fixedKarOrder = true) (s : FState) (k : Char)
    (hk : k = cIKar ∨ k = cEKar ∨ k = cOIKar) (hh : s.rbuf.head? ≠ some cHasanta) :
    processKeyValue cfg s [k] = { s with pending := some k } := by
  rcases s with ⟨u, t, p, sg⟩
  have h1 : (u.headD '\x00' == cHasanta) = false := by
    cases u with
    | nil => decide
    | cons a r => simpa using hh
  exact pkv_capture cfg hon u t p sg k ((isLeftStandingKar_iff k).mpr hk) h1

/-- the other way a sign comes to wait: the hasanta key typed directly after a left-standing sign
    (the user goes on to build a conjunct) takes the sign OFF the pre-edit text — it shows `…স্`, not
    `…সি্` — until the next consonant arrives -/
theorem pending_hidden_conjunct (cfg : Cfg) (hon : cfg.fixedKarOrder = true) (s : FState) (k : Char)
    (r : Str) (hk : k = cIKar ∨ k = cEKar ∨ k = cOIKar) (hs : s.rbuf = k :: r) :
    (processKeyValue cfg s [cHasanta]).buffer = r.reverse ++ [cHasanta] ∧
    (processKeyValue cfg s [cHasanta]).pending = some k := by
  rcases s with ⟨u, t, p, sg⟩
  simp only at hs
  subst hs
  rw [pkv_hasanta_left cfg hon k r t p sg ((isLeftStandingKar_iff k).mpr hk)]
  exact ⟨by simp [FState.buffer], rfl⟩

/-- … and the next consonant brings it back, after the consonant -/
theorem pending_released (cfg : Cfg) (hon : cfg.fixedKarOrder = true) (s : FState) (k c : Char)
    (hp : s.pending = some k) (hc : isPureConsonant c = true) :
    (processKeyValue cfg s [c]).buffer = s.buffer ++ [c, k] ∧ (processKeyValue cfg s [c]).pending = none := by
  rcases s with ⟨u, t, p, sg⟩
  simp only at hp
  subst hp
  have f := consFacts hc
  rw [pkv_plain_pending cfg hon u t k sg c f.kar f.hasanta f.lengthMark]
  exact ⟨by simp [FState.buffer], rfl⟩

/-- a waiting sign counts as an ongoing input session, even on an empty text -/
theorem pending_is_session (s : FState) (h : s.pending.isSome = true) : fOngoing s = true := by
  simp [fOngoing, h]

/-- one plain backspace discards the waiting sign and nothing else: the text is untouched; the
    session goes on (a suggestion is built) exactly when there is text -/
theorem pending_one_backspace (s : FState) (h : s.pending.isSome = true) :
    (fBackspaceState s false).1.rbuf = s.rbuf ∧ (fBackspaceState s false).1.pending = none ∧
    (fBackspaceState s false).2 = !s.rbuf.isEmpty ∧
    fOngoing (fBackspaceState s false).1 = !s.rbuf.isEmpty := by
  rcases s with ⟨u, t, p, sg⟩
  simp only at h
  cases u <;> simp [fBackspaceState, h, fOngoing]

/-- ctrl-backspace discards the waiting sign too (together with the whole word, if there is one) -/
theorem pending_ctrl_backspace (s : FState) (h : s.pending.isSome = true) :
    (fBackspaceState s true).1.rbuf = [] ∧ (fBackspaceState s true).1.pending = none := by
  rcases s with ⟨u, t, p, sg⟩
  simp only at h
  cases u <;> simp [fBackspaceState, h]

/-- capture then one backspace is the identity on text and waiting sign (from a state where
    nothing was waiting) -/
theorem capture_then_backspace (cfg : Cfg) (hon : cfg.fixedKarOrder = true) (s : FState) (k : Char)
    (hk : k = cIKar ∨ k = cEKar ∨ k = cOIKar) (hh : s.rbuf.head? ≠ some cHasanta) (hp : s.pending = none) :
    (fBackspaceState (processKeyValue cfg s [k]) false).1.rbuf = s.rbuf ∧
    (fBackspaceState (processKeyValue cfg s [k]) false).1.pending = s.pending := by
  obtain ⟨h1, h2, _⟩ := pending_hidden cfg hon s k hk hh
  obtain ⟨h3, h4, _⟩ := pending_one_backspace (processKeyValue cfg s [k]) (by simp [h2])
  exact ⟨h3.trans h1, h4.trans hp.symm⟩

/-! ## 2. The Rust test `test_old_kar_order`, assertion by assertion -/

/-- `get_fixed_method_defaults()` with `set_fixed_old_kar_order(true)` -/
def testCfg : Cfg :=
  { fixedSuggestion := true, fixedVowel := true, fixedChandra := true, fixedKar := true,
    fixedNumpad := true, fixedOldReph := true, fixedKarOrder := true }

/-- `method.buffer = b; process_key_value(k₁); …; method.buffer` -/
def run (cfg : Cfg) (b : String) (keys : List String) : Str :=
  (typeAll cfg (keys.map String.toList) { rbuf := b.toList.reverse }).buffer

example : run testCfg "" ["ৈ", "ক"] = "কৈ".toList := by decide
example : run testCfg "তে" ["া"] = "তো".toList := by decide
example : run testCfg "মে" ["ৌ"] = "মৌ".toList := by decide
example : run testCfg "মে" ["ৗ"] = "মৌ".toList := by decide
example : run testCfg "সি" ["্", "ক"] = "স্কি".toList := by decide
example : run testCfg "" ["ি", "স", "্", "ট", "ম"] = "স্টিম".toList := by decide
example : run testCfg "তি" ["্র"] = "ত্রি".toList := by decide
example : run testCfg "তি" ["্য"] = "ত্যি".toList := by decide

/-- "Backspace" block 1: ে on an empty text, backspace → empty suggestion, text and raw keys empty -/
example :
    let r := fBackspaceState (processKeyValue testCfg {} "ে".toList) false
    r.2 = false ∧ r.1.rbuf = [] ∧ r.1.rtyped = [] ∧ r.1.pending = none := by decide

/-- block 2: ক then ি, backspace → a non-empty suggestion, the text is still ক -/
example :
    let r := fBackspaceState (processKeyValue testCfg { rbuf := "ক".toList } "ি".toList) false
    r.2 = true ∧ r.1.buffer = "ক".toList ∧ r.1.pending = none := by decide

/-- block 3: ক, backspace → empty suggestion, text and raw keys empty -/
example :
    let r := fBackspaceState { rbuf := "ক".toList } false
    r.2 = false ∧ r.1.rbuf = [] ∧ r.1.rtyped = [] := by decide

/-- "Vowel making with Hasanta" -/
example : run testCfg "ক" ["্", "ি"] = "কই".toList := by decide
example : run testCfg "কে" ["্", "ু"] = "কেউ".toList := by decide
/-- "Automatic Vowel Forming" -/
example : run testCfg "" ["ে", "ো"] = "এও".toList := by decide
/-- "With Old style Reph" -/
example : run testCfg "দ" ["ি", "জ", "র্"] = "দর্জি".toList := by decide
/-- "Without Old style Reph" -/
example : run { testCfg with fixedOldReph := false } "দ" ["ি", "র্", "জ"] = "দর্জি".toList := by decide

/-! ## 3. The one failing class: র + zo-fola with an early sign -/

/-- the 8 settings of automatic vowel forming / automatic chandrabindu / traditional joining -/
def eightCfgs : List Cfg :=
  [false, true].flatMap fun a => [false, true].flatMap fun b => [false, true].map fun c =>
    { fixedVowel := a, fixedChandra := b, fixedKar := c }

/-- the five signs typewriter order starts before the cluster -/
def earlySigns : List Char := [cIKar, cEKar, cOIKar, cOKar, cOUKar]

/-- COUNTER-EXAMPLE to the full-strength statement.  The syllable র + zo-fola ("ry", as in র‍্যাব)
    with one of ি ে ৈ ো ৌ: Unicode order gives `র ZWJ ্ য sign` (the zo-fola key sees the র and
    inserts the ZWJ that keeps it from becoming a reph), typewriter order gives `র ্ য sign` — the
    zo-fola key sees the SIGN that was already put after the র, so no ZWJ, and the text renders as
    reph + য.  In all 8 settings, for all 5 signs and both spellings of ৌ; the syllable is well-formed. -/
theorem old_order_differs_ra_zofola :
    ∀ cfg ∈ eightCfgs, ∀ k ∈ earlySigns, ∀ lm ∈ [false, true],
      let syl := Syl.cons cR [.zoFola] (some k) false
      syl.wf = true ∧ syl.raZofola = true ∧
      (typeAll { cfg with fixedKarOrder := true } (typewriterKeys lm syl) {}).buffer = [cR, cHasanta, cZ, k] ∧
      (typeAll { cfg with fixedKarOrder := false } (unicodeKeys syl) {}).buffer = [cR, cZWJ, cHasanta, cZ, k] := by
  decide

/-- the same as key strokes: typing ে র ্য (typewriter order) gives র্যে, typing র ্য ে (Unicode order)
    gives র‍্যে -/
example :
    run { fixedKarOrder := true } "" ["ে", "র", "্য"] = "র্যে".toList ∧
    run {} "" ["র", "্য", "ে"] = "র\u200d্যে".toList ∧
    typewriterKeys false (.cons cR [.zoFola] (some cEKar) false) = ["ে", "র", "্য"].map String.toList ∧
    unicodeKeys (.cons cR [.zoFola] (some cEKar) false) = ["র", "্য", "ে"].map String.toList := by decide

/-- the FULL-strength equivalence (every well-formed word) is FALSE of the code -/
theorem old_order_equiv_full_false :
    ¬ ∀ (cfg : Cfg) (lm : Bool) (w : List Syl), (∀ syl ∈ w, syl.wf = true) →
        (typeAll { cfg with fixedKarOrder := true } (w.flatMap (typewriterKeys lm)) {}).rbuf =
          (typeAll { cfg with fixedKarOrder := false } (w.flatMap unicodeKeys) {}).rbuf := by
  intro h
  have := h {} false [.cons cR [.zoFola] (some cEKar) false] (by decide)
  revert this
  decide

/-! ## 4. The equivalence -/

/-- PARTIAL (per-syllable spelling of ৌ, any starting text): from any state with nothing waiting and
    a text that does not end in a hasanta, typing the word in typewriter order with the option on
    and typing it in Unicode order with the option off lead to the SAME state: same text, nothing
    waiting (the raw-key log is kept by the caller, `process_key_value` does not touch it).  Excluded: syllables of the class `Syl.raZofola` (র + zo-fola first join + one
    of ি ে ৈ ো ৌ), see `old_order_differs_ra_zofola`.  No assumption on the other 10 options (the
    reph key is not part of the syllable language, so old-style reph does not matter). -/
theorem old_order_equiv_from_partial (cfg : Cfg) (s : FState) (hp : s.pending = none)
    (hh : s.rbuf.head? ≠ some cHasanta) (w : List (Bool × Syl))
    (hw : ∀ x ∈ w, x.2.wf = true) (hx : ∀ x ∈ w, x.2.raZofola = false) :
    typeAll { cfg with fixedKarOrder := true } (w.flatMap fun x => typewriterKeys x.1 x.2) s =
      typeAll { cfg with fixedKarOrder := false } ((w.map Prod.snd).flatMap unicodeKeys) s := by
  rcases s with ⟨u, t, p, sg⟩
  simp only at hp hh
  subst hp
  have h1 : (u.headD '\x00' == cHasanta) = false := by
    cases u with
    | nil => decide
    | cons a r => simpa using hh
  rw [word_run_typewriter { cfg with fixedKarOrder := true } rfl t sg w (fun x hx' => ⟨hw x hx', hx x hx'⟩) u h1,
    word_run_unicode { cfg with fixedKarOrder := false } rfl t none sg (w.map Prod.snd)
      (by intro syl hs; obtain ⟨x, hx', rfl⟩ := List.mem_map.mp hs; exact hw x hx') u]

/-- pairing every syllable with the same ৌ spelling and forgetting it again -/
theorem map_snd_pair (lm : Bool) (w : List Syl) : (w.map fun syl => (lm, syl)).map Prod.snd = w := by
  induction w with
  | nil => rfl
  | cons a w ih => simpa using ih

/-- PARTIAL — the main statement.  For every word of well-formed syllables, every setting of the
    other options (in particular all 8 of automatic vowel / automatic chandrabindu / traditional
    joining) and either spelling `lm` of ৌ, starting from the empty state: typewriter order with the
    option on composes exactly the text that Unicode order composes with the option off, and no sign
    is left waiting.  The induction over the joins of a cluster is general (no bound on the length of
    a conjunct).  Automatic vowel forming needs no side condition: in typewriter order a sign typed
    at the start of the text or after a vowel is captured BEFORE the automatic-vowel test, in Unicode
    order it follows its consonant, so neither order ever turns it into an independent vowel;
    traditional joining puts its ZWNJ before ু ূ ৃ in both orders.  Excluded: syllables with
    `raZofola` — first consonant র, first join the zo-fola key, sign one of ি ে ৈ ো ৌ — on which the
    code differs (`old_order_differs_ra_zofola`; exactly these: `old_order_syllable_iff`). -/
theorem old_order_equiv_partial (cfg : Cfg) (lm : Bool) (w : List Syl)
    (hw : ∀ syl ∈ w, syl.wf = true) (hx : ∀ syl ∈ w, syl.raZofola = false) :
    (typeAll { cfg with fixedKarOrder := true } (w.flatMap (typewriterKeys lm)) {}).rbuf =
      (typeAll { cfg with fixedKarOrder := false } (w.flatMap unicodeKeys) {}).rbuf ∧
    (typeAll { cfg with fixedKarOrder := true } (w.flatMap (typewriterKeys lm)) {}).pending = none := by
  have key := old_order_equiv_from_partial cfg {} rfl (by simp) (w.map fun syl => (lm, syl))
    (by intro x hx'; obtain ⟨syl, hs, rfl⟩ := List.mem_map.mp hx'; exact hw syl hs)
    (by intro x hx'; obtain ⟨syl, hs, rfl⟩ := List.mem_map.mp hx'; exact hx syl hs)
  have e1 : ((w.map fun syl => (lm, syl)).flatMap fun x => typewriterKeys x.1 x.2) =
      w.flatMap (typewriterKeys lm) := by simp [List.flatMap_map]
  have e2 := map_snd_pair lm w
  rw [e1, e2] at key
  rw [key]
  refine ⟨rfl, ?_⟩
  rw [show ({} : FState) = ⟨[], [], none, []⟩ from rfl,
    word_run_unicode { cfg with fixedKarOrder := false } rfl [] none [] w hw []]

/-- EXACTNESS of the exclusion, syllable by syllable: from any state with nothing waiting and a text
    that does not end in a hasanta, a well-formed syllable typed in typewriter order (option on)
    composes the same text as in Unicode order (option off) IF AND ONLY IF it is not in the class
    `raZofola`; in both cases nothing is left waiting.  So `old_order_equiv_partial` excludes no
    syllable it could have included. -/
theorem old_order_syllable_iff (cfg : Cfg) (s : FState) (hp : s.pending = none)
    (hh : s.rbuf.head? ≠ some cHasanta) (lm : Bool) (syl : Syl) (hw : syl.wf = true) :
    ((typeAll { cfg with fixedKarOrder := true } (typewriterKeys lm syl) s).rbuf =
      (typeAll { cfg with fixedKarOrder := false } (unicodeKeys syl) s).rbuf ↔ syl.raZofola = false) ∧
    (typeAll { cfg with fixedKarOrder := true } (typewriterKeys lm syl) s).pending = none := by
  rcases s with ⟨u, t, p, sg⟩
  simp only at hp hh
  subst hp
  have h1 : (u.headD '\x00' == cHasanta) = false := by
    cases u with
    | nil => decide
    | cons a r => simpa using hh
  rw [syl_run_typewriter { cfg with fixedKarOrder := true } rfl u t sg h1 lm syl hw,
    syl_run_unicode { cfg with fixedKarOrder := false } u t none sg syl hw (by simp)]
  exact ⟨sylT_eq_iff cfg.fixedKar u h1 syl, rfl⟩

/-- what that text is: the syllables in storage order — consonant, joins (hasanta + consonant; a ZWJ
    before a zo-fola that directly follows an unjoined র), sign (after a ZWNJ for ু ূ ৃ under
    traditional joining), chandrabindu.  Automatic vowel forming and automatic chandrabindu never
    fire inside a well-formed word. -/
theorem unicode_order_text (cfg : Cfg) (hoff : cfg.fixedKarOrder = false) (s : FState) (w : List Syl)
    (hw : ∀ syl ∈ w, syl.wf = true) :
    typeAll cfg (w.flatMap unicodeKeys) s = { s with rbuf := wordR cfg.fixedKar s.rbuf w } := by
  rcases s with ⟨u, t, p, sg⟩
  exact word_run_unicode cfg hoff t p sg w hw u

/-- the same for typewriter order: the composed text is `wordR` (same exclusion) -/
theorem typewriter_order_text_partial (cfg : Cfg) (hon : cfg.fixedKarOrder = true) (s : FState)
    (hp : s.pending = none) (hh : s.rbuf.head? ≠ some cHasanta) (lm : Bool) (w : List Syl)
    (hw : ∀ syl ∈ w, syl.wf = true) (hx : ∀ syl ∈ w, syl.raZofola = false) :
    typeAll cfg (w.flatMap (typewriterKeys lm)) s = { s with rbuf := wordR cfg.fixedKar s.rbuf w } := by
  rcases s with ⟨u, t, p, sg⟩
  simp only at hp hh
  subst hp
  have h1 : (u.headD '\x00' == cHasanta) = false := by
    cases u with
    | nil => decide
    | cons a r => simpa using hh
  have := word_run_typewriter cfg hon t sg (w.map fun syl => (lm, syl))
    (by intro x hx'; obtain ⟨syl, hs, rfl⟩ := List.mem_map.mp hx'; exact ⟨hw syl hs, hx syl hs⟩) u h1
  rw [map_snd_pair] at this
  simpa [List.flatMap_map] using this

/-! ## 5. Non-vacuity -/

/-- স্টিম, ক্রোঁ, ত্যৌ, আ, ।, র‍্যা, র্যু, কৃ — hasanta join with ি, ro-fola with ো and chandrabindu, zo-fola with ৌ,
    an independent vowel, a punctuation mark, র + zo-fola with a LATE sign (allowed: both orders insert
    the ZWJ), র + hasanta + য with ু, and a ligature sign (ZWNJ under traditional joining) -/
def sampleWord : List Syl :=
  [ .cons 'স' [.viaHasanta 'ট'] (some cIKar) false, .cons 'ম' [] none false,
    .cons 'ক' [.roFola] (some cOKar) true, .cons 'ত' [.zoFola] (some cOUKar) false,
    .indep cAA, .punct '।', .cons cR [.zoFola] (some cAAKar) false,
    .cons cR [.viaHasanta cZ] (some cUKar) false, .cons 'ক' [] (some cRRIKar) false ]

/-- the hypotheses of `old_order_equiv_partial` hold on `sampleWord` -/
example : (∀ syl ∈ sampleWord, syl.wf = true) ∧ (∀ syl ∈ sampleWord, syl.raZofola = false) := by decide

/-- the two key sequences really are different … -/
example : sampleWord.flatMap (typewriterKeys true) =
    ["ি", "স", "্", "ট", "ম", "ে", "ক", "্র", "া", "ঁ", "ে", "ত", "্য", "ৗ", "আ", "।", "র", "্য", "া",
     "র", "্", "য", "ু", "ক", "ৃ"].map String.toList ∧
    sampleWord.flatMap unicodeKeys =
    ["স", "্", "ট", "ি", "ম", "ক", "্র", "ো", "ঁ", "ত", "্য", "ৌ", "আ", "।", "র", "্য", "া",
     "র", "্", "য", "ু", "ক", "ৃ"].map String.toList := by decide

/-- … and the conclusion on it, computed: the same text in both orders, in the test configuration
    (automatic vowel, automatic chandrabindu, traditional joining all on) … -/
example :
    (typeAll { testCfg with fixedKarOrder := true } (sampleWord.flatMap (typewriterKeys true)) {}).buffer =
      "স্টিমক্রোঁত্যৌআ।র\u200d্যার্য\u200cুক\u200cৃ".toList := by decide +kernel
example :
    (typeAll { testCfg with fixedKarOrder := false } (sampleWord.flatMap unicodeKeys) {}).buffer =
      "স্টিমক্রোঁত্যৌআ।র\u200d্যার্য\u200cুক\u200cৃ".toList := by decide
/-- … and with all three off -/
example :
    (typeAll { fixedKarOrder := true } (sampleWord.flatMap (typewriterKeys false)) {}).buffer =
      "স্টিমক্রোঁত্যৌআ।র\u200d্যার্যুকৃ".toList := by decide +kernel
example :
    (typeAll {} (sampleWord.flatMap unicodeKeys) {}).buffer =
      "স্টিমক্রোঁত্যৌআ।র\u200d্যার্যুকৃ".toList := by decide

/-- `wordR` is that text -/
example : (wordR true [] sampleWord).reverse = "স্টিমক্রোঁত্যৌআ।র\u200d্যার্য\u200cুক\u200cৃ".toList := by decide

/-- `pending_hidden` / `pending_one_backspace` are not vacuous: ক, then ি with the option on -/
example :
    let s := processKeyValue { fixedKarOrder := true } { rbuf := ['ক'] } [cIKar]
    s.buffer = ['ক'] ∧ s.pending = some cIKar ∧ fOngoing s = true ∧
    (fBackspaceState s false).1.buffer = ['ক'] ∧ (fBackspaceState s false).1.pending = none := by decide

/-- a sign waiting on an EMPTY text is a session, and one backspace ends it -/
example :
    let s := processKeyValue { fixedKarOrder := true } {} [cEKar]
    s.buffer = [] ∧ fOngoing s = true ∧ fOngoing (fBackspaceState s false).1 = false := by decide

/-- the hypothesis "the text does not end in a hasanta" of `pending_hidden` is needed: after a hasanta
    the sign is NOT captured (it becomes an independent vowel, "Vowel making with Hasanta") -/
example :
    let s := processKeyValue { fixedKarOrder := true } { rbuf := "ক্".toList.reverse } [cIKar]
    s.buffer = "কই".toList ∧ s.pending = none := by decide

end Riti.C14
