/-
Props/C14Signs — independent vowels typed with their SIGN keys, under the old vowel-sign order.
With automatic vowel forming ON a sign key typed in a vowel-forming position (empty text, after a
vowel or vowel sign, after one of the ASCII punctuation MARKS) gives the independent vowel.  With
the old vowel-sign order ON a left-standing sign (ি ে ৈ) first WAITS; when the next key is another
vowel sign the engine turns the waiting sign into its independent vowel (if the position is
vowel-forming) and goes on.  This file says when that gives the same text as with the option off
(`sign_keys_same_text_partial`, exact: `sign_keys_same_text_iff`), and records the boundary: the
two-part spellings ো ৌ, positions that are not vowel-forming, two left-standing signs in a row.
These key sequences are OUTSIDE the syllable language of Props/C14 (`old_order_equiv_partial`).
`rbuf` is the REVERSED buffer; `FState.buffer` the text as the user sees it.
-/
import RitiModel.Lemmas.C14Signs
namespace Riti.C14Signs
open Riti Riti.Gen

/-! ## 0. Vocabulary -/

/-- the model's own vowel-forming test (`autoVowelPos`: empty, or last character a vowel / vowel
    sign, or last character one of MARKS) applied to a text in reading order -/
def vowelForming (b : Str) : Bool := autoVowelPos b.reverse (b.reverse.headD '\x00')

/-- the independent vowel of a sign (the sign itself for U+09C4, which has none) -/
def indep (k : Char) : Char := (karToVowel k).getD k

/-- the left-standing signs ি ে ৈ -/
def leftSigns : List Char := [cIKar, cEKar, cOIKar]

/-- the signs that are not left-standing and have an independent vowel: া ী ু ূ ৃ and the one-key
    ো ৌ (layouts that have keys for them); U+09C4 has no independent form, ৗ is not a sign -/
def plainSigns : List Char := [cAAKar, cIIKar, cUKar, cUUKar, cRRIKar, cOKar, cOUKar]

/-- the state a text is typed from: that text, nothing waiting -/
def start (b : Str) : FState := { rbuf := b.reverse }

/-- `method.buffer = b; process_key_value(k₁); …` — the final state -/
def run (cfg : Cfg) (b : String) (keys : List String) : FState :=
  typeAll cfg (keys.map String.toList) (start b.toList)

/-- the table of independent vowels: ি→ই ে→এ ৈ→ঐ, া→আ ী→ঈ ু→উ ূ→ঊ ৃ→ঋ ো→ও ৌ→ঔ -/
theorem indep_table :
    leftSigns.map indep = [cI, cE, cOI] ∧
    plainSigns.map indep = [cAA, cII, cU, cUU, cRRI, cO, cOU] := by decide

/-- `vowelForming` spelled out: the text is empty or its last character is a vowel / vowel sign or
    one of MARKS -/
theorem vowelForming_iff (b : Str) :
    vowelForming b = true ↔ b = [] ∨ ∃ c, b.getLast? = some c ∧ (isVowel c = true ∨ isMark c = true) := by
  unfold vowelForming autoVowelPos
  rw [← List.head?_reverse]
  cases h : b.reverse with
  | nil => simp [List.reverse_eq_nil_iff.mp h]
  | cons a r =>
    have : b ≠ [] := by intro hb; simp [hb] at h
    simp [this]

/-- the model's test on a state is `vowelForming` of the visible text -/
theorem vowelForming_buffer (s : FState) :
    vowelForming s.buffer = autoVowelPos s.rbuf (s.rbuf.headD '\x00') := by
  simp [vowelForming, FState.buffer]

/-- `plainSigns` are exactly the signs that are not left-standing and have an independent vowel -/
theorem plainSigns_iff (k : Char) :
    k ∈ plainSigns ↔ isKar k = true ∧ isLeftStandingKar k = false ∧ (karToVowel k).isSome = true := by
  constructor
  · intro h
    simp only [plainSigns, List.mem_cons, List.not_mem_nil, or_false] at h
    rcases h with rfl | rfl | rfl | rfl | rfl | rfl | rfl <;> decide
  · rintro ⟨_, hl, hs⟩
    have nl : ¬ (k = cIKar ∨ k = cEKar ∨ k = cOIKar) := by
      rw [← isLeftStandingKar_iff]; simp [hl]
    unfold karToVowel at hs
    simp only [plainSigns, List.mem_cons, List.not_mem_nil, or_false]
    repeat' split at hs
    all_goals simp_all

/-- the two-part test of the Lemmas file in words: the text ends in ে and the key is া or ৌ -/
theorem twoPart_iff (s : FState) (k : Char) :
    twoPart s.rbuf k = true ↔ s.buffer.getLast? = some cEKar ∧ (k = cAAKar ∨ k = cOUKar) := by
  unfold twoPart FState.buffer
  rw [List.getLast?_reverse]
  cases h : s.rbuf with
  | nil =>
    have : ('\x00' == cEKar) = false := by decide
    simp [this]
  | cons a r => simp

/-! ## 1. Two sign keys: a left-standing sign, then a sign that is not left-standing -/

/-- COUNTER-EXAMPLE to the full-strength statement: after কে (a vowel-forming position — ে is a
    vowel sign) the keys ি া give `কেইআ` with the option off, but with the option on the া is taken
    as the second half of the two-part spelling of ো: the text becomes `কো` and the ি is STILL
    waiting.  The same with ৌ for া.  In all settings of automatic chandrabindu / traditional joining. -/
theorem sign_keys_same_text_full_false :
    ∀ ch ∈ [false, true], ∀ tk ∈ [false, true],
      let cfg : Cfg := { fixedVowel := true, fixedChandra := ch, fixedKar := tk }
      vowelForming "কে".toList = true ∧
      (run { cfg with fixedKarOrder := true } "কে" ["ি", "া"]).buffer = "কো".toList ∧
      (run { cfg with fixedKarOrder := true } "কে" ["ি", "া"]).pending = some cIKar ∧
      (run { cfg with fixedKarOrder := false } "কে" ["ি", "া"]).buffer = "কেইআ".toList ∧
      (run { cfg with fixedKarOrder := true } "কে" ["ি", "ৌ"]).buffer = "কৌ".toList ∧
      (run { cfg with fixedKarOrder := true } "কে" ["ি", "ৌ"]).pending = some cIKar ∧
      (run { cfg with fixedKarOrder := false } "কে" ["ি", "ৌ"]).buffer = "কেইঔ".toList := by
  decide

/-- the full-strength statement (every vowel-forming text, every left-standing sign, every sign of
    `plainSigns`) is FALSE of the code -/
theorem sign_keys_same_text_false :
    ¬ ∀ (cfg : Cfg) (b : Str) (k1 k2 : Char), cfg.fixedVowel = true → vowelForming b = true →
        k1 ∈ leftSigns → k2 ∈ plainSigns →
        (typeAll { cfg with fixedKarOrder := true } [[k1], [k2]] (start b)).buffer =
          (typeAll { cfg with fixedKarOrder := false } [[k1], [k2]] (start b)).buffer := by
  intro h
  have := h { fixedVowel := true } "কে".toList cIKar cAAKar rfl (by decide) (by decide) (by decide)
  revert this
  decide

/-- PARTIAL, as state equations (the strongest form).  Automatic vowel forming on, any setting of
    the other options, any state whose text ends in a vowel-forming position (whatever was waiting
    before), `k1` one of ি ে ৈ, `k2` ANY sign that is not left-standing (া ী ু ূ ৃ ো ৌ and U+09C4):
    with the old order ON the two keys leave the text followed by the independent vowel of `k1` and
    that of `k2` (nothing for U+09C4), and nothing waiting; with it OFF the same text (the waiting
    field is not used).  Excluded: the text ends in ে and `k2` is া or ৌ (`twoPart`), where the code
    differs — see `sign_keys_same_text_full_false`, `sign_keys_same_text_iff`. -/
theorem sign_keys_state_partial (cfg : Cfg) (hv : cfg.fixedVowel = true) (s : FState)
    (hpos : vowelForming s.buffer = true) (k1 k2 : Char) (hk1 : k1 ∈ leftSigns)
    (hk2 : isKar k2 = true) (hl2 : isLeftStandingKar k2 = false) (hx : twoPart s.rbuf k2 = false) :
    typeAll { cfg with fixedKarOrder := true } [[k1], [k2]] s =
      { s with rbuf := indepStr k2 ++ indep k1 :: s.rbuf, pending := none } ∧
    typeAll { cfg with fixedKarOrder := false } [[k1], [k2]] s =
      { s with rbuf := indepStr k2 ++ indep k1 :: s.rbuf } := by
  rcases s with ⟨u, t, p, sg⟩
  rw [vowelForming_buffer] at hpos
  simp only at hpos hx
  have hk1' : isLeftStandingKar k1 = true := by
    rw [isLeftStandingKar_iff]; simpa [leftSigns] using hk1
  obtain ⟨v1, h1, f⟩ := left_indep hk1'
  have hi : indep k1 = v1 := by simp [indep, h1]
  have hs1 : indepStr k1 = [v1] := by simp [indepStr, h1]
  have hpos' : autoVowelPos (v1 :: u) ((v1 :: u).headD '\x00') = true := by
    simp [autoVowelPos, f.vowel]
  rw [hi]
  constructor
  · rw [typeAll_cons, typeAll_cons, typeAll_nil,
      pkv_capture { cfg with fixedKarOrder := true } rfl u t p sg k1 hk1' (forming_not_hasanta u hpos),
      pkv_sign_on_pending { cfg with fixedKarOrder := true } rfl hv u t sg k1 v1 k2 h1 f hk2 hl2 hpos hx]
  · rw [typeAll_cons, typeAll_cons, typeAll_nil,
      pkv_sign_off { cfg with fixedKarOrder := false } rfl hv u t p sg k1 (lskFacts hk1').kar hpos, hs1, List.singleton_append,
      pkv_sign_off { cfg with fixedKarOrder := false } rfl hv (v1 :: u) t p sg k2 hk2 hpos']

/-- PARTIAL — the main statement, on the visible text.  Automatic vowel forming on, every setting of
    the other options (automatic chandrabindu, traditional joining, old reph, …), every state whose
    text `b` ends in a vowel-forming position (empty, after a vowel or vowel sign, after one of
    MARKS), every `k1 ∈ {ি, ে, ৈ}` and every `k2 ∈ {া, ী, ু, ূ, ৃ, ো, ৌ}` (`plainSigns`; ো ৌ as
    one-key signs): typing `k1` then `k2` with the old vowel-sign order ON gives `b ++ [indep k1,
    indep k2]` with nothing left waiting, and with it OFF the same text.  Excluded — exactly
    (`sign_keys_same_text_iff`) — `b` ends in ে and `k2` is া or ৌ: there the code with the option ON
    reads the key as the second half of ো / ৌ (`sign_keys_same_text_full_false`). -/
theorem sign_keys_same_text_partial (cfg : Cfg) (hv : cfg.fixedVowel = true) (s : FState)
    (hpos : vowelForming s.buffer = true) (k1 k2 : Char) (hk1 : k1 ∈ leftSigns) (hk2 : k2 ∈ plainSigns)
    (hx : ¬ (s.buffer.getLast? = some cEKar ∧ (k2 = cAAKar ∨ k2 = cOUKar))) :
    (typeAll { cfg with fixedKarOrder := true } [[k1], [k2]] s).buffer = s.buffer ++ [indep k1, indep k2] ∧
    (typeAll { cfg with fixedKarOrder := true } [[k1], [k2]] s).pending = none ∧
    (typeAll { cfg with fixedKarOrder := false } [[k1], [k2]] s).buffer = s.buffer ++ [indep k1, indep k2] := by
  obtain ⟨hk, hl, hs⟩ := (plainSigns_iff k2).mp hk2
  have hx' : twoPart s.rbuf k2 = false := by
    cases h : twoPart s.rbuf k2 with
    | false => rfl
    | true => exact absurd ((twoPart_iff s k2).mp h) hx
  obtain ⟨e1, e2⟩ := sign_keys_state_partial cfg hv s hpos k1 k2 hk1 hk hl hx'
  obtain ⟨v2, h2⟩ := Option.isSome_iff_exists.mp hs
  have hs2 : indepStr k2 = [v2] := by simp [indepStr, h2]
  have hi2 : indep k2 = v2 := by simp [indep, h2]
  rw [e1, e2, hs2, hi2]
  simp [FState.buffer]

/-- the statement of the task for a plain text `b` (typed from `b`, nothing waiting) and the five
    signs া ী ু ূ ৃ, for which the only excluded case is `b` ending in ে with `k2 = া` -/
theorem sign_keys_same_text_from_partial (cfg : Cfg) (hv : cfg.fixedVowel = true) (b : Str)
    (hpos : vowelForming b = true) (k1 k2 : Char) (hk1 : k1 ∈ leftSigns)
    (hk2 : k2 ∈ [cAAKar, cIIKar, cUKar, cUUKar, cRRIKar])
    (hx : ¬ (b.getLast? = some cEKar ∧ k2 = cAAKar)) :
    (typeAll { cfg with fixedKarOrder := true } [[k1], [k2]] (start b)).buffer = b ++ [indep k1, indep k2] ∧
    (typeAll { cfg with fixedKarOrder := true } [[k1], [k2]] (start b)).pending = none ∧
    (typeAll { cfg with fixedKarOrder := false } [[k1], [k2]] (start b)).buffer = b ++ [indep k1, indep k2] := by
  have hb : (start b).buffer = b := by simp [start, FState.buffer]
  have hk2' : k2 ∈ plainSigns := by
    simp only [List.mem_cons, List.not_mem_nil, or_false] at hk2
    rcases hk2 with rfl | rfl | rfl | rfl | rfl <;> decide
  have hne : k2 ≠ cOUKar := by
    simp only [List.mem_cons, List.not_mem_nil, or_false] at hk2
    rcases hk2 with rfl | rfl | rfl | rfl | rfl <;> decide
  have := sign_keys_same_text_partial cfg hv (start b) (by rw [hb]; exact hpos) k1 k2 hk1 hk2'
    (by rw [hb]; rintro ⟨h1, h2 | h2⟩; exact hx ⟨h1, h2⟩; exact hne h2)
  rwa [hb] at this

/-- EXACTNESS of the exclusion: under the hypotheses of `sign_keys_state_partial` the two settings
    compose the same text IF AND ONLY IF the keys do not complete a two-part spelling (text ends in ে,
    second key া or ৌ).  In the excluded case the option-ON text is the old text with its ে replaced
    by ো / ৌ and the first sign is still waiting. -/
theorem sign_keys_same_text_iff (cfg : Cfg) (hv : cfg.fixedVowel = true) (s : FState)
    (hpos : vowelForming s.buffer = true) (k1 k2 : Char) (hk1 : k1 ∈ leftSigns)
    (hk2 : isKar k2 = true) (hl2 : isLeftStandingKar k2 = false) :
    ((typeAll { cfg with fixedKarOrder := true } [[k1], [k2]] s).rbuf =
      (typeAll { cfg with fixedKarOrder := false } [[k1], [k2]] s).rbuf ↔ twoPart s.rbuf k2 = false) ∧
    (twoPart s.rbuf k2 = true →
      typeAll { cfg with fixedKarOrder := true } [[k1], [k2]] s =
        { s with rbuf := (if k2 = cAAKar then cOKar else cOUKar) :: s.rbuf.drop 1, pending := some k1 }) := by
  have hk1' : isLeftStandingKar k1 = true := by
    rw [isLeftStandingKar_iff]; simpa [leftSigns] using hk1
  have on_two : twoPart s.rbuf k2 = true →
      typeAll { cfg with fixedKarOrder := true } [[k1], [k2]] s =
        { s with rbuf := (if k2 = cAAKar then cOKar else cOUKar) :: s.rbuf.drop 1, pending := some k1 } := by
    intro h
    obtain ⟨hlast, hk⟩ := (twoPart_iff s k2).mp h
    rcases s with ⟨u, t, p, sg⟩
    simp only [FState.buffer, List.getLast?_reverse] at hlast
    cases u with
    | nil => simp at hlast
    | cons a r =>
      simp only [List.head?_cons, Option.some.injEq] at hlast
      subst hlast
      rw [typeAll_cons, typeAll_cons, typeAll_nil,
        pkv_capture { cfg with fixedKarOrder := true } rfl (cEKar :: r) t p sg k1 hk1'
          (by show (cEKar == cHasanta) = false; decide),
        pkv_two_part { cfg with fixedKarOrder := true } rfl r t (some k1) sg k2 hk]
      rfl
  refine ⟨?_, on_two⟩
  cases hx : twoPart s.rbuf k2 with
  | false =>
    obtain ⟨e1, e2⟩ := sign_keys_state_partial cfg hv s hpos k1 k2 hk1 hk2 hl2 hx
    rw [e1, e2]; simp
  | true =>
    have e1 := on_two hx
    obtain ⟨v1, h1, f⟩ := left_indep hk1'
    have hs1 : indepStr k1 = [v1] := by simp [indepStr, h1]
    rw [vowelForming_buffer] at hpos
    rcases s with ⟨u, t, p, sg⟩
    have e2 : typeAll { cfg with fixedKarOrder := false } [[k1], [k2]] ⟨u, t, p, sg⟩ =
        ⟨indepStr k2 ++ v1 :: u, t, p, sg⟩ := by
      rw [typeAll_cons, typeAll_cons, typeAll_nil,
        pkv_sign_off { cfg with fixedKarOrder := false } rfl hv u t p sg k1 (lskFacts hk1').kar hpos, hs1, List.singleton_append,
        pkv_sign_off { cfg with fixedKarOrder := false } rfl hv (v1 :: u) t p sg k2 hk2
          (by simp [autoVowelPos, f.vowel])]
    rw [e1, e2]
    simp only [Bool.true_eq_false, iff_false]
    intro h
    have := congrArg List.length h
    simp only [List.length_cons, List.length_append, List.length_drop] at this
    have hne : 0 < u.length := by
      cases u with
      | nil =>
        have : twoPart [] k2 = false := by
          have : ('\x00' == cEKar) = false := by decide
          simp [twoPart, this]
        rw [this] at hx; cases hx
      | cons a r => simp
    omega

/-- a sign WITHOUT an independent form (U+09C4) as second key is dropped in both settings: only the
    independent vowel of the first sign is added -/
theorem sign_without_indep_dropped (cfg : Cfg) (hv : cfg.fixedVowel = true) (s : FState)
    (hpos : vowelForming s.buffer = true) (k1 : Char) (hk1 : k1 ∈ leftSigns) :
    typeAll { cfg with fixedKarOrder := true } [[k1], [Char.ofNat 0x09C4]] s =
      { s with rbuf := indep k1 :: s.rbuf, pending := none } ∧
    typeAll { cfg with fixedKarOrder := false } [[k1], [Char.ofNat 0x09C4]] s =
      { s with rbuf := indep k1 :: s.rbuf } := by
  have hx : twoPart s.rbuf (Char.ofNat 0x09C4) = false := by
    have : ((Char.ofNat 0x09C4 == cAAKar) || (Char.ofNat 0x09C4 == cOUKar)) = false := by decide
    simp [twoPart, this]
  exact sign_keys_state_partial cfg hv s hpos k1 (Char.ofNat 0x09C4) hk1 (by decide) (by decide) hx

/-- the length mark ৗ (second half of the two-part ৌ) is NOT a sign for the engine: after a waiting
    sign it is appended like a consonant and the sign is put after it.  On an empty text ি ৗ gives
    `ৗি` with the option on and `ইৗ` with it off — excluded from `plainSigns` for this reason. -/
theorem length_mark_is_no_sign :
    isKar cLengthMark = false ∧
    (run { fixedVowel := true, fixedKarOrder := true } "" ["ি", "ৗ"]).buffer = "ৗি".toList ∧
    (run { fixedVowel := true, fixedKarOrder := false } "" ["ি", "ৗ"]).buffer = "ইৗ".toList := by decide

/-! ## 2. One sign key -/

/-- COUNTER-EXAMPLE to the full-strength single-key statement: after কে the key া gives `কেআ` with
    the option off and `কো` with it on (two-part spelling) -/
theorem single_sign_key_full_false :
    vowelForming "কে".toList = true ∧
    (run { fixedVowel := true, fixedKarOrder := true } "কে" ["া"]).buffer = "কো".toList ∧
    (run { fixedVowel := true, fixedKarOrder := false } "কে" ["া"]).buffer = "কেআ".toList := by decide

/-- PARTIAL — one sign key that is NOT left-standing, in a vowel-forming position, automatic vowel
    forming on, either setting of the old vowel-sign order (with it on: nothing waiting): the text
    gets the independent vowel of the sign (nothing for U+09C4), everything else is unchanged.
    Excluded when the option is on: text ends in ে and the key is া or ৌ (`single_sign_key_full_false`). -/
theorem single_sign_key_partial (cfg : Cfg) (hv : cfg.fixedVowel = true) (s : FState)
    (hpos : vowelForming s.buffer = true) (k : Char) (hk : isKar k = true)
    (hl : isLeftStandingKar k = false)
    (hon : cfg.fixedKarOrder = true → s.pending = none ∧ twoPart s.rbuf k = false) :
    processKeyValue cfg s [k] = { s with rbuf := indepStr k ++ s.rbuf } := by
  rcases s with ⟨u, t, p, sg⟩
  rw [vowelForming_buffer] at hpos
  cases hko : cfg.fixedKarOrder with
  | false => exact pkv_sign_off cfg hko hv u t p sg k hk hpos
  | true =>
    obtain ⟨hp, hx⟩ := hon hko
    simp only at hp hx
    subst hp
    exact pkv_sign_on cfg hko hv u t sg k hk hl hpos hx

/-- the same on the visible text, for the signs with an independent vowel: `b ++ [indep k]` in both
    settings -/
theorem single_sign_key_text_partial (cfg : Cfg) (hv : cfg.fixedVowel = true) (s : FState)
    (hpos : vowelForming s.buffer = true) (k : Char) (hk : k ∈ plainSigns)
    (hon : cfg.fixedKarOrder = true → s.pending = none ∧
      ¬ (s.buffer.getLast? = some cEKar ∧ (k = cAAKar ∨ k = cOUKar))) :
    (processKeyValue cfg s [k]).buffer = s.buffer ++ [indep k] ∧
    (processKeyValue cfg s [k]).pending = s.pending := by
  obtain ⟨hk', hl, hs⟩ := (plainSigns_iff k).mp hk
  obtain ⟨v, h⟩ := Option.isSome_iff_exists.mp hs
  rw [single_sign_key_partial cfg hv s hpos k hk' hl (fun h1 => ⟨(hon h1).1, by
    cases h2 : twoPart s.rbuf k with
    | false => rfl
    | true => exact absurd ((twoPart_iff s k).mp h2) (hon h1).2⟩)]
  simp [FState.buffer, indepStr, indep, h]

/-- one LEFT-standing sign key in a vowel-forming position: with the option off it gives its
    independent vowel at once; with the option on the text is unchanged and the sign waits (it turns
    into the vowel only when the next key is a sign, `sign_keys_same_text_partial`; a consonant takes
    it as its sign, C14 `pending_released`) -/
theorem single_left_sign_key (cfg : Cfg) (hv : cfg.fixedVowel = true) (s : FState)
    (hpos : vowelForming s.buffer = true) (k : Char) (hk : k ∈ leftSigns) :
    processKeyValue { cfg with fixedKarOrder := false } s [k] = { s with rbuf := indep k :: s.rbuf } ∧
    processKeyValue { cfg with fixedKarOrder := true } s [k] = { s with pending := some k } := by
  rcases s with ⟨u, t, p, sg⟩
  rw [vowelForming_buffer] at hpos
  have hk' : isLeftStandingKar k = true := by
    rw [isLeftStandingKar_iff]; simpa [leftSigns] using hk
  obtain ⟨v, h1, _⟩ := left_indep hk'
  constructor
  · rw [pkv_sign_off { cfg with fixedKarOrder := false } rfl hv u t p sg k (lskFacts hk').kar hpos]
    simp [indepStr, indep, h1]
  · exact pkv_capture { cfg with fixedKarOrder := true } rfl u t p sg k hk' (forming_not_hasanta u hpos)

/-! ## 3. The boundary -/

/-- the 4 settings of automatic chandrabindu / traditional joining, automatic vowel forming on -/
def helperCfgs : List Cfg :=
  [false, true].flatMap fun b => [false, true].map fun c =>
    { fixedVowel := true, fixedChandra := b, fixedKar := c }

/-- GENERAL: option on, a sign waiting, the position NOT vowel-forming (or automatic vowel forming
    off) and not after a hasanta, no two-part spelling: a second sign key that is not left-standing
    makes the waiting sign DISAPPEAR — the result is what the second key alone gives (`karTail`) -/
theorem waiting_sign_lost_before_sign (cfg : Cfg) (s : FState) (k1 k2 : Char) (hk1 : k1 ∈ leftSigns)
    (hk2 : isKar k2 = true) (hl2 : isLeftStandingKar k2 = false)
    (hnpos : (cfg.fixedVowel && vowelForming s.buffer) = false)
    (hh : s.buffer.getLast? ≠ some cHasanta) (hx : twoPart s.rbuf k2 = false) :
    typeAll { cfg with fixedKarOrder := true } [[k1], [k2]] s =
      { s with rbuf := karTail cfg s.rbuf (s.rbuf.headD '\x00') k2, pending := none } := by
  rcases s with ⟨u, t, p, sg⟩
  rw [vowelForming_buffer] at hnpos
  have hk1' : isLeftStandingKar k1 = true := by
    rw [isLeftStandingKar_iff]; simpa [leftSigns] using hk1
  have h1 : (u.headD '\x00' == cHasanta) = false := by
    simp only [FState.buffer, List.getLast?_reverse] at hh
    cases u with
    | nil => decide
    | cons a r => simpa using hh
  rw [typeAll_cons, typeAll_cons, typeAll_nil,
    pkv_capture { cfg with fixedKarOrder := true } rfl u t p sg k1 hk1' h1,
    pkv_sign_on_pending_lost { cfg with fixedKarOrder := true } rfl u t sg k1 k2 hk2 hl2 hnpos h1 hx]
  rfl

/-- after the danda (U+0964, NOT one of the ASCII MARKS, so not vowel-forming): ি then া.  Option off:
    the ি is attached raw and the া, now after a vowel sign, becomes আ — `।িআ`.  Option on: the waiting
    ি is LOST and the া attached raw — `।া`.  The two settings differ; in all 4 helper settings. -/
theorem after_danda :
    vowelForming "।".toList = false ∧
    ∀ cfg ∈ helperCfgs,
      (run { cfg with fixedKarOrder := false } "।" ["ি", "া"]).buffer = "।িআ".toList ∧
      (run { cfg with fixedKarOrder := true } "।" ["ি", "া"]).buffer = "।া".toList ∧
      (run { cfg with fixedKarOrder := true } "।" ["ি", "া"]).pending = none := by decide

/-- after a Bengali digit: the same behaviour as after the danda -/
theorem after_digit :
    vowelForming "৫".toList = false ∧
    ∀ cfg ∈ helperCfgs,
      (run { cfg with fixedKarOrder := false } "৫" ["ি", "া"]).buffer = "৫িআ".toList ∧
      (run { cfg with fixedKarOrder := true } "৫" ["ি", "া"]).buffer = "৫া".toList ∧
      (run { cfg with fixedKarOrder := true } "৫" ["ি", "া"]).pending = none := by decide

/-- after a bare consonant: option off, the ি attaches to the consonant and the া after it becomes
    আ — `কিআ`; option on, the waiting ি is lost and the া attaches — `কা`.  With a ligature-making
    sign as second key (ু) traditional joining puts its ZWNJ: `কিউ` against `কু` (`ক ZWNJ ু` under traditional joining). -/
theorem after_consonant :
    vowelForming "ক".toList = false ∧
    ∀ cfg ∈ helperCfgs,
      (run { cfg with fixedKarOrder := false } "ক" ["ি", "া"]).buffer = "কিআ".toList ∧
      (run { cfg with fixedKarOrder := true } "ক" ["ি", "া"]).buffer = "কা".toList ∧
      (run { cfg with fixedKarOrder := true } "ক" ["ি", "া"]).pending = none ∧
      (run { cfg with fixedKarOrder := false } "ক" ["ি", "ু"]).buffer = "কিউ".toList ∧
      (run { cfg with fixedKarOrder := true } "ক" ["ি", "ু"]).buffer =
        (if cfg.fixedKar then "ক\u200cু" else "কু").toList := by decide

/-- after a hasanta (not vowel-forming, "Vowel making with Hasanta"): the left-standing sign does
    not wait, it replaces the hasanta by its independent vowel in both settings, and the next sign
    then stands after a vowel — `ক্` ি া gives `কইআ` either way -/
theorem after_hasanta :
    vowelForming "ক্".toList = false ∧
    ∀ cfg ∈ helperCfgs,
      (run { cfg with fixedKarOrder := false } "ক্" ["ি", "া"]).buffer = "কইআ".toList ∧
      (run { cfg with fixedKarOrder := true } "ক্" ["ি", "া"]).buffer = "কইআ".toList ∧
      (run { cfg with fixedKarOrder := true } "ক্" ["ি", "া"]).pending = none := by decide

/-- GENERAL: option on, the text ends in ে, a sign waiting: া / ৌ completes the two-part spelling
    (ে becomes ো / ৌ) and the waiting sign is neither used nor dropped — it goes on waiting -/
theorem two_part_keeps_waiting (cfg : Cfg) (hon : cfg.fixedKarOrder = true) (r t : Str)
    (p : Option Char) (sg : List Rank) (k : Char) (hk : k = cAAKar ∨ k = cOUKar) :
    processKeyValue cfg ⟨cEKar :: r, t, p, sg⟩ [k] =
      ⟨(if k = cAAKar then cOKar else cOUKar) :: r, t, p, sg⟩ :=
  pkv_two_part cfg hon r t p sg k hk

/-- witness: from কে, the keys ি া with the option on give `কো` — the া joins the ে — and the ি is
    still waiting: the next consonant takes it (`কোমি`), one backspace discards it.  With the
    option off the same keys give `কেইআ`. -/
theorem two_part_o_witness :
    ∀ cfg ∈ helperCfgs,
      (run { cfg with fixedKarOrder := true } "কে" ["ি", "া"]).buffer = "কো".toList ∧
      (run { cfg with fixedKarOrder := true } "কে" ["ি", "া"]).pending = some cIKar ∧
      (run { cfg with fixedKarOrder := true } "কে" ["ি", "া", "ম"]).buffer = "কোমি".toList ∧
      (fBackspaceState (run { cfg with fixedKarOrder := true } "কে" ["ি", "া"]) false).1.buffer = "কো".toList ∧
      (fBackspaceState (run { cfg with fixedKarOrder := true } "কে" ["ি", "া"]) false).1.pending = none ∧
      (run { cfg with fixedKarOrder := false } "কে" ["ি", "া"]).buffer = "কেইআ".toList := by decide

/-- GENERAL: option on, two left-standing signs in a row: the second replaces the first, which is
    LOST (whatever the position) -/
theorem second_left_sign_replaces_first (cfg : Cfg) (s : FState) (k1 k2 : Char) (hk1 : k1 ∈ leftSigns)
    (hk2 : k2 ∈ leftSigns) (hh : s.buffer.getLast? ≠ some cHasanta) :
    typeAll { cfg with fixedKarOrder := true } [[k1], [k2]] s = { s with pending := some k2 } := by
  rcases s with ⟨u, t, p, sg⟩
  have hk1' : isLeftStandingKar k1 = true := by
    rw [isLeftStandingKar_iff]; simpa [leftSigns] using hk1
  have hk2' : isLeftStandingKar k2 = true := by
    rw [isLeftStandingKar_iff]; simpa [leftSigns] using hk2
  have h1 : (u.headD '\x00' == cHasanta) = false := by
    simp only [FState.buffer, List.getLast?_reverse] at hh
    cases u with
    | nil => decide
    | cons a r => simpa using hh
  rw [typeAll_cons, typeAll_cons, typeAll_nil,
    pkv_capture { cfg with fixedKarOrder := true } rfl u t p sg k1 hk1' h1,
    pkv_capture { cfg with fixedKarOrder := true } rfl u t (some k1) sg k2 hk2' h1]

/-- witness (an observation outside C14's syllable language): two left-standing signs then a
    consonant.  Option on, `ি ি ক` gives `কি` — the first sign is lost, also with two different signs
    (`ে ি ক` gives `কি`); option off, the Unicode-order keys `ি ক ি` give `ইকি`.  All 4 helper settings. -/
theorem two_left_signs_lose_first :
    ∀ cfg ∈ helperCfgs,
      (run { cfg with fixedKarOrder := true } "" ["ি", "ি", "ক"]).buffer = "কি".toList ∧
      (run { cfg with fixedKarOrder := true } "" ["ি", "ি", "ক"]).pending = none ∧
      (run { cfg with fixedKarOrder := true } "" ["ে", "ি", "ক"]).buffer = "কি".toList ∧
      (run { cfg with fixedKarOrder := false } "" ["ি", "ক", "ি"]).buffer = "ইকি".toList ∧
      (run { cfg with fixedKarOrder := false } "" ["ি", "ি", "ক"]).buffer = "ইইক".toList := by decide

/-! ## 4. Non-vacuity -/

/-- `get_fixed_method_defaults()`: all helpers on -/
def testCfg : Cfg :=
  { fixedSuggestion := true, fixedVowel := true, fixedChandra := true, fixedKar := true,
    fixedNumpad := true, fixedOldReph := true }

/-- the four kinds of vowel-forming position, and three that are not -/
example : vowelForming [] = true ∧ vowelForming "(".toList = true ∧ vowelForming "আ".toList = true ∧
    vowelForming "কা".toList = true ∧ vowelForming "ক".toList = false ∧
    vowelForming "।".toList = false ∧ vowelForming "ক্".toList = false := by decide

/-- the hypotheses of `sign_keys_same_text_partial` hold for these texts with ে then ু … -/
example : ∀ b ∈ ["", "(", "আ", "কা"],
    vowelForming (start b.toList).buffer = true ∧ cEKar ∈ leftSigns ∧ cUKar ∈ plainSigns ∧
    ¬ ((start b.toList).buffer.getLast? = some cEKar ∧ (cUKar = cAAKar ∨ cUKar = cOUKar)) := by decide

/-- … and the conclusion evaluated: empty text -/
example :
    (run { testCfg with fixedKarOrder := true } "" ["ে", "ু"]).buffer = "এউ".toList ∧
    (run { testCfg with fixedKarOrder := true } "" ["ে", "ু"]).pending = none ∧
    (run { testCfg with fixedKarOrder := false } "" ["ে", "ু"]).buffer = "এউ".toList := by decide
/-- after one of MARKS -/
example :
    (run { testCfg with fixedKarOrder := true } "(" ["ি", "া"]).buffer = "(ইআ".toList ∧
    (run { testCfg with fixedKarOrder := true } "(" ["ি", "া"]).pending = none ∧
    (run { testCfg with fixedKarOrder := false } "(" ["ি", "া"]).buffer = "(ইআ".toList := by decide
/-- after an independent vowel -/
example :
    (run { testCfg with fixedKarOrder := true } "আ" ["ৈ", "ী"]).buffer = "আঐঈ".toList ∧
    (run { testCfg with fixedKarOrder := true } "আ" ["ৈ", "ী"]).pending = none ∧
    (run { testCfg with fixedKarOrder := false } "আ" ["ৈ", "ী"]).buffer = "আঐঈ".toList := by decide
/-- after a consonant with a vowel sign -/
example :
    (run { testCfg with fixedKarOrder := true } "কা" ["ে", "ৃ"]).buffer = "কাএঋ".toList ∧
    (run { testCfg with fixedKarOrder := true } "কা" ["ে", "ৃ"]).pending = none ∧
    (run { testCfg with fixedKarOrder := false } "কা" ["ে", "ৃ"]).buffer = "কাএঋ".toList := by decide
/-- the Rust test's "Automatic Vowel Forming" line: ে ো on an empty text gives এও -/
example : (run { testCfg with fixedKarOrder := true } "" ["ে", "ো"]).buffer = "এও".toList := by decide

/-- all 3 × 7 pairs on the four texts, all 4 helper settings, computed — agreeing with the theorem
    (no text here ends in ে) -/
example : ∀ cfg ∈ helperCfgs, ∀ b ∈ ["", "(", "আ", "কা"], ∀ k1 ∈ leftSigns, ∀ k2 ∈ plainSigns,
    (typeAll { cfg with fixedKarOrder := true } [[k1], [k2]] (start b.toList)).buffer =
      b.toList ++ [indep k1, indep k2] ∧
    (typeAll { cfg with fixedKarOrder := true } [[k1], [k2]] (start b.toList)).pending = none ∧
    (typeAll { cfg with fixedKarOrder := false } [[k1], [k2]] (start b.toList)).buffer =
      b.toList ++ [indep k1, indep k2] := by decide +kernel

/-- the single-key fact evaluated: ূ after `!` gives `!ঊ` in both settings -/
example :
    (run { testCfg with fixedKarOrder := true } "!" ["ূ"]).buffer = "!ঊ".toList ∧
    (run { testCfg with fixedKarOrder := false } "!" ["ূ"]).buffer = "!ঊ".toList := by decide

/-- `waiting_sign_lost_before_sign` is not vacuous: its hypotheses hold after ক (and with automatic
    vowel forming off, on an empty text) -/
example :
    ((testCfg.fixedVowel && vowelForming (start "ক".toList).buffer) = false ∧
      (start "ক".toList).buffer.getLast? ≠ some cHasanta ∧ twoPart (start "ক".toList).rbuf cAAKar = false) ∧
    (run { fixedVowel := false, fixedKarOrder := true } "" ["ি", "া"]).buffer = "া".toList ∧
    (run { fixedVowel := false, fixedKarOrder := false } "" ["ি", "া"]).buffer = "িা".toList := by decide

end Riti.C14Signs
