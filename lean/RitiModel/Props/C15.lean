/-
Props/C15 — fixed method, suggestions on: the first candidate is the composed text (quotes
curled), every other Bengali candidate is a dictionary completion of the typed word, Bengali
candidates come in non-decreasing (stored) distance, there are at most nine, and the raw keys
come last when the English option is on.

The real code orders with `sort_unstable` and truncates, so which of several equal-rank items
come first / survive is implementation-defined: every theorem quantifies over ALL orderings
`w.sorter` with `IsSortPerm` (a permutation of its input with no descent).  `keySort`
(Lemmas/FixedSuggest) is one such ordering, so the quantification is not vacuous.
-/
import RitiModel.Model.Context
import RitiModel.Lemmas.Rank
import RitiModel.Lemmas.Phonetic
import RitiModel.Lemmas.FixedSuggest
namespace Riti.C15
open Riti Riti.Gen

/-- the list `create_dictionary_suggestion` stores (and shows, see `shown_is_returned`) -/
abbrev shown (w : World) (cfg : Cfg) (s : FState) : List Rank := (fDictSuggestion w cfg s).1.suggestions

/-- the dictionary word as it is displayed: ZWNJ before `ু ূ ৃ` under traditional joining -/
def shownWord (cfg : Cfg) (d : Str) : Str := if cfg.fixedKar then tradKarWord d else d

/-- the suggestion handed to the caller lists exactly the texts of `shown`, in order, with the
    composed text as auxiliary text -/
theorem shown_is_returned (w : World) (cfg : Cfg) (s : FState) :
    (fDictSuggestion w cfg s).2 = .full s.buffer ((shown w cfg s).map Rank.text) 0 cfg.ansi := rfl

/-! ### shape of the candidates and of every admissible ordering of them -/

/-- the candidates: the composed word as `First`, wrapped dictionary hits, emoji items -/
theorem cands_shape (env : Env) (cfg : Cfg) (s : FState) :
    ∃ t : List Rank, t.Sublist (fixedHits env cfg (fixedParts cfg s.buffer).word) ∧
      (fixedCands env cfg s).cands =
        wrapOne (fixedParts cfg s.buffer) (Rank.first (fixedParts cfg s.buffer).word) ::
          (t.map (wrapOne (fixedParts cfg s.buffer)) ++ fixedEmoji env cfg (fixedParts cfg s.buffer) s.typed) := by
  obtain ⟨t, hs, he⟩ := fixedBase_shape env cfg (fixedParts cfg s.buffer)
  exact ⟨t, hs, by rw [fixedCands_cands, he]; rfl⟩

/-- every admissible ordering starts with the `First` item -/
theorem sorted_shape (w : World) (hs : IsSortPerm w.sorter) (cfg : Cfg) (s : FState) :
    ∃ tl, w.sorter (fixedCands w.env cfg s).cands =
      wrapOne (fixedParts cfg s.buffer) (Rank.first (fixedParts cfg s.buffer).word) :: tl := by
  obtain ⟨t, hsub, he⟩ := cands_shape w.env cfg s
  have h := hs (fixedCands w.env cfg s).cands
  rw [he] at h
  rw [he]
  refine sorted_head_first h.1 h.2 (by rw [wrapOne_variant]; rfl) ?_
  intro r hr
  rcases List.mem_append.mp hr with hr | hr
  · obtain ⟨r0, hr0, rfl⟩ := List.mem_map.mp hr
    rw [wrapOne_variant, fixedHits_variant (hsub.subset hr0)]; simp
  · rw [fixedEmoji_variant hr]; simp

/-- an `Other` item of the shown list is a (wrapped) dictionary hit -/
theorem other_from_hit (w : World) (hs : IsSortPerm w.sorter) (cfg : Cfg) (s : FState) (r : Rank)
    (hr : r ∈ shown w cfg s) (hv : r.variant = .other) :
    ∃ r0 ∈ fixedHits w.env cfg (fixedParts cfg s.buffer).word, r = wrapOne (fixedParts cfg s.buffer) r0 := by
  rcases mem_fDict_list hs hr with h | h
  · obtain ⟨t, hsub, he⟩ := cands_shape w.env cfg s
    rw [he] at h
    rcases List.mem_cons.mp h with rfl | h
    · rw [wrapOne_variant] at hv; cases hv
    · rcases List.mem_append.mp h with h | h
      · obtain ⟨r0, hr0, rfl⟩ := List.mem_map.mp h
        exact ⟨r0, hsub.subset hr0, rfl⟩
      · rw [fixedEmoji_variant h] at hv; cases hv
  · rcases fixedCands_keep_english w.env cfg s with ⟨_, he, _⟩ | ⟨_, he, _⟩
    · rw [he] at h; cases h; cases hv
    · rw [he] at h; cases h

/-! ### the five clauses -/

/-- the first candidate is always the composed text itself: leading and trailing punctuation (with
    smart-quote curling when enabled) around the word part, for every admissible ordering -/
theorem c15_first_is_typed (w : World) (hs : IsSortPerm w.sorter) (cfg : Cfg) (s : FState) :
    (shown w cfg s).head?.map Rank.text =
      some (wrapText (fixedParts cfg s.buffer).pre (fixedParts cfg s.buffer).trail (fixedParts cfg s.buffer).word) := by
  obtain ⟨tl, htl⟩ := sorted_shape w hs cfg s
  show ((fDictSuggestion w cfg s).1.suggestions).head?.map Rank.text = _
  rw [fDictSuggestion_list, htl]
  rcases fixedCands_keep_english w.env cfg s with ⟨hk, _⟩ | ⟨hk, _⟩ <;> simp [hk] <;> rfl

/-- that text spelled out: the composed text itself, except that with smart quotes on and a non-empty
    word part the straight quotes before the word are opened and those after it closed -/
theorem composed_text_curled (cfg : Cfg) (b : Str) :
    wrapText (fixedParts cfg b).pre (fixedParts cfg b).trail (fixedParts cfg b).word =
      if cfg.smartQuote && !(split b true).word.isEmpty
      then (split b true).pre.map openQuote ++ (split b true).word ++ (split b true).trail.map closeQuote
      else b := by
  have hb := split_parts_append b true
  rw [List.append_assoc] at hb
  unfold fixedParts smartQuoter wrapText
  cases cfg.smartQuote <;> cases h : (split b true).word.isEmpty <;> simp [h, hb]

/-- in particular, with smart quotes off the first candidate is exactly the composed text -/
theorem c15_first_is_buffer (w : World) (hs : IsSortPerm w.sorter) (cfg : Cfg) (s : FState)
    (hq : cfg.smartQuote = false) : (shown w cfg s).head?.map Rank.text = some s.buffer := by
  rw [c15_first_is_typed w hs cfg s, composed_text_curled]; simp [hq]

/-- every other Bengali (`Other`) candidate is a dictionary completion: a word `d` of the table chosen
    by the first character of the word part, which begins with the cleaned word part (punctuation
    and ZWNJ removed), extends it by at most `needCharsUpto` characters, all of the regex class; it
    is displayed wrapped in the punctuation, with ZWNJs inserted under traditional joining, and its
    stored rank is ten times its edit distance to the word part, modulo 256 -/
theorem c15_completions (w : World) (hs : IsSortPerm w.sorter) (cfg : Cfg) (s : FState) :
    ∀ r ∈ shown w cfg s, r.variant = .other →
      ∃ tbl d, fixedTableName (fixedParts cfg s.buffer).word = some tbl ∧ d ∈ w.env.fixedTable tbl ∧
        cleanString (fixedParts cfg s.buffer).word <+: d ∧
        (d.drop (cleanString (fixedParts cfg s.buffer).word).length).length ≤
          needCharsUpto (cleanString (fixedParts cfg s.buffer).word).length ∧
        (∀ c ∈ d.drop (cleanString (fixedParts cfg s.buffer).word).length, inRegexClass c = true) ∧
        r.text = wrapText (fixedParts cfg s.buffer).pre (fixedParts cfg s.buffer).trail (shownWord cfg d) ∧
        r.num = (editDistance (fixedParts cfg s.buffer).word (shownWord cfg d) * 10) % 256 := by
  intro r hr hv
  obtain ⟨r0, hr0, rfl⟩ := other_from_hit w hs cfg s r hr hv
  obtain ⟨tbl, d, h1, h2, h3, h4, h5, rfl⟩ := mem_fixedHits hr0
  exact ⟨tbl, d, h1, h2, h3, h4, h5, by rw [wrapOne_text]; rfl, by rw [wrapOne_num]; rfl⟩

/-- the word inside a wrapped candidate -/
def unwrapText (parts : Parts) (x : Str) : Str :=
  (x.drop parts.pre.length).take (x.length - parts.pre.length - parts.trail.length)

/-- taking the wrapping off a wrapped word gives the word back -/
theorem unwrapText_wrapText (parts : Parts) (t : Str) :
    unwrapText parts (wrapText parts.pre parts.trail t) = t := by
  simp [unwrapText, wrapText, List.append_assoc]

/-- when nothing wraps the word the candidate is the displayed dictionary word itself -/
theorem wrap_nothing (t : Str) : wrapText [] [] t = t := wrapText_nil t

/-- the ZWNJs added for traditional joining are the only difference between the displayed word
    and the dictionary word -/
theorem tradKar_strip (d : Str) :
    (tradKarWord d).filter (fun c => c != cZWNJ) = d.filter (fun c => c != cZWNJ) := Riti.tradKar_strip d

/-- the property as worded: ignoring punctuation and non-joiners (`clean_string` removes both), the
    displayed completion begins with the typed word -/
theorem completion_begins_with_typed (cfg : Cfg) (word d : Str) (h : cleanString word <+: d) :
    cleanString word <+: cleanString (shownWord cfg d) := by
  have h' : cleanString (cleanString word) <+: cleanString d := by
    unfold cleanString at h ⊢; exact h.filter _
  rw [cleanString_idem] at h'
  unfold shownWord
  split
  · rw [cleanString_tradKar]; exact h'
  · exact h'

/-- the clause as the property words it: every `Other` candidate, with the wrapping punctuation taken
    off, is a word of the dictionary table up to the non-joiners added for traditional joining, and
    begins with the typed word once punctuation and non-joiners are ignored on both sides -/
theorem c15_completions_worded (w : World) (hs : IsSortPerm w.sorter) (cfg : Cfg) (s : FState) :
    ∀ r ∈ shown w cfg s, r.variant = .other →
      ∃ tbl d, fixedTableName (fixedParts cfg s.buffer).word = some tbl ∧ d ∈ w.env.fixedTable tbl ∧
        (unwrapText (fixedParts cfg s.buffer) r.text).filter (fun c => c != cZWNJ) = d.filter (fun c => c != cZWNJ) ∧
        cleanString (fixedParts cfg s.buffer).word <+: cleanString (unwrapText (fixedParts cfg s.buffer) r.text) := by
  intro r hr hv
  obtain ⟨tbl, d, h1, h2, h3, _, _, h6, _⟩ := c15_completions w hs cfg s r hr hv
  refine ⟨tbl, d, h1, h2, ?_, ?_⟩
  · rw [h6, unwrapText_wrapText]
    unfold shownWord
    split
    · exact Riti.tradKar_strip d
    · rfl
  · rw [h6, unwrapText_wrapText]
    exact completion_begins_with_typed cfg _ d h3

/-- ten times the edit distance is the stored rank as long as it fits a byte -/
theorem rank_is_distance (s b : Str) (h : editDistance b s * 10 < 256) :
    (Rank.newSuggestion s b).num = 10 * editDistance b s := by
  simp only [Rank.newSuggestion, Rank.num, rankFactor, rankModulus]
  rw [Nat.mod_eq_of_lt h]; omega

/-- the Bengali candidates (`First`, `Other`) occur in non-decreasing stored rank, wherever emoji
    items are interleaved and whatever the ordering does with equal ranks -/
theorem c15_monotone_bengali (w : World) (hs : IsSortPerm w.sorter) (cfg : Cfg) (s : FState) :
    ((shown w cfg s).filter (fun r => r.variant == .first || r.variant == .other)).Pairwise
      (fun a b => a.num ≤ b.num) := by
  show (((fDictSuggestion w cfg s).1.suggestions).filter _).Pairwise _
  rw [fDictSuggestion_list, List.filter_append]
  have hE : (fixedCands w.env cfg s).english.toList.filter
      (fun r => r.variant == .first || r.variant == .other) = [] := by
    rcases fixedCands_keep_english w.env cfg s with ⟨_, he, _⟩ | ⟨_, he, _⟩ <;> rw [he] <;> simp [Rank.variant]
  rw [hE, List.append_nil]
  have hsorted := (hs (fixedCands w.env cfg s).cands).2
  have h1 := (hsorted.sublist (List.take_sublist (fixedCands w.env cfg s).keep _)).filter
    (fun r => r.variant == .first || r.variant == .other)
  refine h1.imp_of_mem ?_
  intro a b ha hb hab
  have hva := (List.mem_filter.mp ha).2
  have hvb := (List.mem_filter.mp hb).2
  simp only [Bool.or_eq_true, beq_iff_eq] at hva hvb
  exact num_le_of_le hva hvb hab

/-- the `Other` candidates occur in non-decreasing stored rank -/
theorem c15_monotone (w : World) (hs : IsSortPerm w.sorter) (cfg : Cfg) (s : FState) :
    ((shown w cfg s).filter (fun r => r.variant == .other)).Pairwise (fun a b => a.num ≤ b.num) := by
  have h := (c15_monotone_bengali w hs cfg s).filter (fun r => r.variant == .other)
  rw [List.filter_filter] at h
  have he : (fun r : Rank => r.variant == .other && (r.variant == .first || r.variant == .other)) =
      (fun r : Rank => r.variant == .other) := by
    funext r; cases r <;> rfl
  rw [he] at h
  exact h

/-- PARTIAL (distance form of `c15_monotone`): if no hit is 26 or more edits away from the word part
    (`10·d < 256`, the rank is a `u8`), the `Other` candidates occur in non-decreasing edit
    distance to the word part.  Excluded: words padded with ≥ 25 cleaned characters — see
    `c15_distance_order_fails`, where the order really is wrong. -/
theorem c15_monotone_distance_partial (w : World) (hs : IsSortPerm w.sorter) (cfg : Cfg) (s : FState)
    (hnowrap : ∀ r ∈ fixedHits w.env cfg (fixedParts cfg s.buffer).word,
      editDistance (fixedParts cfg s.buffer).word r.text * 10 < 256) :
    (((shown w cfg s).filter (fun r => r.variant == .other)).map
      (fun r => editDistance (fixedParts cfg s.buffer).word (unwrapText (fixedParts cfg s.buffer) r.text))).Pairwise
      (fun a b => a ≤ b) := by
  rw [List.pairwise_map]
  refine (c15_monotone w hs cfg s).imp_of_mem ?_
  intro a b ha hb hab
  have key : ∀ r ∈ (shown w cfg s).filter (fun r => r.variant == .other),
      r.num = 10 * editDistance (fixedParts cfg s.buffer).word (unwrapText (fixedParts cfg s.buffer) r.text) := by
    intro r hr
    obtain ⟨hr1, hr2⟩ := List.mem_filter.mp hr
    obtain ⟨r0, hr0, rfl⟩ := other_from_hit w hs cfg s r hr1 (by simpa using hr2)
    have hnw := hnowrap r0 hr0
    obtain ⟨tbl, d, _, _, _, _, _, rfl⟩ := mem_fixedHits hr0
    rw [wrapOne_num, wrapOne_text, unwrapText_wrapText]
    exact rank_is_distance _ _ hnw
  rw [key a ha, key b hb] at hab
  omega

/-- at most nine candidates are shown -/
theorem c15_at_most_nine (w : World) (cfg : Cfg) (s : FState) : (shown w cfg s).length ≤ 9 := by
  show ((fDictSuggestion w cfg s).1.suggestions).length ≤ 9
  rw [fDictSuggestion_list, List.length_append, List.length_take]
  rcases fixedCands_keep_english w.env cfg s with ⟨hk, he, _⟩ | ⟨hk, he, _⟩ <;> rw [hk, he] <;> simp <;> omega

/-- English option on (and not masked by ANSI) and the raw keys differ from the composed text: the
    last candidate is the raw key text -/
theorem c15_english_last (w : World) (cfg : Cfg) (s : FState) (he : cfg.english = true) (hne : s.buffer ≠ s.typed) :
    (shown w cfg s).getLast? = some (Rank.last s.typed 1) := by
  show ((fDictSuggestion w cfg s).1.suggestions).getLast? = _
  rw [fDictSuggestion_list]
  rcases fixedCands_keep_english w.env cfg s with ⟨_, h, _⟩ | ⟨_, _, h⟩
  · rw [h]; simp
  · rcases h with h | h
    · rw [he] at h; cases h
    · exact absurd h hne

/-- English option off (or masked), or the raw keys equal the composed text: no raw-keys item at all -/
theorem c15_no_english (w : World) (hs : IsSortPerm w.sorter) (cfg : Cfg) (s : FState)
    (h : cfg.english = false ∨ s.buffer = s.typed) : ∀ r ∈ shown w cfg s, r.variant ≠ .last := by
  intro r hr
  rcases mem_fDict_list hs hr with hc | hc
  · rcases fixedCands_variant hc with hv | hv | hv <;> rw [hv] <;> simp
  · rcases fixedCands_keep_english w.env cfg s with ⟨_, _, h1, h2⟩ | ⟨_, he, _⟩
    · rcases h with h | h
      · rw [h1] at h; cases h
      · exact absurd h h2
    · rw [he] at hc; cases hc

/-- the raw-keys item never occurs anywhere but last -/
theorem c15_english_only_last (w : World) (hs : IsSortPerm w.sorter) (cfg : Cfg) (s : FState) :
    ∀ r ∈ (shown w cfg s).dropLast, r.variant ≠ .last := by
  show ∀ r ∈ ((fDictSuggestion w cfg s).1.suggestions).dropLast, _
  rw [fDictSuggestion_list]
  intro r hr
  have hmem : r ∈ (fixedCands w.env cfg s).cands := by
    rcases fixedCands_keep_english w.env cfg s with ⟨_, he, _⟩ | ⟨_, he, _⟩
    · rw [he] at hr
      simp only [Option.toList_some, List.dropLast_concat] at hr
      exact ((hs _).1.mem_iff).mp (List.mem_of_mem_take hr)
    · rw [he] at hr
      simp only [Option.toList_none, List.append_nil] at hr
      exact ((hs _).1.mem_iff).mp (List.mem_of_mem_take ((List.dropLast_sublist _).subset hr))
  rcases fixedCands_variant hmem with hv | hv | hv <;> rw [hv] <;> simp

/-- PARTIAL (no repeats): if the candidates handed to the sort have pairwise different texts — i.e.
    the hit list has no NON-adjacent repeat (`dedup()` only removes adjacent ones) and the emoji
    texts are fresh — and the raw key text differs from all of them, then no text is shown twice:
    sorting, truncating and appending the English item never create a repeat.  Both exclusions are
    real, see `c15_nodup_fails_nonadjacent` and `c15_nodup_fails_typed`. -/
theorem c15_nodup_partial (w : World) (hs : IsSortPerm w.sorter) (cfg : Cfg) (s : FState)
    (hc : ((fixedCands w.env cfg s).cands.map Rank.text).Nodup)
    (ht : s.typed ∉ (fixedCands w.env cfg s).cands.map Rank.text) :
    ((shown w cfg s).map Rank.text).Nodup := by
  show (((fDictSuggestion w cfg s).1.suggestions).map Rank.text).Nodup
  rw [fDictSuggestion_list, List.map_append]
  have hperm : ((w.sorter (fixedCands w.env cfg s).cands).map Rank.text).Perm
      ((fixedCands w.env cfg s).cands.map Rank.text) := (hs _).1.map _
  have htake : (((w.sorter (fixedCands w.env cfg s).cands).take (fixedCands w.env cfg s).keep).map Rank.text).Sublist
      ((w.sorter (fixedCands w.env cfg s).cands).map Rank.text) := (List.take_sublist _ _).map _
  have hnd := (hperm.nodup_iff.mpr hc).sublist htake
  rcases fixedCands_keep_english w.env cfg s with ⟨_, he, _⟩ | ⟨_, he, _⟩
  · rw [he]
    refine List.nodup_append.mpr ⟨hnd, by simp, ?_⟩
    intro a ha b hb
    simp only [Option.toList_some, List.map_cons, List.map_nil, List.mem_singleton, Rank.text] at hb
    subst hb
    intro hab; subst hab
    exact ht (hperm.mem_iff.mp (htake.subset ha))
  · rw [he]; simpa using hnd

/-! ### witnesses: the unrestricted statements fail -/

def chK : Char := Char.ofNat 2453   -- ক
def chKh : Char := Char.ofNat 2454  -- খ
def chG : Char := Char.ofNat 2455   -- গ

def envOf (table : List Str) : Env :=
  { convert := id, dictPhonetic := fun _ => some [], suffix := fun _ => none, autocorrect := fun _ => none
    emoticon := fun _ => none, emojiByName := fun _ => none, emojiBengali := fun _ => none
    bijoy := fun s => .ok s, fixedTable := fun _ => table }

/-- a world whose every dictionary table is `table`, ordered by `keySort` -/
def worldOf (table : List Str) : World := { env := envOf table, layouts := fun _ => none, sorter := keySort }

/-- the witness worlds use an admissible ordering -/
theorem worldOf_sorter (table : List Str) : IsSortPerm (worldOf table).sorter := isSortPerm_keySort

/-- "none repeats" FAILS when the table lists a word twice with another match in between: `dedup()`
    removes only adjacent repeats.  Table `কখ, কখগ, কখ`, composed `কখ`: the list shows `কখ` twice.
    (The bundled table `r` does contain a word twice, non-adjacently.) -/
theorem c15_nodup_fails_nonadjacent :
    let w := worldOf [[chK, chKh], [chK, chKh, chG], [chK, chKh]]
    let s : FState := { rbuf := [chKh, chK], rtyped := ['k', 'j'] }
    IsSortPerm w.sorter ∧
      (shown w { fixedSuggestion := true } s).map Rank.text = [[chK, chKh], [chK, chKh], [chK, chKh, chG]] ∧
      ¬ ((shown w { fixedSuggestion := true } s).map Rank.text).Nodup := by
  refine ⟨isSortPerm_keySort, ?_, ?_⟩
  · simp only [shown, fDict_list_eq_R]; decide
  · simp only [shown, fDict_list_eq_R]; decide

/-- "none repeats" also FAILS in the model when the raw key text equals a candidate text while
    differing from the composed text: with smart quotes `'ক` is shown as `‘ক`, and a state whose
    raw keys are `‘ক` gets that text twice.  (Not reachable through the key API, where raw keys are
    ASCII; it shows that the second hypothesis of `c15_nodup_partial` cannot simply be dropped.) -/
theorem c15_nodup_fails_typed :
    let w := worldOf []
    let s : FState := { rbuf := [chK, '\''], rtyped := [chK, '‘'] }
    (shown w { fixedSuggestion := true, includeEnglish := true } s).map Rank.text = [['‘', chK], ['‘', chK]] := by
  simp only [shown, fDict_list_eq_R]; decide

/-- "non-decreasing edit distance" FAILS at full strength (known finding, shared with C07): the rank
    is stored in a `u8`.  Composed `ক-------------------------খ` (25 hyphens, which `clean_string`
    drops): the hit `কখগ` is 26 edits away and gets rank `260 mod 256 = 4`, so it is shown BEFORE
    `কখ`, which is 25 edits away (rank 250). -/
theorem c15_distance_order_fails :
    let w := worldOf [[chK, chKh], [chK, chKh, chG]]
    let word : Str := chK :: (List.replicate 25 '-' ++ [chKh])
    let s : FState := { rbuf := word.reverse, rtyped := [] }
    shown w { fixedSuggestion := true } s = [.first word, .other [chK, chKh, chG] 4, .other [chK, chKh] 250] ∧
      editDistance word [chK, chKh, chG] = 26 ∧ editDistance word [chK, chKh] = 25 := by
  refine ⟨?_, by decide, by decide⟩
  simp only [shown, fDict_list_eq_R]; decide

/-! ### non-vacuity -/

/-- a dictionary with the word `কখ` itself, two completions, a word that is too long, one that does not
    begin with it, and an emoji name -/
def demoWorld : World :=
  { env := { envOf [[chK, chKh], [chK, chKh, chG], [chK, chKh, chG, chG, chG, chG, chG, chG], [chK, chG], [chK, chKh, chK]] with
              emojiBengali := fun w => if w == [chK, chKh] then some [['E']] else none }
    layouts := fun _ => none, sorter := keySort }

/-- all hypotheses hold of a concrete, non-trivial case and every clause can be seen at work:
    composed `"কখ"`, raw keys `"jk"`, smart quotes and English on.  First the curled composed text (the
    dictionary's own `কখ` is removed by `dedup()`), the emoji (rank 1) before the two completions at
    distance 1 (rank 10), the too-long and the non-matching word absent, the raw keys last. -/
example :
    let cfg : Cfg := { fixedSuggestion := true, includeEnglish := true }
    let s : FState := { rbuf := ['"', chKh, chK, '"'], rtyped := ['"', 'k', 'j', '"'] }
    IsSortPerm demoWorld.sorter ∧ cfg.english = true ∧ s.buffer ≠ s.typed ∧
    shown demoWorld cfg s =
      [.first ['“', chK, chKh, '”'], .emoji ['“', 'E', '”'] 1,
       .other ['“', chK, chKh, chG, '”'] 10, .other ['“', chK, chKh, chK, '”'] 10, .last ['"', 'j', 'k', '"'] 1] := by
  refine ⟨isSortPerm_keySort, by decide, by decide, ?_⟩
  simp only [shown, fDict_list_eq_R]; decide

/-- the Rust stable sort happens to be an admissible ordering on these candidates as well (same list) -/
example :
    let cfg : Cfg := { fixedSuggestion := true, includeEnglish := true }
    let s : FState := { rbuf := ['"', chKh, chK, '"'], rtyped := ['"', 'k', 'j', '"'] }
    shown { demoWorld with sorter := sortStable } cfg s = shown demoWorld cfg s := by
  simp only [shown, fDict_list_eq_R]; decide

/-- the hypotheses of `c15_nodup_partial` and `c15_monotone_distance_partial` are satisfiable: a table
    without repeats, composed `কখ`, raw keys `jk` -/
example :
    let w := worldOf [[chK, chKh], [chK, chKh, chG]]
    let cfg : Cfg := { fixedSuggestion := true, includeEnglish := true }
    let s : FState := { rbuf := [chKh, chK], rtyped := ['k', 'j'] }
    ((fixedCands w.env cfg s).cands.map Rank.text).Nodup ∧
      s.typed ∉ (fixedCands w.env cfg s).cands.map Rank.text ∧
      (∀ r ∈ fixedHits w.env cfg (fixedParts cfg s.buffer).word,
        editDistance (fixedParts cfg s.buffer).word r.text * 10 < 256) ∧
      shown w cfg s = [.first [chK, chKh], .other [chK, chKh, chG] 10, .last ['j', 'k'] 1] := by
  simp only [shown, fDict_list_eq_R, fixedCands_eq_R]; decide

end Riti.C15
