/-
Props/C16 — with ANSI output on, no emoji, emoticon-derived or raw-English candidate is ever
offered (whatever the English option says), the pre-edit text of a candidate is the Bijoy-2000
encoding of that candidate, and with ANSI off it is the candidate itself.  Both methods.
The encoder (`poriborton`) is the parameter `env.bijoy`.
-/
import RitiModel.Model.Context
import RitiModel.Lemmas.Rank
import RitiModel.Lemmas.Phonetic
import RitiModel.Lemmas.FixedSuggest
namespace Riti.C16
open Riti Riti.Gen

/-! ### the English option is masked -/

/-- `get_suggestion_include_english` answers "off" whenever ANSI output is on -/
theorem english_masked (cfg : Cfg) (h : cfg.ansi = true) : cfg.english = false := by
  simp [Cfg.english, h]

/-! ### phonetic method: nothing is added after the dictionary stage -/

/-- with ANSI on, the emoji / emoticon / raw-English stage of the phonetic method adds nothing -/
theorem ansi_phonetic_no_extras (env : Env) (cfg : Cfg) (term : Str) (parts : Parts) (l : List Rank)
    (h : cfg.ansi = true) : addExtras env cfg term parts l = l := by
  simp [addExtras, emojiStage, Cfg.english, h]

/-- every memo entry consists of `First` (auto-correct) and `Other` (dictionary) items only -/
def MemoPlain (cache : Memo) : Prop :=
  ∀ k v r, alookup cache k = some v → r ∈ v → r.variant = .first ∨ r.variant = .other

/-- the empty memo of a fresh engine is plain -/
theorem memoPlain_nil : MemoPlain [] := by
  intro k v r h; simp [alookup] at h

/-- a freshly computed memo entry is plain: the auto-correct item and ranked dictionary hits -/
theorem computeEntry_plain (env : Env) (ua : Store) (w : Str) (r : Rank) (h : r ∈ computeEntry env ua w) :
    r.variant = .first ∨ r.variant = .other := by
  simp only [computeEntry, List.mem_append, List.mem_map] at h
  rcases h with h | ⟨x, _, rfl⟩
  · split at h
    · simp at h; subst h; exact Or.inl rfl
    · simp at h
  · exact Or.inr rfl

/-- a look-up after an insert finds the inserted value or what was there before -/
theorem alookup_ainsert {β : Type} (cache : List (Str × β)) (k : Str) (v : β) (k' : Str) (v' : β)
    (h : alookup (ainsert cache k v) k' = some v') : v' = v ∨ alookup cache k' = some v' := by
  induction cache with
  | nil =>
    simp only [ainsert, alookup] at h
    split at h
    · left; simpa using h.symm
    · simp at h
  | cons p rest ih =>
    obtain ⟨a, b⟩ := p
    simp only [ainsert] at h
    split at h
    · rename_i hak
      simp only [alookup] at h ⊢
      split at h
      · left; simpa using h.symm
      · rename_i hk'; right; simp [hk', h]
    · simp only [alookup] at h ⊢
      split at h
      · rename_i hk'; right; simp [hk', h]
      · rename_i hk'; simp only [hk']; exact ih h

/-- filling the memo (what `suggestion_with_dict` does on a miss) keeps it plain, so every memo
    reachable from the empty one is plain -/
theorem memoFill_plain (env : Env) (ua : Store) (cache : Memo) (w : Str) (h : MemoPlain cache) :
    MemoPlain (memoFill env ua cache w) := by
  unfold memoFill
  split
  · exact h
  · intro k v r hl hr
    rcases alookup_ainsert cache w _ k v hl with rfl | hl'
    · exact computeEntry_plain env ua w r hr
    · exact h k v r hl' hr

/-- the only rank classes an ANSI list may contain: auto-correct (`First`), dictionary (`Other`)
    and the transliteration (`Last _ 2`) — not `Emoji`, not the emoticon literal `Last _ 1`,
    not the raw text `Last _ 3` -/
def AnsiItem (r : Rank) : Prop :=
  r.variant = .first ∨ r.variant = .other ∨ (r.variant = .last ∧ r.num = 2)

/-- `push_checked` in a loop adds nothing but (some of) the pushed items -/
theorem mem_foldl_pushChecked {l acc : List Rank} {x : Rank} (h : x ∈ l.foldl pushChecked acc) :
    x ∈ acc ∨ x ∈ l := by
  induction l generalizing acc with
  | nil => exact Or.inl h
  | cons y ys ih =>
    simp only [List.foldl_cons] at h
    rcases ih h with h | h
    · rcases mem_pushChecked h with h | rfl
      · exact Or.inl h
      · exact Or.inr (by simp)
    · exact Or.inr (by simp [h])

/-- suffix joining re-labels memo items (`change_item` keeps the rank class), so its output is plain too -/
theorem addSuffix_plain (env : Env) (cache : Memo) (hm : MemoPlain cache) (middle : Str) (r : Rank)
    (h : r ∈ addSuffix env cache middle) : r.variant = .first ∨ r.variant = .other := by
  have hbase : ∀ r, r ∈ (alookup cache middle).getD [] → r.variant = .first ∨ r.variant = .other := by
    intro r hr
    cases hc : alookup cache middle with
    | none => simp [hc] at hr
    | some v => simp [hc] at hr; exact hm _ _ _ hc hr
  unfold addSuffix at h
  simp only at h
  split at h
  · rw [List.mem_append] at h
    rcases h with h | h
    · exact hbase r h
    · simp only [List.mem_flatMap] at h
      obtain ⟨ks, _, hr⟩ := h
      unfold suffixedAt at hr
      split at hr
      · simp at hr
      · split at hr
        · simp at hr
        · rename_i entry hc
          simp only [List.mem_filterMap, Option.map_eq_some_iff] at hr
          obtain ⟨b, hb, t, _, rfl⟩ := hr
          simpa using hm _ _ _ hc hb
  · exact hbase r h

/-- the dictionary stage of the phonetic method yields auto-correct, dictionary and
    transliteration items only -/
theorem dictList_ansiItem (env : Env) (cache : Memo) (hm : MemoPlain cache) (parts : Parts) (r : Rank)
    (h : r ∈ dictList env cache parts) : AnsiItem r := by
  simp only [dictList, wrapAll_eq_map, List.mem_map] at h
  obtain ⟨r0, hr0, rfl⟩ := h
  unfold AnsiItem
  rw [wrapOne_variant, wrapOne_num]
  rcases mem_pushChecked hr0 with h | rfl
  · rcases mem_foldl_pushChecked h with h | h
    · simp at h
    · rcases addSuffix_plain env cache hm _ _ h with h | h
      · exact Or.inl h
      · exact Or.inr (Or.inl h)
  · exact Or.inr (Or.inr ⟨rfl, rfl⟩)

/-- phonetic method, ANSI on: every candidate is an auto-correct item, a dictionary(-derived) item
    or the transliteration; no emoji, no emoticon literal, no raw English text -/
theorem ansi_phonetic_variants (env : Env) (cfg : Cfg) (cache : Memo) (term : Str)
    (ha : cfg.ansi = true) (hm : MemoPlain cache) :
    ∀ r ∈ suggestList env cfg cache term, AnsiItem r := by
  intro r hr
  simp only [suggestList, ansi_phonetic_no_extras _ _ _ _ _ ha, mem_sortStable] at hr
  exact dictList_ansiItem env cache hm _ r hr

/-- the same for the list `PhoneticSuggestion::suggest` returns and stores, and the memo stays plain -/
theorem ansi_suggest_variants (env : Env) (cfg : Cfg) (s : PState) (term : Str)
    (ha : cfg.ansi = true) (hm : MemoPlain s.cache) :
    (∀ r ∈ (suggest env cfg s term).2.1, AnsiItem r) ∧ MemoPlain (suggest env cfg s term).1.cache := by
  refine ⟨?_, ?_⟩
  · exact ansi_phonetic_variants env cfg _ term ha (memoFill_plain env _ _ _ hm)
  · exact memoFill_plain env _ _ _ hm

/-- stated negatively: under ANSI no phonetic candidate is an emoji, the emoticon literal
    (`Last _ 1`) or the raw English text (`Last _ 3`) -/
theorem ansi_phonetic_none_forbidden (env : Env) (cfg : Cfg) (cache : Memo) (term : Str)
    (ha : cfg.ansi = true) (hm : MemoPlain cache) (r : Rank) (hr : r ∈ suggestList env cfg cache term) :
    r.variant ≠ .emoji ∧ (∀ t, r ≠ .last t 1) ∧ (∀ t, r ≠ .last t 3) := by
  have h := ansi_phonetic_variants env cfg cache term ha hm r hr
  refine ⟨?_, ?_, ?_⟩
  · rcases h with h | h | ⟨h, _⟩ <;> simp [h]
  · rintro t rfl; rcases h with h | h | ⟨_, h⟩ <;> simp [Rank.variant, Rank.num] at h
  · rintro t rfl; rcases h with h | h | ⟨_, h⟩ <;> simp [Rank.variant, Rank.num] at h

/-! ### fixed method -/

/-- fixed method, ANSI on: no emoji item is generated and no raw-English item is appended -/
theorem ansi_fixed_no_extras (env : Env) (cfg : Cfg) (s : FState) (parts : Parts) (typed : Str)
    (ha : cfg.ansi = true) :
    fixedEmoji env cfg parts typed = [] ∧ (fixedCands env cfg s).english = none := by
  refine ⟨by simp [fixedEmoji, ha], ?_⟩
  simp [fixedCands, english_masked cfg ha]

/-- fixed method, ANSI on, any ordering allowed by `sort_unstable`: every candidate shown is the
    composed text (`First`) or a dictionary word (`Other`) -/
theorem ansi_fixed_variants (w : World) (hs : IsSortPerm w.sorter) (cfg : Cfg) (s : FState)
    (ha : cfg.ansi = true) :
    ∀ r ∈ (fDictSuggestion w cfg s).1.suggestions, r.variant = .first ∨ r.variant = .other := by
  intro r hr
  rcases mem_fDict_list hs hr with h | h
  · rw [fixedCands_cands, (ansi_fixed_no_extras w.env cfg s _ s.typed ha).1, List.append_nil] at h
    have h' : r ∈ (fixedCands w.env cfg s).cands := by
      rw [fixedCands_cands]; exact List.mem_append_left _ h
    rcases fixedCands_variant h' with hv | hv | hv
    · exact Or.inl hv
    · exact Or.inr hv
    · -- an emoji item would have to come from `fixedEmoji`, which is empty
      obtain ⟨t, hsub, he⟩ := fixedBase_shape w.env cfg (fixedParts cfg s.buffer)
      rw [he] at h
      simp only [List.mem_cons, List.mem_map] at h
      rcases h with rfl | ⟨r0, hr0, rfl⟩
      · left; rw [wrapOne_variant]; rfl
      · right; simpa using fixedHits_variant (hsub.subset hr0)
  · rw [(ansi_fixed_no_extras w.env cfg s (fixedParts cfg s.buffer) s.typed ha).2] at h
    simp at h

/-! ### pre-edit text -/

/-- pre-edit text of candidate `i` of a list: its Bijoy encoding under ANSI, else the candidate -/
theorem preedit_spec (env : Env) (aux : Str) (l : List Str) (sel : Nat) (a : Bool) (i : Nat) (h : i < l.length) :
    (Sugg.full aux l sel a).getPreEdit env i = (if a then env.bijoy l[i] else .ok l[i]) := by
  simp [Sugg.getPreEdit, h]

/-- pre-edit text of a single-string suggestion (any index): Bijoy encoding under ANSI, else the string -/
theorem preedit_spec_single (env : Env) (t : Str) (a : Bool) (i : Nat) :
    (Sugg.single t a).getPreEdit env i = (if a then env.bijoy t else .ok t) := rfl

/-- an index outside the list is an error, never some other text -/
theorem preedit_out_of_range (env : Env) (aux : Str) (l : List Str) (sel : Nat) (a : Bool) (i : Nat)
    (h : l.length ≤ i) : (Sugg.full aux l sel a).getPreEdit env i = .error .indexOutOfRange := by
  simp [Sugg.getPreEdit, h]

/-- the candidate read back at index `i` is `l[i]`, so `preedit_spec` speaks about the candidate shown -/
theorem preedit_of_candidate (env : Env) (sg : Sugg) (i : Nat) (c : Str) (h : sg.getSuggestion i = .ok c) :
    sg.getPreEdit env i = (match sg with | .full _ _ _ a => if a then env.bijoy c else .ok c | .single _ _ => .ok c) := by
  cases sg with
  | single t a => simp [Sugg.getSuggestion] at h
  | full aux l sel a =>
    simp only [Sugg.getSuggestion] at h
    split at h
    · rename_i x hx
      simp only [Sugg.getPreEdit, hx]
      cases h; rfl
    · cases h

/-- `Suggestion::empty()` is never flagged ANSI (its text is empty, nothing to encode) -/
theorem empty_not_ansi : Sugg.empty = .single [] false := rfl

/-- the ANSI flag carried by a suggestion -/
def flag : Sugg → Bool
  | .full _ _ _ a => a
  | .single _ a => a

/-- a suggestion is flagged exactly as configured, or is the empty one -/
def FlagOk (cfg : Cfg) (sg : Sugg) : Prop := flag sg = cfg.ansi ∨ sg = Sugg.empty

/-- phonetic `create_suggestion` always flags as configured -/
theorem pCreate_flag (env : Env) (cfg : Cfg) (s : PState) : flag (pCreateSuggestion env cfg s).2 = cfg.ansi := by
  unfold pCreateSuggestion; split <;> rfl

/-- fixed `create_suggestion` always flags as configured (any ordering function) -/
theorem fCreate_flag (w : World) (cfg : Cfg) (s : FState) : flag (fCreateSuggestion w cfg s).2 = cfg.ansi := by
  unfold fCreateSuggestion; split <;> rfl

/-- every suggestion built by either method's constructors carries the configured ANSI flag, or is
    `Suggestion::empty()` -/
theorem returned_ansi_flag (w : World) (cfg : Cfg) (ps : PState) (fs : FState) :
    FlagOk cfg (pCreateSuggestion w.env cfg ps).2 ∧ FlagOk cfg (fCreateSuggestion w cfg fs).2 ∧
      FlagOk cfg (fCurrentSuggestion cfg fs) := by
  refine ⟨Or.inl (pCreate_flag _ _ _), Or.inl (fCreate_flag _ _ _), ?_⟩
  unfold fCurrentSuggestion
  split
  · split
    · exact Or.inl rfl
    · exact Or.inl rfl
  · exact Or.inr rfl

/-- … hence so does everything a key press returns (phonetic) -/
theorem pKey_flag (env : Env) (cfg : Cfg) (s : PState) (key sel : Nat) : FlagOk cfg (pKey env cfg s key sel).2 := by
  unfold pKey
  split
  · split
    · exact Or.inr rfl
    · exact Or.inl (pCreate_flag _ _ _)
  · rename_i ch _
    have hf := pCreate_flag env cfg { s with buffer := s.buffer ++ [ch] }
    simp only
    split
    · rename_i aux l e a hsg
      rw [hsg] at hf
      exact Or.inl hf
    · rename_i x hx
      cases hsg : (pCreateSuggestion env cfg { s with buffer := s.buffer ++ [ch] }).2 with
      | full aux l e a => exact absurd hsg (hx aux l e a)
      | single t a => rw [hsg] at hf; exact Or.inl hf

/-- … a backspace (phonetic) -/
theorem pBackspace_flag (env : Env) (cfg : Cfg) (s : PState) (ctrl : Bool) :
    FlagOk cfg (pBackspace env cfg s ctrl).2 := by
  unfold pBackspace
  split
  · split
    · exact Or.inr rfl
    · simp only
      split
      · exact Or.inr rfl
      · exact Or.inl (pCreate_flag _ _ _)
  · exact Or.inr rfl

/-- … a key press (fixed) -/
theorem fKey_flag (w : World) (layout : Layout) (cfg : Cfg) (s : FState) (key modifier : Nat) :
    FlagOk cfg (fKey w layout cfg s key modifier).2 := by
  unfold fKey
  split
  · exact (returned_ansi_flag w cfg {} s).2.2
  · split
    · exact Or.inr rfl
    · exact Or.inl (fCreate_flag _ _ _)

/-- … and a backspace (fixed) -/
theorem fBackspace_flag (w : World) (cfg : Cfg) (s : FState) (ctrl : Bool) :
    FlagOk cfg (fBackspace w cfg s ctrl).2 := by
  unfold fBackspace
  simp only
  split
  · exact Or.inl (fCreate_flag _ _ _)
  · exact Or.inr rfl

/-- every suggestion any API call returns is flagged as configured or is the empty one -/
theorem step_flag (w : World) (c : Ctx) (fs : FS) (e : Event) (c' : Ctx) (fs' : FS) (sg : Sugg)
    (h : step w c fs e = .ok (c', fs', .sugg sg)) : FlagOk c.cfg sg := by
  cases e with
  | key code modifier selection =>
    simp only [step] at h
    split at h
    · cases h; exact pKey_flag _ _ _ _ _
    · cases h; exact fKey_flag _ _ _ _ _ _
  | backspace ctrl =>
    simp only [step] at h
    split at h
    · cases h; exact pBackspace_flag _ _ _ _
    · cases h; exact fBackspace_flag _ _ _ _
  | commit i =>
    simp only [step] at h
    split at h
    · split at h
      · cases h
      · cases h
    · cases h
  | finish =>
    simp only [step] at h
    split at h <;> cases h
  | update cfg lp =>
    simp only [step] at h
    split at h
    · split at h <;> cases h
    · split at h <;> cases h
  | setFs f => simp only [step] at h; cases h

/-- summary for a returned list: with ANSI on every pre-edit text is the encoder's output for the
    candidate at that index, with ANSI off it is the candidate -/
theorem preedit_of_returned (env : Env) (cfg : Cfg) (sg : Sugg) (hf : flag sg = cfg.ansi) (i : Nat) (c : Str)
    (h : sg.getSuggestion i = .ok c) :
    sg.getPreEdit env i = (if cfg.ansi then env.bijoy c else .ok c) := by
  rw [preedit_of_candidate env sg i c h]
  cases sg with
  | single t a => simp [Sugg.getSuggestion] at h
  | full aux l sel a => simp only [flag] at hf; rw [hf]

/-! ### non-vacuity -/

/-- a small world: `ab` has two dictionary hits and an emoticon, every word has an emoji name; the
    transliteration prefixes `T`; the encoder marks its output so that it visibly differs from its input -/
def witnessEnv : Env :=
  { convert := fun s => if s.isEmpty then [] else 'T' :: s
    dictPhonetic := fun w => if w == ['a', 'b'] then some [['x'], ['y']] else some []
    suffix := fun _ => none, autocorrect := fun _ => none
    emoticon := fun w => if w == ['a', 'b'] then some ['E'] else none
    emojiByName := fun _ => some [['N']], emojiBengali := fun _ => some [['B']]
    bijoy := fun s => .ok ('#' :: s), fixedTable := fun _ => [] }

def witnessWorld : World := { env := witnessEnv, layouts := fun _ => none, sorter := sortStable }

def cfgOff : Cfg := { phoneticSuggestion := true, fixedSuggestion := true, includeEnglish := true }
def cfgOn : Cfg := { cfgOff with ansi := true }

/-- the hypotheses are satisfiable and the conclusion is not trivial: with English on and ANSI off
    the phonetic list for `ab` contains the emoticon and its literal, the list for `c` an emoji and
    the raw text (`Last _ 3`); turning ANSI on (English still requested) removes exactly those -/
example :
    cfgOn.ansi = true ∧ cfgOn.includeEnglish = true ∧
    suggestList witnessEnv cfgOff (memoFill witnessEnv [] [] ['a', 'b']) ['a', 'b'] =
      [.emoji ['E'] 1, .other ['x'] 30, .other ['y'] 30, .last ['a', 'b'] 1, .last ['T', 'a', 'b'] 2] ∧
    suggestList witnessEnv cfgOn (memoFill witnessEnv [] [] ['a', 'b']) ['a', 'b'] =
      [.other ['x'] 30, .other ['y'] 30, .last ['T', 'a', 'b'] 2] ∧
    suggestList witnessEnv cfgOff (memoFill witnessEnv [] [] ['c']) ['c'] =
      [.emoji ['N'] 1, .last ['T', 'c'] 2, .last ['c'] 3] ∧
    suggestList witnessEnv cfgOn (memoFill witnessEnv [] [] ['c']) ['c'] = [.last ['T', 'c'] 2] := by
  decide

/-- `MemoPlain` holds of the memo used above -/
example : MemoPlain (memoFill witnessEnv [] [] ['a', 'b']) := memoFill_plain _ _ _ _ memoPlain_nil

/-- the text of a result, `none` for a panic -/
def okText : Res Str → Option Str
  | .ok t => some t
  | .error _ => none

/-- fixed method (composition `ক` typed with the key `j`): with ANSI off the Bengali emoji and the raw
    keys are offered, with ANSI on neither is; the pre-edit text goes through the encoder only under ANSI -/
example :
    let s : FState := { rbuf := [Char.ofNat 2453], rtyped := ['j'] }
    (fDictSuggestion witnessWorld cfgOff s).1.suggestions =
      [.first [Char.ofNat 2453], .emoji ['B'] 1, .last ['j'] 1] ∧
    (fDictSuggestion witnessWorld cfgOn s).1.suggestions = [.first [Char.ofNat 2453]] ∧
    okText ((fDictSuggestion witnessWorld cfgOn s).2.getPreEdit witnessEnv 0) = some ['#', Char.ofNat 2453] ∧
    okText ((fDictSuggestion witnessWorld cfgOff s).2.getPreEdit witnessEnv 0) = some [Char.ofNat 2453] := by
  simp only [fDict_list_eq_R, fDict_sugg_eq_R]
  decide

end Riti.C16
