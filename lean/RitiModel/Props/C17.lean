/-
Props/C17 — smart quotes only curl the quotes around a word.
Turning the option on replaces straight quotes in the punctuation before a non-empty word by
opening curly quotes and those after it by closing curly quotes, in every candidate that is wrapped
in that punctuation; nothing else changes (same length, order, ranks), except where the raw typed
text collides with a wrapped candidate on one side only (`c17_lists_fails`, `c17_selection_differs`).
-/
import RitiModel.Lemmas.Quotes
import RitiModel.Model.Okkhor
namespace Riti.C17
open Riti Riti.Gen

/-! ## 1. the quoter -/

/-- `smart_quoter` leaves a text without word part alone; otherwise it maps `openQuote` over the
    leading and `closeQuote` over the trailing punctuation and never touches the word -/
theorem quoter_spec (p w r : Str) :
    smartQuoter ⟨p, w, r⟩ = if w = [] then ⟨p, w, r⟩ else ⟨p.map openQuote, w, r.map closeQuote⟩ := by
  cases w <;> simp [smartQuoter]

/-- `openQuote` changes exactly the two straight quotes, into the opening curly ones -/
theorem openQuote_spec (c : Char) :
    openQuote c = if c = '\'' then '‘' else if c = '"' then '“' else c := by
  simp [openQuote]

/-- `closeQuote` changes exactly the two straight quotes, into the closing curly ones -/
theorem closeQuote_spec (c : Char) :
    closeQuote c = if c = '\'' then '’' else if c = '"' then '”' else c := by
  simp [closeQuote]

/-- mapping curly quotes back undoes the opening-quote substitution on text without curly quotes -/
theorem unquote_left_inverse {p : Str} (h : NoCurly p) : uncurl (p.map openQuote) = p :=
  uncurl_map_openQuote h

/-- … and the closing-quote substitution -/
theorem unquote_left_inverse_close {p : Str} (h : NoCurly p) : uncurl (p.map closeQuote) = p :=
  uncurl_map_closeQuote h

/-- the word part is never changed by the quoter -/
theorem quoter_word_unchanged (p : Parts) : (smartQuoter p).word = p.word := by
  unfold smartQuoter; split <;> rfl

/-- the quoter keeps the lengths of the three parts (it substitutes character by character) -/
theorem quoter_lengths (p : Parts) :
    (smartQuoter p).pre.length = p.pre.length ∧ (smartQuoter p).trail.length = p.trail.length := by
  unfold smartQuoter; split <;> simp

/-! ## 2. configurations with the option on / off; punctuation-only text -/

/-- the configuration with smart quotes switched on -/
abbrev on (cfg : Cfg) : Cfg := { cfg with smartQuote := true }
/-- the configuration with smart quotes switched off -/
abbrev off (cfg : Cfg) : Cfg := { cfg with smartQuote := false }

/-- transliterated leading punctuation of the typed text -/
def lead (env : Env) (term : Str) : Str := env.convert (split term false).pre
/-- transliterated trailing punctuation of the typed text -/
def tail (env : Env) (term : Str) : Str := env.convert (split term false).trail
/-- word part of the typed text -/
def word (term : Str) : Str := (split term false).word

/-- option off: the parts are the transliterated punctuation around the word -/
theorem preparedParts_off (env : Env) (cfg : Cfg) (term : Str) :
    preparedParts env (off cfg) term = ⟨lead env term, word term, tail env term⟩ := rfl

/-- option on: the same, run through the quoter -/
theorem preparedParts_on (env : Env) (cfg : Cfg) (term : Str) :
    preparedParts env (on cfg) term =
      if word term = [] then ⟨lead env term, word term, tail env term⟩
      else ⟨(lead env term).map openQuote, word term, (tail env term).map closeQuote⟩ := by
  simp only [preparedParts, quoter_spec, lead, word, tail]
  rfl

/-- the option only enters the candidate list through the prepared parts -/
theorem addExtras_on_off (env : Env) (cfg : Cfg) (term : Str) (parts : Parts) (l : List Rank) :
    addExtras env (on cfg) term parts l = addExtras env (off cfg) term parts l := rfl

/-- text that is only punctuation: the prepared parts do not depend on the option -/
theorem c17_punct_only (env : Env) (cfg : Cfg) (term : Str) (h : (split term false).word = []) :
    preparedParts env (on cfg) term = preparedParts env (off cfg) term := by
  have h' : word term = [] := h
  rw [preparedParts_on, preparedParts_off, if_pos h']

/-- text that is only punctuation: the candidate list is identical with the option on and off -/
theorem c17_punct_only_list (env : Env) (cfg : Cfg) (cache : Memo) (term : Str)
    (h : (split term false).word = []) :
    suggestList env (on cfg) cache term = suggestList env (off cfg) cache term := by
  simp only [suggestList, c17_punct_only env cfg term h, addExtras_on_off]

/-- text that is only punctuation: the whole result of `suggest` (new state, list, preselection)
    is identical with the option on and off -/
theorem c17_punct_only_suggest (env : Env) (cfg : Cfg) (s : PState) (term : Str)
    (h : (split term false).word = []) :
    suggest env (on cfg) s term = suggest env (off cfg) s term := by
  simp only [suggest, c17_punct_only env cfg term h, c17_punct_only_list env cfg _ term h]

/-- fixed method, punctuation only: the parts do not depend on the option -/
theorem c17_fixed_punct_only (cfg : Cfg) (buffer : Str) (h : (split buffer true).word = []) :
    fixedParts (on cfg) buffer = fixedParts (off cfg) buffer := by
  simp [fixedParts, smartQuoter, h]

/-- fixed method, punctuation only: the candidates do not depend on the option -/
theorem c17_fixed_punct_only_cands (env : Env) (cfg : Cfg) (s : FState) (h : (split s.buffer true).word = []) :
    fixedCands env (on cfg) s = fixedCands env (off cfg) s := by
  have hp := c17_fixed_punct_only cfg s.buffer h
  simp only [fixedCands, hp]
  rfl

/-! ## 3. the phonetic candidate list, word part non-empty -/

/-- the raw (never wrapped) items the code adds when the punctuation around the word is `p … t`:
    it depends on `p`, `t` only through the two tests "typed text = `p`" and "typed text = some
    wrapped candidate" -/
def rawsFor (env : Env) (cfg : Cfg) (cache : Memo) (term p t : Str) : List Rank :=
  rawItems env cfg term (term == p)
    ((coreItems env cfg cache term (word term)).any (fun r => p ++ r.text ++ t == term))

/-- EXACT side condition: the raw typed text / emoticon items added with curled and with straight
    punctuation are the same (i.e. the raw-text tests that matter come out the same) -/
def RawSame (env : Env) (cfg : Cfg) (cache : Memo) (term : Str) : Prop :=
  rawsFor env cfg cache term ((lead env term).map openQuote) ((tail env term).map closeQuote) =
    rawsFor env cfg cache term (lead env term) (tail env term)

instance (env : Env) (cfg : Cfg) (cache : Memo) (term : Str) : Decidable (RawSame env cfg cache term) := by
  unfold RawSame; infer_instance

/-- readable sufficient condition: both tests of the code come out the same with curled and with
    straight punctuation -/
structure SameTests (env : Env) (cfg : Cfg) (cache : Memo) (term : Str) : Prop where
  /-- the typed text equals the curled leading punctuation iff it equals the straight one -/
  pre : term = (lead env term).map openQuote ↔ term = lead env term
  /-- the typed text equals some candidate in curled punctuation iff it equals some candidate in
      straight punctuation -/
  collide :
    (∃ c ∈ coreItems env cfg cache term (word term),
        (lead env term).map openQuote ++ c.text ++ (tail env term).map closeQuote = term) ↔
    (∃ c ∈ coreItems env cfg cache term (word term), lead env term ++ c.text ++ tail env term = term)

/-- if both tests of the code come out the same, the raw items are the same -/
theorem rawSame_of_sameTests {env : Env} {cfg : Cfg} {cache : Memo} {term : Str}
    (h : SameTests env cfg cache term) : RawSame env cfg cache term := by
  unfold RawSame rawsFor
  have h1 : (term == (lead env term).map openQuote) = (term == lead env term) := by
    rw [Bool.eq_iff_iff]; simpa using h.pre
  have h2 : ((coreItems env cfg cache term (word term)).any
        (fun r => (lead env term).map openQuote ++ r.text ++ (tail env term).map closeQuote == term)) =
      ((coreItems env cfg cache term (word term)).any (fun r => lead env term ++ r.text ++ tail env term == term)) := by
    rw [Bool.eq_iff_iff]; simpa [List.any_eq_true] using h.collide
  rw [h1, h2]

/-- no straight quote in the punctuation: curling changes nothing at all -/
theorem map_openQuote_of_no_straight {p : Str} (h : ∀ c ∈ p, c ≠ '\'' ∧ c ≠ '"') : p.map openQuote = p := by
  induction p with
  | nil => rfl
  | cons c cs ih =>
    have hc := h c (by simp)
    simp only [List.map_cons, ih (fun d hd => h d (by simp [hd]))]
    simp [openQuote, hc.1, hc.2]

/-- … and likewise for the closing quotes -/
theorem map_closeQuote_of_no_straight {p : Str} (h : ∀ c ∈ p, c ≠ '\'' ∧ c ≠ '"') : p.map closeQuote = p := by
  induction p with
  | nil => rfl
  | cons c cs ih =>
    have hc := h c (by simp)
    simp only [List.map_cons, ih (fun d hd => h d (by simp [hd]))]
    simp [closeQuote, hc.1, hc.2]

/-- the side condition holds whenever the typed text is neither the (curled or straight) leading
    punctuation nor a candidate wrapped in (curled or straight) punctuation — e.g. whenever every
    candidate contains a non-ASCII character, the typed text being ASCII -/
theorem sameTests_of_fresh {env : Env} {cfg : Cfg} {cache : Memo} {term : Str}
    (h1 : term ≠ lead env term) (h2 : term ≠ (lead env term).map openQuote)
    (h3 : ∀ c ∈ coreItems env cfg cache term (word term), lead env term ++ c.text ++ tail env term ≠ term)
    (h4 : ∀ c ∈ coreItems env cfg cache term (word term),
      (lead env term).map openQuote ++ c.text ++ (tail env term).map closeQuote ≠ term) :
    SameTests env cfg cache term :=
  ⟨⟨fun h => absurd h h2, fun h => absurd h h1⟩,
   ⟨fun ⟨c, hc, h⟩ => absurd h (h4 c hc), fun ⟨c, hc, h⟩ => absurd h (h3 c hc)⟩⟩

/-- is this item the raw typed text or the emoticon's emoji? -/
def IsRaw (env : Env) (term : Str) (r : Rank) : Prop :=
  r = Rank.last term 1 ∨ r = Rank.last term 3 ∨
    ∃ e, env.emoticon term = some e ∧ r = Rank.emoji e Gen.emojiDefaultRank

/-- STRUCTURE THEOREM (PARTIAL: excludes the inputs where `RawSame` fails, see `c17_lists_fails`).
    Both sorted lists are renderings of ONE list of tagged items: core items are shown inside the
    curled punctuation with the option on and inside the straight punctuation with it off; raw
    items (typed text, emoticon emoji) are shown unchanged. -/
theorem c17_items_partial (env : Env) (cfg : Cfg) (cache : Memo) (term : Str)
    (hw : (split term false).word ≠ []) (hraw : RawSame env cfg cache term) :
    ∃ its : List Item,
      suggestList env (on cfg) cache term =
        its.map (Item.render ((lead env term).map openQuote) ((tail env term).map closeQuote)) ∧
      suggestList env (off cfg) cache term = its.map (Item.render (lead env term) (tail env term)) ∧
      ∀ r, Item.raw r ∈ its → IsRaw env term r := by
  have hw' : word term ≠ [] := hw
  have hon := suggestList_items env (on cfg) cache term _ _ _
    (by rw [preparedParts_on, if_neg hw'])
  have hoff := suggestList_items env (off cfg) cache term _ _ _ (preparedParts_off env cfg term)
  -- the option does not enter `coreItems` / `rawItems`
  change suggestList env (on cfg) cache term = (sortOn _ ((coreItems env cfg cache term (word term)).map Item.core ++
    (rawsFor env cfg cache term ((lead env term).map openQuote) ((tail env term).map closeQuote)).map Item.raw)).map _ at hon
  change suggestList env (off cfg) cache term = (sortOn _ ((coreItems env cfg cache term (word term)).map Item.core ++
    (rawsFor env cfg cache term (lead env term) (tail env term)).map Item.raw)).map _ at hoff
  rw [hraw] at hon
  refine ⟨_, hon, ?_, ?_⟩
  · rw [hoff]
    congr 1
    exact sortOn_congr (fun a b => Rank.cmp_congr (Item.render_variant _ _ _ _ a) (Item.render_num _ _ _ _ a)
      (Item.render_variant _ _ _ _ b) (Item.render_num _ _ _ _ b)) _
  · intro r hr
    rw [mem_sortOn] at hr
    simp only [List.mem_append, List.mem_map] at hr
    rcases hr with ⟨x, _, hx⟩ | ⟨x, hx, hxe⟩
    · cases hx
    · cases hxe
      exact mem_rawItems hx

/-- PARTIAL (same exclusion).  With the option on and off the lists have the same length, the same
    variants and rank numbers position by position, and position by position the texts are
    `pre' ++ core ++ trail'` / `pre ++ core ++ trail` with the same core — or the item is the raw
    typed text / the emoticon's emoji and identical in both lists. -/
theorem c17_lists_partial (env : Env) (cfg : Cfg) (cache : Memo) (term : Str)
    (hw : (split term false).word ≠ []) (hraw : RawSame env cfg cache term) :
    let Lon := suggestList env (on cfg) cache term
    let Loff := suggestList env (off cfg) cache term
    Lon.length = Loff.length ∧
    Lon.map (fun r => (r.variant, r.num)) = Loff.map (fun r => (r.variant, r.num)) ∧
    ∀ (i : Nat) (a b : Rank), Lon[i]? = some a → Loff[i]? = some b →
      (∃ core, a.text = (lead env term).map openQuote ++ core ++ (tail env term).map closeQuote ∧
               b.text = lead env term ++ core ++ tail env term) ∨
      (a = b ∧ IsRaw env term a) := by
  obtain ⟨its, hon, hoff, hr⟩ := c17_items_partial env cfg cache term hw hraw
  simp only [hon, hoff]
  refine ⟨by simp, ?_, ?_⟩
  · simp only [List.map_map]
    apply List.map_congr_left
    intro x _
    simp [Item.render_variant _ _ (lead env term) (tail env term) x,
      Item.render_num _ _ (lead env term) (tail env term) x]
  · intro i a b ha hb
    simp only [List.getElem?_map] at ha hb
    cases hi : its[i]? with
    | none => simp [hi] at ha
    | some it =>
      simp only [hi, Option.map_some, Option.some.injEq] at ha hb
      subst ha; subst hb
      cases it with
      | core c => exact Or.inl ⟨c.text, by simp [Item.render], by simp [Item.render]⟩
      | raw r => exact Or.inr ⟨rfl, hr r (List.mem_of_getElem? hi)⟩

/-- PARTIAL (same exclusion).  If the transliterated punctuation contains no curly quote, mapping
    curly quotes back to straight ones makes the two lists of texts equal (same length and order). -/
theorem c17_uncurl_partial (env : Env) (cfg : Cfg) (cache : Memo) (term : Str)
    (hw : (split term false).word ≠ []) (hraw : RawSame env cfg cache term)
    (hp : NoCurly (lead env term)) (ht : NoCurly (tail env term)) :
    (suggestList env (on cfg) cache term).map (uncurl ∘ Rank.text) =
      (suggestList env (off cfg) cache term).map (uncurl ∘ Rank.text) := by
  obtain ⟨its, hon, hoff, _⟩ := c17_items_partial env cfg cache term hw hraw
  rw [hon, hoff, List.map_map, List.map_map]
  apply List.map_congr_left
  intro x _
  cases x with
  | core c =>
    simp [Item.render, uncurl_map_openQuote hp, uncurl_map_closeQuote ht, uncurl_of_noCurly hp, uncurl_of_noCurly ht]
  | raw r => rfl

/-- PARTIAL (same exclusion) — the statement of the property: if moreover no candidate shown with
    the option off contains a curly quote, the list with the option on, curly quotes mapped back,
    IS the list with the option off. -/
theorem c17_uncurl_off_partial (env : Env) (cfg : Cfg) (cache : Memo) (term : Str)
    (hw : (split term false).word ≠ []) (hraw : RawSame env cfg cache term)
    (hp : NoCurly (lead env term)) (ht : NoCurly (tail env term))
    (hc : ∀ r ∈ suggestList env (off cfg) cache term, NoCurly r.text) :
    (suggestList env (on cfg) cache term).map (uncurl ∘ Rank.text) =
      (suggestList env (off cfg) cache term).map Rank.text := by
  rw [c17_uncurl_partial env cfg cache term hw hraw hp ht]
  apply List.map_congr_left
  intro r hr
  exact uncurl_of_noCurly (hc r hr)

/-- for every typed text (with or without word part), under the same provisos -/
theorem c17_uncurl_all_partial (env : Env) (cfg : Cfg) (cache : Memo) (term : Str)
    (hraw : (split term false).word ≠ [] → RawSame env cfg cache term)
    (hp : NoCurly (lead env term)) (ht : NoCurly (tail env term)) :
    (suggestList env (on cfg) cache term).map (uncurl ∘ Rank.text) =
      (suggestList env (off cfg) cache term).map (uncurl ∘ Rank.text) := by
  by_cases hw : (split term false).word = []
  · rw [c17_punct_only_list env cfg cache term hw]
  · exact c17_uncurl_partial env cfg cache term hw (hraw hw) hp ht

/-! ### the side condition is necessary: counter-examples to the unrestricted statement -/

/-- a world where transliteration is the identity and the dictionary is empty -/
def idEnv : Env :=
  { convert := id, dictPhonetic := fun _ => some [], suffix := fun _ => none, autocorrect := fun _ => none
    emoticon := fun _ => none, emojiByName := fun _ => none, emojiBengali := fun _ => none
    bijoy := fun s => .ok s, fixedTable := fun _ => [] }

/-- a world where the lone double quote transliterates to `"a` (so that the typed text `"a` equals
    the straight leading punctuation but not the curled one) -/
def preEnv : Env :=
  { idEnv with convert := fun s => if s == ['"'] then ['"', 'a'] else s }

/-- COUNTER-EXAMPLE to the unrestricted list statement (finding): typed text `"e`, English item on,
    the only candidate is the transliteration `e`.  Option off: the wrapped candidate `"e` IS the
    typed text, so `push_checked` drops the English item — 1 candidate.  Option on: the candidate
    is `“e`, the typed text `"e` is new — 2 candidates. -/
theorem c17_lists_fails :
    let cfg : Cfg := { includeEnglish := true }
    let term : Str := ['"', 'e']
    (split term false).word ≠ [] ∧ NoCurly (lead idEnv term) ∧ NoCurly (tail idEnv term) ∧
    suggestList idEnv (on cfg) [] term = [Rank.last ['“', 'e'] 2, Rank.last ['"', 'e'] 3] ∧
    suggestList idEnv (off cfg) [] term = [Rank.last ['"', 'e'] 2] ∧
    ¬ RawSame idEnv cfg [] term := by decide

/-- second way to break it: the test `term != pre`.  Typed text `"a` whose leading quote
    transliterates to `"a`: option off — the typed text equals the prefix, no English item; option
    on — the prefix is `“a`, the English item is added. -/
theorem c17_lists_fails_pre :
    let cfg : Cfg := { includeEnglish := true }
    let term : Str := ['"', 'a']
    (split term false).word ≠ [] ∧
    (suggestList preEnv (on cfg) [] term).length = 2 ∧ (suggestList preEnv (off cfg) [] term).length = 1 ∧
    ¬ RawSame preEnv cfg [] term := by decide

/-- the unrestricted statement "same length with the option on and off" is false of the model -/
theorem c17_lists_false :
    ¬ ∀ (env : Env) (cfg : Cfg) (cache : Memo) (term : Str), (split term false).word ≠ [] →
      (suggestList env (on cfg) cache term).length = (suggestList env (off cfg) cache term).length := by
  intro h
  have := h idEnv { includeEnglish := true } [] ['"', 'e'] (by decide)
  revert this
  decide

/-- the model of the real transliterator (okkhor), empty dictionary -/
def okEnv : Env := { idEnv with convert := okConvert }

/-- the same COUNTER-EXAMPLE with the real Avro transliteration (finding): the backslash is not
    punctuation for `split` and has no Avro pattern, so typed `"\"` has the word part `\` which
    transliterates to itself.  Option off: one candidate `"\"`; option on: `“\”` and `"\"`. -/
theorem c17_lists_fails_okkhor :
    let cfg : Cfg := { includeEnglish := true }
    let term : Str := ['"', '\\', '"']
    (split term false).word ≠ [] ∧
    suggestList okEnv (on cfg) [] term = [Rank.last ['“', '\\', '”'] 2, Rank.last ['"', '\\', '"'] 3] ∧
    suggestList okEnv (off cfg) [] term = [Rank.last ['"', '\\', '"'] 2] := by decide +kernel

/-- the raw items for two outcomes of the tests are equal as soon as they are equally many -/
theorem rawItems_eq_of_length (env : Env) (cfg : Cfg) (term : Str) (a b a' b' : Bool)
    (h : (rawItems env cfg term a b).length = (rawItems env cfg term a' b').length) :
    rawItems env cfg term a b = rawItems env cfg term a' b' := by
  unfold rawItems at h ⊢
  by_cases hansi : cfg.ansi = true
  · simp [hansi]
  · simp only [hansi] at h ⊢
    cases hemo : env.emoticon term with
    | some e =>
      simp only [hemo] at h
      revert h; cases a <;> cases b <;> cases a' <;> cases b' <;> simp
    | none =>
      simp only [hemo] at h
      revert h; cases cfg.english <;> cases a <;> cases b <;> cases a' <;> cases b' <;> simp

/-- length of the phonetic list = number of wrapped candidates + number of raw items -/
theorem length_suggestList (env : Env) (cfg : Cfg) (cache : Memo) (term p w t : Str)
    (hpp : preparedParts env cfg term = ⟨p, w, t⟩) :
    (suggestList env cfg cache term).length =
      (coreItems env cfg cache term w).length +
        (rawItems env cfg term (term == p)
          ((coreItems env cfg cache term w).any (fun r => p ++ r.text ++ t == term))).length := by
  rw [suggestList_items env cfg cache term p w t hpp, List.length_map, (sortOn_perm _ _).length_eq]
  simp [phoneticItems]

/-- EXACTNESS of the side condition: for a non-empty word the two lists have the same length if
    and only if `RawSame` holds — so `c17_lists_partial` excludes exactly the inputs for which the
    property fails. -/
theorem c17_length_iff (env : Env) (cfg : Cfg) (cache : Memo) (term : Str)
    (hw : (split term false).word ≠ []) :
    (suggestList env (on cfg) cache term).length = (suggestList env (off cfg) cache term).length ↔
      RawSame env cfg cache term := by
  constructor
  · intro h
    have hw' : word term ≠ [] := hw
    have hon := length_suggestList env (on cfg) cache term _ _ _ (by rw [preparedParts_on, if_neg hw'])
    have hoff := length_suggestList env (off cfg) cache term _ _ _ (preparedParts_off env cfg term)
    rw [hon, hoff] at h
    exact rawItems_eq_of_length env cfg term _ _ _ _ (Nat.add_left_cancel h)
  · intro h
    exact (c17_lists_partial env cfg cache term hw h).1

/-! ## 4. the preselected index -/

/-- the word looked up in the selection store, the stored value found, the store afterwards and
    the memo afterwards are the same with the option on and off -/
theorem c17_stored_same (env : Env) (cfg : Cfg) (s : PState) (term : Str) :
    (preparedParts env (on cfg) term).word = (preparedParts env (off cfg) term).word ∧
    selectedFor env s.selections (preparedParts env (on cfg) term).word =
      selectedFor env s.selections (preparedParts env (off cfg) term).word ∧
    (suggest env (on cfg) s term).1.selections = (suggest env (off cfg) s term).1.selections ∧
    (suggest env (on cfg) s term).1.cache = (suggest env (off cfg) s term).1.cache := by
  have hwd : (preparedParts env (on cfg) term).word = (preparedParts env (off cfg) term).word := by
    rw [preparedParts_on, preparedParts_off]; split <;> rfl
  refine ⟨hwd, by rw [hwd], ?_, ?_⟩
  · simp only [suggest, getPrevSelection, hwd]
  · simp only [suggest, hwd]

/-- the preselected index is the first candidate equal to the remembered text wrapped in the punctuation (0 if none) -/
theorem suggest_sel (env : Env) (cfg : Cfg) (s : PState) (term p w t : Str)
    (hpp : preparedParts env cfg term = ⟨p, w, t⟩) :
    (suggest env cfg s term).2.2 =
      ((suggestList env cfg (memoFill env s.userAutocorrect s.cache w) term).findIdx?
        (fun r => r.text == p ++ (selectedFor env s.selections w).1 ++ t)).getD 0 := by
  simp only [suggest, getPrevSelection, hpp, wrapText]

/-- PARTIAL: the preselected index is the same with the option on and off, for a non-empty word,
    EXCLUDING (a) the inputs excluded by `c17_lists_partial` and (b) the inputs where a raw item
    (typed text, emoticon emoji) equals the stored value wrapped in curled punctuation but not in
    straight punctuation, or vice versa — see `c17_selection_differs`. -/
theorem c17_selection_partial (env : Env) (cfg : Cfg) (s : PState) (term : Str)
    (hw : (split term false).word ≠ [])
    (hraw : RawSame env cfg (memoFill env s.userAutocorrect s.cache (word term)) term)
    (hsel : ∀ x, (x = term ∨ env.emoticon term = some x) →
      (x = (lead env term).map openQuote ++ (selectedFor env s.selections (word term)).1 ++ (tail env term).map closeQuote ↔
       x = lead env term ++ (selectedFor env s.selections (word term)).1 ++ tail env term)) :
    (suggest env (on cfg) s term).2.2 = (suggest env (off cfg) s term).2.2 := by
  have hw' : word term ≠ [] := hw
  rw [suggest_sel env (on cfg) s term _ _ _ (by rw [preparedParts_on, if_neg hw']),
    suggest_sel env (off cfg) s term _ _ _ (preparedParts_off env cfg term)]
  obtain ⟨its, hon, hoff, hr⟩ := c17_items_partial env cfg _ term hw hraw
  rw [hon, hoff]
  congr 1
  apply findIdx?_map_congr
  intro a ha
  cases a with
  | core c =>
    simp only [Item.render, wrapR_text]
    rw [Bool.eq_iff_iff]
    simp only [beq_iff_eq, wrap_inj]
  | raw r =>
    simp only [Item.render]
    rw [Bool.eq_iff_iff]
    simp only [beq_iff_eq]
    apply hsel
    rcases hr r ha with h | h | ⟨e, he, h⟩
    · left; rw [h]; rfl
    · left; rw [h]; rfl
    · right; rw [h]; exact he

/-- a world where `e` transliterates to `এ` (everything else unchanged), empty dictionary -/
def bnEnv : Env :=
  { idEnv with convert := fun s => s.map (fun c => if c == 'e' then 'এ' else c) }

/-- COUNTER-EXAMPLE to "same preselection" (finding): the user once chose the raw English candidate
    `e` for the word `e`; English item on; typed text `"e`.  The two lists are fine (`RawSame`
    holds: `“এ`/`"এ` then the raw `"e`).  Option off: the remembered `e` wrapped in the straight
    quote is `"e` = the raw English item → index 1.  Option on: the target is `“e`, which is no
    candidate → index 0. -/
theorem c17_selection_differs :
    let cfg : Cfg := { includeEnglish := true }
    let s : PState := { selections := [(['e'], ['e'])] }
    let term : Str := ['"', 'e']
    RawSame bnEnv cfg (memoFill bnEnv s.userAutocorrect s.cache (word term)) term ∧
    (suggest bnEnv (on cfg) s term).2.1 = [Rank.last ['“', 'এ'] 2, Rank.last ['"', 'e'] 3] ∧
    (suggest bnEnv (off cfg) s term).2.1 = [Rank.last ['"', 'এ'] 2, Rank.last ['"', 'e'] 3] ∧
    (suggest bnEnv (on cfg) s term).2.2 = 0 ∧ (suggest bnEnv (off cfg) s term).2.2 = 1 := by decide

/-- the same COUNTER-EXAMPLE with the real Avro transliteration (`e` ↦ `এ`) -/
theorem c17_selection_differs_okkhor :
    let cfg : Cfg := { includeEnglish := true }
    let s : PState := { selections := [(['e'], ['e'])] }
    let term : Str := ['"', 'e']
    RawSame okEnv cfg (memoFill okEnv s.userAutocorrect s.cache (word term)) term ∧
    (suggest okEnv (on cfg) s term).2.1 = [Rank.last ['“', 'এ'] 2, Rank.last ['"', 'e'] 3] ∧
    (suggest okEnv (off cfg) s term).2.1 = [Rank.last ['"', 'এ'] 2, Rank.last ['"', 'e'] 3] ∧
    (suggest okEnv (on cfg) s term).2.2 = 0 ∧ (suggest okEnv (off cfg) s term).2.2 = 1 := by decide +kernel

/-- how the store entry `e ↦ e` of the counter-example arises: `e` typed, the English candidate
    (index 1, not the preselected 0) committed -/
example :
    let cfg : Cfg := { includeEnglish := true, phoneticSuggestion := true }
    let s1 := (pCreateSuggestion okEnv cfg { buffer := ['e'] }).1
    s1.suggestions = [Rank.last ['এ'] 2, Rank.last ['e'] 3] ∧ s1.prevSelection = 0 ∧
    (pCommit cfg s1 1).toOption.map (fun r => r.1.selections) = some [(['e'], ['e'])] := by decide +kernel

/-! ## 5. the fixed method -/

/-- the fixed method's unsorted candidates: typed word and hits, then emoji -/
theorem fixedCands_cands (env : Env) (cfg : Cfg) (s : FState) :
    (fixedCands env cfg s).cands =
      fixedBase env cfg (fixedParts cfg s.buffer) ++ fixedEmoji env cfg (fixedParts cfg s.buffer) s.typed := by
  simp only [fixedCands]; split <;> rfl

/-- the truncation length and the English item (`Last typed 1`, never wrapped) do not depend on
    the option -/
theorem c17_fixed_english (env : Env) (cfg : Cfg) (s : FState) :
    (fixedCands env (on cfg) s).keep = (fixedCands env (off cfg) s).keep ∧
    (fixedCands env (on cfg) s).english = (fixedCands env (off cfg) s).english ∧
    (fixedCands env (off cfg) s).english =
      if cfg.english && s.buffer != s.typed then some (Rank.last s.typed 1) else none := by
  have e : (on cfg).english = cfg.english := rfl
  have e' : (off cfg).english = cfg.english := rfl
  simp only [fixedCands, e, e']
  split <;> simp

/-- fixed method, non-empty word (NOT partial — no test of the fixed method looks at wrapped
    texts): the candidates handed to the sort with the option on and off are renderings of one list
    of tagged items — core items (typed word, dictionary hits, emoji found by name) inside curled
    resp. straight punctuation, the emoticon's emoji unchanged. -/
theorem c17_fixed_cands (env : Env) (cfg : Cfg) (s : FState) (hw : (split s.buffer true).word ≠ []) :
    ∃ its : List Item,
      (fixedCands env (on cfg) s).cands =
        its.map (Item.render ((split s.buffer true).pre.map openQuote) ((split s.buffer true).trail.map closeQuote)) ∧
      (fixedCands env (off cfg) s).cands =
        its.map (Item.render (split s.buffer true).pre (split s.buffer true).trail) ∧
      ∀ r, Item.raw r ∈ its → ∃ e, env.emoticon s.typed = some e ∧ r = Rank.emoji e Gen.emojiDefaultRank := by
  refine ⟨fixedItems env cfg (split s.buffer true).word s.typed, ?_, ?_, fun r hr => mem_fixedItems_raw hr⟩
  · have hp : fixedParts (on cfg) s.buffer =
        ⟨(split s.buffer true).pre.map openQuote, (split s.buffer true).word, (split s.buffer true).trail.map closeQuote⟩ := by
      have : (split s.buffer true).word.isEmpty = false := by
        cases h : (split s.buffer true).word with
        | nil => exact absurd h hw
        | cons a b => rfl
      simp [fixedParts, smartQuoter, this]
    rw [fixedCands_cands, hp, fixed_cands_eq]
    rfl
  · have hp : fixedParts (off cfg) s.buffer =
        ⟨(split s.buffer true).pre, (split s.buffer true).word, (split s.buffer true).trail⟩ := rfl
    rw [fixedCands_cands, hp, fixed_cands_eq]
    rfl

/-- fixed method: same number of candidates, same variants and rank numbers position by position,
    and — when the punctuation of the composed text contains no curly quote — the same texts after
    mapping curly quotes back -/
theorem c17_fixed_lists (env : Env) (cfg : Cfg) (s : FState) (hw : (split s.buffer true).word ≠ []) :
    let Con := (fixedCands env (on cfg) s).cands
    let Coff := (fixedCands env (off cfg) s).cands
    Con.length = Coff.length ∧
    Con.map (fun r => (r.variant, r.num)) = Coff.map (fun r => (r.variant, r.num)) ∧
    (NoCurly (split s.buffer true).pre → NoCurly (split s.buffer true).trail →
      Con.map (uncurl ∘ Rank.text) = Coff.map (uncurl ∘ Rank.text)) := by
  obtain ⟨its, hon, hoff, _⟩ := c17_fixed_cands env cfg s hw
  simp only [hon, hoff]
  refine ⟨by simp, ?_, ?_⟩
  · simp only [List.map_map]
    apply List.map_congr_left
    intro x _
    simp [Item.render_variant _ _ (split s.buffer true).pre (split s.buffer true).trail x,
      Item.render_num _ _ (split s.buffer true).pre (split s.buffer true).trail x]
  · intro hp ht
    simp only [List.map_map]
    apply List.map_congr_left
    intro x _
    cases x with
    | core c =>
      simp [Item.render, uncurl_map_openQuote hp, uncurl_map_closeQuote ht, uncurl_of_noCurly hp, uncurl_of_noCurly ht]
    | raw r => rfl

/-- since the ordering of the fixed method only looks at variant and number, every stable sort
    puts both candidate lists in the same order (stated for the model's `sortStable`; the real
    `sort_unstable` is unspecified among equal keys) -/
theorem c17_fixed_sorted (env : Env) (cfg : Cfg) (s : FState) (hw : (split s.buffer true).word ≠ []) :
    ∃ its : List Item,
      sortStable (fixedCands env (on cfg) s).cands =
        its.map (Item.render ((split s.buffer true).pre.map openQuote) ((split s.buffer true).trail.map closeQuote)) ∧
      sortStable (fixedCands env (off cfg) s).cands =
        its.map (Item.render (split s.buffer true).pre (split s.buffer true).trail) := by
  obtain ⟨its, hon, hoff, _⟩ := c17_fixed_cands env cfg s hw
  have := sortStable_render ((split s.buffer true).pre.map openQuote) ((split s.buffer true).trail.map closeQuote)
    (split s.buffer true).pre (split s.buffer true).trail its
  exact ⟨_, by rw [hon]; exact this.1, by rw [hoff]; exact this.2⟩

/-! ## 5b. the `NoCurly` hypotheses hold for the real transliterator and keyboard -/

/-- every character a key can contribute to the typed text is not a curly quote -/
theorem typed_char_noCurly (key : Nat) (ch : Char) (h : keycodeToChar key = some ch) :
    ch ∉ ['‘', '’', '“', '”'] := by
  have tbl : keyChar.all (fun p => !['‘', '’', '“', '”'].contains (Char.ofNat p.2)) = true := by decide
  have mem : ∀ (l : List (Nat × Nat)) v, alookup l key = some v → (key, v) ∈ l := by
    intro l
    induction l with
    | nil => intro v hv; simp [alookup] at hv
    | cons x xs ih =>
      intro v hv
      obtain ⟨k, w⟩ := x
      simp only [alookup] at hv
      split at hv
      · rename_i hk
        simp at hk hv
        subst hk; subst hv; simp
      · exact List.mem_cons_of_mem _ (ih v hv)
  unfold keycodeToChar at h
  split at h
  · rename_i c hc
    simp only [Option.some.injEq] at h
    subst h
    simp only [List.all_eq_true] at tbl
    simpa using tbl _ (mem _ _ hc)
  · simp at h

/-- the leading part of `split` consists of characters of the input -/
theorem split_pre_mem {input : Str} {ic : Bool} {c : Char} (h : c ∈ (split input ic).pre) : c ∈ input := by
  simp only [split] at h
  split at h
  · exact h
  · exact (List.takeWhile_sublist _).subset h

/-- the trailing part of `split` consists of characters of the input -/
theorem split_trail_mem {input : Str} {ic : Bool} {c : Char} (h : c ∈ (split input ic).trail) : c ∈ input := by
  simp only [split] at h
  split at h
  · simp at h
  · exact (List.dropWhile_sublist _).subset (List.mem_of_mem_drop h)

/-- with the okkhor transliterator the punctuation around the word never contains a curly quote
    when the typed text does not (and typed text never does, `typed_char_noCurly`) -/
theorem okkhor_punct_noCurly (env : Env) (henv : env.convert = okConvert) (term : Str) (h : NoCurly term) :
    NoCurly (lead env term) ∧ NoCurly (tail env term) := by
  simp only [lead, tail, henv]
  exact ⟨okConvert_noCurly (fun c hc => h c (split_pre_mem hc)),
    okConvert_noCurly (fun c hc => h c (split_trail_mem hc))⟩

/-- PARTIAL (same exclusion as `c17_lists_partial`), real transliterator: for every typed text,
    the candidate texts with the option on and off agree after mapping curly quotes back — no
    further hypothesis on the punctuation -/
theorem c17_uncurl_okkhor_partial (env : Env) (henv : env.convert = okConvert) (cfg : Cfg) (cache : Memo)
    (term : Str) (hterm : NoCurly term)
    (hraw : (split term false).word ≠ [] → RawSame env cfg cache term) :
    (suggestList env (on cfg) cache term).map (uncurl ∘ Rank.text) =
      (suggestList env (off cfg) cache term).map (uncurl ∘ Rank.text) :=
  c17_uncurl_all_partial env cfg cache term hraw
    (okkhor_punct_noCurly env henv term hterm).1 (okkhor_punct_noCurly env henv term hterm).2

/-! ## 6. non-vacuity -/

/-- a world with dictionary words, a suffix, an auto-correction, an emoji name and an emoticon -/
def richEnv : Env :=
  { convert := fun s => s.map (fun c => if c == 'a' then 'আ' else if c == 'm' then 'ম' else if c == 'i' then 'ি' else c)
    dictPhonetic := fun w => if w == ['a', 'm', 'i'] then some [['আ', 'ম', 'ি'], ['আ', 'ম', 'ী']] else some []
    suffix := fun _ => none
    autocorrect := fun w => if w == ['a', 'm', 'i'] then some ['a', 'm'] else none
    emoticon := fun w => if w == ['\'', 'x', 'D', '\''] || w == ['\'', 'a', 'm', 'i', '\''] then some ['😆'] else none
    emojiByName := fun w => if w == ['a', 'm', 'i'] then some [['🙂']] else none
    emojiBengali := fun w => if w == ['আ'] then some [['🙂']] else none
    bijoy := fun s => .ok s, fixedTable := fun _ => [] }

/-- non-vacuity of `c17_lists_partial` / `c17_uncurl_partial`: typed `("ami'`, English on.  The
    hypotheses hold and the two lists really differ (only) in the quotes. -/
example :
    let cfg : Cfg := { includeEnglish := true }
    let term : Str := "(\"ami'".toList
    let cache := memoFill richEnv [] [] (word term)
    (split term false).word ≠ [] ∧ RawSame richEnv cfg cache term ∧
    NoCurly (lead richEnv term) ∧ NoCurly (tail richEnv term) ∧
    (suggestList richEnv (on cfg) cache term).map Rank.text =
      ["(“আম’", "(“আমি’", "(“🙂’", "(“আমী’", "(\"ami'"].map String.toList ∧
    (suggestList richEnv (off cfg) cache term).map Rank.text =
      ["(\"আম'", "(\"আমি'", "(\"🙂'", "(\"আমী'", "(\"ami'"].map String.toList := by decide

/-- non-vacuity, emoticon branch: typed `'ami'` is (in this world) an emoticon; the typed text and
    the emoji are raw items, identical in both lists, while the transliteration is curled -/
example :
    let cfg : Cfg := {}
    let term : Str := "'ami'".toList
    (split term false).word ≠ [] ∧ RawSame richEnv cfg [] term ∧
    (suggestList richEnv (on cfg) [] term).map Rank.text = ["😆", "'ami'", "‘আমি’"].map String.toList ∧
    (suggestList richEnv (off cfg) [] term).map Rank.text = ["😆", "'ami'", "'আমি'"].map String.toList := by decide

/-- the collision also happens on the emoticon path (finding): `'xD'` is an emoticon whose word
    part `xD` transliterates to itself; option off: the wrapped transliteration `'xD'` is the typed
    text, pushed once; option on: `‘xD’` and the typed text `'xD'` are both listed -/
theorem c17_lists_fails_emoticon :
    let term : Str := "'xD'".toList
    (split term false).word ≠ [] ∧ ¬ RawSame richEnv {} [] term ∧
    (suggestList richEnv (on {}) [] term).map Rank.text = ["😆", "'xD'", "‘xD’"].map String.toList ∧
    (suggestList richEnv (off {}) [] term).map Rank.text = ["😆", "'xD'"].map String.toList := by decide

/-- non-vacuity of `c17_selection_partial`: a remembered choice is found at the same index -/
example :
    let cfg : Cfg := { includeEnglish := true }
    let s : PState := { selections := [("ami".toList, "আমী".toList)] }
    let term : Str := "\"ami\"".toList
    (split term false).word ≠ [] ∧
    RawSame richEnv cfg (memoFill richEnv s.userAutocorrect s.cache (word term)) term ∧
    (∀ x, (x = term ∨ richEnv.emoticon term = some x) →
      (x = (lead richEnv term).map openQuote ++ (selectedFor richEnv s.selections (word term)).1 ++ (tail richEnv term).map closeQuote ↔
       x = lead richEnv term ++ (selectedFor richEnv s.selections (word term)).1 ++ tail richEnv term)) ∧
    (suggest richEnv (on cfg) s term).2.2 = 3 ∧ (suggest richEnv (off cfg) s term).2.2 = 3 := by
  refine ⟨by decide, by decide, ?_, by decide, by decide⟩
  intro x hx
  rcases hx with rfl | h
  · decide
  · revert h; decide +revert

/-- non-vacuity of `c17_punct_only`: `"` alone has no word part -/
example : (split ['"'] false).word = [] ∧
    suggestList idEnv (on {}) [] ['"'] = [Rank.last ['"'] 2] := by decide

/-- non-vacuity of `c17_fixed_cands`: composed text `"আ"`, typed keys `"f"` (`dedupAdjacent` is
    defined by well-founded recursion, so this one is not a plain `decide`) -/
example :
    let s : FState := { rbuf := "\"আ\"".toList.reverse, rtyped := "\"f\"".toList.reverse }
    let cfg : Cfg := { includeEnglish := true }
    (split s.buffer true).word ≠ [] ∧
    (fixedCands richEnv (on cfg) s).cands.map Rank.text = ["“আ”", "“🙂”"].map String.toList ∧
    (fixedCands richEnv (off cfg) s).cands.map Rank.text = ["\"আ\"", "\"🙂\""].map String.toList ∧
    (fixedCands richEnv (on cfg) s).english = some (Rank.last "\"f\"".toList 1) := by
  intro s cfg
  have hh : ∀ c, fixedHits richEnv c ['আ'] = [] := by
    intro c; simp only [fixedHits, richEnv]; split <;> rfl
  have hd : ∀ x : Rank, dedupAdjacent [x] = [x] := fun x => by simp [dedupAdjacent]
  have hon : fixedParts (on cfg) s.buffer = ⟨['“'], ['আ'], ['”']⟩ := by decide
  have hoff : fixedParts (off cfg) s.buffer = ⟨['"'], ['আ'], ['"']⟩ := by decide
  refine ⟨by decide, ?_, ?_, by decide⟩
  · rw [fixedCands_cands, hon, fixedBase, hh, hd]; decide
  · rw [fixedCands_cands, hoff, fixedBase, hh, hd]; decide

end Riti.C17
