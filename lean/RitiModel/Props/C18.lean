/-
Props/C18 — emoji candidates.  Outside ANSI mode an emoticon offers its emoji (and, phonetic, the
typed text stays available); an English (phonetic) / Bengali (fixed) emoji name offers all emoji
listed for it, in table order, wrapped in the punctuation of the word; emoji never remove or
reorder the other candidates.

The three tables (`Env.emoticon`, `Env.emojiByName`, `Env.emojiBengali`) are parameters: every
theorem is stated for EVERY table.  Part A: phonetic method.  Part B: fixed method (any admissible
`sort_unstable` ordering, then truncation).  Part C: witnesses and non-vacuity.
-/
import RitiModel.Model.Context
import RitiModel.Lemmas.Rank
import RitiModel.Lemmas.Phonetic
import RitiModel.Lemmas.Sort
import RitiModel.Lemmas.FixedSuggest
import RitiModel.Lemmas.Emoji
import RitiModel.Props.C07
namespace Riti.C18
open Riti Riti.Gen

/-! ## A. phonetic method -/

/-- the emoji items built for a name: the listed emoji, wrapped, numbered 1, 2, 3, … -/
def emojiItems (parts : Parts) (es : List Str) : List Rank :=
  (es.zipIdx 1).map (fun p => Rank.emoji (wrapText parts.pre parts.trail p.1) p.2)

/-- the texts of the emoji items are the listed emoji, wrapped, in table order -/
theorem emojiItems_text (parts : Parts) (es : List Str) :
    (emojiItems parts es).map Rank.text = es.map (wrapText parts.pre parts.trail) := by
  unfold emojiItems
  rw [List.map_map]
  have : (Rank.text ∘ fun p : Str × Nat => Rank.emoji (wrapText parts.pre parts.trail p.1) p.2) =
      (wrapText parts.pre parts.trail) ∘ Prod.fst := rfl
  rw [this, ← List.map_map, List.zipIdx_map_fst]

/-- the emoji items are `Emoji` items -/
theorem emojiItems_variant {parts : Parts} {es : List Str} {r : Rank} (h : r ∈ emojiItems parts es) :
    r.variant = .emoji := by
  obtain ⟨p, _, rfl⟩ := List.mem_map.mp h
  rfl

/-- the emoji stage when an emoticon matched: the typed text as `Last _ 1` (unless it is the
    leading punctuation), then the emoji; the "typed text added" flag is set -/
theorem emojiStage_emoticon {env : Env} {cfg : Cfg} {term : Str} {parts : Parts} {l : List Rank} {e : Str}
    (hansi : cfg.ansi = false) (he : env.emoticon term = some e) :
    emojiStage env cfg term parts l =
      ((if term != parts.pre then pushChecked l (Rank.last term 1) else l) ++ [Rank.emoji e 1], true) := by
  simp [emojiStage, hansi, he, emojiDefaultRank]

/-- the emoji stage when no emoticon matched but the word is an emoji name -/
theorem emojiStage_names {env : Env} {cfg : Cfg} {term : Str} {parts : Parts} {l : List Rank} {es : List Str}
    (hansi : cfg.ansi = false) (he : env.emoticon term = none) (hes : env.emojiByName parts.word = some es) :
    emojiStage env cfg term parts l = (l ++ emojiItems parts es, false) := by
  simp only [emojiStage, hansi, he, hes, emojiItems]
  rfl

/-- the emoji stage when neither matched (or in ANSI mode): nothing is added -/
theorem emojiStage_none {env : Env} {cfg : Cfg} {term : Str} {parts : Parts} {l : List Rank}
    (h : cfg.ansi = true ∨ (env.emoticon term = none ∧ env.emojiByName parts.word = none)) :
    emojiStage env cfg term parts l = (l, false) := by
  rcases h with h | ⟨h1, h2⟩
  · simp [emojiStage, h]
  · unfold emojiStage
    split
    · rfl
    · simp [h1, h2]

/-- the unsorted list in the emoticon branch: the raw English item (`Last _ 3`) is NOT pushed,
    whatever the English option says (`typed_added`) -/
theorem unsorted_emoticon {env : Env} {cfg : Cfg} {cache : Memo} {term : Str} {e : Str}
    (hansi : cfg.ansi = false) (he : env.emoticon term = some e) :
    C07.unsorted env cfg cache term =
      (if term != (preparedParts env cfg term).pre
        then pushChecked (dictList env cache (preparedParts env cfg term)) (Rank.last term 1)
        else dictList env cache (preparedParts env cfg term)) ++ [Rank.emoji e 1] := by
  simp [C07.unsorted, addExtras, emojiStage_emoticon hansi he]

/-- typing an emoticon of the table offers its emoji — every table, memo and option vector outside ANSI mode -/
theorem emoticon_emoji_offered (env : Env) (cfg : Cfg) (cache : Memo) (term e : Str)
    (hansi : cfg.ansi = false) (he : env.emoticon term = some e) :
    e ∈ (suggestList env cfg cache term).map Rank.text := by
  refine List.mem_map.mpr ⟨Rank.emoji e 1, ?_, rfl⟩
  rw [C07.suggestList_eq, mem_sortStable, unsorted_emoticon hansi he]
  simp

/-- the prepared parts of a text that is all punctuation: its transliteration, an empty word and
    the transliteration of the empty text (smart quoting does nothing when the word is empty) -/
theorem preparedParts_all_meta (env : Env) (cfg : Cfg) (term : Str) (h : term.all isMeta = true) :
    preparedParts env cfg term = ⟨env.convert term, [], env.convert []⟩ := by
  unfold preparedParts
  simp only [split_of_all_meta term false h]
  split <;> simp [smartQuoter]

/-- the transliteration item of the dictionary stage is always a candidate text -/
theorem translit_mem_dictList (env : Env) (cache : Memo) (parts : Parts) :
    wrapText parts.pre parts.trail (env.convert parts.word) ∈ (dictList env cache parts).map Rank.text := by
  obtain ⟨x, hx, hxt⟩ := exists_text_pushChecked ((addSuffix env cache parts.word).foldl pushChecked [])
    (.last (env.convert parts.word) 2)
  refine List.mem_map.mpr ⟨wrapOne parts x, ?_, ?_⟩
  · unfold dictList; exact mem_wrapAll_of_mem hx
  · rw [wrapOne_text, hxt]; rfl

/-- when the typed text is all punctuation and equals its own transliteration, it is the
    transliteration candidate -/
theorem typed_mem_dictList_of_all_meta (env : Env) (cfg : Cfg) (cache : Memo) (term : Str)
    (hnil : env.convert [] = []) (hall : term.all isMeta = true)
    (hpre : term = (preparedParts env cfg term).pre) :
    term ∈ (dictList env cache (preparedParts env cfg term)).map Rank.text := by
  have h := translit_mem_dictList env cache (preparedParts env cfg term)
  rw [preparedParts_all_meta env cfg term hall] at h hpre ⊢
  simp only [hnil, wrapText, List.append_nil] at h hpre ⊢
  rw [← hpre] at h ⊢
  exact h

/-- `PunctFaithful`: the transliterated leading punctuation reproduces the WHOLE typed text only if
    the whole text is punctuation.  (The code tests `term != preceding` against the transliterated
    part; this says the test means what its comment says.) -/
def PunctFaithful (env : Env) (cfg : Cfg) (term : Str) : Prop :=
  term = (preparedParts env cfg term).pre → term.all isMeta = true

instance (env : Env) (cfg : Cfg) (term : Str) : Decidable (PunctFaithful env cfg term) := by
  unfold PunctFaithful; exact inferInstance

/-- `PunctFaithful` holds whenever transliterating the leading punctuation does not make it longer -/
theorem punctFaithful_of_length (env : Env) (cfg : Cfg) (term : Str)
    (hlen : (env.convert (term.takeWhile isMeta)).length ≤ (term.takeWhile isMeta).length) :
    PunctFaithful env cfg term := by
  intro hpre
  apply all_meta_of_takeWhile_length
  have h1 : (preparedParts env cfg term).pre.length = (env.convert (term.takeWhile isMeta)).length := by
    unfold preparedParts
    simp only [split_pre]
    split
    · unfold smartQuoter; split <;> simp
    · rfl
  have h2 : term.length = (preparedParts env cfg term).pre.length := congrArg List.length hpre
  omega

/-- the concrete okkhor transliteration is `PunctFaithful` for every typed text and option vector
    (it never lengthens punctuation: `okConvert_meta_length`, from the generated pattern table) -/
theorem punctFaithful_okkhor (env : Env) (cfg : Cfg) (term : Str) (hconv : env.convert = okConvert) :
    PunctFaithful env cfg term :=
  punctFaithful_of_length env cfg term (by rw [hconv]; exact okConvert_meta_length _ (all_takeWhile _ _))

/-- typing an emoticon of the table offers its emoji AND keeps the literal typed text available:
    either as the pushed `Last term 1` item (or an earlier candidate with that very text), or —
    when the text was captured as leading punctuation, so that nothing is pushed — as the
    transliteration candidate.  For every table, memo and option vector outside ANSI mode, for
    every `convert` with `convert "" = ""` and `PunctFaithful`; `emoticon_text_lost` shows that
    the literal text IS lost for a transliteration violating `PunctFaithful`. -/
theorem emoticon_offered (env : Env) (cfg : Cfg) (cache : Memo) (term e : Str)
    (hansi : cfg.ansi = false) (hnil : env.convert [] = []) (hpf : PunctFaithful env cfg term)
    (he : env.emoticon term = some e) :
    e ∈ (suggestList env cfg cache term).map Rank.text ∧
      term ∈ (suggestList env cfg cache term).map Rank.text := by
  refine ⟨emoticon_emoji_offered env cfg cache term e hansi he, ?_⟩
  have hperm : ∀ t, t ∈ (C07.unsorted env cfg cache term).map Rank.text →
      t ∈ (suggestList env cfg cache term).map Rank.text := by
    intro t ht
    obtain ⟨x, hx, rfl⟩ := List.mem_map.mp ht
    exact List.mem_map.mpr ⟨x, mem_sortStable.mpr hx, rfl⟩
  apply hperm
  rw [unsorted_emoticon hansi he]
  by_cases hpre : term = (preparedParts env cfg term).pre
  · have hm := typed_mem_dictList_of_all_meta env cfg cache term hnil (hpf hpre) hpre
    have hb : (term != (preparedParts env cfg term).pre) = false := by simpa using hpre
    rw [hb]
    simp only [Bool.false_eq_true, if_false, List.map_append, List.mem_append]
    exact Or.inl hm
  · have hb : (term != (preparedParts env cfg term).pre) = true := by simpa using hpre
    rw [hb]
    simp only [if_true, List.map_append, List.mem_append]
    obtain ⟨x, hx, hxt⟩ := exists_text_pushChecked (dictList env cache (preparedParts env cfg term)) (Rank.last term 1)
    exact Or.inl (List.mem_map.mpr ⟨x, hx, hxt⟩)

/-- `emoticon_offered` for the real transliteration (the okkhor model): no side condition left —
    every emoticon table, memo, typed text and option vector outside ANSI mode -/
theorem emoticon_offered_okkhor (env : Env) (cfg : Cfg) (cache : Memo) (term e : Str)
    (hconv : env.convert = okConvert) (hansi : cfg.ansi = false) (he : env.emoticon term = some e) :
    e ∈ (suggestList env cfg cache term).map Rank.text ∧
      term ∈ (suggestList env cfg cache term).map Rank.text :=
  emoticon_offered env cfg cache term e hansi (by rw [hconv]; rfl) (punctFaithful_okkhor env cfg term hconv) he

/-- when the text is not all captured as leading punctuation no hypothesis on `convert` is needed -/
theorem emoticon_offered_of_ne_pre (env : Env) (cfg : Cfg) (cache : Memo) (term e : Str)
    (hansi : cfg.ansi = false) (hne : term ≠ (preparedParts env cfg term).pre)
    (he : env.emoticon term = some e) :
    e ∈ (suggestList env cfg cache term).map Rank.text ∧
      term ∈ (suggestList env cfg cache term).map Rank.text := by
  refine ⟨emoticon_emoji_offered env cfg cache term e hansi he, ?_⟩
  obtain ⟨x, hx, hxt⟩ := exists_text_pushChecked (dictList env cache (preparedParts env cfg term)) (Rank.last term 1)
  refine List.mem_map.mpr ⟨x, ?_, hxt⟩
  rw [C07.suggestList_eq, mem_sortStable, unsorted_emoticon hansi he]
  have hb : (term != (preparedParts env cfg term).pre) = true := by simpa using hne
  simp [hb, hx]

/-! ### emoji names -/

/-- the unsorted list when no emoticon matched and the word is an emoji name: dictionary stage,
    emoji items, then possibly the raw English text -/
theorem unsorted_names {env : Env} {cfg : Cfg} {cache : Memo} {term : Str} {es : List Str}
    (hansi : cfg.ansi = false) (he : env.emoticon term = none)
    (hes : env.emojiByName (preparedParts env cfg term).word = some es) :
    C07.unsorted env cfg cache term =
      (if cfg.english && term != (preparedParts env cfg term).pre
        then pushChecked (dictList env cache (preparedParts env cfg term) ++ emojiItems (preparedParts env cfg term) es)
          (Rank.last term 3)
        else dictList env cache (preparedParts env cfg term) ++ emojiItems (preparedParts env cfg term) es) := by
  simp [C07.unsorted, addExtras, emojiStage_names hansi he hes]

/-- the emoji items are a sub-sequence of the sorted list, in table order -/
theorem emojiItems_sublist (env : Env) (cfg : Cfg) (cache : Memo) (term : Str) (es : List Str)
    (hansi : cfg.ansi = false) (he : env.emoticon term = none)
    (hes : env.emojiByName (preparedParts env cfg term).word = some es) :
    (emojiItems (preparedParts env cfg term) es).Sublist (suggestList env cfg cache term) := by
  rw [C07.suggestList_eq]
  apply sortStable_sublist_of_pairwise_eq
  · intro a ha b hb
    have h1 := emojiItems_variant ha
    have h2 := emojiItems_variant hb
    cases a <;> cases b <;> simp [Rank.variant] at h1 h2
    rfl
  · rw [unsorted_names hansi he hes]
    have h0 : (emojiItems (preparedParts env cfg term) es).Sublist
        (dictList env cache (preparedParts env cfg term) ++ emojiItems (preparedParts env cfg term) es) :=
      List.sublist_append_right _ _
    split
    · exact h0.trans (pushChecked_prefix _ _).sublist
    · exact h0

/-- typing an English emoji name offers ALL emoji listed for it, in table order, each wrapped in
    the (transliterated, smart-quoted) punctuation around the word — for every table, memo and
    option vector outside ANSI mode.  (An emoticon match takes precedence: `he`.) -/
theorem names_offered (env : Env) (cfg : Cfg) (cache : Memo) (term : Str) (es : List Str)
    (hansi : cfg.ansi = false) (he : env.emoticon term = none)
    (hes : env.emojiByName (preparedParts env cfg term).word = some es) :
    (es.map (wrapText (preparedParts env cfg term).pre (preparedParts env cfg term).trail)).Sublist
      ((suggestList env cfg cache term).map Rank.text) := by
  rw [← emojiItems_text]
  exact (emojiItems_sublist env cfg cache term es hansi he hes).map Rank.text

/-- with a clean memo (every reachable memo) the emoji candidates are EXACTLY the listed emoji,
    in table order, the `i`-th carrying the number `i` -/
theorem names_exact (env : Env) (cfg : Cfg) (cache : Memo) (term : Str) (es : List Str)
    (hclean : MemoClean cache) (hansi : cfg.ansi = false) (he : env.emoticon term = none)
    (hes : env.emojiByName (preparedParts env cfg term).word = some es) :
    (suggestList env cfg cache term).filter (fun r => r.variant == .emoji) =
      emojiItems (preparedParts env cfg term) es := by
  rw [C07.suggestList_eq, sortStable_filter_emoji, unsorted_names hansi he hes]
  have hD : (dictList env cache (preparedParts env cfg term)).filter (fun r => r.variant == .emoji) = [] := by
    rw [List.filter_eq_nil_iff]
    intro r hr
    simpa using C07.dictList_no_emoji hclean r hr
  have hE : (emojiItems (preparedParts env cfg term) es).filter (fun r => r.variant == .emoji) =
      emojiItems (preparedParts env cfg term) es := by
    rw [List.filter_eq_self]
    intro r hr
    simp [emojiItems_variant hr]
  split
  · unfold pushChecked
    split
    · rw [List.filter_append, hD, hE]; rfl
    · rw [List.filter_append, List.filter_append, hD, hE]; simp [Rank.variant]
  · rw [List.filter_append, hD, hE]; rfl

/-! ### emoji never disturb the other candidates -/

/-- the environment with both phonetic emoji sources switched off -/
def noEmoji (env : Env) : Env := { env with emoticon := fun _ => none, emojiByName := fun _ => none }

/-- the unsorted list without emoji sources: dictionary stage, then possibly the raw English text -/
theorem unsorted_noEmoji (env : Env) (cfg : Cfg) (cache : Memo) (term : Str) :
    C07.unsorted (noEmoji env) cfg cache term =
      (if cfg.english && term != (preparedParts env cfg term).pre
        then pushChecked (dictList env cache (preparedParts env cfg term)) (Rank.last term 3)
        else dictList env cache (preparedParts env cfg term)) := by
  have hp : preparedParts (noEmoji env) cfg term = preparedParts env cfg term := rfl
  have hd : ∀ parts, dictList (noEmoji env) cache parts = dictList env cache parts := fun _ => rfl
  have hs : ∀ l, emojiStage (noEmoji env) cfg term (preparedParts env cfg term) l = (l, false) := by
    intro l
    unfold emojiStage
    split
    · rfl
    · rfl
  simp only [C07.unsorted, addExtras, hp, hd, hs]
  simp

/-- `EnglishNotEmoji`: with the English option on, no emoji offered for the word has (wrapped)
    exactly the typed text as its text.  (Emoji are appended before the raw English text is
    `push_checked`, so such an emoji would suppress the English item.) -/
def EnglishNotEmoji (env : Env) (cfg : Cfg) (term : Str) : Prop :=
  cfg.english = true → ∀ es, env.emojiByName (preparedParts env cfg term).word = some es →
    term ∉ es.map (wrapText (preparedParts env cfg term).pre (preparedParts env cfg term).trail)

/-- emoji are transparent: when no emoticon matched, deleting the emoji candidates from the list
    gives exactly the list computed with both emoji tables switched off — same items, same order.
    For every table, option vector (ANSI or not) and every clean memo (`MemoClean`: every memo the
    engine can reach; a memo holding an emoji item is `emoji_transparent_needs_clean`), under
    `EnglishNotEmoji` (else `emoji_transparent_english_fails`).  No `RanksSeparated`-style
    hypothesis is needed: the pipeline numbers its emoji in ascending order, and that is enough
    (`sortStable_filter_nonEmoji`) although the comparator is not transitive. -/
theorem emoji_transparent_partial (env : Env) (cfg : Cfg) (cache : Memo) (term : Str)
    (hclean : MemoClean cache) (he : env.emoticon term = none) (hen : EnglishNotEmoji env cfg term) :
    (suggestList env cfg cache term).filter (fun r => r.variant != .emoji) =
      suggestList (noEmoji env) cfg cache term := by
  rw [C07.suggestList_eq, C07.suggestList_eq]
  have h1 := sortStable_filter_nonEmoji _ (C07.unsorted_emojiAscending env cfg cache term hclean)
  refine h1.trans (congrArg sortStable ?_)
  rw [unsorted_noEmoji]
  have hD : (dictList env cache (preparedParts env cfg term)).filter nonEmoji =
      dictList env cache (preparedParts env cfg term) := by
    rw [List.filter_eq_self]
    intro r hr
    simpa [nonEmoji] using C07.dictList_no_emoji hclean r hr
  by_cases hansi : cfg.ansi = true
  · have hs := emojiStage_none (env := env) (cfg := cfg) (term := term) (parts := preparedParts env cfg term)
      (l := dictList env cache (preparedParts env cfg term)) (Or.inl hansi)
    have heng : cfg.english = false := by simp [Cfg.english, hansi]
    simp only [C07.unsorted, addExtras, hs, heng]
    simpa using hD
  · have hansi' : cfg.ansi = false := by simpa using hansi
    cases hes : env.emojiByName (preparedParts env cfg term).word with
    | none =>
      have hs := emojiStage_none (env := env) (cfg := cfg) (term := term) (parts := preparedParts env cfg term)
        (l := dictList env cache (preparedParts env cfg term)) (Or.inr ⟨he, hes⟩)
      simp only [C07.unsorted, addExtras, hs]
      have hb : (!false) = true := rfl
      simp only [hb, Bool.and_true]
      split
      · rw [filter_pushChecked nonEmoji _ _ rfl, hD]
        intro x hx hpx
        rw [List.filter_eq_self] at hD
        rw [hD x hx] at hpx
        cases hpx
      · exact hD
    | some es =>
      rw [unsorted_names hansi' he hes]
      have hE : (emojiItems (preparedParts env cfg term) es).filter nonEmoji = [] := by
        rw [List.filter_eq_nil_iff]
        intro r hr
        simp [nonEmoji, emojiItems_variant hr]
      split
      · rename_i hcond
        have heng : cfg.english = true := by
          simp only [Bool.and_eq_true] at hcond; exact hcond.1
        rw [filter_pushChecked nonEmoji _ _ rfl, List.filter_append, hD, hE, List.append_nil]
        intro x hx hpx
        rcases List.mem_append.mp hx with hx | hx
        · rw [List.filter_eq_self] at hD
          rw [hD x hx] at hpx
          cases hpx
        · intro hxt
          apply hen heng es hes
          rw [← emojiItems_text]
          exact List.mem_map.mpr ⟨x, hx, hxt⟩
      · rw [List.filter_append, hD, hE, List.append_nil]

/-- the same for the list `suggest` returns from any state whose memo is clean (every reachable state) -/
theorem emoji_transparent_suggest (env : Env) (cfg : Cfg) (s : PState) (term : Str)
    (hclean : MemoClean s.cache) (he : env.emoticon term = none) (hen : EnglishNotEmoji env cfg term) :
    (suggest env cfg s term).2.1.filter (fun r => r.variant != .emoji) = (suggest (noEmoji env) cfg s term).2.1 :=
  emoji_transparent_partial env cfg (memoFill env s.userAutocorrect s.cache (preparedParts env cfg term).word) term
    (memoClean_fill _ _ _ _ hclean) he hen

/-- … in particular whenever the English option is off -/
theorem emoji_transparent_no_english (env : Env) (cfg : Cfg) (cache : Memo) (term : Str)
    (hclean : MemoClean cache) (he : env.emoticon term = none) (heng : cfg.english = false) :
    (suggestList env cfg cache term).filter (fun r => r.variant != .emoji) =
      suggestList (noEmoji env) cfg cache term :=
  emoji_transparent_partial env cfg cache term hclean he (fun h => by rw [heng] at h; cases h)

/-- what changes in the emoticon branch: besides the emoji, the typed text is offered as `Last _ 1`
    and the raw English item `Last _ 3` is NOT added whatever the option says (`typed_added`); the
    dictionary-stage candidates are untouched and keep their order -/
theorem emoji_transparent_emoticon (env : Env) (cfg : Cfg) (cache : Memo) (term e : Str)
    (hclean : MemoClean cache) (hansi : cfg.ansi = false) (he : env.emoticon term = some e) :
    (suggestList env cfg cache term).filter (fun r => r.variant != .emoji) =
      sortStable (if term != (preparedParts env cfg term).pre
        then pushChecked (dictList env cache (preparedParts env cfg term)) (Rank.last term 1)
        else dictList env cache (preparedParts env cfg term)) ∧
    suggestList (noEmoji env) cfg cache term =
      sortStable (if cfg.english && term != (preparedParts env cfg term).pre
        then pushChecked (dictList env cache (preparedParts env cfg term)) (Rank.last term 3)
        else dictList env cache (preparedParts env cfg term)) := by
  refine ⟨?_, by rw [C07.suggestList_eq, unsorted_noEmoji]⟩
  rw [C07.suggestList_eq]
  have h1 := sortStable_filter_nonEmoji _ (C07.unsorted_emojiAscending env cfg cache term hclean)
  refine h1.trans (congrArg sortStable ?_)
  rw [unsorted_emoticon hansi he]
  have hD : ∀ r ∈ dictList env cache (preparedParts env cfg term), nonEmoji r = true := by
    intro r hr
    simpa [nonEmoji] using C07.dictList_no_emoji hclean r hr
  rw [List.filter_append]
  have h2 : [Rank.emoji e 1].filter nonEmoji = [] := rfl
  rw [h2, List.append_nil, List.filter_eq_self]
  intro r hr
  split at hr
  · rcases mem_pushChecked hr with h | h
    · exact hD r h
    · subst h; rfl
  · exact hD r hr

/-! ## B. fixed method -/

/-- the list `create_dictionary_suggestion` stores and shows (`C15.shown_is_returned`: the returned
    suggestion lists exactly its texts) -/
abbrev shown (w : World) (cfg : Cfg) (s : FState) : List Rank := (fDictSuggestion w cfg s).1.suggestions

/-- the returned suggestion lists exactly the texts of `shown` -/
theorem shown_is_returned (w : World) (cfg : Cfg) (s : FState) :
    (fDictSuggestion w cfg s).2 = .full s.buffer ((shown w cfg s).map Rank.text) 0 cfg.ansi := rfl

/-- fixed method, emoticon typed (raw keys): the single emoji item, numbered 1 -/
theorem fixedEmoji_emoticon {env : Env} {cfg : Cfg} {parts : Parts} {typed e : Str}
    (hansi : cfg.ansi = false) (he : env.emoticon typed = some e) :
    fixedEmoji env cfg parts typed = [Rank.emoji e 1] := by
  simp [fixedEmoji, hansi, he, emojiDefaultRank]

/-- fixed method, no emoticon: the Bengali name table is asked for the word WITHOUT its ZWNJs, and
    every listed emoji becomes an item, wrapped, numbered 1, 2, 3, … -/
theorem fixedEmoji_names {env : Env} {cfg : Cfg} {parts : Parts} {typed : Str} {es : List Str}
    (hansi : cfg.ansi = false) (he : env.emoticon typed = none)
    (hes : env.emojiBengali (parts.word.filter (fun c => c != cZWNJ)) = some es) :
    fixedEmoji env cfg parts typed = emojiItems parts es := by
  simp only [fixedEmoji, hansi, he, hes, emojiItems]
  rfl

/-- the name look-up ignores ZWNJ (the clause repaired by fix commit 0b3a934): two words that
    differ only in ZWNJs, in the same punctuation, get the same emoji items -/
theorem fixed_name_lookup_ignores_zwnj (env : Env) (cfg : Cfg) (p q : Parts) (typed : Str)
    (hpre : p.pre = q.pre) (htrail : p.trail = q.trail)
    (hw : p.word.filter (fun c => c != cZWNJ) = q.word.filter (fun c => c != cZWNJ)) :
    fixedEmoji env cfg p typed = fixedEmoji env cfg q typed := by
  simp only [fixedEmoji, hpre, htrail, hw]

/-- in particular the word as composed under traditional joining (ZWNJ before `ু ূ ৃ`) finds the
    emoji of the plain dictionary spelling -/
theorem fixed_name_lookup_tradKar (env : Env) (cfg : Cfg) (pre trail d typed : Str) :
    fixedEmoji env cfg ⟨pre, tradKarWord d, trail⟩ typed = fixedEmoji env cfg ⟨pre, d, trail⟩ typed :=
  fixed_name_lookup_ignores_zwnj env cfg _ _ typed rfl rfl (tradKar_strip d)

/-- a dictionary hit stands at or before an emoji item exactly when its number is not larger -/
theorem other_le_emoji {y x : Rank} (hy : y.variant = .other) (hx : x.variant = .emoji) :
    y.le x = decide (y.num ≤ x.num) := by
  cases y <;> cases x <;> simp [Rank.variant] at hy hx
  rename_i s n t m
  have h := natCmp_ne_gt_iff n m
  by_cases hnm : n ≤ m
  · simp [Rank.le, Rank.cmp, Rank.variant, Rank.num, cmpArm, hnm]
  · have : natCmp n m = .gt := by
      cases hc : natCmp n m <;> simp [hc] at h <;> first | omega | rfl
    simp [Rank.le, Rank.cmp, Rank.variant, Rank.num, cmpArm, hnm, this]

/-- the stored number of a dictionary hit is even, so it is `≤ 1` only for distance 0, 128, 256, … -/
theorem hit_num_le_one_iff (item base : Str) :
    (Rank.newSuggestion item base).num ≤ 1 ↔ editDistance base item % 128 = 0 := by
  simp only [Rank.newSuggestion, Rank.num, rankFactor, rankModulus]
  omega

/-- an emoji item survives ordering and truncation whenever the dictionary hits numbered at most
    like it, the emoji items and the composed text together do not exceed the number of candidates kept
    (9, or 8 when the raw English text is appended) — for EVERY admissible `sort_unstable` ordering -/
theorem fixed_emoji_kept (w : World) (hs : IsSortPerm w.sorter) (cfg : Cfg) (s : FState) (x : Rank)
    (hx : x ∈ fixedEmoji w.env cfg (fixedParts cfg s.buffer) s.typed)
    (hfew : ((fixedHits w.env cfg (fixedParts cfg s.buffer).word).filter (fun r => decide (r.num ≤ x.num))).length +
      (fixedEmoji w.env cfg (fixedParts cfg s.buffer) s.typed).length + 1 ≤ (fixedCands w.env cfg s).keep) :
    x ∈ shown w cfg s := by
  have hxe := fixedEmoji_variant hx
  rw [shown, fDictSuggestion_list]
  apply List.mem_append_left
  obtain ⟨t, hsub, hbase⟩ := fixedBase_shape w.env cfg (fixedParts cfg s.buffer)
  have hc := fixedCands_cands w.env cfg s
  apply mem_take_of_few_le (hs _).1 (hs _).2
  · rw [hc]; exact List.mem_append_right _ hx
  · simp [Rank.le, C07.cmp_refl]
  · rw [hc, hbase]
    generalize fixedEmoji w.env cfg (fixedParts cfg s.buffer) s.typed = E at hfew
    have h1 : ((t.map (wrapOne (fixedParts cfg s.buffer))).filter (fun y => y.le x)).length ≤
        ((fixedHits w.env cfg (fixedParts cfg s.buffer).word).filter (fun r => decide (r.num ≤ x.num))).length := by
      rw [List.filter_map, List.length_map]
      have : t.filter ((fun y => y.le x) ∘ wrapOne (fixedParts cfg s.buffer)) =
          t.filter (fun r => decide (r.num ≤ x.num)) := by
        apply List.filter_congr
        intro r hr
        have hv : (wrapOne (fixedParts cfg s.buffer) r).variant = .other := by
          rw [wrapOne_variant]; exact fixedHits_variant (hsub.subset hr)
        simp [other_le_emoji hv hxe]
      rw [this]
      exact (hsub.filter _).length_le
    rw [List.cons_append, List.filter_cons]
    have h2 := List.length_filter_le (fun y => y.le x) E
    have h3 : ∀ (a : Rank) (L : List Rank), (if a.le x = true then a :: L else L).length ≤ L.length + 1 := by
      intro a L; split <;> simp
    refine Nat.le_trans (h3 _ _) ?_
    rw [List.filter_append, List.length_append]
    omega

/-- fixed method, outside ANSI mode: the emoji of a typed emoticon is offered — PARTIAL: provided
    fewer than `keep - 1` dictionary hits carry a stored number `≤ 1` (i.e. edit distance from the
    typed word ≡ 0 mod 128, `hit_num_le_one_iff`).  Excluded: words with that many distance-0/128
    hits, which fill the list before the emoji (`emoticon_cut_off_fixed`; needs a table listing
    the typed word many times, not adjacently). -/
theorem emoticon_offered_fixed_partial (w : World) (hs : IsSortPerm w.sorter) (cfg : Cfg) (s : FState) (e : Str)
    (hansi : cfg.ansi = false) (he : w.env.emoticon s.typed = some e)
    (hfew : ((fixedHits w.env cfg (fixedParts cfg s.buffer).word).filter (fun r => decide (r.num ≤ 1))).length + 2 ≤
      (fixedCands w.env cfg s).keep) :
    e ∈ (shown w cfg s).map Rank.text := by
  refine List.mem_map.mpr ⟨Rank.emoji e 1, ?_, rfl⟩
  apply fixed_emoji_kept w hs cfg s
  · rw [fixedEmoji_emoticon hansi he]; simp
  · rw [fixedEmoji_emoticon hansi he]
    show (List.filter (fun r : Rank => decide (r.num ≤ 1)) _).length + 1 + 1 ≤ _
    omega

/-- fixed method, outside ANSI mode: every emoji listed for the Bengali name (the word without
    ZWNJ) is offered, wrapped in the punctuation of the word — PARTIAL: provided the emoji, the
    hits numbered at most like the last emoji, and the composed text fit into the `keep` (9, or 8
    with the raw English text) candidates shown.  Order among the emoji is NOT claimed
    (`sort_unstable`).  Excluded: names with 8 or more emoji — the bundled table lists 10 for
    `হৃদয়`, so two of them can never be shown (`names_cut_off_fixed`). -/
theorem names_offered_fixed_partial (w : World) (hs : IsSortPerm w.sorter) (cfg : Cfg) (s : FState) (es : List Str)
    (hansi : cfg.ansi = false) (he : w.env.emoticon s.typed = none)
    (hes : w.env.emojiBengali ((fixedParts cfg s.buffer).word.filter (fun c => c != cZWNJ)) = some es)
    (hfew : ((fixedHits w.env cfg (fixedParts cfg s.buffer).word).filter (fun r => decide (r.num ≤ es.length))).length +
      es.length + 1 ≤ (fixedCands w.env cfg s).keep) :
    ∀ x ∈ es, wrapText (fixedParts cfg s.buffer).pre (fixedParts cfg s.buffer).trail x ∈ (shown w cfg s).map Rank.text := by
  intro x hx
  have hE := fixedEmoji_names (env := w.env) (typed := s.typed) hansi he hes
  have hlen : (emojiItems (fixedParts cfg s.buffer) es).length = es.length := by simp [emojiItems]
  obtain ⟨i, hi, rfl⟩ := List.getElem_of_mem hx
  have hmem : (es[i], 1 + i) ∈ es.zipIdx 1 := by
    rw [List.mk_mem_zipIdx_iff_le_and_getElem?_sub]
    simp [hi]
  refine List.mem_map.mpr ⟨Rank.emoji (wrapText (fixedParts cfg s.buffer).pre (fixedParts cfg s.buffer).trail es[i]) (1 + i), ?_, rfl⟩
  apply fixed_emoji_kept w hs cfg s
  · rw [hE]
    exact List.mem_map.mpr ⟨(es[i], 1 + i), hmem, rfl⟩
  · rw [hE, hlen]
    have hmono : ((fixedHits w.env cfg (fixedParts cfg s.buffer).word).filter (fun r => decide (r.num ≤ 1 + i))).length ≤
        ((fixedHits w.env cfg (fixedParts cfg s.buffer).word).filter (fun r => decide (r.num ≤ es.length))).length := by
      apply length_filter_le_of_imp
      intro r hr
      simp only [decide_eq_true_eq] at hr ⊢
      omega
    show (List.filter (fun r : Rank => decide (r.num ≤ 1 + i)) _).length + es.length + 1 ≤ _
    omega

/-- when all candidates fit (no truncation) every emoji item is shown, whatever the numbers -/
theorem fixed_emoji_kept_of_short (w : World) (hs : IsSortPerm w.sorter) (cfg : Cfg) (s : FState) (x : Rank)
    (hx : x ∈ fixedEmoji w.env cfg (fixedParts cfg s.buffer) s.typed)
    (hshort : (fixedCands w.env cfg s).cands.length ≤ (fixedCands w.env cfg s).keep) :
    x ∈ shown w cfg s := by
  rw [shown, fDictSuggestion_list]
  apply List.mem_append_left
  rw [List.take_of_length_le (by rw [(hs _).1.length_eq]; exact hshort)]
  apply (hs _).1.mem_iff.mpr
  rw [fixedCands_cands]
  exact List.mem_append_right _ hx

/-- emoji never remove or reorder the Bengali candidates of the fixed method as far as the ordering
    contract goes: the composed text stays first and the dictionary words shown stay in
    non-decreasing stored number, emoji or not (any admissible ordering); emoji only take places -/
theorem fixed_words_still_ordered (w : World) (hs : IsSortPerm w.sorter) (cfg : Cfg) (s : FState) :
    ((w.sorter (fixedCands w.env cfg s).cands).take (fixedCands w.env cfg s).keep).Pairwise
      (fun a b => a.variant ≠ .emoji → b.variant ≠ .emoji → a.num ≤ b.num) := by
  have hpw := ((hs (fixedCands w.env cfg s).cands).2).sublist (List.take_sublist (fixedCands w.env cfg s).keep _)
  have hmem : ∀ r ∈ (w.sorter (fixedCands w.env cfg s).cands).take (fixedCands w.env cfg s).keep,
      r.variant = .first ∨ r.variant = .other ∨ r.variant = .emoji :=
    fun r hr => fixedCands_variant (((hs _).1.mem_iff).mp (List.mem_of_mem_take hr))
  have := List.Pairwise.and_mem.mp hpw
  refine this.imp ?_
  intro a b ⟨ha, hb, hab⟩ hae hbe
  apply num_le_of_le _ _ hab
  · rcases hmem a ha with h | h | h
    · exact Or.inl h
    · exact Or.inr h
    · exact absurd h hae
  · rcases hmem b hb with h | h | h
    · exact Or.inl h
    · exact Or.inr h
    · exact absurd h hbe

/-- every admissible ordering starts with the composed text (the only `First` item) -/
theorem sorted_head (w : World) (hs : IsSortPerm w.sorter) (cfg : Cfg) (s : FState) :
    ∃ F tl, F.variant = .first ∧ w.sorter (fixedCands w.env cfg s).cands = F :: tl := by
  obtain ⟨t, hsub, he⟩ := fixedBase_shape w.env cfg (fixedParts cfg s.buffer)
  have h := hs (fixedCands w.env cfg s).cands
  have hc : (fixedCands w.env cfg s).cands =
      wrapOne (fixedParts cfg s.buffer) (Rank.first (fixedParts cfg s.buffer).word) ::
        (t.map (wrapOne (fixedParts cfg s.buffer)) ++ fixedEmoji w.env cfg (fixedParts cfg s.buffer) s.typed) := by
    rw [fixedCands_cands, he]; rfl
  rw [hc] at h ⊢
  have hF : (wrapOne (fixedParts cfg s.buffer) (Rank.first (fixedParts cfg s.buffer).word)).variant = .first := by
    rw [wrapOne_variant]; rfl
  obtain ⟨tl, htl⟩ := sorted_head_first h.1 h.2 hF (by
    intro r hr
    rcases List.mem_append.mp hr with hr | hr
    · obtain ⟨r0, hr0, rfl⟩ := List.mem_map.mp hr
      rw [wrapOne_variant, fixedHits_variant (hsub.subset hr0)]; simp
    · rw [fixedEmoji_variant hr]; simp)
  exact ⟨_, tl, hF, htl⟩

/-- the fixed method never shows more than eight emoji (nine candidates, the first of which is the
    composed text) — for every admissible ordering.  So a name with nine or more distinct emoji
    cannot have all of them offered: "all emoji listed" FAILS for such names (`names_cut_off_fixed`). -/
theorem fixed_at_most_eight_emoji (w : World) (hs : IsSortPerm w.sorter) (cfg : Cfg) (s : FState) :
    ((shown w cfg s).filter (fun r => r.variant == .emoji)).length ≤ 8 := by
  obtain ⟨F, tl, hF, htl⟩ := sorted_head w hs cfg s
  rw [shown, fDictSuggestion_list, htl, List.filter_append]
  have hk : ∃ k, (fixedCands w.env cfg s).keep = k + 1 ∧ k ≤ 8 := by
    rcases fixedCands_keep_english w.env cfg s with h | h
    · exact ⟨7, h.1, by omega⟩
    · exact ⟨8, h.1, by omega⟩
  obtain ⟨k, hk1, hk2⟩ := hk
  have he : (fixedCands w.env cfg s).english.toList.filter (fun r => r.variant == .emoji) = [] := by
    rcases fixedCands_keep_english w.env cfg s with h | h
    · rw [h.2.1]; rfl
    · rw [h.2.1]; rfl
  have hFe : (F.variant == Variant.emoji) = false := by rw [hF]; rfl
  rw [he, hk1, List.take_succ_cons, List.filter_cons, hFe, List.append_nil]
  simp only [Bool.false_eq_true, if_false]
  have h1 := List.length_filter_le (fun r => r.variant == Variant.emoji) (tl.take k)
  have h2 := List.length_take_le k tl
  omega

/-! ## C. witnesses: non-vacuity, and the negations of the full-strength statements -/

/-- a toy transliteration: `k ↦ ক`, everything else unchanged -/
def eConv (s : Str) : Str := s.map (fun c => if c == 'k' then 'ক' else c)

/-- a small world: emoticons `:)`, `:k` and `-_-` (all punctuation), the name `k` with three emoji,
    two dictionary words for `k` (one an exact match) -/
def eEnv : Env :=
  { convert := eConv
    dictPhonetic := fun w => if w == ['k'] then some [['ক', 'ি'], ['ক']] else some []
    suffix := fun _ => none
    autocorrect := fun _ => none
    emoticon := fun t =>
      if t == [':', ')'] then some ['☺'] else if t == [':', 'k'] then some ['☻']
      else if t == ['-', '_', '-'] then some ['😑'] else none
    emojiByName := fun w => if w == ['k'] then some [['♥'], ['♡'], ['❤']] else none
    emojiBengali := fun _ => none, bijoy := fun s => .ok s, fixedTable := fun _ => [] }

/-- English option on (smart quotes on by default) -/
def eCfg : Cfg := { includeEnglish := true }

/-- the memo after the engine looked the word up, starting from the empty memo -/
def eMemo (w : Str) : Memo := memoFill eEnv [] [] w

/-- the witness memos are clean -/
theorem eMemo_clean (w : Str) : MemoClean (eMemo w) := memoClean_fill _ _ _ _ memoClean_nil

/-- non-vacuity of `emoticon_offered`, first case: `:k` is an emoticon; its emoji, then the
    transliteration, then the typed text as `Last _ 1`; no raw English item although the option is on -/
example : eCfg.ansi = false ∧ eEnv.convert [] = [] ∧ PunctFaithful eEnv eCfg [':', 'k'] ∧
    eEnv.emoticon [':', 'k'] = some ['☻'] ∧
    suggestList eEnv eCfg (eMemo [':', 'k']) [':', 'k'] =
      [.emoji ['☻'] 1, .last [':', 'k'] 1, .last [':', 'ক'] 2] := by decide

/-- … `:)` is left unchanged by the transliteration: `push_checked` suppresses the `Last _ 1` item,
    the typed text is still there (as the transliteration) -/
example : eEnv.emoticon [':', ')'] = some ['☺'] ∧
    suggestList eEnv eCfg (eMemo [':']) [':', ')'] = [.emoji ['☺'] 1, .last [':', ')'] 2] := by decide

/-- … second case: `-_-` is captured whole as leading punctuation (`term = pre`), nothing is pushed,
    the typed text is the transliteration candidate -/
example : PunctFaithful eEnv eCfg ['-', '_', '-'] ∧ eEnv.emoticon ['-', '_', '-'] = some ['😑'] ∧
    ['-', '_', '-'] = (preparedParts eEnv eCfg ['-', '_', '-']).pre ∧
    suggestList eEnv eCfg (eMemo []) ['-', '_', '-'] = [.emoji ['😑'] 1, .last ['-', '_', '-'] 2] := by decide

/-- a transliteration that is not `PunctFaithful`: it turns `(` into `(a` -/
def badEnv : Env :=
  { eEnv with
    convert := fun s => if s == ['('] then ['(', 'a'] else s
    emoticon := fun t => if t == ['(', 'a'] then some ['E'] else none }

/-- "the literal typed text stays available" FAILS for a transliteration that is not
    `PunctFaithful`: for `(a` the transliterated leading punctuation `(` ↦ `(a` equals the typed text,
    the code concludes that the text "is captured as preceding meta characters and already
    included" and pushes nothing — but the candidate is `(aa`.  (Contrived: the bundled
    transliteration never lengthens punctuation; the model takes `convert` as a parameter.) -/
theorem emoticon_text_lost :
    badEnv.convert [] = [] ∧ badEnv.emoticon ['(', 'a'] = some ['E'] ∧ ¬ PunctFaithful badEnv {} ['(', 'a'] ∧
    (suggestList badEnv {} (memoFill badEnv [] [] ['a']) ['(', 'a']).map Rank.text = [['E'], ['(', 'a', 'a']] ∧
    ['(', 'a'] ∉ (suggestList badEnv {} (memoFill badEnv [] [] ['a']) ['(', 'a']).map Rank.text := by decide

/-- non-vacuity of `names_offered` / `names_exact` / `emoji_transparent_partial`: the name `k` in
    double quotes — exact match, the three emoji in table order wrapped in the curled quotes, the
    farther word, the raw English text; without the emoji sources the same list minus the emoji -/
example : eEnv.emoticon ['"', 'k', '"'] = none ∧
    eEnv.emojiByName (preparedParts eEnv eCfg ['"', 'k', '"']).word = some [['♥'], ['♡'], ['❤']] ∧
    suggestList eEnv eCfg (eMemo ['k']) ['"', 'k', '"'] =
      [.other ['“', 'ক', '”'] 0, .emoji ['“', '♥', '”'] 1, .emoji ['“', '♡', '”'] 2, .emoji ['“', '❤', '”'] 3,
       .other ['“', 'ক', 'ি', '”'] 10, .last ['"', 'k', '"'] 3] ∧
    suggestList (noEmoji eEnv) eCfg (eMemo ['k']) ['"', 'k', '"'] =
      [.other ['“', 'ক', '”'] 0, .other ['“', 'ক', 'ি', '”'] 10, .last ['"', 'k', '"'] 3] := by decide

/-- non-vacuity of `emoji_transparent_partial`: `EnglishNotEmoji` holds for that input -/
example : EnglishNotEmoji eEnv eCfg ['"', 'k', '"'] := by
  intro _ es hes
  have : es = [['♥'], ['♡'], ['❤']] := by
    have h : eEnv.emojiByName (preparedParts eEnv eCfg ['"', 'k', '"']).word = some [['♥'], ['♡'], ['❤']] := by decide
    rw [h] at hes; injection hes with hes; exact hes.symm
  subst this
  decide

/-- `emoji_transparent` FAILS for a memo that is not clean (not reachable: `memoClean_fill`): an
    emoji item stored in the memo is a "dictionary" candidate, deleted on the left only -/
theorem emoji_transparent_needs_clean :
    let cache : Memo := [(['k'], [Rank.emoji ['Z'] 5])]
    eEnv.emoticon ['k'] = none ∧
    (suggestList eEnv {} cache ['k']).filter (fun r => r.variant != .emoji) = [.last ['ক'] 2] ∧
    suggestList (noEmoji eEnv) {} cache ['k'] = [.emoji ['Z'] 5, .last ['ক'] 2] := by decide

/-- a table in which the name `k` lists the emoji `k` -/
def engEnv : Env := { eEnv with emojiByName := fun w => if w == ['k'] then some [['k']] else none }

/-- `emoji_transparent` FAILS at full strength with the English option on, for a table violating
    `EnglishNotEmoji`: the emoji whose text is the typed text makes `push_checked` drop the raw
    English item, so the emoji DOES remove a non-emoji candidate.  (Contrived for the bundled tables,
    whose emoji texts are never typeable key sequences.) -/
theorem emoji_transparent_english_fails :
    MemoClean (memoFill engEnv [] [] ['k']) ∧ engEnv.emoticon ['k'] = none ∧ ¬ EnglishNotEmoji engEnv eCfg ['k'] ∧
    (suggestList engEnv eCfg (memoFill engEnv [] [] ['k']) ['k']).filter (fun r => r.variant != .emoji) =
      [.other ['ক'] 0, .other ['ক', 'ি'] 10] ∧
    suggestList (noEmoji engEnv) eCfg (memoFill engEnv [] [] ['k']) ['k'] =
      [.other ['ক'] 0, .other ['ক', 'ি'] 10, .last ['k'] 3] := by
  refine ⟨memoClean_fill _ _ _ _ memoClean_nil, by decide, ?_, by decide, by decide⟩
  intro h
  exact h (by decide) [['k']] (by decide) (by decide)

/-! ### fixed method -/

def chK : Char := Char.ofNat 2453   -- ক
def chKh : Char := Char.ofNat 2454  -- খ
def chG : Char := Char.ofNat 2455   -- গ
def chPh : Char := Char.ofNat 2475  -- ফ
def chL : Char := Char.ofNat 2482   -- ল

/-- a world for the fixed method: every dictionary table is `table`; the emoticon `:)`; the Bengali
    names `ফুল` (two emoji) and `ক` (ten emoji, like `হৃদয়` in the bundled table) -/
def fEnv (table : List Str) : Env :=
  { convert := id, dictPhonetic := fun _ => some [], suffix := fun _ => none, autocorrect := fun _ => none
    emoticon := fun t => if t == [':', ')'] then some ['☺'] else none
    emojiByName := fun _ => none
    emojiBengali := fun w => if w == [chPh, cUKar, chL] then some [['A'], ['B']]
      else if w == [chK] then some ((List.range 10).map (fun i => [Char.ofNat (48 + i)])) else none
    bijoy := fun s => .ok s, fixedTable := fun _ => table }

/-- … ordered by `keySort`, an admissible ordering -/
def fWorld (table : List Str) : World := { env := fEnv table, layouts := fun _ => none, sorter := keySort }

/-- the `decide`d example for `fixed_name_lookup_ignores_zwnj`: `ফ‌ুল` typed with traditional joining
    (ZWNJ before `ু`) finds the entry of `ফুল` -/
example : fixedEmoji (fEnv []) {} ⟨[], [chPh, cZWNJ, cUKar, chL], []⟩ [] = [.emoji ['A'] 1, .emoji ['B'] 2] ∧
    tradKarWord [chPh, cUKar, chL] = [chPh, cZWNJ, cUKar, chL] := by decide

/-- non-vacuity of `names_offered_fixed_partial`: traditional joining on, composed `"ফ‌ুল"`: the curled
    composed text, the two emoji wrapped in the curled quotes, a completion -/
example :
    let w := fWorld [[chPh, cUKar, chL], [chPh, cUKar, chL, chK]]
    let cfg : Cfg := { fixedSuggestion := true, fixedKar := true }
    let s : FState := { rbuf := ['"', chL, cUKar, cZWNJ, chPh, '"'], rtyped := [] }
    IsSortPerm w.sorter ∧ cfg.ansi = false ∧ w.env.emoticon s.typed = none ∧
    w.env.emojiBengali ((fixedParts cfg s.buffer).word.filter (fun c => c != cZWNJ)) = some [['A'], ['B']] ∧
    ((fixedHits w.env cfg (fixedParts cfg s.buffer).word).filter (fun r => decide (r.num ≤ 2))).length + 2 + 1 ≤
      (fixedCands w.env cfg s).keep ∧
    shown w cfg s =
      [.first ['“', chPh, cZWNJ, cUKar, chL, '”'], .emoji ['“', 'A', '”'] 1, .emoji ['“', 'B', '”'] 2,
       .other ['“', chPh, cZWNJ, cUKar, chL, chK, '”'] 10] := by
  refine ⟨isSortPerm_keySort, by decide, by decide, by decide, ?_, ?_⟩
  · simp only [fixedCands_eq_R]; decide
  · simp only [shown, fDict_list_eq_R]; decide

/-- non-vacuity of `emoticon_offered_fixed_partial`: raw keys `:)` (a layout may map them to anything;
    here the composed text is `কখ`), one completion at distance 1 -/
example :
    let w := fWorld [[chK, chKh, chG]]
    let cfg : Cfg := { fixedSuggestion := true }
    let s : FState := { rbuf := [chKh, chK], rtyped := [')', ':'] }
    IsSortPerm w.sorter ∧ cfg.ansi = false ∧ w.env.emoticon s.typed = some ['☺'] ∧
    ((fixedHits w.env cfg (fixedParts cfg s.buffer).word).filter (fun r => decide (r.num ≤ 1))).length + 2 ≤
      (fixedCands w.env cfg s).keep ∧
    shown w cfg s = [.first [chK, chKh], .emoji ['☺'] 1, .other [chK, chKh, chG] 10] := by
  refine ⟨isSortPerm_keySort, by decide, by decide, ?_, ?_⟩
  · simp only [fixedCands_eq_R]; decide
  · simp only [shown, fDict_list_eq_R]; decide

/-- a table listing the typed word nine times, never adjacently -/
def tbl9 : List Str := (List.replicate 9 [[chK, chKh], [chK, chKh, chG]]).flatten

/-- "an emoticon offers its emoji" FAILS at full strength in the fixed method: with eight surviving
    exact matches (stored number 0) the nine places are taken before the emoji (number 1) is
    reached.  Needs a table listing the typed word nine times, never adjacently (`dedup()` removes
    adjacent repeats only; the bundled tables do repeat a few words, but not that often). -/
theorem emoticon_cut_off_fixed :
    let w := fWorld tbl9
    let cfg : Cfg := { fixedSuggestion := true }
    let s : FState := { rbuf := [chKh, chK], rtyped := [')', ':'] }
    IsSortPerm w.sorter ∧ cfg.ansi = false ∧ w.env.emoticon s.typed = some ['☺'] ∧
    Rank.emoji ['☺'] 1 ∈ (fixedCands w.env cfg s).cands ∧
    ['☺'] ∉ (shown w cfg s).map Rank.text := by
  refine ⟨isSortPerm_keySort, by decide, by decide, ?_, ?_⟩
  · simp only [fixedCands_eq_R]; decide
  · simp only [shown, fDict_list_eq_R]; decide

/-- "a Bengali name offers all emoji listed for it" FAILS at full strength in the fixed method: a
    name with ten emoji (the bundled table has one: `হৃদয়`) shows the composed text and the first
    eight; the last two are cut off by the nine-candidate limit (by `fixed_at_most_eight_emoji`
    under EVERY admissible ordering two are missing) -/
theorem names_cut_off_fixed :
    let w := fWorld []
    let cfg : Cfg := { fixedSuggestion := true }
    let s : FState := { rbuf := [chK], rtyped := [] }
    IsSortPerm w.sorter ∧ cfg.ansi = false ∧ w.env.emoticon s.typed = none ∧
    (∃ es, w.env.emojiBengali ((fixedParts cfg s.buffer).word.filter (fun c => c != cZWNJ)) = some es ∧
      ['9'] ∈ es ∧ es.length = 10) ∧
    (shown w cfg s).map Rank.text = [[chK], ['0'], ['1'], ['2'], ['3'], ['4'], ['5'], ['6'], ['7']] := by
  refine ⟨isSortPerm_keySort, by decide, by decide, ⟨_, rfl, by decide, by decide⟩, ?_⟩
  simp only [shown, fDict_list_eq_R]; decide

/-- eight distinct one-letter completions of `কখ` -/
def tbl8 : List Str := (List.range 8).map (fun i => [chK, chKh, Char.ofNat (2453 + i)])

/-- in the fixed method an emoji DOES remove a Bengali candidate when the list is full: the nine
    places are shared.  Composed `কখ` with eight completions: without the emoticon all eight are
    shown, with it the emoji (number 1) takes the place of the last completion (number 10).  The
    remaining words keep their order (`fixed_words_still_ordered`). -/
theorem fixed_emoji_displaces_word :
    let w := fWorld tbl8
    let cfg : Cfg := { fixedSuggestion := true }
    (shown w cfg { rbuf := [chKh, chK], rtyped := [] }).map Rank.text =
      [chK, chKh] :: tbl8 ∧
    (shown w cfg { rbuf := [chKh, chK], rtyped := [')', ':'] }).map Rank.text =
      [chK, chKh] :: ['☺'] :: tbl8.take 7 := by
  refine ⟨?_, ?_⟩
  · simp only [shown, fDict_list_eq_R]; decide
  · simp only [shown, fDict_list_eq_R]; decide

/-- non-vacuity of `emoticon_offered_okkhor`: the real transliteration, the all-punctuation emoticon
    `-_-` (left unchanged by okkhor, so `term = pre` and nothing is pushed) and `:-)` -/
example :
    let env : Env := { eEnv with convert := okConvert, emoticon := fun t =>
      if t == ['-', '_', '-'] then some ['😑'] else if t == [':', '-', ')'] then some ['☺'] else none }
    env.convert = okConvert ∧
    (suggestList env eCfg (memoFill env [] [] []) ['-', '_', '-']).map Rank.text = [['😑'], ['-', '_', '-']] ∧
    (suggestList env eCfg (memoFill env [] [] [':']) [':', '-', ')']).map Rank.text =
      [['☺'], [':', '-', ')'], ['ঃ', '-', ')']] := by
  refine ⟨rfl, by decide +kernel, by decide +kernel⟩

end Riti.C18
