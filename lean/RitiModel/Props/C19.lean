/-
Props/C19 — the C interface (src/ffi.rs): value- and protocol-level content.

Memory safety itself (validity of raw pointers, leaks in the Rust allocator) cannot be exhibited
by a Lean model; it is observed under valgrind / ASan.  What is proved here, over the handle
model of `Model/Ffi.lean`:

* `ffiStep_total` / `ffiRun_total` : every in-contract call sequence returns normally;
* `strings_equal_api` (+ per-operation lemmas) : the C string stored by a string-returning call is
  exactly the value of the Rust-API accessor; `scalars_equal_api` for the five scalar read-outs;
* `snapshot_independent` (+ `_run`, `_strings`, `readout_after`) : what is behind a suggestion /
  string handle never changes until that very handle is freed — whatever happens to the context;
* `accounting` : live = (initially live ∪ returned) − freed, after any sequence;
  `only_argument_freed`, `returned_fresh`, `string_free_null_noop` (and the three other frees),
  `full_cycle_leaves_nothing`;
* `returns_kind` : the ownership table — which of the 33 functions hand out a pointer, of which kind;
* `no_nul` (over `Lemmas/NoNul.lean`, `Lemmas/NoNulFixed.lean`) : the precondition of
  `CString::from_vec_unchecked` — no text handed to C contains U+0000 — for NUL-free data files, and
  `cView_eq_iff`, which says what goes wrong otherwise (C sees a truncated string);
  `no_nul_unconditional_false` : the hypothesis on the data cannot be dropped (a layout value
  `"x\u0000y"` reaches C cut to `x`);
* non-vacuity: a full life cycle by `decide` (read-outs after `riti_context_free`, empty heap at the end).
-/
import RitiModel.Lemmas.Ffi
import RitiModel.Lemmas.NoNulFixed
import RitiModel.Props.C01
namespace Riti.C19
open Riti

/-! ## the contract of the C interface -/

/-- `get_pre_edit_text` is in contract: index inside the list (list suggestions), and — under ANSI —
    the poriborton converter accepts the text (it panics on some code points: finding F14) -/
def PreEditOk (env : Env) : Sugg → Nat → Prop
  | .full _ l _ ansi, i => ∃ s, l[i]? = some s ∧ (ansi = true → ∃ r, env.bijoy s = .ok r)
  | .single s ansi, _ => ansi = true → ∃ r, env.bijoy s = .ok r

/-- a call the documentation of riti.h allows in heap `hp`: live handles (NULL only for the four
    `*_free`), index inside the list, list accessors on list suggestions only, the single accessor
    on single ones, a layout that loads, `commit` in contract as in `C01.InContractEv` -/
def InContractFfi (w : World) (hp : Heap) : FfiOp → Prop
  | .configNew => True
  | .configSet h _ => ∃ c, alookup hp.configs h = some c
  | .configFree none => True
  | .configFree (some h) => ∃ c, alookup hp.configs h = some c
  | .contextNew ch => ∃ c, alookup hp.configs ch = some c ∧
      (isPhoneticPath c.2 = true ∨ (w.layouts c.2).isSome = true)
  | .contextFree none => True
  | .contextFree (some h) => ∃ c, alookup hp.contexts h = some c
  | .key h _ _ _ => ∃ c, alookup hp.contexts h = some c
  | .backspace h _ => ∃ c, alookup hp.contexts h = some c
  | .finish h => ∃ c, alookup hp.contexts h = some c
  | .ongoing h => ∃ c, alookup hp.contexts h = some c
  | .commit h i => ∃ c, alookup hp.contexts h = some c ∧ C01.InContractEv w c (.commit i)
  | .update h ch => ∃ c cfg, alookup hp.contexts h = some c ∧ alookup hp.configs ch = some cfg ∧
      C01.InContractEv w c (.update cfg.1 cfg.2)
  | .suggestionFree none => True
  | .suggestionFree (some h) => ∃ sg, alookup hp.suggestions h = some sg
  | .getSuggestion h i => ∃ aux l sel ansi, alookup hp.suggestions h = some (.full aux l sel ansi) ∧ i < l.length
  | .getLonely h => ∃ s ansi, alookup hp.suggestions h = some (.single s ansi)
  | .getAux h => ∃ aux l sel ansi, alookup hp.suggestions h = some (.full aux l sel ansi)
  | .prevIndex h => ∃ aux l sel ansi, alookup hp.suggestions h = some (.full aux l sel ansi)
  | .length h => ∃ aux l sel ansi, alookup hp.suggestions h = some (.full aux l sel ansi)
  | .getPreEdit h i => ∃ sg, alookup hp.suggestions h = some sg ∧ PreEditOk w.env sg i
  | .isLonely h => ∃ sg, alookup hp.suggestions h = some sg
  | .isEmpty h => ∃ sg, alookup hp.suggestions h = some sg
  | .stringFree none => True
  | .stringFree (some h) => ∃ s, alookup hp.strings h = some s

theorem ctxEvent_total (w : World) (hp : Heap) (fs : FS) (h : Nat) (ev : Event) (c : Ctx)
    (hc : alookup hp.contexts h = some c) (hev : C01.InContractEv w c ev) :
    ∃ r, ctxEvent w hp fs h ev = .ok r := by
  obtain ⟨⟨c', fs', o⟩, hs⟩ := C01.step_total w c fs ev hev
  unfold ctxEvent
  simp only [hc, hs]
  cases o <;> exact ⟨_, rfl⟩

/-- one in-contract call of the C interface returns normally, in every heap -/
theorem ffiStep_total (w : World) (hp : Heap) (fs : FS) (op : FfiOp) (h : InContractFfi w hp op) :
    ∃ r, ffiStep w hp fs op = .ok r := by
  cases op with
  | configNew => exact ⟨_, rfl⟩
  | configSet h' st => obtain ⟨c, hc⟩ := h; simp [ffiStep, hc]
  | configFree oh =>
    cases oh with
    | none => exact ⟨_, rfl⟩
    | some h' => obtain ⟨c, hc⟩ := h; simp [ffiStep, hc]
  | contextNew ch =>
    obtain ⟨c, hc, hl⟩ := h
    have : ∃ ctx, Ctx.new w fs c.1 c.2 = some ctx := by
      rcases hl with hp' | hl
      · simp [Ctx.new, mNew, hp']
      · cases hw : w.layouts c.2 with
        | none => simp [hw] at hl
        | some l => simp only [Ctx.new, mNew, hw]; split <;> exact ⟨_, rfl⟩
    obtain ⟨ctx, hctx⟩ := this
    simp [ffiStep, hc, hctx]
  | contextFree oh =>
    cases oh with
    | none => exact ⟨_, rfl⟩
    | some h' => obtain ⟨c, hc⟩ := h; simp [ffiStep, hc]
  | key h' c m s => obtain ⟨c, hc⟩ := h; exact ctxEvent_total w hp fs h' _ c hc trivial
  | backspace h' ctrl => obtain ⟨c, hc⟩ := h; exact ctxEvent_total w hp fs h' _ c hc trivial
  | finish h' => obtain ⟨c, hc⟩ := h; exact ctxEvent_total w hp fs h' _ c hc trivial
  | commit h' i => obtain ⟨c, hc, hev⟩ := h; exact ctxEvent_total w hp fs h' _ c hc hev
  | update h' ch =>
    obtain ⟨c, cfg, hc, hcfg, hev⟩ := h
    simp only [ffiStep, hcfg]
    exact ctxEvent_total w hp fs h' _ c hc hev
  | ongoing h' => obtain ⟨c, hc⟩ := h; simp [ffiStep, hc]
  | suggestionFree oh =>
    cases oh with
    | none => exact ⟨_, rfl⟩
    | some h' => obtain ⟨c, hc⟩ := h; simp [ffiStep, hc]
  | getSuggestion h' i =>
    obtain ⟨aux, l, sel, ansi, hc, hi⟩ := h
    have : l[i]? = some l[i] := by simp [hi]
    simp [ffiStep, readStr, hc, Sugg.getSuggestion, this]
  | getLonely h' => obtain ⟨s, ansi, hc⟩ := h; simp [ffiStep, readStr, hc, Sugg.getLonely]
  | getAux h' => obtain ⟨aux, l, sel, ansi, hc⟩ := h; simp [ffiStep, readStr, hc, Sugg.getAux]
  | prevIndex h' =>
    obtain ⟨aux, l, sel, ansi, hc⟩ := h; simp [ffiStep, readVal, hc, Sugg.prevIndex, Except.map]
  | length h' => obtain ⟨aux, l, sel, ansi, hc⟩ := h; simp [ffiStep, readVal, hc, Sugg.len, Except.map]
  | getPreEdit h' i =>
    obtain ⟨sg, hc, hok⟩ := h
    cases sg with
    | full aux l sel ansi =>
      obtain ⟨s, hs, hb⟩ := hok
      cases ansi with
      | false => simp [ffiStep, readStr, hc, Sugg.getPreEdit, hs]
      | true => obtain ⟨r, hr⟩ := hb rfl; simp [ffiStep, readStr, hc, Sugg.getPreEdit, hs, hr]
    | single s ansi =>
      cases ansi with
      | false => simp [ffiStep, readStr, hc, Sugg.getPreEdit]
      | true => obtain ⟨r, hr⟩ := hok rfl; simp [ffiStep, readStr, hc, Sugg.getPreEdit, hr]
  | isLonely h' => obtain ⟨c, hc⟩ := h; simp [ffiStep, readVal, hc]
  | isEmpty h' => obtain ⟨c, hc⟩ := h; simp [ffiStep, readVal, hc]
  | stringFree oh =>
    cases oh with
    | none => exact ⟨_, rfl⟩
    | some h' => obtain ⟨c, hc⟩ := h; simp [ffiStep, hc]

/-- in-contract call sequences: every call is in contract in the heap it is made in -/
def InContractRun (w : World) : Heap → FS → List FfiOp → Prop
  | _, _, [] => True
  | hp, fs, op :: ops => InContractFfi w hp op ∧
      ∀ hp' fs' o, ffiStep w hp fs op = .ok (hp', fs', o) → InContractRun w hp' fs' ops

/-- every in-contract sequence of C calls returns normally (no panic, no dead handle) -/
theorem ffiRun_total (w : World) (hp : Heap) (fs : FS) (ops : List FfiOp) (h : InContractRun w hp fs ops) :
    ∃ r, ffiRun w hp fs ops = .ok r := by
  induction ops generalizing hp fs with
  | nil => exact ⟨_, rfl⟩
  | cons op ops ih =>
    obtain ⟨hop, hrest⟩ := h
    obtain ⟨⟨hp', fs', o⟩, hs⟩ := ffiStep_total w hp fs op hop
    obtain ⟨⟨hp'', fs'', os⟩, hr⟩ := ih hp' fs' (hrest hp' fs' o hs)
    exact ⟨(hp'', fs'', o :: os), by simp [ffiRun, hs, hr]⟩

/-! ## returned strings and scalars are the Rust-API values -/

/-- what a successful string-returning call did: it read the live suggestion `sg`, evaluated the
    Rust-API accessor `f` and stored exactly that value under the fresh string handle it returns;
    nothing else changed -/
def StoredApiValue (hp hp' : Heap) (fs fs' : FS) (o : FfiOut) (h : Nat) (f : Sugg → Res Str) : Prop :=
  ∃ sg s, alookup hp.suggestions h = some sg ∧ f sg = .ok s ∧ o = .handle .string hp.next ∧
    alookup hp'.strings hp.next = some s ∧ hp' = hp.allocStr s ∧ fs' = fs

theorem readStr_stored {hp hp' : Heap} {fs fs' : FS} {h : Nat} {f : Sugg → Res Str} {o : FfiOut}
    (hs : readStr hp fs h f = .ok (hp', fs', o)) : StoredApiValue hp hp' fs fs' o h f := by
  unfold readStr at hs
  split at hs
  · cases hs
  · rename_i sg hsg
    split at hs
    · cases hs
    · rename_i s hf
      cases hs
      exact ⟨sg, s, hsg, hf, rfl, by simp [Heap.allocStr, alookup], rfl, rfl⟩

/-- `riti_suggestion_get_suggestion` hands C exactly `get_suggestions()[index]` -/
theorem getSuggestion_equal_api {w : World} {hp hp' : Heap} {fs fs' : FS} {h i : Nat} {o : FfiOut}
    (hs : ffiStep w hp fs (.getSuggestion h i) = .ok (hp', fs', o)) :
    StoredApiValue hp hp' fs fs' o h (fun sg => sg.getSuggestion i) := readStr_stored hs

/-- `riti_suggestion_get_lonely_suggestion` hands C exactly `get_lonely_suggestion()` -/
theorem getLonely_equal_api {w : World} {hp hp' : Heap} {fs fs' : FS} {h : Nat} {o : FfiOut}
    (hs : ffiStep w hp fs (.getLonely h) = .ok (hp', fs', o)) :
    StoredApiValue hp hp' fs fs' o h Sugg.getLonely := readStr_stored hs

/-- `riti_suggestion_get_auxiliary_text` hands C exactly `get_auxiliary_text()` -/
theorem getAux_equal_api {w : World} {hp hp' : Heap} {fs fs' : FS} {h : Nat} {o : FfiOut}
    (hs : ffiStep w hp fs (.getAux h) = .ok (hp', fs', o)) :
    StoredApiValue hp hp' fs fs' o h Sugg.getAux := readStr_stored hs

/-- `riti_suggestion_get_pre_edit_text` hands C exactly `get_pre_edit_text(index)` -/
theorem getPreEdit_equal_api {w : World} {hp hp' : Heap} {fs fs' : FS} {h i : Nat} {o : FfiOut}
    (hs : ffiStep w hp fs (.getPreEdit h i) = .ok (hp', fs', o)) :
    StoredApiValue hp hp' fs fs' o h (fun sg => sg.getPreEdit w.env i) := readStr_stored hs

/-- the Rust-API accessor a string-returning operation corresponds to -/
def apiAccessor (env : Env) : FfiOp → Option (Nat × (Sugg → Res Str))
  | .getSuggestion h i => some (h, fun sg => sg.getSuggestion i)
  | .getLonely h => some (h, Sugg.getLonely)
  | .getAux h => some (h, Sugg.getAux)
  | .getPreEdit h i => some (h, fun sg => sg.getPreEdit env i)
  | _ => none

/-- **strings_equal_api**: every string-returning call stores, under the handle it returns, exactly
    the value the corresponding accessor of the Rust API reports for the suggestion behind the
    handle — and conversely whenever the accessor reports a value the call succeeds with it -/
theorem strings_equal_api {w : World} {hp : Heap} {fs : FS} {op : FfiOp} {h : Nat} {f : Sugg → Res Str}
    (hop : apiAccessor w.env op = some (h, f)) :
    (∀ hp' fs' o, ffiStep w hp fs op = .ok (hp', fs', o) → StoredApiValue hp hp' fs fs' o h f) ∧
    (∀ sg s, alookup hp.suggestions h = some sg → f sg = .ok s →
      ffiStep w hp fs op = .ok (hp.allocStr s, fs, .handle .string hp.next)) := by
  cases op <;> simp only [apiAccessor, Option.some.injEq, Prod.mk.injEq, reduceCtorEq] at hop
  all_goals
    obtain ⟨rfl, rfl⟩ := hop
    refine ⟨fun hp' fs' o hs => readStr_stored hs, fun sg s hsg hf => ?_⟩
    simp only [ffiStep, readStr, hsg]
    simp only [hf]

/-- the five scalar read-outs return the Rust-API values and change nothing -/
theorem scalars_equal_api {w : World} {hp hp' : Heap} {fs fs' : FS} {h : Nat} {o : FfiOut} :
    (ffiStep w hp fs (.length h) = .ok (hp', fs', o) →
      hp' = hp ∧ fs' = fs ∧ ∃ sg n, alookup hp.suggestions h = some sg ∧ sg.len = .ok n ∧ o = .nat n) ∧
    (ffiStep w hp fs (.prevIndex h) = .ok (hp', fs', o) →
      hp' = hp ∧ fs' = fs ∧ ∃ sg n, alookup hp.suggestions h = some sg ∧ sg.prevIndex = .ok n ∧ o = .nat n) ∧
    (ffiStep w hp fs (.isLonely h) = .ok (hp', fs', o) →
      hp' = hp ∧ fs' = fs ∧ ∃ sg, alookup hp.suggestions h = some sg ∧ o = .bool sg.isLonely) ∧
    (ffiStep w hp fs (.isEmpty h) = .ok (hp', fs', o) →
      hp' = hp ∧ fs' = fs ∧ ∃ sg, alookup hp.suggestions h = some sg ∧ o = .bool sg.isEmpty) ∧
    (ffiStep w hp fs (.ongoing h) = .ok (hp', fs', o) →
      hp' = hp ∧ fs' = fs ∧ ∃ c, alookup hp.contexts h = some c ∧ o = .bool c.ongoing) := by
  refine ⟨fun hs => ?_, fun hs => ?_, fun hs => ?_, fun hs => ?_, fun hs => ?_⟩
  · obtain ⟨h1, h2, sg, hsg, hf⟩ := readVal_tables hs
    refine ⟨h1, h2, sg, ?_⟩
    cases hl : sg.len with
    | error e => simp [hl, Except.map] at hf
    | ok n => simp [hl, Except.map] at hf; exact ⟨n, hsg, rfl, hf.symm⟩
  · obtain ⟨h1, h2, sg, hsg, hf⟩ := readVal_tables hs
    refine ⟨h1, h2, sg, ?_⟩
    cases hl : sg.prevIndex with
    | error e => simp [hl, Except.map] at hf
    | ok n => simp [hl, Except.map] at hf; exact ⟨n, hsg, rfl, hf.symm⟩
  · simp only [ffiStep] at hs
    obtain ⟨h1, h2, sg, hsg, hf⟩ := readVal_tables hs
    cases hf; exact ⟨h1, h2, sg, hsg, rfl⟩
  · simp only [ffiStep] at hs
    obtain ⟨h1, h2, sg, hsg, hf⟩ := readVal_tables hs
    cases hf; exact ⟨h1, h2, sg, hsg, rfl⟩
  · simp only [ffiStep] at hs
    split at hs
    · cases hs
    · rename_i c hc; cases hs; exact ⟨rfl, rfl, c, hc, rfl⟩

/-! ## snapshots: what is behind a handle does not change until that handle is freed -/

/-- **snapshot_independent** (one call): the value behind a live suggestion handle is unchanged by
    ANY call other than `riti_suggestion_free` of that very handle — further events on the context
    it came from, `riti_context_update_engine`, `riti_context_free` of that context, frees of other
    objects, read-outs …  (`hp.WF` holds of every heap reachable from program start: `wf_run`;
    see `snapshot_from_start`.) -/
theorem snapshot_independent {w : World} {hp hp' : Heap} {fs fs' : FS} {op : FfiOp} {o : FfiOut}
    {h : Nat} {v : Sugg} (hwf : hp.WF)
    (hs : ffiStep w hp fs op = .ok (hp', fs', o)) (hne : op ≠ .suggestionFree (some h))
    (hv : alookup hp.suggestions h = some v) : alookup hp'.suggestions h = some v := by
  rcases suggestions_step hs with h1 | ⟨sg, h1⟩ | ⟨h', hop, h1⟩
  · rw [h1]; exact hv
  · have := hwf.sugg_lt hv
    rw [h1, alookup_cons_nat, if_neg (by omega)]; exact hv
  · rw [h1, alookup_aerase, if_neg (by intro he; subst he; exact hne hop)]; exact hv

/-- the same for C strings: only `riti_string_free` of that very pointer ends (or changes) it -/
theorem snapshot_independent_strings {w : World} {hp hp' : Heap} {fs fs' : FS} {op : FfiOp} {o : FfiOut}
    {h : Nat} {v : Str} (hwf : hp.WF)
    (hs : ffiStep w hp fs op = .ok (hp', fs', o)) (hne : op ≠ .stringFree (some h))
    (hv : alookup hp.strings h = some v) : alookup hp'.strings h = some v := by
  rcases strings_step hs with h1 | ⟨sg, h1⟩ | ⟨h', hop, h1⟩
  · rw [h1]; exact hv
  · have := hwf.str_lt hv
    rw [h1, alookup_cons_nat, if_neg (by omega)]; exact hv
  · rw [h1, alookup_aerase, if_neg (by intro he; subst he; exact hne hop)]; exact hv

/-- snapshots over any sequence of calls that does not free the suggestion handle -/
theorem snapshot_independent_run {w : World} {hp hp' : Heap} {fs fs' : FS} {ops : List FfiOp}
    {os : List FfiOut} {h : Nat} {v : Sugg} (hwf : hp.WF)
    (hr : ffiRun w hp fs ops = .ok (hp', fs', os)) (hne : ∀ op ∈ ops, op ≠ .suggestionFree (some h))
    (hv : alookup hp.suggestions h = some v) : alookup hp'.suggestions h = some v := by
  induction ops generalizing hp fs os with
  | nil => cases hr; exact hv
  | cons op ops ih =>
    simp only [ffiRun] at hr
    split at hr
    · cases hr
    · rename_i hp1 fs1 o hs
      split at hr
      · cases hr
      · rename_i hp2 fs2 os2 hr2
        cases hr
        exact ih (wf_step hs hwf) hr2 (fun op' hop' => hne op' (List.mem_cons_of_mem _ hop'))
          (snapshot_independent hwf hs (hne op (List.mem_cons_self ..)) hv)

/-- snapshots of C strings over any sequence of calls that does not free the string -/
theorem snapshot_independent_strings_run {w : World} {hp hp' : Heap} {fs fs' : FS} {ops : List FfiOp}
    {os : List FfiOut} {h : Nat} {v : Str} (hwf : hp.WF)
    (hr : ffiRun w hp fs ops = .ok (hp', fs', os)) (hne : ∀ op ∈ ops, op ≠ .stringFree (some h))
    (hv : alookup hp.strings h = some v) : alookup hp'.strings h = some v := by
  induction ops generalizing hp fs os with
  | nil => cases hr; exact hv
  | cons op ops ih =>
    simp only [ffiRun] at hr
    split at hr
    · cases hr
    · rename_i hp1 fs1 o hs
      split at hr
      · cases hr
      · rename_i hp2 fs2 os2 hr2
        cases hr
        exact ih (wf_step hs hwf) hr2 (fun op' hop' => hne op' (List.mem_cons_of_mem _ hop'))
          (snapshot_independent_strings hwf hs (hne op (List.mem_cons_self ..)) hv)

/-- therefore every later read-out through a suggestion handle — after any number of further
    events on its context, after `riti_context_free`, after other frees — stores the value the
    Rust API reported for the suggestion when it was returned -/
theorem readout_after {w : World} {hp hp' hp'' : Heap} {fs fs' fs'' : FS} {ops : List FfiOp}
    {os : List FfiOut} {op : FfiOp} {o : FfiOut} {h : Nat} {f : Sugg → Res Str} {v : Sugg} (hwf : hp.WF)
    (hv : alookup hp.suggestions h = some v)
    (hr : ffiRun w hp fs ops = .ok (hp', fs', os)) (hne : ∀ op ∈ ops, op ≠ .suggestionFree (some h))
    (hop : apiAccessor w.env op = some (h, f))
    (hs : ffiStep w hp' fs' op = .ok (hp'', fs'', o)) :
    ∃ s, f v = .ok s ∧ o = .handle .string hp'.next ∧ alookup hp''.strings hp'.next = some s := by
  have hv' := snapshot_independent_run hwf hr hne hv
  obtain ⟨sg, s, hsg, hf, ho, hst, _, _⟩ := (strings_equal_api hop).1 hp'' fs'' o hs
  rw [hv'] at hsg
  cases hsg
  exact ⟨s, hf, ho, hst⟩

/-! ## accounting -/

/-- **string_free_null_noop**: `riti_string_free(NULL)` changes nothing -/
theorem string_free_null_noop (w : World) (hp : Heap) (fs : FS) :
    ffiStep w hp fs (.stringFree none) = .ok (hp, fs, .unit) := rfl

/-- so do the three other `*_free(NULL)` (`riti_free` checks `is_null`) -/
theorem free_null_noop (w : World) (hp : Heap) (fs : FS) :
    ffiStep w hp fs (.configFree none) = .ok (hp, fs, .unit) ∧
    ffiStep w hp fs (.contextFree none) = .ok (hp, fs, .unit) ∧
    ffiStep w hp fs (.suggestionFree none) = .ok (hp, fs, .unit) := ⟨rfl, rfl, rfl⟩

/-- no call ends the life of an object other than the one it is asked to free -/
theorem only_argument_freed {w : World} {hp hp' : Heap} {fs fs' : FS} {op : FfiOp} {o : FfiOut}
    (hs : ffiStep w hp fs op = .ok (hp', fs', o)) {k : Kind} {x : Nat} (hx : x ∈ hp.live k)
    (hne : op.frees k ≠ some x) : x ∈ hp'.live k :=
  (stepSpec hs).mem_live.mpr (Or.inr ⟨hx, hne⟩)

/-- a freed handle is dead: a second free, or any use, is an error (no silent reuse) -/
theorem freed_is_dead {w : World} {hp hp' : Heap} {fs fs' : FS} {op : FfiOp} {o : FfiOut}
    (hs : ffiStep w hp fs op = .ok (hp', fs', o)) {k : Kind} {x : Nat} (hf : op.frees k = some x) :
    x ∉ hp'.live k := by
  intro hx
  have sp := stepSpec hs
  rcases sp.mem_live.mp hx with h | ⟨_, h⟩
  · have := sp.excl k x hf
    subst this
    simp [FfiOut.returned] at h
  · exact h hf

/-- a returned handle is fresh: it is the allocation counter, above every handle ever live — so a
    freed handle is never issued again and two returned pointers never alias -/
theorem returned_fresh {w : World} {hp hp' : Heap} {fs fs' : FS} {op : FfiOp} {o : FfiOut} (hwf : hp.WF)
    (hs : ffiStep w hp fs op = .ok (hp', fs', o)) {k : Kind} {x : Nat} (ho : o = .handle k x) :
    x = hp.next ∧ hp'.next = x + 1 ∧ (∀ k', x ∉ hp.live k') ∧ x ∈ hp'.live k := by
  have sp := stepSpec hs
  have hx := sp.fresh k x ho
  refine ⟨hx, ?_, ?_, ?_⟩
  · rw [sp.next, ho, hx]; rfl
  · intro k' hm
    have := hwf.lt x (Heap.mem_all.mpr ⟨k', hm⟩)
    omega
  · exact sp.mem_live.mpr (Or.inl (by rw [ho]; simp [FfiOut.returned]))

/-- the handles of kind `k` returned by a sequence of calls -/
def returnedAll (os : List FfiOut) (k : Kind) : List Nat := os.flatMap (·.returned k)

/-- the (non-NULL) handles of kind `k` a sequence of calls frees -/
def freedAll (ops : List FfiOp) (k : Kind) : List Nat := ops.filterMap (·.frees k)

theorem returnedAll_ge {w : World} {hp hp' : Heap} {fs fs' : FS} {ops : List FfiOp} {os : List FfiOut}
    (hr : ffiRun w hp fs ops = .ok (hp', fs', os)) {k : Kind} {x : Nat} (hx : x ∈ returnedAll os k) :
    hp.next ≤ x := by
  induction ops generalizing hp fs os with
  | nil => cases hr; simp [returnedAll] at hx
  | cons op ops ih =>
    simp only [ffiRun] at hr
    split at hr
    · cases hr
    · rename_i hp1 fs1 o hs
      split at hr
      · cases hr
      · rename_i hp2 fs2 os2 hr2
        cases hr
        have sp := stepSpec hs
        simp only [returnedAll, List.flatMap_cons, List.mem_append] at hx
        rcases hx with hx | hx
        · have := (sp.returned_eq hx).2; omega
        · have := ih hr2 hx
          have := sp.next_le
          omega

/-- **accounting**: after any successful sequence of calls, the live objects of each kind are
    exactly those that were live before or were returned by a call of the sequence, and that no
    call of the sequence freed: live = (initial ∪ returned) − freed -/
theorem accounting {w : World} {hp hp' : Heap} {fs fs' : FS} {ops : List FfiOp} {os : List FfiOut}
    (hwf : hp.WF) (hr : ffiRun w hp fs ops = .ok (hp', fs', os)) (k : Kind) (x : Nat) :
    x ∈ hp'.live k ↔ (x ∈ hp.live k ∨ x ∈ returnedAll os k) ∧ x ∉ freedAll ops k := by
  induction ops generalizing hp fs os with
  | nil => cases hr; simp [returnedAll, freedAll]
  | cons op ops ih =>
    simp only [ffiRun] at hr
    split at hr
    · cases hr
    · rename_i hp1 fs1 o hs
      split at hr
      · cases hr
      · rename_i hp2 fs2 os2 hr2
        cases hr
        have sp := stepSpec hs
        rw [ih (wf_step hs hwf) hr2, sp.mem_live]
        simp only [returnedAll, freedAll, List.flatMap_cons, List.mem_append, List.filterMap_cons]
        constructor
        · rintro ⟨(hret | ⟨hl, hnf⟩) | hlater, hnot⟩
          · refine ⟨Or.inr (Or.inl hret), ?_⟩
            cases hf : op.frees k with
            | none => simpa [hf] using hnot
            | some y =>
              have := sp.excl k y hf
              subst this
              simp [FfiOut.returned] at hret
          · refine ⟨Or.inl hl, ?_⟩
            cases hf : op.frees k with
            | none => simpa [hf] using hnot
            | some y =>
              simp only [List.mem_cons, not_or]
              exact ⟨fun he => hnf (by rw [hf, he]), hnot⟩
          · refine ⟨Or.inr (Or.inr hlater), ?_⟩
            cases hf : op.frees k with
            | none => simpa [hf] using hnot
            | some y =>
              simp only [List.mem_cons, not_or]
              refine ⟨?_, hnot⟩
              -- a handle returned later is above the counter, a freed one was live below it
              have h1 := returnedAll_ge hr2 hlater
              have h2 := hwf.lt y (Heap.mem_all.mpr ⟨k, sp.freesLive k y hf⟩)
              have h3 := sp.next_le
              omega
        · rintro ⟨hin, hnot⟩
          have hnot' : op.frees k ≠ some x ∧ x ∉ List.filterMap (fun o => o.frees k) ops := by
            cases hf : op.frees k with
            | none => simpa [hf] using hnot
            | some y =>
              simp only [hf, List.mem_cons, not_or] at hnot
              exact ⟨fun he => hnot.1 (by injection he with he; exact he.symm), hnot.2⟩
          refine ⟨?_, hnot'.2⟩
          rcases hin with hl | hret | hlater
          · exact Or.inl (Or.inr ⟨hl, hnot'.1⟩)
          · exact Or.inl (Or.inl hret)
          · exact Or.inr hlater

/-- accounting from program start: live = returned − freed -/
theorem accounting_from_start {w : World} {hp' : Heap} {fs fs' : FS} {ops : List FfiOp} {os : List FfiOut}
    (hr : ffiRun w Heap.empty fs ops = .ok (hp', fs', os)) (k : Kind) (x : Nat) :
    x ∈ hp'.live k ↔ x ∈ returnedAll os k ∧ x ∉ freedAll ops k := by
  rw [accounting Heap.wf_empty hr]
  have : x ∉ Heap.empty.live k := by cases k <;> simp [Heap.live, Heap.empty]
  simp [this]

/-- every live object was returned by an earlier call and not yet freed -/
theorem live_was_returned {w : World} {hp' : Heap} {fs fs' : FS} {ops : List FfiOp} {os : List FfiOut}
    (hr : ffiRun w Heap.empty fs ops = .ok (hp', fs', os)) {k : Kind} {x : Nat} (hx : x ∈ hp'.live k) :
    x ∈ returnedAll os k ∧ x ∉ freedAll ops k := (accounting_from_start hr k x).mp hx

/-- **full_cycle_leaves_nothing**: a complete life cycle — every pointer the library returned is
    handed to its free function (once: a second free is an error) — ends with nothing live -/
theorem full_cycle_leaves_nothing {w : World} {hp' : Heap} {fs fs' : FS} {ops : List FfiOp} {os : List FfiOut}
    (hr : ffiRun w Heap.empty fs ops = .ok (hp', fs', os))
    (hall : ∀ k x, x ∈ returnedAll os k → x ∈ freedAll ops k) : hp'.isEmpty = true := by
  have hnil : ∀ k, hp'.live k = [] := by
    intro k
    apply List.eq_nil_iff_forall_not_mem.mpr
    intro x hx
    obtain ⟨h1, h2⟩ := live_was_returned hr hx
    exact h2 (hall k x h1)
  have h1 := hnil .config
  have h2 := hnil .context
  have h3 := hnil .suggestion
  have h4 := hnil .string
  simp only [Heap.live, List.map_eq_nil_iff] at h1 h2 h3 h4
  simp [Heap.isEmpty, h1, h2, h3, h4]

/-- conversely a pointer that was returned and never freed is still live at the end: a leak is
    visible in the model as a non-empty heap -/
theorem unfreed_is_live {w : World} {hp' : Heap} {fs fs' : FS} {ops : List FfiOp} {os : List FfiOut}
    (hr : ffiRun w Heap.empty fs ops = .ok (hp', fs', os)) {k : Kind} {x : Nat}
    (hx : x ∈ returnedAll os k) (hnf : x ∉ freedAll ops k) : x ∈ hp'.live k :=
  (accounting_from_start hr k x).mpr ⟨hx, hnf⟩

/-! ## ownership table of the 33 exported functions -/

/-- which functions hand a new object to the caller, and of which kind — i.e. which `*_free` the
    caller owes: `riti_config_new` → `riti_config_free`; `riti_context_new_with_config` →
    `riti_context_free`; `riti_get_suggestion_for_key`, `riti_context_backspace_event` →
    `riti_suggestion_free`; the four `riti_suggestion_get_*` string getters → `riti_string_free`;
    the other 25 functions (13 setters, 4 frees, commit, update, ongoing, finish, 4 scalar
    read-outs) return no pointer -/
def allocates : FfiOp → Option Kind
  | .configNew => some .config
  | .contextNew _ => some .context
  | .key _ _ _ _ => some .suggestion
  | .backspace _ _ => some .suggestion
  | .getSuggestion _ _ => some .string
  | .getLonely _ => some .string
  | .getAux _ => some .string
  | .getPreEdit _ _ => some .string
  | _ => none

theorem ctxEvent_out {w : World} {hp hp' : Heap} {fs fs' : FS} {h : Nat} {ev : Event} {o : FfiOut}
    (hs : ctxEvent w hp fs h ev = .ok (hp', fs', o)) :
    ∃ c c' out, alookup hp.contexts h = some c ∧ step w c fs ev = .ok (c', fs', out) ∧
      o = (match out with | .unit => .unit | .sugg _ => .handle .suggestion hp.next) := by
  unfold ctxEvent at hs
  split at hs
  · cases hs
  · rename_i c hc
    split at hs
    · cases hs
    · rename_i c' fs1 hst; cases hs; exact ⟨c, c', _, hc, hst, rfl⟩
    · rename_i c' fs1 sg hst; cases hs; exact ⟨c, c', _, hc, hst, rfl⟩

/-- **ownership**: a successful call returns a fresh pointer exactly when `allocates` says so, and
    of that kind (so the caller knows which free function it owes); all other calls return a
    scalar or nothing -/
theorem returns_kind {w : World} {hp hp' : Heap} {fs fs' : FS} {op : FfiOp} {o : FfiOut}
    (hs : ffiStep w hp fs op = .ok (hp', fs', o)) :
    match allocates op with
    | some k => o = .handle k hp.next
    | none => o.isHandle = false := by
  cases op with
  | configNew => cases hs; rfl
  | configSet h st =>
    simp only [ffiStep] at hs
    split at hs
    · cases hs
    · rename_i c hc
      cases hs
      cases st <;> simp only [allocates, CfgSet.apply] <;> (try split) <;> rfl
  | configFree oh =>
    cases oh with
    | none => cases hs; rfl
    | some h => simp only [ffiStep] at hs; split at hs <;> cases hs; rfl
  | contextNew ch =>
    simp only [ffiStep] at hs
    split at hs
    · cases hs
    · split at hs <;> cases hs; rfl
  | contextFree oh =>
    cases oh with
    | none => cases hs; rfl
    | some h => simp only [ffiStep] at hs; split at hs <;> cases hs; rfl
  | key h c m s =>
    obtain ⟨c, c', out, _, hst, ho⟩ := ctxEvent_out hs
    cases hm : c.m <;> simp only [step, hm] at hst <;> cases hst <;> exact ho
  | backspace h ctrl =>
    obtain ⟨c, c', out, _, hst, ho⟩ := ctxEvent_out hs
    cases hm : c.m <;> simp only [step, hm] at hst <;> cases hst <;> exact ho
  | commit h i =>
    obtain ⟨c, c', out, _, hst, ho⟩ := ctxEvent_out hs
    cases hm : c.m with
    | phonetic s =>
      simp only [step, hm] at hst
      split at hst
      · cases hst
      · cases hst; subst ho; rfl
    | fixed l s => simp only [step, hm] at hst; cases hst; subst ho; rfl
  | finish h =>
    obtain ⟨c, c', out, _, hst, ho⟩ := ctxEvent_out hs
    cases hm : c.m <;> simp only [step, hm] at hst <;> cases hst <;> (subst ho; rfl)
  | update h ch =>
    simp only [ffiStep] at hs
    split at hs
    · cases hs
    · obtain ⟨c, c', out, _, hst, ho⟩ := ctxEvent_out hs
      simp only [step] at hst
      split at hst
      · split at hst
        · cases hst; subst ho; rfl
        · cases hst
      · split at hst <;> cases hst <;> (subst ho; rfl)
  | ongoing h => simp only [ffiStep] at hs; split at hs <;> cases hs; rfl
  | suggestionFree oh =>
    cases oh with
    | none => cases hs; rfl
    | some h => simp only [ffiStep] at hs; split at hs <;> cases hs; rfl
  | getSuggestion h i => obtain ⟨_, _, _, _, ho, _⟩ := readStr_stored hs; exact ho
  | getLonely h => obtain ⟨_, _, _, _, ho, _⟩ := readStr_stored hs; exact ho
  | getAux h => obtain ⟨_, _, _, _, ho, _⟩ := readStr_stored hs; exact ho
  | getPreEdit h i => obtain ⟨_, _, _, _, ho, _⟩ := readStr_stored hs; exact ho
  | prevIndex h =>
    obtain ⟨_, _, sg, _, hf⟩ := readVal_tables hs
    cases sg <;> simp [Sugg.prevIndex, Except.map] at hf <;> (subst hf; rfl)
  | length h =>
    obtain ⟨_, _, sg, _, hf⟩ := readVal_tables hs
    cases sg <;> simp [Sugg.len, Except.map] at hf <;> (subst hf; rfl)
  | isLonely h => simp only [ffiStep] at hs; obtain ⟨_, _, sg, _, hf⟩ := readVal_tables hs; cases hf; rfl
  | isEmpty h => simp only [ffiStep] at hs; obtain ⟨_, _, sg, _, hf⟩ := readVal_tables hs; cases hf; rfl
  | stringFree oh =>
    cases oh with
    | none => cases hs; rfl
    | some h => simp only [ffiStep] at hs; split at hs <;> cases hs; rfl

/-- snapshots from program start (well-formedness of every reachable heap is `wf_run`): whatever
    the history `ops₁` that produced the suggestion handle, and whatever calls `ops₂` follow that do
    not free it, the value behind it is the same -/
theorem snapshot_from_start {w : World} {hp hp' : Heap} {fs₀ fs fs' : FS} {ops₁ ops₂ : List FfiOp}
    {os₁ os₂ : List FfiOut} {h : Nat} {v : Sugg}
    (hr₁ : ffiRun w Heap.empty fs₀ ops₁ = .ok (hp, fs, os₁)) (hv : alookup hp.suggestions h = some v)
    (hr₂ : ffiRun w hp fs ops₂ = .ok (hp', fs', os₂)) (hne : ∀ op ∈ ops₂, op ≠ .suggestionFree (some h)) :
    alookup hp'.suggestions h = some v :=
  snapshot_independent_run (wf_run hr₁ Heap.wf_empty) hr₂ hne hv

/-- a minimal phonetic world (identity transliteration, empty tables) -/
def demoWorldPre : World :=
  { env := ⟨id, fun _ => some [], fun _ => none, fun _ => none, fun _ => none, fun _ => none, fun _ => none,
      fun s => .ok s, fun _ => []⟩,
    layouts := fun _ => none, sorter := id }

/-- the well-formedness hypothesis of `snapshot_independent` cannot be dropped: in a heap whose
    counter points AT a live handle (never reachable: `wf_run`) an allocation would shadow it -/
example : ∃ (hp hp' : Heap) (o : FfiOut) (v : Sugg), ¬ hp.WF ∧
    ffiStep demoWorldPre hp {} (.key 1 41110 0 0) = .ok (hp', {}, o) ∧
    alookup hp.suggestions 0 = some v ∧ alookup hp'.suggestions 0 ≠ some v := by
  refine ⟨{ contexts := [(1, ⟨{}, "avro_phonetic", .phonetic {}⟩)], suggestions := [(0, .single ['z'] false)], next := 0 },
    _, _, .single ['z'] false, ?_, rfl, rfl, by decide⟩
  intro hwf
  have := hwf.lt 0 (by simp [Heap.all])
  simp at this

/-! ## no_nul: the precondition of `CString::from_vec_unchecked`

Covered (per-function lemmas in `Lemmas/NoNul.lean`, `Lemmas/NoNulFixed.lean`):
`keycodeToChar`, `okConvert` (the model of okkhor's parser, over the generated pattern table), `split`,
`smartQuoter`, `preparedParts`, `computeEntry`, `memoFill`, `joinChecked`, `addSuffix`, `wrapAll`,
`dictList`, `emojiStage`, `addExtras`, `suggestList` (through `sortStable`), `suggestOnlyPhonetic`,
`pCreateSuggestion`, `pKey`, `pBackspace`, `pCommit`, `pFinish`, `pNew`, `pUpdate`;
`pkvBody`/`processKeyValue` (all branches, incl. `karTail`, `insertOldStyleReph`), `getCharForKey`,
`fKeyState`, `fBackspaceState`, `fClear`, `fixedParts`, `fixedHits` (`tradKarWord`), `dedupAdjacent`,
`fixedBase`, `fixedEmoji`, `fixedCands`, `fDictSuggestion` (ANY permuting sorter), `fLonely`,
`fCreateSuggestion`, `fCurrentSuggestion`, `fKey`, `fBackspace`; `mNew`, `Ctx.new`, every `Event` of
`step`; the four string accessors incl. the ANSI pre-edit text (under the `bij` clause of `NoNulEnv`).
-/

theorem getSuggestion_noNul {sg : Sugg} (h : NoNulSugg sg) {i : Nat} {s : Str} (hs : sg.getSuggestion i = .ok s) :
    NoNul s := by
  cases sg with
  | single t a => cases hs
  | full aux l sel a =>
    simp only [Sugg.getSuggestion] at hs
    split at hs
    · rename_i t ht; cases hs; exact h.2 _ (List.mem_of_getElem? ht)
    · cases hs

theorem getLonely_noNul {sg : Sugg} (h : NoNulSugg sg) {s : Str} (hs : sg.getLonely = .ok s) : NoNul s := by
  cases sg with
  | single t a => cases hs; exact h
  | full aux l sel a => cases hs

theorem getAux_noNul {sg : Sugg} (h : NoNulSugg sg) {s : Str} (hs : sg.getAux = .ok s) : NoNul s := by
  cases sg with
  | single t a => cases hs
  | full aux l sel a => cases hs; exact h.1

theorem getPreEdit_noNul {env : Env} (he : NoNulEnv env) {sg : Sugg} (h : NoNulSugg sg) {i : Nat} {s : Str}
    (hs : sg.getPreEdit env i = .ok s) : NoNul s := by
  cases sg with
  | single t a =>
    simp only [Sugg.getPreEdit] at hs
    split at hs
    · exact he.bij _ _ h hs
    · cases hs; exact h
  | full aux l sel a =>
    simp only [Sugg.getPreEdit] at hs
    split at hs
    · rename_i t ht
      have hn := h.2 _ (List.mem_of_getElem? ht)
      split at hs
      · exact he.bij _ _ hn hs
      · cases hs; exact hn
    · cases hs

/-- the value an accessor of `apiAccessor` reports for a NUL-free suggestion is NUL-free -/
theorem accessor_noNul {env : Env} (he : NoNulEnv env) {op : FfiOp} {h : Nat} {f : Sugg → Res Str}
    (hop : apiAccessor env op = some (h, f)) {sg : Sugg} (hsg : NoNulSugg sg) {s : Str} (hs : f sg = .ok s) :
    NoNul s := by
  cases op <;> simp only [apiAccessor, Option.some.injEq, Prod.mk.injEq, reduceCtorEq] at hop
  · obtain ⟨rfl, rfl⟩ := hop; exact getSuggestion_noNul hsg hs
  · obtain ⟨rfl, rfl⟩ := hop; exact getLonely_noNul hsg hs
  · obtain ⟨rfl, rfl⟩ := hop; exact getAux_noNul hsg hs
  · obtain ⟨rfl, rfl⟩ := hop; exact getPreEdit_noNul he hsg hs

/-- the NUL-freedom invariant of the handle table: every live context satisfies its method's
    invariant, every text owned by a live suggestion and every live C string is NUL-free -/
structure HeapNoNul (hp : Heap) : Prop where
  contexts : ∀ h c, alookup hp.contexts h = some c → NoNulCtx c
  suggestions : ∀ h sg, alookup hp.suggestions h = some sg → NoNulSugg sg
  strings : ∀ h s, alookup hp.strings h = some s → NoNul s

theorem heapNoNul_empty : HeapNoNul Heap.empty :=
  ⟨by intro h c hc; simp [Heap.empty, alookup] at hc, by intro h c hc; simp [Heap.empty, alookup] at hc,
   by intro h c hc; simp [Heap.empty, alookup] at hc⟩

theorem ctxEvent_noNul {w : World} (hw : NoNulWorld w) {hp hp' : Heap} {fs fs' : FS} {h : Nat} {ev : Event}
    {o : FfiOut} (hh : HeapNoNul hp) (hfs : NoNulFS fs) (hev : ∀ fs2, ev ≠ .setFs fs2)
    (hs : ctxEvent w hp fs h ev = .ok (hp', fs', o)) : HeapNoNul hp' ∧ NoNulFS fs' := by
  unfold ctxEvent at hs
  split at hs
  · cases hs
  · rename_i c hc
    split at hs
    · cases hs
    · rename_i c' fs1 hst
      cases hs
      obtain ⟨h1, h2, _⟩ := step_noNul hw (hh.contexts h c hc) hfs (fun fs2 he => absurd he (hev fs2)) hst
      refine ⟨⟨?_, hh.suggestions, hh.strings⟩, h2⟩
      intro h' c'' hc''
      simp only [alookup_ainsert_nat] at hc''
      split at hc''
      · cases hc''; exact h1
      · exact hh.contexts h' c'' hc''
    · rename_i c' fs1 sg hst
      cases hs
      obtain ⟨h1, h2, h3⟩ := step_noNul hw (hh.contexts h c hc) hfs (fun fs2 he => absurd he (hev fs2)) hst
      refine ⟨⟨?_, ?_, hh.strings⟩, h2⟩
      · intro h' c'' hc''
        simp only [Heap.allocSugg, alookup_ainsert_nat] at hc''
        split at hc''
        · cases hc''; exact h1
        · exact hh.contexts h' c'' hc''
      · intro h' sg' hsg'
        simp only [Heap.allocSugg, alookup_cons_nat] at hsg'
        split at hsg'
        · cases hsg'; exact h3 sg rfl
        · exact hh.suggestions h' sg' hsg'

theorem readStr_noNul {hp hp' : Heap} {fs fs' : FS} {h : Nat} {f : Sugg → Res Str} {o : FfiOut}
    (hh : HeapNoNul hp) (hf : ∀ sg s, NoNulSugg sg → f sg = .ok s → NoNul s)
    (hs : readStr hp fs h f = .ok (hp', fs', o)) : HeapNoNul hp' ∧ fs' = fs := by
  obtain ⟨sg, s, hsg, hfs, _, _, rfl, rfl⟩ := readStr_stored hs
  refine ⟨⟨hh.contexts, hh.suggestions, ?_⟩, rfl⟩
  intro h' s' hs'
  simp only [Heap.allocStr, alookup_cons_nat] at hs'
  split at hs'
  · cases hs'; exact hf sg s (hh.suggestions h sg hsg) hfs
  · exact hh.strings h' s' hs'

/-- one call of the C interface keeps the handle table NUL-free -/
theorem ffiStep_noNul {w : World} (hw : NoNulWorld w) {hp hp' : Heap} {fs fs' : FS} {op : FfiOp} {o : FfiOut}
    (hh : HeapNoNul hp) (hfs : NoNulFS fs) (hs : ffiStep w hp fs op = .ok (hp', fs', o)) :
    HeapNoNul hp' ∧ NoNulFS fs' := by
  cases op with
  | configNew => cases hs; exact ⟨⟨hh.contexts, hh.suggestions, hh.strings⟩, hfs⟩
  | configSet h st =>
    simp only [ffiStep] at hs; split at hs <;> cases hs
    exact ⟨⟨hh.contexts, hh.suggestions, hh.strings⟩, hfs⟩
  | configFree oh =>
    cases oh with
    | none => cases hs; exact ⟨hh, hfs⟩
    | some h =>
      simp only [ffiStep] at hs; split at hs <;> cases hs
      exact ⟨⟨hh.contexts, hh.suggestions, hh.strings⟩, hfs⟩
  | contextNew ch =>
    simp only [ffiStep] at hs
    split at hs
    · cases hs
    · split at hs
      · cases hs
      · rename_i ctx hctx
        cases hs
        refine ⟨⟨?_, hh.suggestions, hh.strings⟩, hfs⟩
        intro h' c' hc'
        simp only [alookup_cons_nat] at hc'
        split at hc'
        · cases hc'; exact ctxNew_noNul hw hfs hctx
        · exact hh.contexts h' c' hc'
  | contextFree oh =>
    cases oh with
    | none => cases hs; exact ⟨hh, hfs⟩
    | some h =>
      simp only [ffiStep] at hs; split at hs <;> cases hs
      refine ⟨⟨?_, hh.suggestions, hh.strings⟩, hfs⟩
      intro h' c' hc'
      simp only [alookup_aerase] at hc'
      split at hc'
      · cases hc'
      · exact hh.contexts h' c' hc'
  | key h c m s => exact ctxEvent_noNul hw hh hfs (fun _ he => by cases he) hs
  | backspace h c => exact ctxEvent_noNul hw hh hfs (fun _ he => by cases he) hs
  | commit h i => exact ctxEvent_noNul hw hh hfs (fun _ he => by cases he) hs
  | finish h => exact ctxEvent_noNul hw hh hfs (fun _ he => by cases he) hs
  | update h ch =>
    simp only [ffiStep] at hs
    split at hs
    · cases hs
    · exact ctxEvent_noNul hw hh hfs (fun _ he => by cases he) hs
  | ongoing h => simp only [ffiStep] at hs; split at hs <;> cases hs; exact ⟨hh, hfs⟩
  | suggestionFree oh =>
    cases oh with
    | none => cases hs; exact ⟨hh, hfs⟩
    | some h =>
      simp only [ffiStep] at hs; split at hs <;> cases hs
      refine ⟨⟨hh.contexts, ?_, hh.strings⟩, hfs⟩
      intro h' c' hc'
      simp only [alookup_aerase] at hc'
      split at hc'
      · cases hc'
      · exact hh.suggestions h' c' hc'
  | getSuggestion h i =>
    obtain ⟨h1, rfl⟩ := readStr_noNul hh (fun sg s hsg hf => getSuggestion_noNul hsg hf) hs; exact ⟨h1, hfs⟩
  | getLonely h =>
    obtain ⟨h1, rfl⟩ := readStr_noNul hh (fun sg s hsg hf => getLonely_noNul hsg hf) hs; exact ⟨h1, hfs⟩
  | getAux h =>
    obtain ⟨h1, rfl⟩ := readStr_noNul hh (fun sg s hsg hf => getAux_noNul hsg hf) hs; exact ⟨h1, hfs⟩
  | getPreEdit h i =>
    obtain ⟨h1, rfl⟩ := readStr_noNul hh (fun sg s hsg hf => getPreEdit_noNul hw.env hsg hf) hs; exact ⟨h1, hfs⟩
  | prevIndex h => obtain ⟨rfl, rfl, _⟩ := readVal_tables hs; exact ⟨hh, hfs⟩
  | length h => obtain ⟨rfl, rfl, _⟩ := readVal_tables hs; exact ⟨hh, hfs⟩
  | isLonely h => simp only [ffiStep] at hs; obtain ⟨rfl, rfl, _⟩ := readVal_tables hs; exact ⟨hh, hfs⟩
  | isEmpty h => simp only [ffiStep] at hs; obtain ⟨rfl, rfl, _⟩ := readVal_tables hs; exact ⟨hh, hfs⟩
  | stringFree oh =>
    cases oh with
    | none => cases hs; exact ⟨hh, hfs⟩
    | some h =>
      simp only [ffiStep] at hs; split at hs <;> cases hs
      refine ⟨⟨hh.contexts, hh.suggestions, ?_⟩, hfs⟩
      intro h' c' hc'
      simp only [alookup_aerase] at hc'
      split at hc'
      · cases hc'
      · exact hh.strings h' c' hc'

/-- the invariant over call sequences -/
theorem ffiRun_noNul {w : World} (hw : NoNulWorld w) {hp hp' : Heap} {fs fs' : FS} {ops : List FfiOp}
    {os : List FfiOut} (hh : HeapNoNul hp) (hfs : NoNulFS fs) (hr : ffiRun w hp fs ops = .ok (hp', fs', os)) :
    HeapNoNul hp' ∧ NoNulFS fs' := by
  induction ops generalizing hp fs os with
  | nil => cases hr; exact ⟨hh, hfs⟩
  | cons op ops ih =>
    simp only [ffiRun] at hr
    split at hr
    · cases hr
    · rename_i hp1 fs1 o hs
      split at hr
      · cases hr
      · rename_i hp2 fs2 os2 hr2
        cases hr
        obtain ⟨h1, h2⟩ := ffiStep_noNul hw hh hfs hs
        exact ih h1 h2 hr2

/-- **no_nul**: in a world whose data is NUL-free (`NoNulWorld`: tables, dictionary, emoji, layout
    values; converters preserving NUL-freedom; a permuting sorter) and with NUL-free user
    auto-correct values, after ANY sequence of calls from program start every string the library has
    handed to C and every text owned by a live suggestion is NUL-free — the precondition of
    `CString::from_vec_unchecked` holds at each of the four call sites, so C sees the whole text
    (`cView s = s`) -/
theorem no_nul {w : World} (hw : NoNulWorld w) {hp' : Heap} {fs fs' : FS} {ops : List FfiOp} {os : List FfiOut}
    (hfs : NoNulFS fs) (hr : ffiRun w Heap.empty fs ops = .ok (hp', fs', os)) :
    (∀ h s, alookup hp'.strings h = some s → NoNul s ∧ cView s = s) ∧
    (∀ h sg, alookup hp'.suggestions h = some sg → NoNulSugg sg) := by
  obtain ⟨hh, _⟩ := ffiRun_noNul hw heapNoNul_empty hfs hr
  exact ⟨fun h s hs => ⟨hh.strings h s hs, (cView_eq_iff s).mpr (hh.strings h s hs)⟩, hh.suggestions⟩

/-- `no_nul` under the house name for a restricted statement.  Excluded: worlds whose data files
    carry U+0000 (a table / dictionary / emoji / layout value, a converter that introduces one, a user
    auto-correct value) — there the statement is false (`no_nul_unconditional_false`), because the
    library hands such text to `CString::from_vec_unchecked` without looking. -/
theorem no_nul_partial {w : World} (hw : NoNulWorld w) {hp' : Heap} {fs fs' : FS} {ops : List FfiOp}
    {os : List FfiOut} (hfs : NoNulFS fs) (hr : ffiRun w Heap.empty fs ops = .ok (hp', fs', os)) :
    (∀ h s, alookup hp'.strings h = some s → NoNul s ∧ cView s = s) ∧
    (∀ h sg, alookup hp'.suggestions h = some sg → NoNulSugg sg) := no_nul hw hfs hr

/-- the same, stated at the call: a string-returning call made after any history returns a pointer
    to exactly the Rust-API value, NUL-free, hence seen in full by C -/
theorem returned_string_faithful {w : World} (hw : NoNulWorld w) {hp' hp'' : Heap} {fs fs' fs'' : FS}
    {ops : List FfiOp} {os : List FfiOut} {op : FfiOp} {o : FfiOut} {h : Nat} {f : Sugg → Res Str}
    (hfs : NoNulFS fs) (hr : ffiRun w Heap.empty fs ops = .ok (hp', fs', os))
    (hop : apiAccessor w.env op = some (h, f)) (hs : ffiStep w hp' fs' op = .ok (hp'', fs'', o)) :
    ∃ sg s, alookup hp'.suggestions h = some sg ∧ f sg = .ok s ∧ o = .handle .string hp'.next ∧
      alookup hp''.strings hp'.next = some s ∧ NoNul s ∧ cView s = s := by
  obtain ⟨hh, _⟩ := ffiRun_noNul hw heapNoNul_empty hfs hr
  obtain ⟨sg, s, hsg, hf, ho, hst, _, _⟩ := (strings_equal_api hop).1 hp'' fs'' o hs
  have hn := accessor_noNul hw.env hop (hh.suggestions h sg hsg) hf
  exact ⟨sg, s, hsg, hf, ho, hst, hn, (cView_eq_iff s).mpr hn⟩

/-- the model of okkhor's parser satisfies the `conv` clause of `NoNulEnv` -/
theorem okConvert_clause : ∀ s, NoNul s → NoNul (okConvert s) := fun _ h => okConvert_noNul h

/-- why the precondition matters: a text WITH a NUL is cut short on the C side -/
example : cView ['a', '\x00', 'b'] = ['a'] := by decide

/-! ## the unconditional statement is false: NUL-freedom depends on the data files -/

/-- a fixed-layout world whose layout file maps every key to the value `x␀y` (a JSON file can
    say `"x\u0000y"`; serde_json accepts it) -/
def nulWorld : World :=
  { env := ⟨id, fun _ => some [], fun _ => none, fun _ => none, fun _ => none, fun _ => none, fun _ => none,
      fun s => .ok s, fun _ => []⟩,
    layouts := fun _ => some (fun _ => some ['x', '\x00', 'y']),
    sorter := id }

def nulOps : List FfiOp :=
  [.configNew, .configSet 0 (.layoutFile "l.json" true), .contextNew 0, .key 1 41110 0 0, .getLonely 2]

/-- **negation of the unconditional `no_nul`**: without the hypothesis on the data, a returned string
    can contain U+0000 — here a layout value does — and C then sees a text cut at the NUL (`x`
    instead of `x␀y`).  The library passes such text to `CString::from_vec_unchecked` unchecked. -/
theorem no_nul_unconditional_false :
    ∃ (w : World) (ops : List FfiOp) (hp' : Heap) (fs' : FS) (os : List FfiOut) (h : Nat) (s : Str),
      ffiRun w Heap.empty {} ops = .ok (hp', fs', os) ∧ alookup hp'.strings h = some s ∧
      ¬ NoNul s ∧ cView s ≠ s := by
  have hrun : (match ffiRun nulWorld Heap.empty {} nulOps with
      | .ok (hp, _, _) => alookup hp.strings 3 == some ['x', '\x00', 'y']
      | .error _ => false) = true := by decide +kernel
  cases hr : ffiRun nulWorld Heap.empty {} nulOps with
  | error e => rw [hr] at hrun; cases hrun
  | ok r =>
    obtain ⟨hp', fs', os⟩ := r
    rw [hr] at hrun
    simp only [beq_iff_eq] at hrun
    refine ⟨nulWorld, nulOps, hp', fs', os, 3, _, hr, hrun, ?_, ?_⟩
    · simp [NoNul]
    · decide

/-! ## non-vacuity -/

/-- a phonetic world: the model of okkhor's parser as `convert`, empty tables -/
def demoWorld : World :=
  { env := ⟨okConvert, fun _ => some [], fun _ => none, fun _ => none, fun _ => none, fun _ => none,
      fun _ => none, fun s => .ok s, fun _ => []⟩,
    layouts := fun _ => none,
    sorter := sortStable }

/-- the hypotheses of `no_nul` are satisfiable: the demo world is NUL-free -/
theorem demoWorld_noNul : NoNulWorld demoWorld where
  env := {
    conv := okConvert_clause
    dict := by intro w l h s hs; cases h; simp at hs
    sfx := by intro k v h; cases h
    ac := by intro k v h; cases h
    emo := by intro k v h; cases h
    emoName := by intro k l h; cases h
    emoBn := by intro k l h; cases h
    bij := by intro s r hs h; cases h; exact hs
    table := by intro t s hs; simp [demoWorld] at hs }
  layouts := by intro p l h; cases h
  sorter := sortStable_perm

/-- config → two setters → context → keys `a`, `m` → `riti_context_free` → read-outs through the two
    suggestion handles → `riti_string_free(NULL)` → every pointer freed -/
def demoOps : List FfiOp := [
  .configNew, .configSet 0 (.layoutFile "avro_phonetic" false), .configSet 0 (.phoneticSuggestion true),
  .contextNew 0, .key 1 41110 0 0, .key 1 41122 0 0, .ongoing 1, .contextFree (some 1),
  .getSuggestion 3 0, .getAux 3, .length 3, .getPreEdit 2 0, .isLonely 2,
  .stringFree none, .stringFree (some 4), .stringFree (some 5), .stringFree (some 6),
  .suggestionFree (some 2), .suggestionFree (some 3), .configFree (some 0)]

/-- after the first 13 calls: the context is gone, yet the read-outs through the suggestion handles
    it produced gave `আম` (candidate 0 of `am`), `am` (auxiliary text), length 1, `আ` (pre-edit text
    of the older suggestion); three strings, two suggestions and the config are live -/
example : (match ffiRun demoWorld Heap.empty {} (demoOps.take 13) with
    | .ok (hp, _, os) =>
      hp.strings == [(6, [Char.ofNat 2438]), (5, ['a', 'm']), (4, [Char.ofNat 2438, Char.ofNat 2478])] &&
      hp.live .context == [] && hp.live .suggestion == [3, 2] && hp.live .config == [0] &&
      os.drop 8 == [.handle .string 4, .handle .string 5, .nat 1, .handle .string 6, .bool false]
    | .error _ => false) = true := by decide +kernel

/-- the full life cycle ends with an empty heap -/
example : (match ffiRun demoWorld Heap.empty {} demoOps with
    | .ok (hp, _, _) => hp.isEmpty
    | .error _ => false) = true := by decide +kernel

/-- leaving out the last free leaves exactly the config live: a leak shows as a non-empty heap -/
example : (match ffiRun demoWorld Heap.empty {} demoOps.dropLast with
    | .ok (hp, _, _) => !hp.isEmpty && hp.live .config == [0]
    | .error _ => false) = true := by decide +kernel

/-- a double free, a read-out through a freed suggestion, an event on a freed context and a
    list accessor on a single suggestion are errors of the model (out of contract) -/
example :
    ((ffiRun demoWorld Heap.empty {} (demoOps ++ [.configFree (some 0)])).toOption.isNone &&
     (ffiRun demoWorld Heap.empty {} (demoOps ++ [.getAux 3])).toOption.isNone &&
     (ffiRun demoWorld Heap.empty {} (demoOps.take 8 ++ [.key 1 41110 0 0])).toOption.isNone &&
     (match ffiRun demoWorld Heap.empty {} [.configNew, .configSet 0 (.layoutFile "avro_phonetic" false),
        .contextNew 0, .key 1 41110 0 0, .length 2] with
      | .error e => e == .panic .lonelyAccessor
      | .ok _ => false)) = true := by decide +kernel

/-- the demo sequence is in contract call by call (so `ffiRun_total` applies to it), e.g. its
    first read-out: handle 3 is a live list suggestion with more than 0 candidates -/
example : ∀ hp fs os, ffiRun demoWorld Heap.empty {} (demoOps.take 8) = .ok (hp, fs, os) →
    InContractFfi demoWorld hp (.getSuggestion 3 0) := by
  intro hp fs os h
  have hrun : (match ffiRun demoWorld Heap.empty {} (demoOps.take 8) with
      | .ok (hp, _, _) => alookup hp.suggestions 3 ==
          some (.full ['a', 'm'] [[Char.ofNat 2438, Char.ofNat 2478]] 0 false)
      | .error _ => false) = true := by decide +kernel
  rw [h] at hrun
  simp only [beq_iff_eq] at hrun
  exact ⟨_, _, _, _, hrun, by decide⟩

/-- `no_nul` applied to the demo run: its three live strings are NUL-free and seen in full by C -/
example : ∀ hp fs os, ffiRun demoWorld Heap.empty {} (demoOps.take 13) = .ok (hp, fs, os) →
    ∀ h s, alookup hp.strings h = some s → NoNul s ∧ cView s = s :=
  fun _ _ _ hr => (no_nul demoWorld_noNul (by intro t st h; cases h) hr).1

end Riti.C19
