/-
Props/EditDistance — the `editDistance` of the model (a row-by-row transcription of the Rust crate
`edit-distance`, used by `Rank::new_suggestion`) IS the Levenshtein distance:
it equals the textbook recursion `lev`, which is the minimum cost of an edit script (`Script`),
and `lev` is a metric.  Consequences for the stored rank `(10 · distance) as u8`.

`lev` and `Script` are defined in Lemmas/EditDistance (namespace `Riti.EditDistance`), for any type of
characters with decidable equality; `lev` is written with the minimum of three in BOTH cases
(`lev_cons_cons`), the `if x = y then lev a b else 1 + min …` form is the theorem `lev_cons_cons_textbook`.
-/
import RitiModel.Lemmas.EditDistance
namespace Riti.EditDistance
open Riti Riti.Gen

/-! ## 1. the model computes the textbook recursion -/

/-- The model's edit distance (the `edit-distance` crate's algorithm) equals the textbook Levenshtein recursion, for all words. -/
theorem editDistance_eq_lev (a b : List Char) : editDistance a b = lev a b := by
  rw [editDistance_eq_lev_reverse, lev_reverse]

section Generic
variable {α : Type} [DecidableEq α]

/-- Defining equation: the distance from the empty word is the length of the other word. -/
theorem lev_nil_left (b : List α) : lev [] b = b.length := lev_nil_left_aux b

/-- Defining equation: the distance to the empty word is the length of the word. -/
theorem lev_nil_right (a : List α) : lev a [] = a.length := lev_nil_right_aux a

/-- Defining equation: delete `x`, insert `y`, or put `x` opposite `y` (free if they are equal) — the cheapest of the three. -/
theorem lev_cons_cons (x y : α) (a b : List α) :
    lev (x :: a) (y :: b)
      = min (lev a (y :: b) + 1) (min (lev (x :: a) b + 1) (lev a b + if x = y then 0 else 1)) :=
  lev_cons_cons_subCost x y a b

/-! ## 2. the declarative specification: cheapest edit script -/

/-- No edit script from `a` to `b` is cheaper than `lev a b`. -/
theorem lev_le_of_script {a b : List α} {n : Nat} (h : Script a b n) : lev a b ≤ n :=
  script_lower_bound h

/-- Some edit script from `a` to `b` costs exactly `lev a b`. -/
theorem exists_script_lev (a b : List α) : Script a b (lev a b) := script_of_lev a b

/-- The edit distance of the model is the MINIMUM cost of an edit script turning `a` into `b`. -/
theorem editDistance_is_min_script (a b : List Char) :
    Script a b (editDistance a b) ∧ ∀ n, Script a b n → editDistance a b ≤ n := by
  rw [editDistance_eq_lev]
  exact ⟨exists_script_lev a b, fun _ h => lev_le_of_script h⟩

/-! ## 3. `lev` is a metric -/

/-- A word is at distance 0 from itself. -/
theorem lev_self (a : List α) : lev a a = 0 := by
  have := lev_le_of_script (show Script a a 0 by
    induction a with
    | nil => exact .nil
    | cons x a ih => exact .keep x ih)
  omega

/-- Both length differences are lower bounds of the distance (stated without truncated subtraction). -/
theorem length_le_lev_add (a b : List α) :
    a.length ≤ lev a b + b.length ∧ b.length ≤ lev a b + a.length := by
  induction a, b using lev_induct with
  | nilL b => simp [lev_nil_left_aux]
  | nilR x a => simp [lev_nil_right_aux]
  | cc x a y b ih1 ih2 ih3 =>
    rw [lev_cons_cons_subCost]
    simp only [List.length_cons] at *
    omega

/-- The distance is at least the difference of the lengths (either way round). -/
theorem length_sub_le_lev (a b : List α) :
    a.length - b.length ≤ lev a b ∧ b.length - a.length ≤ lev a b := by
  have := length_le_lev_add a b
  omega

/-- Distance 0 means equal words: distinct suggestions never look identical to the ranking. -/
theorem lev_eq_zero_iff (a b : List α) : lev a b = 0 ↔ a = b := by
  constructor
  · induction a, b using lev_induct with
    | nilL b => intro h; rw [lev_nil_left_aux] at h; exact (List.eq_nil_of_length_eq_zero h).symm
    | nilR x a => intro h; rw [lev_nil_right_aux] at h; simp at h
    | cc x a y b ih1 ih2 ih3 =>
      intro h
      rw [lev_cons_cons_subCost] at h
      have h0 : lev a b = 0 ∧ subCost x y = 0 := by omega
      rw [ih3 h0.1, subCost_eq_zero.mp h0.2]
  · rintro rfl; exact lev_self a

/-- The distance is symmetric. -/
theorem lev_comm (a b : List α) : lev a b = lev b a :=
  Nat.le_antisymm (lev_le_of_script (script_symm (exists_script_lev b a)))
    (lev_le_of_script (script_symm (exists_script_lev a b)))

/-- The distance never exceeds the length of the longer word. -/
theorem lev_le_max_length (a b : List α) : lev a b ≤ max a.length b.length := by
  induction a, b using lev_induct with
  | nilL b => simp [lev_nil_left_aux]
  | nilR x a => simp [lev_nil_right_aux]
  | cc x a y b ih1 ih2 ih3 =>
    have := lev_cons_cons_le x y a b
    have := subCost_le_one x y
    simp only [List.length_cons]
    omega

/-- The triangle inequality. -/
theorem lev_triangle (a b c : List α) : lev a c ≤ lev a b + lev b c :=
  lev_le_script_add (exists_script_lev a b) c

/-- A common first character can be dropped. -/
theorem lev_cons_cons_same (x : α) (a b : List α) : lev (x :: a) (x :: b) = lev a b := by
  apply Nat.le_antisymm
  · have := lev_cons_cons_le x x a b; rw [subCost_self] at this; omega
  · rw [lev_cons_cons_subCost, subCost_self]
    have h1 : lev a (x :: a) ≤ 1 := by
      have := lev_cons_right_le x a a; rw [lev_self] at this; omega
    have h2 : lev (x :: b) b ≤ 1 := by
      have := lev_cons_left_le x b b; rw [lev_self] at this; omega
    have t1 := lev_triangle a (x :: a) b
    have t2 := lev_triangle a (x :: b) b
    omega

/-- The recursion in its other textbook form: equal heads are dropped, different heads cost one edit. -/
theorem lev_cons_cons_textbook (x y : α) (a b : List α) :
    lev (x :: a) (y :: b)
      = if x = y then lev a b else 1 + min (lev a (y :: b)) (min (lev (x :: a) b) (lev a b)) := by
  split
  · next h => subst h; exact lev_cons_cons_same x a b
  · next h =>
    have : subCost x y = 1 := by simp [subCost, h]
    rw [lev_cons_cons_subCost, this]; omega

/-! ## 4. what the ranking needs -/

/-- A common prefix can be dropped. -/
theorem lev_append_left (w a b : List α) : lev (w ++ a) (w ++ b) = lev a b := by
  induction w with
  | nil => rfl
  | cons x w ih => simpa [lev_cons_cons_same] using ih

/-- A common suffix can be dropped. -/
theorem lev_append_suffix (a b w : List α) : lev (a ++ w) (b ++ w) = lev a b := by
  rw [← lev_reverse (a ++ w), List.reverse_append, List.reverse_append, lev_append_left, lev_reverse]

/-- A completion `w ++ t` of the typed word `w` is at distance exactly `|t|`. -/
theorem lev_append_right (w t : List α) : lev w (w ++ t) = t.length := by
  have := lev_append_left w [] t
  rwa [List.append_nil, lev_nil_left_aux] at this

end Generic

/-- The model's distance is symmetric: `new_suggestion` does not care which word is the base. -/
theorem editDistance_comm (a b : List Char) : editDistance a b = editDistance b a := by
  rw [editDistance_eq_lev, editDistance_eq_lev, lev_comm]

/-- The model's distance is 0 exactly for equal words. -/
theorem editDistance_eq_zero_iff (a b : List Char) : editDistance a b = 0 ↔ a = b := by
  rw [editDistance_eq_lev, lev_eq_zero_iff]

/-- The model's distance is bounded by the longer word's length (in characters). -/
theorem editDistance_le_max_length (a b : List Char) : editDistance a b ≤ max a.length b.length := by
  rw [editDistance_eq_lev]; exact lev_le_max_length a b

/-- The model's distance satisfies the triangle inequality. -/
theorem editDistance_triangle (a b c : List Char) :
    editDistance a c ≤ editDistance a b + editDistance b c := by
  simp only [editDistance_eq_lev]; exact lev_triangle a b c

/-- A suggestion that completes the typed word by `t` is stored with rank `10 · |t|` truncated to a byte (`as u8`), whatever the length. -/
theorem rank_of_completion_mod (w t : List Char) :
    (Rank.newSuggestion (w ++ t) w).num = (10 * t.length) % 256 := by
  simp only [Rank.newSuggestion, Rank.num, rankFactor, rankModulus]
  rw [editDistance_eq_lev, lev_append_right, Nat.mul_comm]

/-- A suggestion that completes the typed word by `t` (at most 25 characters) is stored with rank `10 · |t|`. -/
theorem rank_of_completion (w t : List Char) (h : t.length ≤ 25) :
    (Rank.newSuggestion (w ++ t) w).num = 10 * t.length := by
  rw [rank_of_completion_mod]; omega

/-- The typed word itself gets rank 0. -/
theorem rank_of_self (w : List Char) : (Rank.newSuggestion w w).num = 0 := by
  simpa using rank_of_completion w [] (by simp)

/-- At distance 26 the `as u8` cast wraps: the stored rank is 4 (= 260 mod 256), better than that of a one-edit neighbour. -/
theorem rank_wraps_at_26 : ∃ a b : List Char, editDistance a b = 26 ∧ (Rank.newSuggestion b a).num = 4 :=
  ⟨List.replicate 26 'a', [], by decide, by decide⟩

/-- The bound 25 of `rank_of_completion` is sharp: EVERY completion by 26 characters is stored with rank 4, not 260. -/
theorem rank_of_completion_wraps_at_26 (w t : List Char) (h : t.length = 26) :
    (Rank.newSuggestion (w ++ t) w).num = 4 := by
  rw [rank_of_completion_mod, h]

/-! ## 5. sanity -/

example : editDistance "kitten".toList "sitting".toList = 3 := by decide
example : editDistance "sitting".toList "kitten".toList = 3 := by decide
example : lev "flaw".toList "lawn".toList = 2 := by decide
example : editDistance "flaw".toList "lawn".toList = 2 := by decide
/-- a Bengali pair: আমি → আমরা (substitute ি by র, insert া) -/
example : editDistance "আমি".toList "আমরা".toList = 2 := by decide
/-- distances count code points, not grapheme clusters: ক্ষ is three characters -/
example : editDistance "ক".toList "ক্ষ".toList = 2 := by decide
example : editDistance [] [] = 0 := by decide
example : editDistance "".toList "বাংলা".toList = 5 := by decide
example : editDistance "বাংলা".toList "".toList = 5 := by decide
/-- a concrete non-trivial script (non-vacuity of `Script`): kitten → sitting at cost 3 -/
example : Script "kitten".toList "sitting".toList 3 :=
  .subst 'k' 's' (by decide) <| .keep 'i' <| .keep 't' <| .keep 't' <| .subst 'e' 'i' (by decide) <|
    .keep 'n' <| .insert 'g' .nil
/-- non-vacuity of `rank_of_completion` -/
example : (Rank.newSuggestion "আমার".toList "আমা".toList).num = 10 :=
  rank_of_completion "আমা".toList "র".toList (by decide)

end Riti.EditDistance
