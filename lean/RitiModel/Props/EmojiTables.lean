/-
Props/EmojiTables — C18 on the REAL tables of the bundled `emojicon` crate.

The theorems of Props/C18 and Props/RealEnv hold for every emoticon / emoji-name table (`Env.emoticon`,
`Env.emojiByName`, `Env.emojiBengali` are parameters).  C18 itself speaks about "any emoticon of the bundled emoticon
table" and "any English / Bengali emoji name".  Here the parameters are instantiated with the tables the translator reads
from the crate's SOURCE on every run (`Gen/EmojiTables.lean`; look-ups `Model/EmojiTables.lean`), which the trace validator
compares entry by entry with the tables the COMPILED crate serves (`MISMATCH emoji-table …`).

 1. shape of the tables, checked in the kernel on the generated rows: sizes, every code point a scalar value, no key
    twice (so the `HashMap` keeps every row and "last duplicate wins" never applies), the look-ups characterised
    (`emoticon_lookup_iff`, …, `emoticon_rows_found`, …).
 2. what can be typed: every emoticon is printable ASCII and every printable ASCII character has a published key
    (`emoticons_typeable`); the same for the English names except `life preserver` (a space) (`names_typeable_except`);
    which names are never looked up because `split` takes their punctuation away (`names_never_looked_up`: `!`, `+1`, `-1`;
    Bengali: `#`, `*`) — the known finding `name-with-punctuation-not-looked-up`.
 3. sizes of the emoji lists (`emoji_lists_small`): English ≤ 8 (`workout`), Bengali ≤ 10 and exactly one name above the
    room of the fixed method's list (`হৃদয়`, 10) — the known finding `bengali-name-more-emoji-than-list-room`.
 4. `no_nul_in_tables`, `no_curly_quote_in_tables`, `emoji_marked_in_tables` (the C19 / C17 / C07 provisos on the emoji
    part of the data), `emoticon_is_not_emoji_name_except` (the 10 emoticons whose word part is an English emoji name),
    `no_name_is_an_emoticon`.
 5. the instantiation: `tableEnv`, `tableData`, `emoticon_offered_table(_real)`, `names_offered_table(_bare)(_real)`,
    `names_exact_table`, the fixed-method partial theorems `emoticon_offered_fixed_table_partial`,
    `names_offered_fixed_table_partial`, `heart_never_complete`, and the data provisos of RealEnv discharged for the
    emoji part (`dataNoNul_tableData`, `dataAll_noCurly_tableData`, `emojiMarked_tableData`).
 6. non-vacuity: rows of the real table run end to end through the real components in the kernel.

NOT covered: whether a BENGALI name can be typed (that depends on the layout file, a parameter; the harness types them
through Probhat by the inverse key map and counts the untypeable ones).
-/
import RitiModel.Lemmas.EmojiTablesFacts
import RitiModel.Props.RealEnv
namespace Riti.EmojiTables
open Riti Riti.Gen Riti.Real

/-- code points → text -/
abbrev chars (l : List Nat) : Str := natsToChars l

/-! ## 1. shape of the tables -/

/-- the tables the check was built with: 321 emoticons, 1 389 English names (the crate's `custom` table, emoji.rs —
    the file `Emojicon::new` selects under the feature riti asks for), 1 007 Bengali names -/
theorem table_sizes : emoticonRows.length = 321 ∧ emojiNameRows.length = 1389 ∧ bengaliNameRows.length = 1007 ∧
    emojiNameSource = "emoji.rs" ∧ emojiconFeatures.contains "custom" = true := sizes_ok

/-- every code point of every key and every emoji of the three tables is a Unicode scalar value (the generated numbers
    denote the characters of the source text) -/
theorem codes_valid :
    emoticonRows.all (fun r => validCodes r.1 && validCodes r.2) = true ∧
    emojiNameRows.all (fun r => validCodes r.1 && r.2.all validCodes) = true ∧
    bengaliNameRows.all (fun r => validCodes r.1 && r.2.all validCodes) = true := valid_ok

/-- a row of the emoticon table consists of scalar values -/
theorem emoticon_row_valid {row : List Nat × List Nat} (h : row ∈ emoticonRows) : validCodes row.1 = true ∧ validCodes row.2 = true := by
  have := List.all_eq_true.mp codes_valid.1 row h
  simpa using this

/-- a row of the English name table consists of scalar values -/
theorem name_row_valid {row : List Nat × List (List Nat)} (h : row ∈ emojiNameRows) :
    validCodes row.1 = true ∧ ∀ e ∈ row.2, validCodes e = true := by
  have := List.all_eq_true.mp codes_valid.2.1 row h
  simpa using this

/-- a row of the Bengali name table consists of scalar values -/
theorem bengali_row_valid {row : List Nat × List (List Nat)} (h : row ∈ bengaliNameRows) :
    validCodes row.1 = true ∧ ∀ e ∈ row.2, validCodes e = true := by
  have := List.all_eq_true.mp codes_valid.2.2 row h
  simpa using this

/-- no emoticon occurs twice in the emoticon table: the `HashMap` holds all 321 rows -/
theorem emoticon_keys_distinct : (emoticonRows.map Prod.fst).Nodup := nodup_of_keysOk emoticon_keys_ok

/-- no English name occurs twice (1 389 keys) -/
theorem emoji_name_keys_distinct : (emojiNameRows.map Prod.fst).Nodup := nodup_of_keysOk name_keys_ok

/-- no Bengali name occurs twice (1 007 keys) -/
theorem bengali_name_keys_distinct : (bengaliNameRows.map Prod.fst).Nodup := nodup_of_keysOk bengali_keys_ok

/-- so "the last row with the key" is "the first row with the key": the order in which the crate fills its `HashMap`
    does not matter for any of the three tables -/
theorem lookups_first_eq_last (s : Str) :
    emoticonLookup s = (alookup emoticonRows (codesOf s)).map natsToChars ∧
    emojiNameLookup s = (alookup emojiNameRows (codesOf s)).map (fun l => l.map natsToChars) ∧
    bengaliNameLookup s = (alookup bengaliNameRows (codesOf s)).map (fun l => l.map natsToChars) := by
  simp only [emoticonLookup, emojiNameLookup, bengaliNameLookup,
    alookupLast_eq_alookup_of_nodup emoticon_keys_distinct, alookupLast_eq_alookup_of_nodup emoji_name_keys_distinct,
    alookupLast_eq_alookup_of_nodup bengali_name_keys_distinct, and_self]

/-- `get_by_emoticon` answers exactly the rows of the table: `s ↦ e` iff `(s, e)` is a row -/
theorem emoticon_lookup_iff (s e : Str) :
    emoticonLookup s = some e ↔ ∃ row ∈ emoticonRows, s = chars row.1 ∧ e = chars row.2 := by
  constructor
  · intro h
    unfold emoticonLookup at h
    obtain ⟨v, hv, rfl⟩ := Option.map_eq_some_iff.mp h
    exact ⟨(codesOf s, v), alookupLast_mem hv, (natsToChars_codesOf s).symm, rfl⟩
  · rintro ⟨row, hrow, rfl, rfl⟩
    unfold emoticonLookup
    rw [codesOf_natsToChars (emoticon_row_valid hrow).1, alookupLast_of_mem_nodup emoticon_keys_distinct (v := row.2) hrow]
    rfl

/-- `get_by_name` answers exactly the rows of the English table, the emoji in the order of the row -/
theorem emoji_name_lookup_iff (s : Str) (es : List Str) :
    emojiNameLookup s = some es ↔ ∃ row ∈ emojiNameRows, s = chars row.1 ∧ es = row.2.map chars := by
  constructor
  · intro h
    unfold emojiNameLookup at h
    obtain ⟨v, hv, rfl⟩ := Option.map_eq_some_iff.mp h
    exact ⟨(codesOf s, v), alookupLast_mem hv, (natsToChars_codesOf s).symm, rfl⟩
  · rintro ⟨row, hrow, rfl, rfl⟩
    unfold emojiNameLookup
    rw [codesOf_natsToChars (name_row_valid hrow).1, alookupLast_of_mem_nodup emoji_name_keys_distinct (v := row.2) hrow]
    rfl

/-- `BengaliEmoji::get` answers exactly the rows of the Bengali table, the emoji in the order of the row -/
theorem bengali_name_lookup_iff (s : Str) (es : List Str) :
    bengaliNameLookup s = some es ↔ ∃ row ∈ bengaliNameRows, s = chars row.1 ∧ es = row.2.map chars := by
  constructor
  · intro h
    unfold bengaliNameLookup at h
    obtain ⟨v, hv, rfl⟩ := Option.map_eq_some_iff.mp h
    exact ⟨(codesOf s, v), alookupLast_mem hv, (natsToChars_codesOf s).symm, rfl⟩
  · rintro ⟨row, hrow, rfl, rfl⟩
    unfold bengaliNameLookup
    rw [codesOf_natsToChars (bengali_row_valid hrow).1, alookupLast_of_mem_nodup bengali_name_keys_distinct (v := row.2) hrow]
    rfl

/-- every row of the emoticon table is found under its emoticon -/
theorem emoticon_rows_found : ∀ row ∈ emoticonRows, emoticonLookup (chars row.1) = some (chars row.2) :=
  fun row h => (emoticon_lookup_iff _ _).mpr ⟨row, h, rfl, rfl⟩

/-- every row of the English name table is found under its name, with its whole list in order -/
theorem emoji_name_rows_found : ∀ row ∈ emojiNameRows, emojiNameLookup (chars row.1) = some (row.2.map chars) :=
  fun row h => (emoji_name_lookup_iff _ _).mpr ⟨row, h, rfl, rfl⟩

/-- every row of the Bengali name table is found under its name, with its whole list in order -/
theorem bengali_name_rows_found : ∀ row ∈ bengaliNameRows, bengaliNameLookup (chars row.1) = some (row.2.map chars) :=
  fun row h => (bengali_name_lookup_iff _ _).mpr ⟨row, h, rfl, rfl⟩

/-! ## 2. what can be typed, what is looked up -/

theorem printable_iff (c : Nat) : printable c = true ↔ 33 ≤ c ∧ c ≤ 126 := by
  simp [printable, Nat.ble_eq]

/-- every printable ASCII character (33 … 126) is produced by a key code published in riti.h (regenerated key table) -/
theorem printable_has_key : ∀ c, printable c = true → ∃ k ∈ vcHeader, alookup keyChar k = some c := by
  intro c hp
  obtain ⟨h1, h2⟩ := (printable_iff c).mp hp
  have hc : c ∈ List.range' 33 94 := List.mem_range'_1.mpr ⟨h1, by omega⟩
  have := List.all_eq_true.mp printable_keys_ok.1 c hc
  obtain ⟨k, hk, hkc⟩ := List.any_eq_true.mp this
  exact ⟨k, hk, by simpa using hkc⟩

/-- no published key code produces a space through `keycode_to_char` -/
theorem space_has_no_key : ∀ k ∈ vcHeader, alookup keyChar k ≠ some 32 := by
  intro k hk
  simpa using List.all_eq_true.mp printable_keys_ok.2 k hk

/-- **every emoticon of the table can be typed**: each of its characters is printable ASCII and is produced by a published
    key code, so "typing any emoticon" ranges over the whole table (321 rows) -/
theorem emoticons_typeable : ∀ row ∈ emoticonRows, ∀ c ∈ row.1, (33 ≤ c ∧ c ≤ 126) ∧ ∃ k ∈ vcHeader, alookup keyChar k = some c := by
  intro row hrow c hc
  have hp := List.all_eq_true.mp (List.all_eq_true.mp emoticons_printable_ok row hrow) c hc
  exact ⟨(printable_iff c).mp hp, printable_has_key c hp⟩

/-- … in the form of the model's key function: a key code whose `keycode_to_char` is that character -/
theorem emoticons_typeable_keys : ∀ row ∈ emoticonRows, ∀ c ∈ chars row.1, ∃ k ∈ vcHeader, keycodeToChar k = some c := by
  intro row hrow c hc
  obtain ⟨n, hn, rfl⟩ := mem_natsToChars hc
  obtain ⟨k, hk, hkc⟩ := (emoticons_typeable row hrow n hn).2
  exact ⟨k, hk, by simp [keycodeToChar, hkc]⟩

/-- the English names that contain a character outside printable ASCII: exactly one, `life preserver` (a space) -/
theorem names_not_printable_exactly :
    emojiNameRows.filter (fun r => !(r.1.all printable)) =
      [([108, 105, 102, 101, 32, 112, 114, 101, 115, 101, 114, 118, 101, 114], [[128735]])] := names_not_printable_ok

/-- **every English emoji name except `life preserver` can be typed** (1 388 of 1 389) -/
theorem names_typeable_except : ∀ row ∈ emojiNameRows, row.1 ≠ [108, 105, 102, 101, 32, 112, 114, 101, 115, 101, 114, 118, 101, 114] →
    ∀ c ∈ row.1, ∃ k ∈ vcHeader, alookup keyChar k = some c := by
  intro row hrow hne c hc
  by_cases hp : row.1.all printable = true
  · exact printable_has_key c (List.all_eq_true.mp hp c hc)
  · have hm : row ∈ emojiNameRows.filter (fun r => !(r.1.all printable)) := by
      rw [List.mem_filter]; exact ⟨hrow, by simpa using hp⟩
    rw [names_not_printable_exactly, List.mem_singleton] at hm
    exact absurd (by rw [hm]) hne

/-- `life preserver` is a row; it contains a space, which no published key produces: it cannot be typed into a word -/
theorem life_preserver_untypeable :
    (([108, 105, 102, 101, 32, 112, 114, 101, 115, 101, 114, 118, 101, 114], [[128735]]) : List Nat × List (List Nat)) ∈ emojiNameRows ∧
    (32 ∈ [108, 105, 102, 101, 32, 112, 114, 101, 115, 101, 114, 118, 101, 114]) ∧ ∀ k ∈ vcHeader, alookup keyChar k ≠ some 32 := by
  refine ⟨?_, by decide, space_has_no_key⟩
  have : (([108, 105, 102, 101, 32, 112, 114, 101, 115, 101, 114, 118, 101, 114], [[128735]]) : List Nat × List (List Nat)) ∈
      emojiNameRows.filter (fun r => !(r.1.all printable)) := by rw [names_not_printable_exactly]; exact List.mem_singleton.mpr rfl
  exact (List.mem_filter.mp this).1

/-- a key whose first and last code point are neither punctuation nor a back-tick is split into itself -/
theorem split_self_of_edges {k : List Nat} (hv : validCodes k = true) (he : edgesPlain k = true) :
    split (chars k) false = ⟨[], chars k, []⟩ := by
  unfold edgesPlain at he
  cases k with
  | nil => simp at he
  | cons x xs =>
    cases hl : (x :: xs).getLast? with
    | none => rw [hl] at he; simp at he
    | some y =>
      rw [hl] at he
      simp only [Bool.and_eq_true, Bool.not_eq_true', bne_iff_ne, ne_eq] at he
      obtain ⟨⟨hx, hy⟩, hy96⟩ := he
      obtain ⟨ys, hys⟩ := List.getLast?_eq_some_iff.mp hl
      have hvalid : ∀ n ∈ x :: xs, n.isValidChar := by
        intro n hn
        have := List.all_eq_true.mp hv n hn
        simpa using this
      have hxv := hvalid x List.mem_cons_self
      have hyv : y.isValidChar := hvalid y (by rw [hys]; simp)
      have hmx : isMeta (Char.ofNat x) = false := by unfold isMeta; rw [toNat_ofNat_of_valid hxv]; exact hx
      have hmy : isMeta (Char.ofNat y) = false := by unfold isMeta; rw [toNat_ofNat_of_valid hyv]; exact hy
      have hby : (Char.ofNat y == '`') = false := by
        rw [beq_eq_false_iff_ne]
        intro h
        have := congrArg Char.toNat h
        rw [toNat_ofNat_of_valid hyv] at this
        exact hy96 this
      have hcons : chars (x :: xs) = Char.ofNat x :: chars xs := rfl
      have hsnoc : Char.ofNat x :: chars xs = chars ys ++ [Char.ofNat y] := by
        rw [← hcons, hys]; simp [chars, natsToChars]
      rw [hcons, split_cons_nonmeta _ _ false hmx]
      have hrev : (Char.ofNat x :: chars xs).reverse = Char.ofNat y :: (chars ys).reverse := by rw [hsnoc]; simp
      have ht : tlen false (Char.ofNat x :: chars xs).reverse false = 0 := by
        rw [hrev, tlen_cons]; simp [hby, hmy]
      rw [ht]; simp

/-- the English names whose first or last character is punctuation (or a back-tick): `!`, `+1`, `-1` -/
theorem names_split_away_exactly :
    emojiNameRows.filter (fun r => !(edgesPlain r.1)) =
      [([33], [[10071]]), ([43, 49], [[128077]]), ([45, 49], [[128078]])] := names_edges_ok

/-- every other English name is split into itself: typed bare it is looked up as itself -/
theorem names_split_self_except : ∀ row ∈ emojiNameRows, row.1 ∉ [[33], [43, 49], [45, 49]] →
    split (chars row.1) false = ⟨[], chars row.1, []⟩ := by
  intro row hrow hne
  apply split_self_of_edges (name_row_valid hrow).1
  apply Classical.byContradiction
  intro he
  have hm : row ∈ emojiNameRows.filter (fun r => !(edgesPlain r.1)) := by
    rw [List.mem_filter]; exact ⟨hrow, by simpa using he⟩
  rw [names_split_away_exactly] at hm
  apply hne
  simp only [List.mem_cons, List.not_mem_nil, or_false] at hm ⊢
  rcases hm with h | h | h <;> simp [h]

/-- … so its word part is itself -/
theorem names_word_self_except : ∀ row ∈ emojiNameRows, row.1 ∉ [[33], [43, 49], [45, 49]] → word (chars row.1) = chars row.1 := by
  intro row hrow hne
  unfold word
  rw [names_split_self_except row hrow hne]

/-- **the emoji of `!`, `+1`, `-1` are never offered by name**: no typed text whatsoever has one of them as its word part,
    so `get_by_name` is never asked for them (known finding `name-with-punctuation-not-looked-up`) -/
theorem names_never_looked_up (env : Env) (cfg : Cfg) : ∀ k ∈ [[33], [43, 49], [45, 49]], ∀ term : Str,
    (preparedParts env cfg term).word ≠ chars k := by
  intro k hk term
  rw [preparedParts_word]
  apply nonfix_never_key
  simp only [List.mem_cons, List.not_mem_nil, or_false] at hk
  rcases hk with rfl | rfl | rfl <;> decide

/-- the Bengali names whose first or last character is punctuation: `#`, `*` (keycap emoji); the fixed method's `split`
    takes them as punctuation, so they are not looked up either -/
theorem bengali_names_split_away_exactly :
    bengaliNameRows.filter (fun r => !(edgesPlain r.1)) =
      [([35], [[35, 65039, 8419]]), ([42], [[42, 65039, 8419]])] := bengali_edges_ok

/-! ## 3. sizes of the emoji lists -/

/-- **sizes of the emoji lists**: every English name lists between 1 and 8 emoji (8 only for `workout`); every Bengali
    name between 1 and 10; the fixed method has room for 8 emoji (7 with the raw English item): exactly ONE Bengali name
    lists more than 7, `হৃদয়` with 10 (known finding `bengali-name-more-emoji-than-list-room`) -/
theorem emoji_lists_small :
    emojiNameRows.all (fun r => Nat.ble 1 r.2.length && Nat.ble r.2.length 8) = true ∧
    emojiNameRows.filter (fun r => Nat.blt 7 r.2.length) =
      [([119, 111, 114, 107, 111, 117, 116], [[128166], [128170], [127939], [127939, 8205, 9794, 65039], [127939, 8205, 9792, 65039],
        [127947, 65039], [127947, 65039, 8205, 9794, 65039], [127947, 65039, 8205, 9792, 65039]])] ∧
    bengaliNameRows.all (fun r => Nat.ble 1 r.2.length && Nat.ble r.2.length 10) = true ∧
    bengaliNameRows.filter (fun r => Nat.blt 7 r.2.length) =
      [([2489, 2499, 2470, 2527], [[9829], [10083], [10084], [128147], [128148], [128150], [128151], [128152], [128157], [128420]])] :=
  sizes_lists_ok

/-- every English name lists at most 8 emoji -/
theorem english_list_le_8 : ∀ row ∈ emojiNameRows, 1 ≤ row.2.length ∧ row.2.length ≤ 8 := by
  intro row h
  simpa [Nat.ble_eq] using List.all_eq_true.mp emoji_lists_small.1 row h

/-- every Bengali name other than `হৃদয়` lists at most 7 emoji: they fit the fixed method's list even with the raw English item -/
theorem bengali_list_le_7_except : ∀ row ∈ bengaliNameRows, row.1 ≠ [2489, 2499, 2470, 2527] → 1 ≤ row.2.length ∧ row.2.length ≤ 7 := by
  intro row hrow hne
  have h1 : 1 ≤ row.2.length ∧ row.2.length ≤ 10 := by simpa [Nat.ble_eq] using List.all_eq_true.mp emoji_lists_small.2.2.1 row hrow
  refine ⟨h1.1, ?_⟩
  apply Classical.byContradiction
  intro hgt
  have hm : row ∈ bengaliNameRows.filter (fun r => Nat.blt 7 r.2.length) := by
    rw [List.mem_filter]; exact ⟨hrow, by simp [Nat.blt_eq]; omega⟩
  rw [emoji_lists_small.2.2.2, List.mem_singleton] at hm
  exact hne (by rw [hm])

/-- no name lists the same emoji twice (both name tables) -/
theorem emoji_lists_nodup :
    emojiNameRows.all (fun r => distinctB r.2) = true ∧ bengaliNameRows.all (fun r => distinctB r.2) = true := lists_nodup_ok

/-! ## 4. the characters of the tables -/

/-- no key and no emoji of the three tables contains U+0000 or a curly quote (on the generated rows) -/
theorem plain_codes :
    emoticonRows.all (fun r => r.1.all plainCode && r.2.all plainCode) = true ∧
    emojiNameRows.all (fun r => r.1.all plainCode && r.2.all (fun e => e.all plainCode)) = true ∧
    bengaliNameRows.all (fun r => r.1.all plainCode && r.2.all (fun e => e.all plainCode)) = true := plain_ok

/-- a valid code point passing `plainCode` is a character other than U+0000 and the four curly quotes -/
theorem plain_char {n : Nat} (hv : validCodes [n] = true) (hp : plainCode n = true) :
    Char.ofNat n ≠ '\x00' ∧ Char.ofNat n ∉ ['‘', '’', '“', '”'] := by
  have hvalid : n.isValidChar := by simpa [validCodes] using hv
  have ht := toNat_ofNat_of_valid hvalid
  simp only [plainCode, Bool.and_eq_true, bne_iff_ne, ne_eq] at hp
  obtain ⟨⟨⟨⟨h0, h1⟩, h2⟩, h3⟩, h4⟩ := hp
  have hne : ∀ c : Char, c.toNat ≠ n → Char.ofNat n ≠ c := fun c hc he => hc (by rw [← he, ht])
  refine ⟨hne _ (by simpa using Ne.symm h0), ?_⟩
  simp only [List.mem_cons, List.not_mem_nil, or_false, not_or]
  exact ⟨hne _ (by simpa using Ne.symm h1), hne _ (by simpa using Ne.symm h2), hne _ (by simpa using Ne.symm h3),
    hne _ (by simpa using Ne.symm h4)⟩

/-- a text made of valid code points passing `plainCode` has no U+0000 and no curly quote -/
theorem plain_text {l : List Nat} (hv : validCodes l = true) (hp : l.all plainCode = true) :
    NoNul (chars l) ∧ NoCurly (chars l) := by
  have key : ∀ c ∈ chars l, c ≠ '\x00' ∧ c ∉ ['‘', '’', '“', '”'] := by
    intro c hc
    obtain ⟨n, hn, rfl⟩ := mem_natsToChars hc
    have hv1 : validCodes [n] = true := by
      have := List.all_eq_true.mp hv n hn
      simpa [validCodes] using this
    exact plain_char hv1 (List.all_eq_true.mp hp n hn)
  exact ⟨fun h => (key _ h).1 rfl, fun c hc => (key c hc).2⟩

/-- **no text the tables can answer contains U+0000** (the emoji part of C19's `NoNulEnv` / `DataNoNul` premises) -/
theorem no_nul_in_tables :
    (∀ k v, emoticonLookup k = some v → NoNul v) ∧
    (∀ k l, emojiNameLookup k = some l → ∀ s ∈ l, NoNul s) ∧
    (∀ k l, bengaliNameLookup k = some l → ∀ s ∈ l, NoNul s) := by
  refine ⟨?_, ?_, ?_⟩
  · intro k v h
    obtain ⟨row, hrow, -, rfl⟩ := (emoticon_lookup_iff k v).mp h
    have hp := List.all_eq_true.mp plain_codes.1 row hrow
    simp only [Bool.and_eq_true] at hp
    exact (plain_text (emoticon_row_valid hrow).2 hp.2).1
  · intro k l h s hs
    obtain ⟨row, hrow, -, rfl⟩ := (emoji_name_lookup_iff k l).mp h
    obtain ⟨e, he, rfl⟩ := List.mem_map.mp hs
    have hp := List.all_eq_true.mp plain_codes.2.1 row hrow
    simp only [Bool.and_eq_true] at hp
    exact (plain_text ((name_row_valid hrow).2 e he) (List.all_eq_true.mp hp.2 e he)).1
  · intro k l h s hs
    obtain ⟨row, hrow, -, rfl⟩ := (bengali_name_lookup_iff k l).mp h
    obtain ⟨e, he, rfl⟩ := List.mem_map.mp hs
    have hp := List.all_eq_true.mp plain_codes.2.2 row hrow
    simp only [Bool.and_eq_true] at hp
    exact (plain_text ((bengali_row_valid hrow).2 e he) (List.all_eq_true.mp hp.2 e he)).1

/-- **no text the tables can answer contains a curly quote** (the emoji part of C17's `NoCurly` proviso) -/
theorem no_curly_quote_in_tables :
    (∀ k v, emoticonLookup k = some v → NoCurly v) ∧
    (∀ k l, emojiNameLookup k = some l → ∀ s ∈ l, NoCurly s) ∧
    (∀ k l, bengaliNameLookup k = some l → ∀ s ∈ l, NoCurly s) := by
  refine ⟨?_, ?_, ?_⟩
  · intro k v h
    obtain ⟨row, hrow, -, rfl⟩ := (emoticon_lookup_iff k v).mp h
    have hp := List.all_eq_true.mp plain_codes.1 row hrow
    simp only [Bool.and_eq_true] at hp
    exact (plain_text (emoticon_row_valid hrow).2 hp.2).2
  · intro k l h s hs
    obtain ⟨row, hrow, -, rfl⟩ := (emoji_name_lookup_iff k l).mp h
    obtain ⟨e, he, rfl⟩ := List.mem_map.mp hs
    have hp := List.all_eq_true.mp plain_codes.2.1 row hrow
    simp only [Bool.and_eq_true] at hp
    exact (plain_text ((name_row_valid hrow).2 e he) (List.all_eq_true.mp hp.2 e he)).2
  · intro k l h s hs
    obtain ⟨row, hrow, -, rfl⟩ := (bengali_name_lookup_iff k l).mp h
    obtain ⟨e, he, rfl⟩ := List.mem_map.mp hs
    have hp := List.all_eq_true.mp plain_codes.2.2 row hrow
    simp only [Bool.and_eq_true] at hp
    exact (plain_text ((bengali_row_valid hrow).2 e he) (List.all_eq_true.mp hp.2 e he)).2

/-- neither do the KEYS of the tables (emoticons and names) -/
theorem no_nul_no_curly_in_keys :
    (∀ row ∈ emoticonRows, NoNul (chars row.1) ∧ NoCurly (chars row.1)) ∧
    (∀ row ∈ emojiNameRows, NoNul (chars row.1) ∧ NoCurly (chars row.1)) ∧
    (∀ row ∈ bengaliNameRows, NoNul (chars row.1) ∧ NoCurly (chars row.1)) := by
  refine ⟨?_, ?_, ?_⟩
  · intro row hrow
    have hp := List.all_eq_true.mp plain_codes.1 row hrow
    simp only [Bool.and_eq_true] at hp
    exact plain_text (emoticon_row_valid hrow).1 hp.1
  · intro row hrow
    have hp := List.all_eq_true.mp plain_codes.2.1 row hrow
    simp only [Bool.and_eq_true] at hp
    exact plain_text (name_row_valid hrow).1 hp.1
  · intro row hrow
    have hp := List.all_eq_true.mp plain_codes.2.2 row hrow
    simp only [Bool.and_eq_true] at hp
    exact plain_text (bengali_row_valid hrow).1 hp.1

/-- every emoji of the emoticon table and of the English name table contains a code point ≥ U+2100 (no text of letters,
    digits, punctuation or Bengali can coincide with an emoji) -/
theorem emoji_have_high_code :
    emoticonRows.all (fun r => r.2.any highCode) = true ∧
    emojiNameRows.all (fun r => r.2.all (fun e => e.any highCode)) = true := high_ok

/-- the 10 emoticons whose word part (by the phonetic `split`) is itself an English emoji name, with that name: typing
    them offers the emoticon's emoji, NOT the emoji of the name (the emoticon match takes precedence) -/
def emoticonsOverNames : List (List Nat × List Nat) :=
  [([111, 61, 41], [111]), ([111, 61, 93], [111]), ([111, 61, 45, 41], [111]), ([111, 61, 45, 93], [111]), ([120, 41], [120]),
   ([120, 93], [120]), ([120, 45, 41], [120]), ([120, 45, 93], [120]), ([61, 111], [111]), ([61, 45, 111], [111])]

/-- **an emoticon's word part is an English emoji name for exactly these 10 emoticons** (`o=)` `o=]` `o=-)` `o=-]` `=o`
    `=-o` over the name `o`; `x)` `x]` `x-)` `x-]` over the name `x`); for the other 311 the word part is no name -/
theorem emoticon_is_not_emoji_name_except : ∀ row ∈ emoticonRows,
    (emojiNameLookup (word (chars row.1))).isSome = true ↔ row.1 ∈ emoticonsOverNames.map Prod.fst := by
  intro row hrow
  have hfact := emoticon_words_ok
  constructor
  · intro hs
    -- the word part is a key of the name table
    have hkey : codesOf (word (chars row.1)) ∈ emojiNameRows.map Prod.fst := by
      apply Classical.byContradiction
      intro hn
      have := alookupLast_eq_none_iff.mpr hn
      simp [emojiNameLookup, this] at hs
    obtain ⟨nr, hnr, hnk⟩ := List.mem_map.mp hkey
    have hne : (codesOf (word (chars row.1))).isEmpty = false := by
      have := List.all_eq_true.mp emoticon_words_special_ok.2 nr hnr
      rw [← hnk]; simpa using this
    have hcls : (codesOf (word (chars row.1))).all wordCode = true := by
      apply Classical.byContradiction
      intro hc
      have hm : nr ∈ emojiNameRows.filter (fun r => !(r.1.all wordCode)) := by
        rw [List.mem_filter]; exact ⟨hnr, by rw [hnk]; simpa using hc⟩
      rw [classes_ok.2] at hm
      have hsp := List.all_eq_true.mp emoticon_words_special_ok.1 row hrow
      simp only [emoWord, List.all_cons, List.all_nil, Bool.and_true, Bool.and_eq_true, Bool.not_eq_true'] at hsp
      have hneq : ∀ k, eqCodes (codesOf (word (chars row.1))) k = false → nr.1 ≠ k := by
        intro k hk he
        rw [← hnk, ← he] at hk
        have := eqCodes_iff.mpr (rfl : nr.1 = nr.1)
        rw [this] at hk; cases hk
      obtain ⟨h1, h2, h3, h4, h5⟩ := hsp
      simp only [List.mem_cons, List.not_mem_nil, or_false] at hm
      rcases hm with h | h | h | h | h
      · exact hneq _ h1 (by rw [h])
      · exact hneq _ h2 (by rw [h])
      · exact hneq _ h3 (by rw [h])
      · exact hneq _ h4 (by rw [h])
      · exact hneq _ h5 (by rw [h])
    have hin : keyNotIn (codesOf (word (chars row.1))) emojiNameRows = false := by
      cases hk : keyNotIn (codesOf (word (chars row.1))) emojiNameRows with
      | false => rfl
      | true => exact absurd hkey (keyNotIn_iff.mp hk)
    have hm : row ∈ emoticonRows.filter emoWordIsName := by
      rw [List.mem_filter]
      refine ⟨hrow, ?_⟩
      show (!(codesOf (word (chars row.1))).isEmpty && (codesOf (word (chars row.1))).all wordCode &&
        !(keyNotIn (codesOf (word (chars row.1))) emojiNameRows)) = true
      rw [hne, hcls, hin]; rfl
    have : (row.1, emoWord row) ∈ (emoticonRows.filter emoWordIsName).map (fun r => (r.1, emoWord r)) :=
      List.mem_map.mpr ⟨row, hm, rfl⟩
    rw [hfact] at this
    exact List.mem_map.mpr ⟨_, this, rfl⟩
  · intro hmem
    obtain ⟨p, hp, hp1⟩ := List.mem_map.mp hmem
    have hp' : p ∈ (emoticonRows.filter emoWordIsName).map (fun r => (r.1, emoWord r)) := by
      rw [hfact]; exact hp
    obtain ⟨r', hr', hpr⟩ := List.mem_map.mp hp'
    have hr1 : r'.1 = row.1 := by rw [← hp1, ← hpr]
    have hcond := (List.mem_filter.mp hr').2
    simp only [emoWordIsName, Bool.and_eq_true, Bool.not_eq_true'] at hcond
    have hk : keyNotIn (codesOf (word (natsToChars row.1))) emojiNameRows = false := by rw [← hr1]; exact hcond.2
    cases hl : alookupLast emojiNameRows (codesOf (word (chars row.1))) with
    | some v => simp [emojiNameLookup, hl]
    | none =>
      exfalso
      have := keyNotIn_iff.mpr (alookupLast_eq_none_iff.mp hl)
      rw [this] at hk; cases hk

/-- … an emoticon of the table outside that list has a word part that `get_by_name` does not know -/
theorem emoticon_word_no_name : ∀ row ∈ emoticonRows, row.1 ∉ emoticonsOverNames.map Prod.fst →
    emojiNameLookup (word (chars row.1)) = none := by
  intro row hrow hne
  cases h : emojiNameLookup (word (chars row.1)) with
  | none => rfl
  | some v => exact absurd ((emoticon_is_not_emoji_name_except row hrow).mp (by simp [h])) hne

/-- no English emoji name is itself an emoticon: typing a name bare never takes the emoticon branch -/
theorem no_name_is_an_emoticon : ∀ row ∈ emojiNameRows, emoticonLookup (chars row.1) = none := by
  intro row hrow
  unfold emoticonLookup
  rw [codesOf_natsToChars (name_row_valid hrow).1]
  have : alookupLast emoticonRows row.1 = none := by
    rw [alookupLast_eq_none_iff]
    intro hmem
    obtain ⟨er, her, hek⟩ := List.mem_map.mp hmem
    by_cases hc : row.1.all wordCode = true
    · have hm : er ∈ emoticonRows.filter (fun r => r.1.all wordCode) := by
        rw [List.mem_filter]; exact ⟨her, by rw [hek]; exact hc⟩
      rw [classes_ok.1, List.mem_singleton] at hm
      have hx : row.1 = [120, 51] := by rw [← hek, hm]
      have := keyNotIn_iff.mp cross_ok.1
      exact this (List.mem_map.mpr ⟨row, hrow, hx⟩)
    · have hm : row ∈ emojiNameRows.filter (fun r => !(r.1.all wordCode)) := by
        rw [List.mem_filter]; exact ⟨hrow, by simpa using hc⟩
      rw [classes_ok.2] at hm
      have hall := cross_ok.2
      simp only [List.all_cons, List.all_nil, Bool.and_true, Bool.and_eq_true] at hall
      obtain ⟨h1, h2, h3, h4, h5⟩ := hall
      have hno : ∀ k, keyNotIn k emoticonRows = true → row.1 ≠ k := by
        intro k hk he
        exact keyNotIn_iff.mp hk (by rw [← he]; exact hmem)
      simp only [List.mem_cons, List.not_mem_nil, or_false] at hm
      rcases hm with h | h | h | h | h
      · exact hno _ h1 (by rw [h])
      · exact hno _ h2 (by rw [h])
      · exact hno _ h3 (by rw [h])
      · exact hno _ h4 (by rw [h])
      · exact hno _ h5 (by rw [h])
  rw [this]; rfl

/-! ## 5. the instantiation -/

-- from here on the look-ups are used through the theorems of part 1 only (the elaborator must not unfold the tables)
attribute [local irreducible] emoticonLookup emojiNameLookup bengaliNameLookup


/-- an environment whose three emoji tables are the bundled ones (everything else as in `base`) -/
def tableEnv (base : Env) : Env :=
  { base with emoticon := emoticonLookup, emojiByName := emojiNameLookup, emojiBengali := bengaliNameLookup }

/-- data files whose emoji part is the bundled tables -/
def tableData (d : Data) : Data :=
  { d with emoticon := emoticonLookup, emojiByName := emojiNameLookup, emojiBengali := bengaliNameLookup }

/-- a world whose environment serves the bundled tables -/
def tableWorld (w : World) : World := { w with env := tableEnv w.env }

/-- the real engine over data files with the bundled emoji tables is `tableEnv` of the real engine -/
theorem realEnv_tableData (d : Data) : realEnv (tableData d) = tableEnv (realEnv d) := rfl

/-- **C18, emoticons, phonetic method, on the real table**: for EVERY row of the bundled emoticon table, typing the
    emoticon offers its emoji and keeps the typed text available — every memo and option vector outside ANSI mode, every
    transliterator with `convert "" = ""` that is `PunctFaithful` (the strength of `C18.emoticon_offered`) -/
theorem emoticon_offered_table : ∀ row ∈ emoticonRows, ∀ (base : Env) (cfg : Cfg) (cache : Memo),
    cfg.ansi = false → base.convert [] = [] → C18.PunctFaithful (tableEnv base) cfg (chars row.1) →
    chars row.2 ∈ (suggestList (tableEnv base) cfg cache (chars row.1)).map Rank.text ∧
      chars row.1 ∈ (suggestList (tableEnv base) cfg cache (chars row.1)).map Rank.text :=
  fun row hrow base cfg cache hansi hnil hpf =>
    C18.emoticon_offered (tableEnv base) cfg cache (chars row.1) (chars row.2) hansi hnil hpf (emoticon_rows_found row hrow)

/-- **… for the real engine** (okkhor transliterator, regex look-up, encoder; any dictionary / suffix / auto-correct
    files): no side condition left — all 321 emoticons, every memo, every option vector outside ANSI mode -/
theorem emoticon_offered_table_real : ∀ row ∈ emoticonRows, ∀ (d : Data) (cfg : Cfg) (cache : Memo), cfg.ansi = false →
    chars row.2 ∈ (suggestList (realEnv (tableData d)) cfg cache (chars row.1)).map Rank.text ∧
      chars row.1 ∈ (suggestList (realEnv (tableData d)) cfg cache (chars row.1)).map Rank.text :=
  fun row hrow d cfg cache hansi =>
    emoticon_offered_real (tableData d) cfg cache (chars row.1) (chars row.2) hansi (emoticon_rows_found row hrow)

/-- **C18, English names, phonetic method, on the real table**: for EVERY row of the bundled name table and every typed
    text whose word part is the name and which is not itself an emoticon, ALL emoji of the row are offered, in the order of
    the row, each wrapped in the (transliterated, smart-quoted) punctuation around the word — every base environment, memo
    and option vector outside ANSI mode (the strength of `C18.names_offered`) -/
theorem names_offered_table : ∀ row ∈ emojiNameRows, ∀ (base : Env) (cfg : Cfg) (cache : Memo) (term : Str),
    cfg.ansi = false → emoticonLookup term = none → word term = chars row.1 →
    ((row.2.map chars).map (wrapText (preparedParts (tableEnv base) cfg term).pre (preparedParts (tableEnv base) cfg term).trail)).Sublist
      ((suggestList (tableEnv base) cfg cache term).map Rank.text) := by
  intro row hrow base cfg cache term hansi he hw
  apply C18.names_offered (tableEnv base) cfg cache term (row.2.map chars) hansi he
  rw [preparedParts_word, hw]
  exact emoji_name_rows_found row hrow

/-- … typed bare: every English name except `!`, `+1`, `-1` offers all its emoji, in table order, unwrapped.  (Those three
    are never looked up: `names_never_looked_up`.) -/
theorem names_offered_table_bare : ∀ row ∈ emojiNameRows, row.1 ∉ [[33], [43, 49], [45, 49]] →
    ∀ (base : Env) (cfg : Cfg) (cache : Memo), cfg.ansi = false → base.convert [] = [] →
    (row.2.map chars).Sublist ((suggestList (tableEnv base) cfg cache (chars row.1)).map Rank.text) := by
  intro row hrow hne base cfg cache hansi hnil
  have hw := names_word_self_except row hrow hne
  have h := names_offered_table row hrow base cfg cache (chars row.1) hansi (no_name_is_an_emoticon row hrow) hw
  -- the punctuation around a bare name is empty
  have hsplit := names_split_self_except row hrow hne
  have hpre : (preparedParts (tableEnv base) cfg (chars row.1)).pre = [] ∧ (preparedParts (tableEnv base) cfg (chars row.1)).trail = [] := by
    unfold preparedParts
    simp only [hsplit]
    have hc : (tableEnv base).convert [] = [] := hnil
    split
    · unfold smartQuoter; split <;> simp [hc]
    · simp [hc]
  have hid : wrapText ([] : Str) [] = id := by funext t; simp [wrapText]
  rw [hpre.1, hpre.2, hid, List.map_id] at h
  exact h

/-- **… for the real engine**: all emoji of every English name row, in order, for every typed text with that word part that
    is not an emoticon -/
theorem names_offered_table_real : ∀ row ∈ emojiNameRows, ∀ (d : Data) (cfg : Cfg) (cache : Memo) (term : Str),
    cfg.ansi = false → emoticonLookup term = none → word term = chars row.1 →
    ((row.2.map chars).map (wrapText (preparedParts (realEnv (tableData d)) cfg term).pre (preparedParts (realEnv (tableData d)) cfg term).trail)).Sublist
      ((suggestList (realEnv (tableData d)) cfg cache term).map Rank.text) :=
  fun row hrow d cfg cache term => names_offered_table row hrow (realEnv d) cfg cache term

/-- with a clean memo (every reachable memo) the emoji candidates are EXACTLY the emoji of the row, numbered 1, 2, 3, … -/
theorem names_exact_table : ∀ row ∈ emojiNameRows, ∀ (base : Env) (cfg : Cfg) (cache : Memo) (term : Str),
    MemoClean cache → cfg.ansi = false → emoticonLookup term = none → word term = chars row.1 →
    (suggestList (tableEnv base) cfg cache term).filter (fun r => r.variant == .emoji) =
      C18.emojiItems (preparedParts (tableEnv base) cfg term) (row.2.map chars) := by
  intro row hrow base cfg cache term hclean hansi he hw
  apply C18.names_exact (tableEnv base) cfg cache term (row.2.map chars) hclean hansi he
  rw [preparedParts_word, hw]
  exact emoji_name_rows_found row hrow

/-- **C18, emoticons, fixed method, on the real table — PARTIAL** (as `C18.emoticon_offered_fixed_partial`): for every row,
    when the typed keys spell the emoticon its emoji is shown, provided fewer than `keep - 1` dictionary hits carry a stored
    number ≤ 1 (excluded: a dictionary listing the typed word that many times) — any admissible ordering, outside ANSI mode -/
theorem emoticon_offered_fixed_table_partial : ∀ row ∈ emoticonRows, ∀ (w : World), IsSortPerm w.sorter → ∀ (cfg : Cfg) (s : FState),
    cfg.ansi = false → s.typed = chars row.1 →
    ((fixedHits (tableWorld w).env cfg (fixedParts cfg s.buffer).word).filter (fun r => decide (r.num ≤ 1))).length + 2 ≤
      (fixedCands (tableWorld w).env cfg s).keep →
    chars row.2 ∈ (C18.shown (tableWorld w) cfg s).map Rank.text := by
  intro row hrow w hs cfg s hansi htyped hfew
  apply C18.emoticon_offered_fixed_partial (tableWorld w) hs cfg s (chars row.2) hansi _ hfew
  show emoticonLookup s.typed = some (chars row.2)
  rw [htyped]; exact emoticon_rows_found row hrow

/-- **C18, Bengali names, fixed method, on the real table — PARTIAL** (as `C18.names_offered_fixed_partial`): for every row,
    when the word part of the composed text (ZWNJ ignored) is the name and the typed keys are not an emoticon, every emoji
    of the row is shown, wrapped, provided they fit: the emoji, the hits numbered at most like the last emoji, and the
    composed text within `keep`.  Order among the emoji is not claimed (`sort_unstable`).  Excluded by the size condition:
    `হৃদয়` (10 emoji, `heart_never_complete`). -/
theorem names_offered_fixed_table_partial : ∀ row ∈ bengaliNameRows, ∀ (w : World), IsSortPerm w.sorter → ∀ (cfg : Cfg) (s : FState),
    cfg.ansi = false → emoticonLookup s.typed = none →
    (fixedParts cfg s.buffer).word.filter (fun c => c != cZWNJ) = chars row.1 →
    ((fixedHits (tableWorld w).env cfg (fixedParts cfg s.buffer).word).filter (fun r => decide (r.num ≤ row.2.length))).length +
      row.2.length + 1 ≤ (fixedCands (tableWorld w).env cfg s).keep →
    ∀ e ∈ row.2, wrapText (fixedParts cfg s.buffer).pre (fixedParts cfg s.buffer).trail (chars e) ∈ (C18.shown (tableWorld w) cfg s).map Rank.text := by
  intro row hrow w hs cfg s hansi he hw hfew e hemem
  have hes : (tableWorld w).env.emojiBengali ((fixedParts cfg s.buffer).word.filter (fun c => c != cZWNJ)) = some (row.2.map chars) := by
    show bengaliNameLookup _ = _
    rw [hw]; exact bengali_name_rows_found row hrow
  have hfew' : ((fixedHits (tableWorld w).env cfg (fixedParts cfg s.buffer).word).filter (fun r => decide (r.num ≤ (row.2.map chars).length))).length +
      (row.2.map chars).length + 1 ≤ (fixedCands (tableWorld w).env cfg s).keep := by simpa using hfew
  exact C18.names_offered_fixed_partial (tableWorld w) hs cfg s (row.2.map chars) hansi he hes hfew' (chars e) (List.mem_map.mpr ⟨e, hemem, rfl⟩)

/-- the name `হৃদয়` lists 10 emoji and the fixed method never shows more than 8 emoji candidates: whatever is typed, under
    any admissible ordering, fewer emoji candidates are shown than that row lists (the size condition of
    `names_offered_fixed_table_partial` can never hold for it) -/
theorem heart_never_complete (w : World) (hs : IsSortPerm w.sorter) (cfg : Cfg) (s : FState) :
    ∀ row ∈ bengaliNameRows, row.1 = [2489, 2499, 2470, 2527] →
      ((C18.shown w cfg s).filter (fun r => r.variant == .emoji)).length < row.2.length := by
  intro row hrow hk
  have h8 := C18.fixed_at_most_eight_emoji w hs cfg s
  have hm : (([2489, 2499, 2470, 2527], [[9829], [10083], [10084], [128147], [128148], [128150], [128151], [128152], [128157], [128420]]) :
      List Nat × List (List Nat)) ∈ bengaliNameRows := by
    have := emoji_lists_small.2.2.2
    have hmem : (([2489, 2499, 2470, 2527], [[9829], [10083], [10084], [128147], [128148], [128150], [128151], [128152], [128157], [128420]]) :
      List Nat × List (List Nat)) ∈ bengaliNameRows.filter (fun r => Nat.blt 7 r.2.length) := by rw [this]; exact List.mem_singleton.mpr rfl
    exact (List.mem_filter.mp hmem).1
  -- keys are distinct: the row with that key is this row
  have hv : row.2 = [[9829], [10083], [10084], [128147], [128148], [128150], [128151], [128152], [128157], [128420]] := by
    have h1 := alookupLast_of_mem_nodup bengali_name_keys_distinct (k := row.1) (v := row.2) hrow
    have h2 := alookupLast_of_mem_nodup bengali_name_keys_distinct hm
    rw [hk] at h1
    rw [h1] at h2
    exact Option.some.inj h2
  rw [hv]
  simp only [List.length_cons, List.length_nil]
  omega

/-- the C19 data premise for data files with the bundled emoji tables: only the three JSON files are left to check -/
theorem dataNoNul_tableData {d : Data} (hdict : ∀ t, ∀ s ∈ d.dictionary t, NoNul s) (hsfx : ∀ k v, d.suffix k = some v → NoNul v)
    (hac : ∀ k v, d.autocorrect k = some v → NoNul v) : DataNoNul (tableData d) :=
  ⟨hdict, hsfx, hac, no_nul_in_tables.1, no_nul_in_tables.2.1, no_nul_in_tables.2.2⟩

/-- the C17 data premise (`NoCurly` everywhere) for data files with the bundled emoji tables: only the three JSON files are left -/
theorem dataAll_noCurly_tableData {d : Data} (ht : TextAll (fun c => c ∉ ['‘', '’', '“', '”']) d) :
    DataAll (fun c => c ∉ ['‘', '’', '“', '”']) (tableData d) :=
  ⟨⟨ht.dict, ht.sfx, ht.ac⟩, fun k v h => no_curly_quote_in_tables.1 k v h, fun k l h s hs => no_curly_quote_in_tables.2.1 k l h s hs⟩

/-- the C07 / C18 data premise `EmojiMarked` (every emoji has a character outside the class, no name lists an emoji twice)
    holds of the bundled tables for the class "below U+2100" -/
theorem emojiMarked_tableData (d : Data) : EmojiMarked (fun c => c.toNat < 0x2100) (tableData d) := by
  have high : ∀ e : List Nat, validCodes e = true → e.any highCode = true → ∃ c ∈ chars e, ¬ c.toNat < 0x2100 := by
    intro e hv ha
    obtain ⟨n, hn, hge⟩ := List.any_eq_true.mp ha
    refine ⟨Char.ofNat n, List.mem_map.mpr ⟨n, hn, rfl⟩, ?_⟩
    have hv1 : n.isValidChar := by
      have := List.all_eq_true.mp hv n hn
      simpa using this
    rw [toNat_ofNat_of_valid hv1]
    have : 0x2100 ≤ n := by simpa [highCode, Nat.ble_eq] using hge
    omega
  constructor
  · intro k v h
    obtain ⟨row, hrow, -, rfl⟩ := (emoticon_lookup_iff k v).mp h
    exact high row.2 (emoticon_row_valid hrow).2 (List.all_eq_true.mp emoji_have_high_code.1 row hrow)
  · intro k l h
    obtain ⟨row, hrow, -, rfl⟩ := (emoji_name_lookup_iff k l).mp h
    constructor
    · have hnd : row.2.Nodup := nodup_of_distinctB (List.all_eq_true.mp emoji_lists_nodup.1 row hrow)
      show (row.2.map chars).Pairwise (· ≠ ·)
      rw [List.pairwise_map]
      refine List.Pairwise.imp_of_mem ?_ hnd
      intro a b ha hb hne hab
      have := congrArg codesOf hab
      rw [codesOf_natsToChars ((name_row_valid hrow).2 a ha), codesOf_natsToChars ((name_row_valid hrow).2 b hb)] at this
      exact hne this
    · intro s hs
      obtain ⟨e, he, rfl⟩ := List.mem_map.mp hs
      exact high e ((name_row_valid hrow).2 e he) (List.all_eq_true.mp (List.all_eq_true.mp emoji_have_high_code.2 row hrow) e he)

/-! ## 6. non-vacuity: rows of the real tables, run end to end in the kernel -/

/-- `:)` ↦ 😃, `B-)` ↦ 😎 are rows of the emoticon table; `cool` ↦ 😎 🆒 of the name table (the examples of the crate's
    documentation); so the look-ups answer them -/
example : emoticonLookup ":)".toList = some "😃".toList ∧ emoticonLookup "B-)".toList = some "😎".toList ∧
    emojiNameLookup "cool".toList = some ["😎".toList, "🆒".toList] :=
  ⟨emoticon_rows_found _ samples_ok.1, emoticon_rows_found _ samples_ok.2.1, emoji_name_rows_found _ samples_ok.2.2⟩

/-- … and the Bengali table through the look-up function itself, evaluated in the kernel -/
example : bengaliNameLookup "হাসি".toList = some (["☺", "😀", "😁", "😃", "😄", "🙂"].map String.toList) ∧
    bengaliNameLookup "কুল".toList = some ["🆒".toList, "😎".toList] ∧ emoticonLookup "smile".toList = none := by decide +kernel

/-- END TO END (the real transliterator, regex look-up and the bundled tables, the tiny dictionary of RealEnv): typing the
    emoticon `:)` offers 😃, keeps `:)` (and adds the transliteration); typing `"cool"` in quotes offers 😎 then 🆒 inside
    curled quotes -/
example :
    (suggestList (realEnv (tableData tiny)) {} (memoFill (realEnv (tableData tiny)) [] [] ":".toList) ":)".toList).map Rank.text =
      ["😃".toList, ":)".toList, "ঃ)".toList] ∧
    ((suggestList (realEnv (tableData tiny)) {} (memoFill (realEnv (tableData tiny)) [] [] "cool".toList) "\"cool\"".toList).filter
        (fun r => r.variant == .emoji)).map Rank.text = ["“😎”".toList, "“🆒”".toList] := by decide +kernel

/-- the hypotheses of `names_offered_table` are met by a concrete non-trivial input: the row `cool`, the typed text `"cool"!` -/
example : ∃ row ∈ emojiNameRows, emoticonLookup "\"cool\"!".toList = none ∧ word "\"cool\"!".toList = chars row.1 :=
  ⟨([99, 111, 111, 108], [[128526], [127378]]), samples_ok.2.2, by decide +kernel, by decide +kernel⟩

end Riti.EmojiTables
