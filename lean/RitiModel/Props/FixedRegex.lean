/-
Props/FixedRegex — the dictionary look-up of the fixed-layout method IS a regular-expression match.

`search_dictionary` (src/fixed/search.rs) builds `format!("^{}[<class>]{{0,{}}}$", clean, need)` with the `regex` crate and
keeps the dictionary words that match.  The engine model (`Model/Fixed.fixedMatches`) does not build an expression: it
tests "`clean` is a prefix, the rest is at most `need` characters long, all of the class".  Here that shortcut is proved
equal to membership in the textbook language (`Lemmas/Regex.Lang`) of the expression `rxFixed clean need`
= literal `clean` followed by the class repeated `{0,need}` — and to the model's own matcher `Rx.matches` on it.

What remains outside: that the TEXT `^clean[class]{0,need}$` denotes `rxFixed clean need` for the `regex` crate.  Two facts
proved here carry that step: (1) `clean_is_literal` / `cleanString_no_meta` — after `clean_string` the word contains none
of the characters the crate (or the model's reader) treats specially, so the inserted text is read character by character
as literals — for the model's own reader this is `parseRx_literal`: it reads the cleaned word as exactly `rxLit`;
(2) `lang_rxUpTo` — `rxUpTo a n` has the standard meaning of `a{0,n}` (at most `n` consecutive matches of `a`).
Not covered: the size limit of `Regex::new` (a compile error for very long words makes the look-up return nothing).
-/
import RitiModel.Model.Fixed
import RitiModel.Model.Regex
import RitiModel.Lemmas.Regex
import RitiModel.Lemmas.FixedRegex
import RitiModel.Props.Regex
namespace Riti.FixedRegex
open Riti Riti.Gen Riti.Regex

/-! ### 1. the building blocks -/

/-- a literal text matches exactly itself -/
theorem lang_rxLit {t s : List Char} : Lang (rxLit t) s ↔ s = t := by
  induction t generalizing s with
  | nil => simp [rxLit, lang_eps_iff]
  | cons c cs ih =>
    simp only [rxLit, lang_cat_iff, lang_chr_iff, ih]
    constructor
    · rintro ⟨s1, s2, rfl, rfl, rfl⟩; rfl
    · rintro rfl; exact ⟨[c], cs, rfl, rfl, rfl⟩

/-- `rxUpTo a n` is the bounded repetition `a{0,n}`: its words are the concatenations of at most `n` words of `a` -/
theorem lang_rxUpTo (a : Rx) (n : Nat) (s : List Char) :
    Lang (rxUpTo a n) s ↔
      ∃ parts : List (List Char), parts.length ≤ n ∧ (∀ p ∈ parts, Lang a p) ∧ s = parts.flatten := by
  induction n generalizing s with
  | zero =>
    simp only [rxUpTo, lang_eps_iff]
    constructor
    · rintro rfl; exact ⟨[], by simp, by simp, rfl⟩
    · rintro ⟨parts, hl, -, rfl⟩
      have : parts = [] := List.length_eq_zero_iff.1 (by omega)
      subst this; rfl
  | succ n ih =>
    simp only [rxUpTo, lang_opt_iff, lang_cat_iff, ih]
    constructor
    · rintro (rfl | ⟨s1, s2, rfl, h1, parts, hl, hp, rfl⟩)
      · exact ⟨[], by simp, by simp, rfl⟩
      · refine ⟨s1 :: parts, by simp; omega, ?_, by simp⟩
        intro p hp'
        rcases List.mem_cons.1 hp' with rfl | hp'
        · exact h1
        · exact hp p hp'
    · rintro ⟨parts, hl, hp, rfl⟩
      cases parts with
      | nil => exact .inl rfl
      | cons p ps =>
        refine .inr ⟨p, ps.flatten, by simp, hp p (List.mem_cons_self ..), ps, ?_, ?_, rfl⟩
        · simp at hl; omega
        · exact fun q hq => hp q (List.mem_cons_of_mem _ hq)

/-- `[cs]{0,n}`: the texts of at most `n` characters, all taken from `cs` -/
theorem lang_rxUpTo_cls (cs : List Char) (n : Nat) (s : List Char) :
    Lang (rxUpTo (.cls cs) n) s ↔ s.length ≤ n ∧ ∀ c ∈ s, c ∈ cs := by
  rw [lang_rxUpTo]
  constructor
  · rintro ⟨parts, hl, hp, rfl⟩
    obtain ⟨h1, h2⟩ := flatten_singletons (cs := cs) parts (fun p h => lang_cls_iff.1 (hp p h))
    exact ⟨by omega, h2⟩
  · rintro ⟨hl, hc⟩
    refine ⟨s.map (fun c => [c]), by simpa using hl, ?_, (flatten_map_singleton s).symm⟩
    intro p hp
    obtain ⟨c, hcs, rfl⟩ := List.mem_map.1 hp
    exact lang_cls_iff.2 ⟨c, hc c hcs, rfl⟩

/-- the class test of the model (on code points) is membership in the characters written between the brackets -/
theorem inRegexClass_iff {c : Char} : inRegexClass c = true ↔ c ∈ regexClassChars := by
  unfold inRegexClass regexClassChars
  rw [List.contains_iff_mem, List.mem_map]
  constructor
  · intro h; exact ⟨c.toNat, h, char_ofNat_toNat c⟩
  · rintro ⟨n, hn, rfl⟩
    rw [regexClassSet_valid n hn]; exact hn

/-! ### 2. the look-up is membership in the language of the pattern -/

/-- MAIN: a dictionary word passes the model's test "prefix + bounded tail of class characters" exactly when it is in
    the language of `^clean[class]{0,need}$` -/
theorem fixedMatches_iff_lang (clean : Str) (need : Nat) (w : Str) :
    fixedMatches clean need w = true ↔ Lang (rxFixed clean need) w := by
  simp only [fixedMatches, rxFixed, Bool.and_eq_true, decide_eq_true_eq, List.all_eq_true, lang_cat_iff, lang_rxLit,
    lang_rxUpTo_cls, inRegexClass_iff, List.isPrefixOf_iff_prefix]
  constructor
  · rintro ⟨⟨⟨t, rfl⟩, hc⟩, hl⟩
    rw [List.drop_left] at hc hl
    exact ⟨clean, t, rfl, rfl, hl, hc⟩
  · rintro ⟨s1, s2, rfl, rfl, hl, hc⟩
    rw [List.drop_left]
    exact ⟨⟨⟨s2, rfl⟩, hc⟩, hl⟩

/-- the model's test and the model's matcher run on the pattern give the same verdict on every word -/
theorem fixedMatches_eq_matches (clean : Str) (need : Nat) (w : Str) :
    fixedMatches clean need w = (rxFixed clean need).matches w := by
  rw [Bool.eq_iff_iff, fixedMatches_iff_lang, matches_iff]

/-- the hits of a table: filtering with the model's test = filtering with the matcher of the pattern -/
theorem filter_fixedMatches (clean : Str) (need : Nat) (ws : List Str) :
    ws.filter (fixedMatches clean need) = ws.filter (rxFixed clean need).matches := by
  congr 1; funext w; exact fixedMatches_eq_matches clean need w

/-- a match is never shorter than the typed word nor more than `need` characters longer -/
theorem fixedMatches_length {clean : Str} {need : Nat} {w : Str} (h : fixedMatches clean need w = true) :
    clean.length ≤ w.length ∧ w.length ≤ clean.length + need := by
  obtain ⟨s1, s2, rfl, h1, h2⟩ := lang_cat_iff.1 ((fixedMatches_iff_lang _ _ _).1 h)
  have := lang_rxLit.1 h1; subst this
  have := ((lang_rxUpTo_cls _ _ _).1 h2).1
  simp; omega

/-! ### 3. the cleaned word is a literal -/

/-- every character that is special for the model's reader of expressions is removed by `clean_string` -/
theorem clean_is_literal : ∀ c, rxSpecial c = true → isCleaned c = true := by
  intro c h
  simp only [rxSpecial, Bool.or_eq_true, decide_eq_true_eq] at h
  rcases h with (((((((((((((rfl | rfl) | rfl) | rfl) | rfl) | rfl) | rfl) | rfl) | rfl) | rfl) | rfl) | rfl) | rfl) | rfl) <;>
    decide

/-- every character that is special for the `regex` crate (`is_meta_character`: `\ . + * ? ( ) | [ ] { } ^ $ # & - ~`)
    is removed by `clean_string` -/
theorem clean_removes_crate_meta : ∀ c, regexCrateMeta c = true → isCleaned c = true := by
  intro c h
  simp only [regexCrateMeta, Bool.or_eq_true, decide_eq_true_eq] at h
  rcases h with
    (((((((((((((((((rfl | rfl) | rfl) | rfl) | rfl) | rfl) | rfl) | rfl) | rfl) | rfl) | rfl) | rfl) | rfl) | rfl) | rfl) |
      rfl) | rfl) | rfl) <;> decide

/-- the cleaned word contains no character that is special in a pattern (model's reader): inserted verbatim into the
    pattern text it denotes the literal `rxLit (cleanString w)` — see `parseRx_literal` -/
theorem cleanString_no_special (w : Str) : ∀ c ∈ cleanString w, rxSpecial c = false := by
  intro c hc
  have h : isCleaned c = false := by simpa [cleanString] using (List.mem_filter.1 hc).2
  cases hs : rxSpecial c with
  | false => rfl
  | true => rw [clean_is_literal c hs] at h; cases h

/-- the cleaned word contains no character that is special in a pattern for the `regex` crate: `format!` cannot
    inject syntax into the expression (no grouping, alternation, repetition, class, anchor, escape or flag can arise
    from the typed word) -/
theorem cleanString_no_meta (w : Str) : ∀ c ∈ cleanString w, regexCrateMeta c = false := by
  intro c hc
  have h : isCleaned c = false := by simpa [cleanString] using (List.mem_filter.1 hc).2
  cases hs : regexCrateMeta c with
  | false => rfl
  | true => rw [clean_removes_crate_meta c hs] at h; cases h

/-- the ASCII characters `clean_string` keeps are exactly: the control characters and the space (0–32), the digits,
    the letters, and DEL (127).  All ASCII punctuation `! " # $ % & ' ( ) * + , - . / : ; < = > ? @ [ \ ] ^ _ `` ` `` { | } ~`
    is removed.  (White space is only significant in a pattern under the `x` flag, which is not set and cannot be set:
    `(`, `?` are removed.) -/
theorem ascii_kept_iff : ∀ n, n < 128 →
    (isCleaned (Char.ofNat n) = false ↔
      (n ≤ 32 ∨ (48 ≤ n ∧ n ≤ 57) ∨ (65 ≤ n ∧ n ≤ 90) ∨ (97 ≤ n ∧ n ≤ 122) ∨ n = 127)) := by decide

/-- no ASCII character that survives `clean_string` is special for the `regex` crate or for the model's reader -/
theorem ascii_kept_not_meta : ∀ n, n < 128 → isCleaned (Char.ofNat n) = false →
    regexCrateMeta (Char.ofNat n) = false ∧ rxSpecial (Char.ofNat n) = false := by decide

/-- besides ASCII punctuation `clean_string` removes exactly the danda `।` and ZWNJ -/
theorem cleanSet_non_ascii : cleanSet.filter (fun n => decide (128 ≤ n)) = [0x964, 0x200C] := by decide

/-! ### 4. the model's own reader agrees: the cleaned word, written into a pattern, is read as the literal -/

/-- a text without special characters is read by the model's reader as the literal of that text -/
theorem parseRx_literal {t : List Char} (h : ∀ c ∈ t, rxSpecial c = false) : parseRx t = some (rxLit t) := by
  unfold parseRx
  rw [parseAlt, parseCat_literal t (4 * t.length + 2) (by omega) h]

/-- whatever was typed, the cleaned word inserted verbatim into a pattern is read as `rxLit (cleanString w)`: the
    first factor of `rxFixed` is what the text `clean` denotes -/
theorem parseRx_cleanString (w : Str) : parseRx (cleanString w) = some (rxLit (cleanString w)) :=
  parseRx_literal (cleanString_no_special w)

/-- the characters between the brackets are plain: none is `-` (range), `^` (negation), `[ ] \ & ~` (nested sets, escapes,
    set operations) or otherwise special for the `regex` crate, so the set denotes exactly its members -/
theorem regexClassChars_plain : ∀ c ∈ regexClassChars, regexCrateMeta c = false ∧ rxSpecial c = false := by decide

/-- the text `[<class>]` is read by the model's reader as the set `cls regexClassChars`: the second factor of `rxFixed`
    repeats what the bracket text denotes -/
theorem parseRx_class :
    parseRx ('[' :: regexClassChars ++ [']']) = some (.cat (.cls regexClassChars) .eps) := by decide +kernel

/-- 63 distinct characters in the set -/
theorem regexClassChars_nodup : regexClassChars.length = 63 ∧ regexClassChars.Nodup := by decide

/-! ### 5. the look-up of the engine, restated with the matcher -/

/-- the dictionary hits of the fixed-layout method are the words of the table that the expression
    `^clean[class]{0,need}$` matches (`Rx.matches`), ranked — `fixedHits` with the shortcut replaced by the matcher -/
theorem fixedHits_eq_regex (env : Env) (cfg : Cfg) (word : Str) :
    fixedHits env cfg word =
      match fixedTableName word with
      | none => []
      | some t =>
        ((env.fixedTable t).filter (rxFixed (cleanString word) (needCharsUpto (cleanString word).length)).matches).map
          (fun w => Rank.newSuggestion (if cfg.fixedKar then tradKarWord w else w) word) := by
  unfold fixedHits
  cases fixedTableName word with
  | none => rfl
  | some t => simp only [filter_fixedMatches]

/-! ### 6. non-vacuity: both verdicts occur, and both sides agree on them -/

/-- `আমার`: four characters, so up to five more are allowed -/
def wAmar : Str := "আমার".toList

example : cleanString "আ-মা(র)।".toList = wAmar := by decide
example : needCharsUpto wAmar.length = 5 := by decide
-- no extra character
example : fixedMatches wAmar 5 "আমার".toList = true := by decide
example : (rxFixed wAmar 5).matches "আমার".toList = true := by decide
-- one extra character
example : fixedMatches wAmar 5 "আমারই".toList = true := by decide
example : (rxFixed wAmar 5).matches "আমারই".toList = true := by decide
-- `need` = 5 extra characters
example : fixedMatches wAmar 5 "আমারদেরকে".toList = true := by decide
example : (rxFixed wAmar 5).matches "আমারদেরকে".toList = true := by decide
-- six extra characters: too long
example : fixedMatches wAmar 5 "আমারদেরকেও".toList = false := by decide
example : (rxFixed wAmar 5).matches "আমারদেরকেও".toList = false := by decide
-- a Bengali digit is not in the class
example : fixedMatches wAmar 5 "আমার১".toList = false := by decide
example : (rxFixed wAmar 5).matches "আমার১".toList = false := by decide
-- not an extension of the typed word
example : fixedMatches wAmar 5 "আমি".toList = false := by decide
example : (rxFixed wAmar 5).matches "আমি".toList = false := by decide
-- `need` = 0 (a one-character word): only the word itself
example : fixedMatches "ক".toList 0 "ক".toList = true ∧ (rxFixed "ক".toList 0).matches "ক".toList = true := by decide
example : fixedMatches "ক".toList 0 "কি".toList = false ∧ (rxFixed "ক".toList 0).matches "কি".toList = false := by decide
-- the language itself (decided through `matches_iff`)
example : Lang (rxFixed wAmar 5) "আমারই".toList ∧ ¬ Lang (rxFixed wAmar 5) "আমার১".toList := by decide
-- the shape of the expression
example : rxFixed "কর".toList 1 =
    .cat (.cat (.chr 'ক') (.cat (.chr 'র') .eps)) (.opt (.cat (.cls regexClassChars) .eps)) := by decide
example : parseRx (cleanString "ক(র)|".toList) = some (rxLit "কর".toList) := by decide

end Riti.FixedRegex
