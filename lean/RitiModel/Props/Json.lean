/-
Props/Json — the JSON fragment of the per-user store (Model/Json): what the engine writes is read
back as the same entries, NO proper prefix of what it writes is readable, and no prefix of ANY
readable file reads as a different store.  Char level first, then the same over bytes (UTF-8).

Modelling assumption for the crash-point argument (C09/C10).  The store is rewritten with
`std::fs::write(path, bytes)` = `File::create(path)?.write_all(bytes)`: the file is opened with
`O_WRONLY|O_CREAT|O_TRUNC` — the old content is discarded first — and then `bytes` is appended.
Hence, if the process or the machine stops at any point of a save, the file holds a PREFIX of
the new content `printBytes m` (possibly the empty prefix, possibly all of it); mixtures "new
prefix ++ old suffix" cannot arise because of the truncation.  (Assumed, not modelled: the file
system does not expose the data before the truncation, and does not tear a write so that a later
part is present without an earlier part, e.g. zero-filled blocks after a power failure; content
STARTING with such garbage is covered by `garbage_start_rejected`.)
By `proper_prefix_rejected_bytes` every such intermediate content other than the complete one is
rejected by the reader, which the engine treats exactly like an absent file; by
`print_parse_roundtrip_bytes` the complete one is read back as the entries written;
`save_crash_points` states both in terms of the `FileState` of Model/Context.

The model's reader/writer are tied to the real serde_json by `tools/JsonRun.lean` (run over the
bytes the engine writes, every byte prefix of them, and hostile inputs).

Not proved: a declarative grammar for the accepted texts ("`t` is, up to whitespace and escape
spelling, an object listing exactly `m`"); what is proved in that direction is
`parseStore_printStore_of_parse`, `truncation_safe` and the `example`s below.
-/
import RitiModel.Model.Json
import RitiModel.Model.Context
import RitiModel.Lemmas.Store
import RitiModel.Lemmas.Json
namespace Riti.Json
open Riti Riti.AList

/-! ### the text the engine writes -/

/-- **print_parse_roundtrip**: whatever entries the engine writes (any keys and values: quotes,
    backslashes, control characters, any script), the reader accepts the text and yields exactly
    those entries in the same order — so the file a completed save leaves behind is always a
    JSON object of strings that a new context can load -/
theorem print_parse_roundtrip (m : Entries) : parseStore (printStore m) = some m := by
  have h := parseObject_printStore m []
  simp only [List.append_nil] at h
  simp [parseStore, h, skipWs]

/-- **proper_prefix_rejected**: EVERY proper prefix of the text the engine writes — the empty
    file included — is rejected by the reader: a save interrupted at any point leaves a file the
    next start-up treats as absent, never a file that loads as some other (smaller) store -/
theorem proper_prefix_rejected (m : Entries) (p : List Char) (hp : p <+: printStore m)
    (hne : p ≠ printStore m) : parseStore p = none := by
  simp [parseStore, parseObject_pp m p ⟨hp, hne⟩]

/-- the accepted entries, printed again, are accepted as the same entries: the reader's results
    are closed under the engine's own writer (a loaded store can always be saved and re-loaded) -/
theorem parseStore_printStore_of_parse (t : List Char) (m : Entries) (_h : parseStore t = some m) :
    parseStore (printStore m) = some m := print_parse_roundtrip m

/-! ### any accepted text, however produced -/

/-- **truncation_safe**: for ANY file content the reader accepts (not only one written by the
    engine: hand-edited, pretty-printed, other escape spellings), every prefix of it is either
    rejected or accepted with exactly the same entries — a truncated valid file never loads as a
    different store.  (Prefixes that are accepted exist: they differ from the full text only by
    trailing whitespace.) -/
theorem truncation_safe (t p : List Char) (m : Entries) (h : parseStore t = some m) (hp : p <+: t) :
    parseStore p = none ∨ parseStore p = some m := by
  obtain ⟨x, rfl⟩ := hp
  cases hq : parseStore p with
  | none => exact .inl rfl
  | some m' =>
    refine .inr ?_
    unfold parseStore at hq h
    cases ho : parseObject p with
    | none => simp [ho] at hq
    | some a =>
      obtain ⟨m'', r⟩ := a
      rw [parseObject_ext _ x _ _ ho] at h
      simp only [ho] at hq h
      split at hq
      · cases hq
        split at h
        · exact h
        · cases h
      · cases hq

/-- **accepted_proper_prefix_rejected**: for ANY accepted content that does not end in
    whitespace (i.e. ends with its closing brace), every proper prefix is rejected — the general
    form of `proper_prefix_rejected`, independent of how the file was produced -/
theorem accepted_proper_prefix_rejected (t p : List Char) (m : Entries) (h : parseStore t = some m)
    (hl : ∀ c, t.getLast? = some c → isWs c = false) (hp : p <+: t) (hne : p ≠ t) :
    parseStore p = none := by
  obtain ⟨x, rfl⟩ := hp
  have hx : x ≠ [] := fun e => hne (by simp [e])
  cases hq : parseStore p with
  | none => rfl
  | some m' =>
    exfalso
    unfold parseStore at hq h
    cases ho : parseObject p with
    | none => simp [ho] at hq
    | some a =>
      obtain ⟨m'', r⟩ := a
      rw [parseObject_ext _ x _ _ ho] at h
      simp only at h
      split at h
      · next hw =>
        have hall := skipWs_eq_nil _ hw
        have hmem : x.getLast hx ∈ r ++ x := List.mem_append_right _ (List.getLast_mem hx)
        have h1 := hall _ hmem
        have h2 := hl (x.getLast hx) (by simp [List.getLast?_append, List.getLast?_eq_some_getLast hx])
        rw [h1] at h2; cases h2
      · cases h

/-- **garbage_start_rejected**: content whose first character is neither JSON whitespace nor `{` —
    a NUL from a zero-filled block, a byte-order mark, `[`, a digit, a letter — is rejected -/
theorem garbage_start_rejected (c : Char) (t : List Char) (hw : isWs c = false) (hc : c ≠ '{') :
    parseStore (c :: t) = none := by
  simp [parseStore, parseObject, skipWs, hw, hc]

/-! ### UTF-8 -/

/-- **utf8Decode_encode**: the encoding of any text is valid UTF-8 and decodes to that text -/
theorem utf8Decode_encode (cs : Str) : utf8Decode (utf8Encode cs) = some cs := by
  unfold utf8Decode
  induction cs with
  | nil => simp [utf8Encode, utf8DecodeFrom]
  | cons c cs ih => simp [utf8Encode, utf8DecodeFrom_encodeChar, ih, consO]

/-- the encoding is injective: different texts have different bytes -/
theorem utf8Encode_injective (a b : Str) (h : utf8Encode a = utf8Encode b) : a = b := by
  have := utf8Decode_encode a
  rw [h, utf8Decode_encode] at this
  exact (Option.some.inj this).symm

/-- what the strict decoder rejects is not the encoding of any text, i.e. it is not valid UTF-8 -/
theorem utf8Decode_none_not_encoding (b : List UInt8) (h : utf8Decode b = none) (cs : Str) :
    b ≠ utf8Encode cs := by
  rintro rfl; rw [utf8Decode_encode] at h; cases h

/-- **utf8Decode_sound**: the decoder is strict — whatever it accepts is exactly the encoding of
    the text it returns (so `utf8Decode b = none` iff `b` is not valid UTF-8) -/
theorem utf8Decode_sound (b : List UInt8) (cs : Str) (h : utf8Decode b = some cs) : utf8Encode cs = b :=
  utf8DecodeFrom_sound b.length b cs (Nat.le_refl _) h

/-- `utf8Decode` decides validity: it fails exactly on the byte strings that encode no text -/
theorem utf8Decode_eq_none_iff (b : List UInt8) : utf8Decode b = none ↔ ∀ cs, b ≠ utf8Encode cs := by
  constructor
  · exact utf8Decode_none_not_encoding b
  · intro h
    cases hd : utf8Decode b with
    | none => rfl
    | some cs => exact absurd (utf8Decode_sound b cs hd).symm (h cs)

/-- **utf8_prefix_cases**: a prefix of the bytes of a text either is the encoding of a prefix of
    the text (the cut falls between two characters) or is not valid UTF-8 (the cut falls inside a
    multi-byte character) -/
theorem utf8_prefix_cases (cs : Str) (b : List UInt8) (h : b <+: utf8Encode cs) :
    (∃ cs', cs' <+: cs ∧ b = utf8Encode cs') ∨ utf8Decode b = none := by
  induction cs generalizing b with
  | nil =>
    have : b = [] := by simpa [utf8Encode] using h
    exact .inl ⟨[], List.nil_prefix, by rw [this]; rfl⟩
  | cons c cs ih =>
    by_cases hb : b = []
    · exact .inl ⟨[], List.nil_prefix, by rw [hb]; rfl⟩
    rcases prefix_append_cases _ _ _ h with h1 | ⟨q, rfl, h2⟩
    · exact .inr (utf8DecodeFrom_pp_encodeChar c b h1 hb)
    · rcases ih q h2 with ⟨cs', hp, rfl⟩ | hq
      · exact .inl ⟨c :: cs', List.cons_prefix_cons.mpr ⟨rfl, hp⟩, rfl⟩
      · refine .inr ?_
        unfold utf8Decode at hq ⊢
        rw [utf8DecodeFrom_encodeChar, hq]; rfl

/-! ### the file content as bytes -/

/-- **print_parse_roundtrip_bytes**: the bytes a completed save leaves in the file are read back
    (`from_slice`) as exactly the entries written -/
theorem print_parse_roundtrip_bytes (m : Entries) : parseBytes (printBytes m) = some m := by
  simp [parseBytes, printBytes, utf8Decode_encode, print_parse_roundtrip]

/-- **proper_prefix_rejected_bytes**: the file content after a save interrupted at ANY byte — a
    proper prefix of the bytes being written, whether the cut falls between two characters or
    inside a multi-byte (e.g. Bengali) character — is rejected by the reader, i.e. is treated
    like an absent file at the next start-up -/
theorem proper_prefix_rejected_bytes (m : Entries) (b : List UInt8) (hb : b <+: printBytes m)
    (hne : b ≠ printBytes m) : parseBytes b = none := by
  rcases utf8_prefix_cases _ b hb with ⟨cs', hp, rfl⟩ | hd
  · have : cs' ≠ printStore m := fun e => hne (by rw [e]; rfl)
    simp [parseBytes, utf8Decode_encode, proper_prefix_rejected m cs' hp this]
  · simp [parseBytes, hd]

/-- **truncation_safe_bytes**: for ANY file content `from_slice` accepts, every byte prefix of it
    is either rejected or accepted with exactly the same entries -/
theorem truncation_safe_bytes (t b : List UInt8) (m : Entries) (h : parseBytes t = some m)
    (hb : b <+: t) : parseBytes b = none ∨ parseBytes b = some m := by
  unfold parseBytes at h
  cases hd : utf8Decode t with
  | none => simp [hd] at h
  | some cs =>
    simp only [hd] at h
    have ht := utf8Decode_sound t cs hd
    subst ht
    rcases utf8_prefix_cases cs b hb with ⟨cs', hp, rfl⟩ | hn
    · simp only [parseBytes, utf8Decode_encode]; exact truncation_safe _ cs' m h hp
    · left; simp [parseBytes, hn]

/-! ### from entries to the engine's map, and to the `FileState` of Model/Context -/

/-- **toStore_of_nodup**: entries with pairwise distinct keys — what the engine writes, its map
    having one binding per key — are the map itself, in the same order -/
theorem toStore_of_nodup (m : Entries) (h : (akeys m).Nodup) : toStore m = m := by
  have := foldl_ainsert_nodup [] m (by simpa using h)
  simpa [toStore] using this

/-- with duplicate keys in the text, the LAST binding wins (`HashMap::insert` in textual order) -/
theorem alookup_toStore (m : Entries) (k : Str) : alookup (toStore m) k = alookup m.reverse k := by
  unfold toStore
  suffices ∀ acc : Entries, alookup (m.foldl (fun st kv => ainsert st kv.1 kv.2) acc) k =
      (alookup m.reverse k).or (alookup acc k) by
    have h := this []
    simpa [alookup] using h
  induction m with
  | nil => intro acc; simp [alookup]
  | cons kv m ih =>
    intro acc
    simp only [List.foldl_cons, List.reverse_cons]
    rw [ih, alookup_ainsert, alookup_append]
    obtain ⟨k', v'⟩ := kv
    by_cases e : k = k'
    · subst e; cases alookup m.reverse k <;> simp [alookup]
    · have e' : ¬ k' = k := fun h => e h.symm
      cases alookup m.reverse k <;> simp [alookup, e, e']

/-- what a per-user file presents to the engine (`FileState` of Model/Context), computed from
    its content: `none` = there is no file (or it cannot be read), `some b` = it holds the bytes `b` -/
def fileStateOf : Option (List UInt8) → FileState
  | none => .absent
  | some b =>
    match parseBytes b with
    | none => .unreadable
    | some m => .parsed (toStore m)

/-- **save_crash_points**: take any entries `m` with pairwise distinct keys (the engine's map, in
    whatever order it is iterated) and any point of the `std::fs::write` that saves them (the
    file then holds a prefix `b` of the bytes, see the head of this file).  Either the write
    is complete and the file presents exactly `m`, or the file is unreadable, which the engine
    treats like an absent file (empty store).  There is no third case: no partially written file
    loads as a smaller or different store. -/
theorem save_crash_points (m : Entries) (hn : (akeys m).Nodup) (b : List UInt8) (hb : b <+: printBytes m) :
    (b = printBytes m ∧ fileStateOf (some b) = .parsed m) ∨
    (b ≠ printBytes m ∧ fileStateOf (some b) = .unreadable ∧
      (fileStateOf (some b)).content = (fileStateOf none).content) := by
  by_cases e : b = printBytes m
  · subst e
    exact .inl ⟨rfl, by simp [fileStateOf, print_parse_roundtrip_bytes, toStore_of_nodup m hn]⟩
  · have := proper_prefix_rejected_bytes m b hb e
    exact .inr ⟨e, by simp [fileStateOf, this], by simp [fileStateOf, this, FileState.content]⟩

/-- whatever bytes a file holds, it presents a definite state and the engine's view of it is a map:
    the reader is total (no panic, no partial result) -/
theorem fileStateOf_total (f : Option (List UInt8)) :
    fileStateOf f = .absent ∨ fileStateOf f = .unreadable ∨ ∃ st, fileStateOf f = .parsed st := by
  cases f with
  | none => exact .inl rfl
  | some b =>
    simp only [fileStateOf]
    cases parseBytes b with
    | none => exact .inr (.inl rfl)
    | some m => exact .inr (.inr ⟨_, rfl⟩)

/-! ### what the reader rejects and accepts: concrete texts -/

-- rejected: nothing, other JSON values, non-string members, malformed objects

example : parseStore [] = none := by decide

example : parseStore "null".toList = none := by decide

example : parseStore "42".toList = none := by decide

example : parseStore "[]".toList = none := by decide

example : parseStore "\"a\"".toList = none := by decide

example : parseStore "{\"a\":1}".toList = none := by decide

example : parseStore "{\"a\":null}".toList = none := by decide

example : parseStore "{\"a\":true}".toList = none := by decide

example : parseStore "{\"a\":[\"b\"]}".toList = none := by decide

example : parseStore "{\"a\":{\"b\":\"c\"}}".toList = none := by decide

example : parseStore "{\"a\":\"b\",}".toList = none := by decide          -- trailing comma

example : parseStore "{,\"a\":\"b\"}".toList = none := by decide

example : parseStore "{\"a\":\"b\"} x".toList = none := by decide         -- trailing characters

example : parseStore "{\"a\":\"b\"}{}".toList = none := by decide

example : parseStore "{\"a\":\"b\"".toList = none := by decide            -- not closed

example : parseStore "{\"a\":\"b\" \"c\":\"d\"}".toList = none := by decide  -- missing comma

example : parseStore "{\"a\" \"b\"}".toList = none := by decide           -- missing colon

example : parseStore "{'a':'b'}".toList = none := by decide               -- wrong quotes

example : parseStore "{a:\"b\"}".toList = none := by decide               -- bare key

example : parseStore "{1:\"b\"}".toList = none := by decide

example : parseStore "{\"a\":\"b}".toList = none := by decide             -- unterminated string

example : parseStore "{\"a\":\"b\\\"}".toList = none := by decide         -- … because its quote is escaped

example : parseStore "{\"a\":\"b\nc\"}".toList = none := by decide        -- raw line feed inside a string

example : parseStore "{\"a\":\"b\tc\"}".toList = none := by decide        -- raw tab inside a string

example : parseStore "{\"a\":\"\\x41\"}".toList = none := by decide       -- unknown escape

example : parseStore "{\"a\":\"\\u12G4\"}".toList = none := by decide     -- bad hex digit

example : parseStore "{\"a\":\"\\u12\"}".toList = none := by decide       -- short \u

example : parseStore "{\"a\":\"\\ud83d\"}".toList = none := by decide     -- lone leading surrogate

example : parseStore "{\"a\":\"\\ude00\"}".toList = none := by decide     -- lone trailing surrogate

example : parseStore "{\"a\":\"\\ud83d\\u0041\"}".toList = none := by decide  -- leading surrogate + non-surrogate

example : parseStore "{\"a\":\"\\ud83dx\"}".toList = none := by decide

example : parseStore "\uFEFF{}".toList = none := by decide                -- byte-order mark

example : parseStore "\x0c{}".toList = none := by decide                  -- form feed is not JSON whitespace

example : parseStore "{}\x00".toList = none := by decide
example : parseBytes [0, 0, 0, 0, 0, 0, 0, 0] = none := by decide      -- a zero-filled file

-- accepted

example : parseStore "{}".toList = some [] := by decide

example : parseStore " \t\r\n{ \n} \n".toList = some [] := by decide

example : parseStore " { \"a\" : \"b\" } ".toList = some [("a".toList, "b".toList)] := by decide

example : parseStore "{\"a\":\"ক\\n\"}".toList = some [("a".toList, "ক\n".toList)] := by decide

example : parseStore "{\"\":\"\"}".toList = some [([], [])] := by decide

example : parseStore "{\"a\":\"b\" , \"c\":\"d\"}".toList = some [("a".toList, "b".toList), ("c".toList, "d".toList)] := by decide

-- every escape spelling: named, solidus, \u in either case, \u0000, a surrogate pair

example : parseStore "{\"k\":\"\\\"\\\\\\/\\b\\f\\n\\r\\t\\u0041\\u00e9\\u00E9\\u0995\\u0000\\ud83d\\uDE00\"}".toList =
    some [("k".toList, ['"', '\\', '/', Char.ofNat 8, Char.ofNat 12, '\n', '\r', '\t', 'A', 'é', 'é', 'ক', Char.ofNat 0, '😀'])] := by decide

-- DEL and everything above are allowed raw

example : parseStore "{\"\x7f\":\"আমি\u200c\"}".toList = some [("\x7f".toList, "আমি\u200c".toList)] := by decide

-- duplicate keys: all entries are reported, in order; the engine's map keeps the last

example : parseStore "{\"a\":\"1\",\"b\":\"2\",\"a\":\"3\"}".toList =
    some [("a".toList, "1".toList), ("b".toList, "2".toList), ("a".toList, "3".toList)] := by decide

example : toStore [("a".toList, "1".toList), ("b".toList, "2".toList), ("a".toList, "3".toList)] =
    [("a".toList, "3".toList), ("b".toList, "2".toList)] := by decide

/-! ### non-vacuity: a store with Bengali text, quotes, backslashes and control characters -/

/-- learned selections as the engine could hold them, plus hostile keys/values -/
def sample : Entries :=
  [("ami".toList, "আমি".toList),
   ("kI".toList, "কী".toList),
   ("say \"hi\"".toList, "ব\\ল\n".toList),
   ([Char.ofNat 0, Char.ofNat 1, Char.ofNat 8, Char.ofNat 12, Char.ofNat 0x1f, Char.ofNat 0x7f], "\t\r😀".toList),
   ([], [])]

/-- exactly the text serde_json's compact formatter produces for it -/
example : printStore sample =
    "{\"ami\":\"আমি\",\"kI\":\"কী\",\"say \\\"hi\\\"\":\"ব\\\\ল\\n\",\"\\u0000\\u0001\\b\\f\\u001f\x7f\":\"\\t\\r😀\",\"\":\"\"}".toList := by
  decide

example : parseStore (printStore sample) = some sample := by decide

example : parseBytes (printBytes sample) = some sample := by decide

example : (printStore sample).length = 85 ∧ (printBytes sample).length = 102 := by decide

/-- every one of the 85 proper character prefixes and of the 102 proper byte prefixes is rejected
    (instances of `proper_prefix_rejected`/`proper_prefix_rejected_bytes`, here by evaluation) -/
example : ∀ n, n < 85 → parseStore ((printStore sample).take n) = none := by decide

example : ∀ n, n < 102 → parseBytes ((printBytes sample).take n) = none := by decide

/-- a cut between two characters leaves valid UTF-8 (rejected as JSON); a cut inside the three
    bytes of `আ` leaves invalid UTF-8 -/
example : utf8Decode ((printBytes sample).take 8) = some "{\"ami\":\"".toList ∧
          utf8Decode ((printBytes sample).take 9) = none ∧
          utf8Decode ((printBytes sample).take 10) = none ∧
          utf8Decode ((printBytes sample).take 11) = some "{\"ami\":\"আ".toList := by decide

/-- non-vacuity of `truncation_safe`/`accepted_proper_prefix_rejected`: a hand-formatted file; the
    only accepted proper prefix is the one that merely lacks the final line feed -/
example : parseStore "{\n  \"ami\" : \"\\u0986মি\"\n}\n".toList = some [("ami".toList, "আমি".toList)] ∧
          parseStore "{\n  \"ami\" : \"\\u0986মি\"\n}".toList = some [("ami".toList, "আমি".toList)] ∧
          (∀ n, n < 24 → parseStore ("{\n  \"ami\" : \"\\u0986মি\"\n}".toList.take n) = none) := by decide

/-- non-vacuity of `save_crash_points`: the sample store has distinct keys -/
example : (akeys sample).Nodup := by decide

end Riti.Json
