/-
Props/Layout — the layout FILE (and the data files) inside the model.

`Config::get_layout` + `Layout::parse` are modelled by `Riti.JsonValue.layoutOfFile` (Model/JsonValue:
UTF-8 → serde_json's `Value` reader → `v["layout"]` → `from_value::<HashMap<String,String>>`).
This file proves, for ALL documents:

* read-back: a well-formed value printed compactly (`serde_json::to_string`), pretty
  (`to_string_pretty`, any indentation) or with ANY whitespace between its tokens is read as that
  value (`parse_print`, `parse_printPretty`, `parse_print_ws`, `valueOfFile_print`); nesting of
  127 containers is the limit (`depth_127_accepted`, `depth_128_rejected`);
* `layoutOfFile_spec`: a document whose LAST `layout` member is an object of strings yields the
  map that gives every name its LAST value, whatever other members surround it;
* `rejects_*`: not an object / no `layout` member / `layout` not an object / a member value that
  is not a string / invalid UTF-8 / trailing garbage → riti obtains no layout (`FixedMethod::new` panics);
* totality (`layoutOfFile_total`) and the extent of the one unmodelled thing (`layoutOfFile_supported`);
* `key_emits_file_text`: the C04 theorems with the `layout` parameter instantiated by the map read
  from the file.
-/
import RitiModel.Lemmas.JsonValue
import RitiModel.Lemmas.JsonValueTotal
import RitiModel.Props.Json
import RitiModel.Props.C04
namespace Riti.Layout
open Riti Riti.Json Riti.JsonValue

/-! ### read-back -/

/-- **parse_print_ws**: a well-formed value (valid number lexemes, at most 127 nested containers)
    written with ANY JSON whitespace between its tokens, before it and after it, is read by
    `serde_json::from_str::<Value>` as exactly that value -/
theorem parse_print_ws (w : Deco) (hw : ∀ p k, AllWs (w p k)) (lead trail : List Char) (hl : AllWs lead) (ht : AllWs trail)
    (v : JVal) (hwf : v.wf) (hd : v.depth < depthLimit) :
    parseValue (lead ++ (printW w [] v ++ trail)) = .ok v := by
  unfold parseValue
  rw [pValue_skip lead _ hl]
  rw [pValue_printW w hw v [] _ depthLimit trail hwf hd (fun _ => numStop_ws trail ht)
    (by simp only [List.length_append]; omega)]
  simp [skipWs_all_ws trail ht]

/-- no whitespace is whitespace -/
theorem compactDeco_ws : ∀ p k, AllWs (compactDeco p k) := by
  intro p k c hc; simp [compactDeco] at hc

/-- the pretty printer writes whitespace only -/
theorem prettyDeco_ws (ind : Nat) : ∀ p k, AllWs (prettyDeco ind p k) := by
  intro p k c hc
  unfold prettyDeco at hc
  split at hc
  · simp only [List.mem_cons, List.mem_replicate] at hc
    rcases hc with rfl | ⟨_, rfl⟩ <;> decide
  · split at hc
    · simp only [List.mem_cons, List.mem_replicate] at hc
      rcases hc with rfl | ⟨_, rfl⟩ <;> decide
    · split at hc
      · simp only [List.mem_cons, List.not_mem_nil, or_false] at hc
        subst hc; decide
      · simp at hc

/-- **parse_print**: the compact print of a well-formed value is read back as that value -/
theorem parse_print (v : JVal) (hwf : v.wf) (hd : v.depth < depthLimit) : parseValue (printValue v) = .ok v := by
  have := parse_print_ws compactDeco compactDeco_ws [] [] (by intro c hc; simp at hc) (by intro c hc; simp at hc) v hwf hd
  simpa [printValue] using this

/-- **parse_printPretty**: the pretty print (`to_string_pretty`; any indentation width) of a
    well-formed value is read back as that value -/
theorem parse_printPretty (ind : Nat) (v : JVal) (hwf : v.wf) (hd : v.depth < depthLimit) :
    parseValue (printPretty ind v) = .ok v := by
  have := parse_print_ws (prettyDeco ind) (prettyDeco_ws ind) [] [] (by intro c hc; simp at hc) (by intro c hc; simp at hc) v hwf hd
  simpa [printPretty] using this

/-- the same on the bytes of a file -/
theorem valueOfFile_print (w : Deco) (hw : ∀ p k, AllWs (w p k)) (lead trail : List Char) (hl : AllWs lead) (ht : AllWs trail)
    (v : JVal) (hwf : v.wf) (hd : v.depth < depthLimit) :
    valueOfFile (utf8Encode (lead ++ (printW w [] v ++ trail))) = .ok v := by
  simp only [valueOfFile, utf8Decode_encode]
  exact parse_print_ws w hw lead trail hl ht v hwf hd


/-! ### the layout of a printed document -/

/-- what riti obtains from a printed document, in terms of the value: `v["layout"]` read as a map of strings -/
theorem layoutOfFile_print (w : Deco) (hw : ∀ p k, AllWs (w p k)) (lead trail : List Char) (hl : AllWs lead) (ht : AllWs trail)
    (v : JVal) (hwf : v.wf) (hd : v.depth < depthLimit) :
    layoutOfFile (utf8Encode (lead ++ (printW w [] v ++ trail))) =
      match asStringMap (v.index layoutKey) with
      | none => .error .wrongShape
      | some m => .ok m := by
  simp only [layoutOfFile, valueOfFile_print w hw lead trail hl ht v hwf hd]
  cases asStringMap (v.index layoutKey) <;> rfl

/-- **layoutOfFile_spec**: take ANY document `{ …, "layout": {k₁:v₁,…}, … }` — members in any
    order, any other members (an `info` object, …) around, several `layout` members (the LAST one
    counts), written compactly, pretty or with any whitespace: riti obtains a layout `m` that
    gives every entry name the LAST value written for it (and nothing for a name not written) -/
theorem layoutOfFile_spec (w : Deco) (hw : ∀ p k, AllWs (w p k)) (lead trail : List Char) (hl : AllWs lead) (ht : AllWs trail)
    (ms : List (Str × JVal)) (lay : List (Str × Str)) (hwf : (JVal.obj ms).wf) (hd : (JVal.obj ms).depth < depthLimit)
    (hlast : lookupLast ms layoutKey = some (.obj (strMembers lay))) :
    ∃ m, layoutOfFile (utf8Encode (lead ++ (printW w [] (.obj ms) ++ trail))) = .ok m ∧
      (∀ k, alookup m k = lookupLast lay k) ∧
      (∀ k, layoutLookup m k = match lookupLast lay k with | some [] => none | x => x) := by
  refine ⟨dedup lay, ?_, fun k => alookup_dedup lay k, fun k => ?_⟩
  · rw [layoutOfFile_print w hw lead trail hl ht _ hwf hd]
    simp only [JVal.index, hlast, Option.getD_some, asStringMap_strMembers]
  · simp only [layoutLookup, alookup_dedup lay k]
    cases lookupLast lay k with
    | none => rfl
    | some l => cases l <;> rfl

/-- the same for the canonical (compact) print of the document -/
theorem layoutOfFile_spec_compact (ms : List (Str × JVal)) (lay : List (Str × Str)) (hwf : (JVal.obj ms).wf)
    (hd : (JVal.obj ms).depth < depthLimit) (hlast : lookupLast ms layoutKey = some (.obj (strMembers lay))) :
    ∃ m, layoutOfFile (utf8Encode (printValue (.obj ms))) = .ok m ∧ ∀ k, alookup m k = lookupLast lay k := by
  obtain ⟨m, h1, h2, _⟩ := layoutOfFile_spec compactDeco compactDeco_ws [] [] (by intro c hc; simp at hc) (by intro c hc; simp at hc) ms lay hwf hd hlast
  exact ⟨m, by simpa [printValue] using h1, h2⟩

/-- conversely: whenever riti obtains a layout `m` from a printed document, the document is an
    object whose last `layout` member is an object, and `m` gives every name the last value
    written for it there, which is a string -/
theorem layoutOfFile_ok_inv (w : Deco) (hw : ∀ p k, AllWs (w p k)) (lead trail : List Char) (hl : AllWs lead) (ht : AllWs trail)
    (v : JVal) (hwf : v.wf) (hd : v.depth < depthLimit) (m : List (Str × Str))
    (h : layoutOfFile (utf8Encode (lead ++ (printW w [] v ++ trail))) = .ok m) :
    ∃ ms lms, v = .obj ms ∧ lookupLast ms layoutKey = some (.obj lms) ∧ ∀ k, lookupLast lms k = (alookup m k).map JVal.str := by
  rw [layoutOfFile_print w hw lead trail hl ht v hwf hd] at h
  cases v with
  | obj ms =>
    simp only [JVal.index] at h
    cases hl' : lookupLast ms layoutKey with
    | none => simp [hl', asStringMap] at h
    | some x =>
      simp only [hl', Option.getD_some] at h
      cases x with
      | obj lms =>
        cases hm : asStringMap (.obj lms) with
        | none => simp [hm] at h
        | some m' =>
          simp only [hm, Except.ok.injEq] at h
          subst h
          exact ⟨ms, lms, rfl, hl', asStringMap_obj_some lms m' hm⟩
      | null => simp [asStringMap] at h
      | bool b => simp [asStringMap] at h
      | num l => simp [asStringMap] at h
      | str l => simp [asStringMap] at h
      | arr l => simp [asStringMap] at h
  | null => simp [JVal.index, asStringMap] at h
  | bool b => simp [JVal.index, asStringMap] at h
  | num l => simp [JVal.index, asStringMap] at h
  | str l => simp [JVal.index, asStringMap] at h
  | arr l => simp [JVal.index, asStringMap] at h

/-! ### rejections (riti's steps give `None`; `FixedMethod::new` panics on its `unwrap`) -/

/-- a document that is not an object has no layout -/
theorem rejects_not_object (w : Deco) (hw : ∀ p k, AllWs (w p k)) (lead trail : List Char) (hl : AllWs lead) (ht : AllWs trail)
    (v : JVal) (hwf : v.wf) (hd : v.depth < depthLimit) (hno : ∀ ms, v ≠ .obj ms) :
    layoutOfFile (utf8Encode (lead ++ (printW w [] v ++ trail))) = .error .wrongShape := by
  rw [layoutOfFile_print w hw lead trail hl ht v hwf hd]
  cases v with
  | obj ms => exact absurd rfl (hno ms)
  | _ => simp [JVal.index, asStringMap]

/-- an object without a `layout` member has no layout -/
theorem rejects_missing_member (w : Deco) (hw : ∀ p k, AllWs (w p k)) (lead trail : List Char) (hl : AllWs lead) (ht : AllWs trail)
    (ms : List (Str × JVal)) (hwf : (JVal.obj ms).wf) (hd : (JVal.obj ms).depth < depthLimit)
    (hnone : lookupLast ms layoutKey = none) :
    layoutOfFile (utf8Encode (lead ++ (printW w [] (.obj ms) ++ trail))) = .error .wrongShape := by
  rw [layoutOfFile_print w hw lead trail hl ht _ hwf hd]
  simp [JVal.index, hnone, asStringMap]

/-- a `layout` member (the last one) that is not an object — a string, a number, an array, `null` — is no layout -/
theorem rejects_layout_not_object (w : Deco) (hw : ∀ p k, AllWs (w p k)) (lead trail : List Char) (hl : AllWs lead) (ht : AllWs trail)
    (ms : List (Str × JVal)) (x : JVal) (hwf : (JVal.obj ms).wf) (hd : (JVal.obj ms).depth < depthLimit)
    (hlast : lookupLast ms layoutKey = some x) (hno : ∀ lms, x ≠ .obj lms) :
    layoutOfFile (utf8Encode (lead ++ (printW w [] (.obj ms) ++ trail))) = .error .wrongShape := by
  rw [layoutOfFile_print w hw lead trail hl ht _ hwf hd]
  simp only [JVal.index, hlast, Option.getD_some]
  cases x with
  | obj lms => exact absurd rfl (hno lms)
  | _ => simp [asStringMap]

/-- a `layout` object in which the (last) value written for some name is not a string is no layout -/
theorem rejects_non_string_value (w : Deco) (hw : ∀ p k, AllWs (w p k)) (lead trail : List Char) (hl : AllWs lead) (ht : AllWs trail)
    (ms lms : List (Str × JVal)) (k : Str) (x : JVal) (hwf : (JVal.obj ms).wf) (hd : (JVal.obj ms).depth < depthLimit)
    (hlast : lookupLast ms layoutKey = some (.obj lms)) (hk : lookupLast lms k = some x) (hx : ∀ s, x ≠ .str s) :
    layoutOfFile (utf8Encode (lead ++ (printW w [] (.obj ms) ++ trail))) = .error .wrongShape := by
  rw [layoutOfFile_print w hw lead trail hl ht _ hwf hd]
  simp only [JVal.index, hlast, Option.getD_some]
  cases hm : asStringMap (.obj lms) with
  | none => rfl
  | some m =>
    have := asStringMap_obj_some lms m hm k
    rw [hk] at this
    cases ha : alookup m k with
    | none => simp [ha] at this
    | some s => simp [ha] at this; exact absurd this (hx s)

/-- a file that is not valid UTF-8 is no layout (`read_to_string` fails) -/
theorem rejects_invalid_utf8 (b : List UInt8) (h : utf8Decode b = none) : layoutOfFile b = .error .notUtf8 := by
  simp [layoutOfFile, valueOfFile, h]

/-- … in particular every file that is not the UTF-8 encoding of any text -/
theorem rejects_not_an_encoding (b : List UInt8) (h : ∀ cs, b ≠ utf8Encode cs) : layoutOfFile b = .error .notUtf8 :=
  rejects_invalid_utf8 b ((utf8Decode_eq_none_iff b).mpr h)

/-- anything but whitespace after the document — `x`, a second value, a NUL, a BOM — is a syntax error -/
theorem rejects_trailing_garbage (w : Deco) (hw : ∀ p k, AllWs (w p k)) (lead g : List Char) (hl : AllWs lead)
    (ms : List (Str × JVal)) (hwf : (JVal.obj ms).wf) (hd : (JVal.obj ms).depth < depthLimit) (hg : skipWs g ≠ []) :
    layoutOfFile (utf8Encode (lead ++ (printW w [] (.obj ms) ++ g))) = .error .notJson := by
  simp only [layoutOfFile, valueOfFile, utf8Decode_encode, parseValue]
  rw [pValue_skip lead _ hl]
  rw [pValue_printW w hw (.obj ms) [] _ depthLimit g hwf hd (fun h => by obtain ⟨lx, h⟩ := h; cases h)
    (by simp only [List.length_append]; omega)]
  simp [hg]


/-! ### composition with C04: the layout parameter of the engine model is the map read from the file -/

/-- the `Layout` (entry name → value) of the engine model that a file map denotes -/
def fileLayout (m : List (Str × Str)) : Layout := fun name => alookup m name.toList

/-- `layout_get_value` is the model's `nonEmpty ∘ get` -/
theorem layoutLookup_eq (m : List (Str × Str)) (name : String) :
    layoutLookup m name.toList = nonEmpty (fileLayout m name) := by
  simp only [layoutLookup, nonEmpty, fileLayout]
  cases alookup m name.toList with
  | none => rfl
  | some l => cases l <;> rfl

/-- a world whose layout files are given by their BYTES (`files path`; `none` = no such file) and
    read by the model's own reader: a file riti cannot use gives no layout -/
def fileWorld (env : Env) (sorter : Sorter) (files : String → Option (List UInt8)) : World where
  env := env
  sorter := sorter
  layouts := fun p =>
    match files p with
    | none => none
    | some b =>
      match layoutOfFile b with
      | .ok m => some (fileLayout m)
      | .error _ => none

/-- the entry of the layout file that key `key` reads under modifier byte `mods`:
    `Key_<name>_AltGr` / `Key_<name>_Normal` by bit 1 of the modifier byte alone; the bare name for
    a number-pad key when the number-pad option is on; nothing for any other key code -/
def entryOf (key mods : Nat) (numpad : Bool) : Option String :=
  match lookupRow Spec.layoutRows key with
  | none => none
  | some (n, false) => some ("Key_" ++ n.str ++ "_" ++ (if (mods / 2) % 2 == 1 then "AltGr" else "Normal"))
  | some (n, true) => if numpad then some n.str else none

/-- the text the FILE assigns to a key press -/
def fileText (m : List (Str × Str)) (key mods : Nat) (numpad : Bool) : Option Str :=
  match entryOf key mods numpad with
  | none => none
  | some name => layoutLookup m name.toList

/-- `get_char_for_key` over a layout read from a file is the look-up of the key's entry in the file's map -/
theorem getCharForKey_file (m : List (Str × Str)) (key mods : Nat) (numpad : Bool) :
    getCharForKey (fileLayout m) key (getModifiers mods) numpad = fileText m key mods numpad := by
  rw [C04.get_char_spec]
  unfold fileText entryOf
  cases h : lookupRow Spec.layoutRows key with
  | none => rfl
  | some r =>
    obtain ⟨n, b⟩ := r
    cases b with
    | false => simp only [layoutLookup_eq]
    | true =>
      cases numpad with
      | false => rfl
      | true => simp only [layoutLookup_eq, if_true]

/-- a context over a layout file that riti can read exists and starts idle over the file's map;
    over a file riti cannot read, creation fails (the `unwrap` of `FixedMethod::new`) -/
theorem new_over_file (env : Env) (sorter : Sorter) (files : String → Option (List UInt8)) (fs : FS) (cfg : Cfg)
    (path : String) (b : List UInt8) (hp : isPhoneticPath path = false) (hf : files path = some b) :
    Ctx.new (fileWorld env sorter files) fs cfg path =
      match layoutOfFile b with
      | .ok m => some ⟨cfg, path, .fixed (fileLayout m) {}⟩
      | .error _ => none := by
  simp only [Ctx.new, mNew, hp, fileWorld, hf]
  cases layoutOfFile b <;> rfl

/-- **key_emits_file_text**: create a context from a layout FILE with bytes `b` that riti can
    read (`layoutOfFile b = ok m`), all composition helpers off.  Pressing key `key` with modifier
    byte `mods` in the fresh context
    * changes nothing when the file assigns no text to the key (`fileText … = none`: unknown key
      code, entry absent or empty, number-pad key with the option off);
    * otherwise makes the text `v` the file assigns — `m.get(entry name).filter(non-empty)`, the
      entry name chosen by AltGr alone — the whole composition, nothing pending.
    At the strength of `C04.idle_key_appends_partial`: for values of one code point or not
    starting with a vowel sign (the full statement is false of the code: `C04.idle_value_cut`). -/
theorem key_emits_file_text (env : Env) (sorter : Sorter) (files : String → Option (List UInt8)) (fs : FS) (cfg : Cfg)
    (path : String) (b : List UInt8) (m : List (Str × Str))
    (hp : isPhoneticPath path = false) (hf : files path = some b) (hm : layoutOfFile b = .ok m) (hoff : C04.helpersOff cfg) :
    Ctx.new (fileWorld env sorter files) fs cfg path = some ⟨cfg, path, .fixed (fileLayout m) {}⟩ ∧
    ∀ key mods : Nat,
      (fileText m key mods cfg.fixedNumpad = none → fKeyState (fileLayout m) cfg {} key mods = none) ∧
      (∀ v, fileText m key mods cfg.fixedNumpad = some v → (v.length ≤ 1 ∨ ∀ c, v.head? = some c → isKar c = false) →
        ∃ s', fKeyState (fileLayout m) cfg {} key mods = some s' ∧ s'.buffer = v ∧ s'.pending = none) := by
  refine ⟨by rw [new_over_file env sorter files fs cfg path b hp hf, hm], fun key mods => ⟨fun hn => ?_, fun v hv hpart => ?_⟩⟩
  · simp only [fKeyState, getCharForKey_file, hn]
  · have hb := C04.idle_key_appends_partial cfg hoff ({} : FState) ⟨rfl, rfl⟩ v hpart
    simp only [fKeyState, getCharForKey_file, hv]
    split
    · exact ⟨_, rfl, hb.1, hb.2⟩
    · split
      · split
        · exact ⟨_, rfl, hb.1, hb.2⟩
        · exact ⟨_, rfl, hb.1, hb.2⟩
      · exact ⟨_, rfl, hb.1, hb.2⟩


/-! ### totality, and the extent of the one thing that is not modelled -/

/-- **layoutOfFile_total**: the reader terminates on EVERY byte string (it is a structural
    recursion on a fuel argument) and the fuel it gives itself — input length + 1 — always
    suffices: the outcome is a layout, or one of `notUtf8`, `notJson`, `tooDeep`, `wrongShape`,
    `unsupportedNumber`; never "out of fuel" -/
theorem layoutOfFile_total (b : List UInt8) :
    (∃ m, layoutOfFile b = .ok m) ∨ layoutOfFile b = .error .notUtf8 ∨ layoutOfFile b = .error .notJson ∨
      layoutOfFile b = .error .tooDeep ∨ layoutOfFile b = .error .wrongShape ∨ layoutOfFile b = .error .unsupportedNumber := by
  have hf := layoutOfFile_ne_fuel b
  cases h : layoutOfFile b with
  | ok m => exact Or.inl ⟨m, rfl⟩
  | error e => cases e <;> simp_all

/-- the same for the document reader and the readers of the data files -/
theorem readers_total (t : List Char) (b : List UInt8) :
    parseValue t ≠ .error .fuel ∧ stringMapOfFile b ≠ .error .fuel ∧ tableOfFile b ≠ .error .fuel :=
  ⟨parseValue_ne_fuel t, stringMapOfFile_ne_fuel b, tableOfFile_ne_fuel b⟩

/-- **where `unsupportedNumber` comes from**: only from a number token — some suffix of the
    decoded text starts with a number that is well-formed but has more than 200 integer digits or
    more than 2 exponent digits (that is what `lexNumber … = unsupportedNumber` says) -/
theorem layoutOfFile_unsupported_origin (b : List UInt8) (h : layoutOfFile b = .error .unsupportedNumber) :
    ∃ t s, utf8Decode b = some t ∧ s <:+ t ∧ lexNumber s = .error .unsupportedNumber := by
  simp only [layoutOfFile, valueOfFile] at h
  cases hd : utf8Decode b with
  | none => simp [hd] at h
  | some t =>
    simp only [hd] at h
    cases hp : parseValue t with
    | error e =>
      simp only [hp, Except.error.injEq] at h
      subst h
      obtain ⟨s, hs, hl⟩ := parseValue_unsupported t hp
      exact ⟨t, s, rfl, hs, hl⟩
    | ok v =>
      simp only [hp] at h
      cases ha : asStringMap (v.index layoutKey) <;> simp [ha] at h

/-- **layoutOfFile_supported**: a document in which no three decimal digits stand in a row (so
    every exponent has at most 2 digits and every integer part at most 2 ≤ 200) is never answered
    `unsupportedNumber` — the model decides it.  (A coarse, purely textual sufficient condition;
    the exact origin is `layoutOfFile_unsupported_origin`.) -/
theorem layoutOfFile_supported_text (t : List Char) (h : noThreeDigits t) :
    layoutOfFile (utf8Encode t) ≠ .error .unsupportedNumber :=
  layoutOfFile_supported (utf8Encode t) t (utf8Decode_encode t) h

/-! ### the recursion limit, number shapes: kernel-evaluated facts -/

/-- 127 nested arrays are read … -/
theorem depth_127_accepted : errOf (parseValue (List.replicate 127 '[' ++ List.replicate 127 ']')) = none := by decide +kernel

/-- … the 128th is serde_json's `RecursionLimitExceeded` (`remaining_depth` 128, decremented before the test) -/
theorem depth_128_rejected : errOf (parseValue (List.replicate 128 '[' ++ List.replicate 128 ']')) = some .tooDeep := by decide +kernel

/-- number shapes: `-0`, `1.5e+10`, `0.0`, `1E5`, `2e-3` are numbers; `01`, `1.`, `.5`, `1e`, `-`, `1.e5`, `+1` are not;
    `1e999` (three exponent digits) is outside the modelled region -/
theorem number_shapes :
    (["-0", "1.5e+10", "0.0", "1E5", "2e-3", "0", "18446744073709551616"].map (fun s => errOf (parseValue s.toList))) = [none, none, none, none, none, none, none] ∧
    (["01", "1.", ".5", "1e", "-", "1.e5", "+1", "1e+", "--1", "1.5.3", "0x10", "NaN"].map (fun s => errOf (parseValue s.toList))) = List.replicate 12 (some .notJson) ∧
    (["1e999", "1e100", "[0e999]", "{\"a\":1E-400}"].map (fun s => errOf (parseValue s.toList))) = List.replicate 4 (some .unsupportedNumber) := by
  decide +kernel

/-! ### non-vacuity: a small pretty-printed layout file -/

/-- a layout document as `serde_json::to_string_pretty` writes it (2 spaces): `info` with numbers,
    nested objects, an array, the escape `\u09be` (া), a surrogate pair; a duplicate entry; an empty entry -/
def sampleText : List Char :=
  ("{\n  \"info\": {\n    \"version\": 2,\n    \"scale\": -1.5e+10,\n    \"layout\": {\n      \"name\": \"t\\u09be\\ud83d\\ude00\"\n    },\n" ++
   "    \"tags\": [\n      1,\n      true,\n      null,\n      []\n    ]\n  },\n  \"layout\": {\n    \"Key_a_Normal\": \"\\u0995\",\n    \"Key_a_AltGr\": \"\",\n" ++
   "    \"Key_a_Normal\": \"ক্ষ\",\n    \"Num1\": \"১\"\n  }\n}").toList

/-- the same document as a value -/
def sampleValue : JVal :=
  .obj [("info".toList, .obj [("version".toList, .num ['2']), ("scale".toList, .num "-1.5e+10".toList),
            ("layout".toList, .obj [("name".toList, .str ['t', 'া', '😀'])]),
            ("tags".toList, .arr [.num ['1'], .bool true, .null, .arr []])]),
        ("layout".toList, .obj (strMembers [("Key_a_Normal".toList, ['ক']), ("Key_a_AltGr".toList, []),
            ("Key_a_Normal".toList, ['ক', '্', 'ষ']), ("Num1".toList, ['১'])]))]

/-- riti's reading of the sample file: the later `Key_a_Normal` wins -/
example : layoutOfFile (utf8Encode sampleText) =
    .ok [("Key_a_Normal".toList, ['ক', '্', 'ষ']), ("Key_a_AltGr".toList, []), ("Num1".toList, ['১'])] := by decide +kernel

/-- … and what the keys then read: `a` gives the conjunct, AltGr+`a` nothing (empty entry), `b` nothing, keypad 1 its digit -/
example : (match layoutOfFile (utf8Encode sampleText) with
    | .ok m => [layoutLookup m "Key_a_Normal".toList, layoutLookup m "Key_a_AltGr".toList, layoutLookup m "Key_b_Normal".toList, layoutLookup m "Num1".toList]
    | .error _ => []) = [some ['ক', '্', 'ষ'], none, none, some ['১']] := by decide +kernel

/-- the pretty printer of this file reproduces the text byte for byte (except that it writes the
    characters themselves where the text above uses `\u` escapes), and the sample value meets the
    hypotheses of `layoutOfFile_spec` / `parse_print_ws`: valid numbers, depth 3 -/
example : sampleValue.wf ∧ sampleValue.depth < depthLimit ∧
    lookupLast (match sampleValue with | .obj ms => ms | _ => []) layoutKey =
      some (.obj (strMembers [("Key_a_Normal".toList, ['ক']), ("Key_a_AltGr".toList, []), ("Key_a_Normal".toList, ['ক', '্', 'ষ']), ("Num1".toList, ['১'])])) := by
  refine ⟨?_, by decide, rfl⟩
  simp only [sampleValue, strMembers, List.map, JVal.wf, wfMembers, wfList, validNumber, and_true, true_and]
  decide +kernel

/-- the text read as a value and printed again by the model's pretty printer is the text printed from the sample value -/
example : (match parseValue sampleText with | .ok v => printPretty 2 v | .error _ => []) = printPretty 2 sampleValue := by decide +kernel

/-- hypotheses of `key_emits_file_text` met by the sample file: the context exists and key `a` (41110) composes the conjunct -/
example : ∃ m, layoutOfFile (utf8Encode sampleText) = .ok m ∧ fileText m 41110 0 false = some ['ক', '্', 'ষ'] ∧
    fileText m 41110 2 false = none ∧ fileText m 79 0 true = some ['১'] ∧ fileText m 79 0 false = none :=
  ⟨[("Key_a_Normal".toList, ['ক', '্', 'ষ']), ("Key_a_AltGr".toList, []), ("Num1".toList, ['১'])],
    by decide +kernel, by decide +kernel, by decide +kernel, by decide +kernel, by decide +kernel⟩

end Riti.Layout
