/-
Props/RealEnv — the property theorems for the REAL engine, modulo the data files only.

The engine model is parameterised by `Env` (transliterator, dictionary matcher, encoder, data tables) and the theorems of
Props/C01…C19 hold for every `Env`, several of them under side conditions on it.  Here the parameters are instantiated
with the modelled real components

  `convert := okConvert`        (Model/Okkhor — okkhor's Avro parser over the regenerated pattern table)
  `dictPhonetic := dictSearch`  (Model/Regex  — okkhor's regex generator + reader/matcher + riti's first-letter table)
  `bijoy := Riti.bijoy`         (Model/Bijoy  — poriborton's `unicode_to_bijoy`)

and the remaining fields with a `Data` record (the JSON data files as finite maps), exactly as the trace validator's
`Driver.mkEnv` does (`fixedTable` and the table argument of the look-up are the SAME dictionary).  The side conditions of
the general theorems are then discharged, so that what is left are hypotheses on `Data` (e.g. "no entry contains U+0000").

Not modelled, as everywhere else: the size limit of the `regex` crate (`Env.dictPhonetic = none`, words of ≳ 2 000
letters).  `Regex.dictSearch_isSome` shows that the modelled look-up itself never answers `none`, so for `realEnv` the
"regex did not compile" branch of `computeEntry` is dead; the traces carry the crate's verdict for such words.

Contents
 1. `Data`, `realEnv`, `realWorld`.
 2. C19: `realEnv_noNul(_iff)` — `NoNulEnv (realEnv d) ↔ DataNoNul d`; `no_nul_real`.
 3. C16/C02/C01: `preedit_full_error_iff`, `preedit_single_error_iff` (a pre-edit read-out fails exactly for an index
    outside the list or, under ANSI, on one of U+09C4 U+09C5 U+09C6 U+09C9 U+09CA), `preedit_no_bengali_real`,
    `preEditOk_real_iff`, `no_panic_real`.
 4. C17: `c17_uncurl_real_partial`.   5. C18: `emoticon_offered_real`.   6. C03: `c03_word_real`, ….
 7. C06: the side condition of `p_backspace_empty_partial` is FALSE of the real transliterator.
 8. C08: `mem_computeEntry_real` (exact content of a memo entry), `c08_sound_real`, `dict_word_offered_real`.
 9. provenance of the characters of a candidate (`suggestList_real_allC`, any character predicate) and its instances:
    the encoder's panic is unreachable from the phonetic method (`pKey_preedit_total`, reachable states) and from the
    fixed method's dictionary (`ansi_fixed_candidates_noBad`); C17's last `NoCurly` proviso
    (`c17_uncurl_off_real_partial`); C07 `EmojiFresh` / C18 `EnglishNotEmoji` (`c07_nodup_real`, `emoji_transparent_real`).
10. non-vacuity: a tiny data set run end to end in the kernel (transliterator, regex look-up, suffixes, auto-correct,
    emoticon, emoji name, ANSI encoding), the data hypotheses checked on it, two findings reproduced with the real
    components.

NOT discharged (and why): `C06.p_backspace_empty_partial` (false: okkhor drops a lone back-tick, §7); `C09.StripStable`
(a proviso on the committed candidate, fails for curled candidates of the real engine, §10); `RawSame` of C17 (fails for
typed `"\"`, §10); the composed text of the FIXED method under ANSI (it comes from the layout file — a parameter — and
Probhat does type U+09C4: `fixed_lonely_panics_iff` says exactly when the read-out panics); the ordering function of
the fixed method (`sort_unstable`) and the layout files stay parameters of `World`.
-/
import RitiModel.Lemmas.RealEnv
import RitiModel.Lemmas.Transparency
import RitiModel.Props.Bijoy
import RitiModel.Props.RegexTotal
import RitiModel.Props.RegexFast
import RitiModel.Props.C02
import RitiModel.Props.C03
import RitiModel.Props.C05
import RitiModel.Props.C06
import RitiModel.Props.C08
import RitiModel.Props.C09
import RitiModel.Props.C17
import RitiModel.Props.C18
import RitiModel.Props.C19
namespace Riti.Real
open Riti Riti.Gen Riti.Regex Riti.Bijoy

/-! ## 1. the real environment -/

/-- the data files, as finite maps -/
structure Data where
  /-- dictionary.json: table name ↦ words in file order (`[]` for an unknown name) -/
  dictionary : String → List Str
  /-- suffix.json -/
  suffix : Str → Option Str
  /-- the bundled autocorrect.json -/
  autocorrect : Str → Option Str
  /-- emojicon `get_by_emoticon` -/
  emoticon : Str → Option Str
  /-- emojicon `get_by_name` -/
  emojiByName : Str → Option (List Str)
  /-- `BengaliEmoji::get` -/
  emojiBengali : Str → Option (List Str)

/-- the environment of the real engine: the three modelled components, the rest from the data files (mirrors
    `Driver.mkEnv`; there the look-up answers come from the trace and are cross-checked against `dictSearch`, here
    `dictSearch` is used directly — it never answers `none`, `dictPhonetic_real_isSome`) -/
def realEnv (d : Data) : Env where
  convert := okConvert
  dictPhonetic := dictSearch d.dictionary
  suffix := d.suffix
  autocorrect := d.autocorrect
  emoticon := d.emoticon
  emojiByName := d.emojiByName
  emojiBengali := d.emojiBengali
  bijoy := Riti.bijoy
  fixedTable := d.dictionary

/-- a world around the real environment (layout files and the ordering function stay parameters; `Driver.mkWorld`
    uses `sortStable`) -/
def realWorld (d : Data) (layouts : String → Option Layout) (sorter : Sorter) : World :=
  { env := realEnv d, layouts := layouts, sorter := sorter }

/-- the modelled look-up always answers: the `none` branch of `computeEntry` ("regex failed to compile") is never
    taken for the real environment (what remains outside the model is the size limit of the `regex` crate) -/
theorem dictPhonetic_real_isSome (d : Data) (w : Str) : ((realEnv d).dictPhonetic w).isSome = true :=
  dictSearch_isSome d.dictionary w

/-- the trace validator runs the position-set matcher on long words: same function -/
theorem dictPhonetic_real_fast (d : Data) : (realEnv d).dictPhonetic = dictSearchFast d.dictionary := by
  funext w; exact (dictSearchFast_eq d.dictionary w).symm

/-! ## 2. C19: NUL-freedom reduces to the data files -/

/-- no entry of any data file contains U+0000 -/
structure DataNoNul (d : Data) : Prop where
  dict : ∀ t, ∀ s ∈ d.dictionary t, NoNul s
  sfx : ∀ k v, d.suffix k = some v → NoNul v
  ac : ∀ k v, d.autocorrect k = some v → NoNul v
  emo : ∀ k v, d.emoticon k = some v → NoNul v
  emoName : ∀ k l, d.emojiByName k = some l → ∀ s ∈ l, NoNul s
  emoBn : ∀ k l, d.emojiBengali k = some l → ∀ s ∈ l, NoNul s

/-- every word the real look-up offers is a word of a dictionary table -/
theorem dictSearch_mem_table {dict : String → List Str} {w : Str} {l : List Str} (h : dictSearch dict w = some l)
    {s : Str} (hs : s ∈ l) : ∃ t ∈ tablesFor phoneticTables w, s ∈ dict t := by
  obtain ⟨r, _, hspec, _, _⟩ := dictSearch_spec h
  exact ((hspec s).1 hs).1

/-- **the `NoNulEnv` side condition of C19 for the real engine**: it holds as soon as the data files are NUL-free — the
    transliterator (`okConvert_noNul`), the look-up (`dictSearch_spec`: candidates are table words) and the encoder
    (`bijoy_noNul`) need no hypothesis -/
theorem realEnv_noNul {d : Data} (hd : DataNoNul d) : NoNulEnv (realEnv d) where
  conv := fun _ h => okConvert_noNul h
  dict := by
    intro w l h s hs
    obtain ⟨t, _, hst⟩ := dictSearch_mem_table h hs
    exact hd.dict t s hst
  sfx := hd.sfx
  ac := hd.ac
  emo := hd.emo
  emoName := hd.emoName
  emoBn := hd.emoBn
  bij := fun _ _ hs h => bijoy_noNul hs h
  table := hd.dict

/-- … and conversely: for the real engine `NoNulEnv` says exactly that the data files are NUL-free -/
theorem realEnv_noNul_iff (d : Data) : NoNulEnv (realEnv d) ↔ DataNoNul d :=
  ⟨fun h => ⟨h.table, h.sfx, h.ac, h.emo, h.emoName, h.emoBn⟩, realEnv_noNul⟩

/-- the world hypothesis of `C19.no_nul` for the real engine: NUL-free data files, NUL-free layout values, an ordering
    function that permutes -/
theorem realWorld_noNul {d : Data} (hd : DataNoNul d) {layouts : String → Option Layout} {sorter : Sorter}
    (hl : ∀ p l, layouts p = some l → NoNulLayout l) (hs : ∀ l, (sorter l).Perm l) :
    NoNulWorld (realWorld d layouts sorter) :=
  ⟨realEnv_noNul hd, hl, hs⟩

/-- **C19 `no_nul` for the real engine**: with NUL-free data files, layout values and user auto-correct values, after
    any sequence of C-interface calls every string handed to C and every text owned by a live suggestion is NUL-free
    (C sees the whole text) — no hypothesis on transliterator, look-up or encoder is left -/
theorem no_nul_real {d : Data} (hd : DataNoNul d) {layouts : String → Option Layout} {sorter : Sorter}
    (hl : ∀ p l, layouts p = some l → NoNulLayout l) (hs : ∀ l, (sorter l).Perm l)
    {hp' : Heap} {fs fs' : FS} {ops : List FfiOp} {os : List FfiOut}
    (hfs : NoNulFS fs) (hr : ffiRun (realWorld d layouts sorter) Heap.empty fs ops = .ok (hp', fs', os)) :
    (∀ h s, alookup hp'.strings h = some s → NoNul s ∧ cView s = s) ∧
    (∀ h sg, alookup hp'.suggestions h = some sg → NoNulSugg sg) :=
  C19.no_nul (realWorld_noNul hd hl hs) hfs hr

/-- the phonetic candidate list of the real engine is NUL-free (NUL-free data, memo and typed text) -/
theorem suggestList_real_noNul {d : Data} (hd : DataNoNul d) (cfg : Cfg) {cache : Memo} (hc : MemoNoNul cache)
    {term : Str} (ht : NoNul term) : RanksNoNul (suggestList (realEnv d) cfg cache term) :=
  suggestList_noNul (realEnv_noNul hd) cfg hc ht

/-! ## 3. C16 / C02 / C01: the pre-edit text and the only remaining panic under ANSI -/

/-- reading the pre-edit text of a candidate list through the real encoder: an error is either an index outside the
    list or — only under ANSI — poriborton's `panic!`, and the latter happens EXACTLY when the candidate contains one of
    U+09C4 U+09C5 U+09C6 U+09C9 U+09CA -/
theorem preedit_full_error_iff (d : Data) (aux : Str) (l : List Str) (sel : Nat) (a : Bool) (i : Nat) (e : Panic) :
    (Sugg.full aux l sel a).getPreEdit (realEnv d) i = .error e ↔
      (l[i]? = none ∧ e = .indexOutOfRange) ∨
      (a = true ∧ e = .bijoy ∧ ∃ s, l[i]? = some s ∧ ∃ c ∈ s, BadKar c) := by
  simp only [Sugg.getPreEdit, realEnv]
  cases hi : l[i]? with
  | none =>
    simp only [Except.error.injEq, true_and]
    constructor
    · intro h; exact Or.inl h.symm
    · rintro (h | ⟨_, _, s, hs, _⟩)
      · exact h.symm
      · cases hs
  | some s =>
    have hno : ¬ (some s = none ∧ e = Panic.indexOutOfRange) := fun h => by cases h.1
    cases a with
    | false =>
      simp only [Bool.false_eq_true, if_false, false_and, or_false]
      constructor
      · intro h; cases h
      · intro h; exact absurd h hno
    | true =>
      simp only [if_true, true_and]
      constructor
      · intro h
        have he := bijoy_error_is_bijoy h
        subst he
        exact Or.inr ⟨rfl, s, rfl, (bijoy_panics_iff s).1 h⟩
      · rintro (h | ⟨rfl, s', hs', hb⟩)
        · exact absurd h hno
        · cases hs'
          exact (bijoy_panics_iff s).2 hb

/-- the same for a single-string suggestion (any index): the only error is the encoder's, under ANSI, exactly on the
    five code points -/
theorem preedit_single_error_iff (d : Data) (t : Str) (a : Bool) (i : Nat) (e : Panic) :
    (Sugg.single t a).getPreEdit (realEnv d) i = .error e ↔ (a = true ∧ e = .bijoy ∧ ∃ c ∈ t, BadKar c) := by
  simp only [Sugg.getPreEdit, realEnv]
  cases a with
  | false => simp
  | true =>
    simp only [if_true, true_and]
    constructor
    · intro h
      have he := bijoy_error_is_bijoy h
      subst he
      exact ⟨rfl, (bijoy_panics_iff t).1 h⟩
    · rintro ⟨rfl, hb⟩
      exact (bijoy_panics_iff t).2 hb

/-- **C02 `preedit_readable` for the real engine**: every index below the length can be read as pre-edit text unless
    (ANSI on and) the candidate contains one of the five code points — no hypothesis on the encoder -/
theorem preedit_readable_real (d : Data) (aux : Str) (l : List Str) (sel : Nat) (a : Bool) (i : Nat) (h : i < l.length)
    (hb : a = true → ∀ c ∈ l[i], ¬ BadKar c) :
    ∃ t, (Sugg.full aux l sel a).getPreEdit (realEnv d) i = .ok t :=
  C02.preedit_readable (realEnv d) aux l sel a i h (fun ha => bijoy_total (hb ha))

/-- **C02 `single_readable` for the real engine** -/
theorem single_readable_real (d : Data) (t : Str) (a : Bool) (hb : a = true → ∀ c ∈ t, ¬ BadKar c) :
    ∃ u, (Sugg.single t a).getPreEdit (realEnv d) 0 = .ok u :=
  C02.single_readable (realEnv d) t a (fun ha => bijoy_total (hb ha))

/-- the `get_pre_edit_text` clause of the C-interface contract (`C19.PreEditOk`), spelled out for the real encoder:
    the index is inside the list and — under ANSI — the text is free of the five code points -/
theorem preEditOk_real_iff (d : Data) (sg : Sugg) (i : Nat) :
    C19.PreEditOk (realEnv d) sg i ↔
      match sg with
      | .full _ l _ a => ∃ s, l[i]? = some s ∧ (a = true → ∀ c ∈ s, ¬ BadKar c)
      | .single s a => a = true → ∀ c ∈ s, ¬ BadKar c := by
  have key : ∀ s : Str, (∃ r, Riti.bijoy s = .ok r) ↔ ∀ c ∈ s, ¬ BadKar c := by
    intro s
    constructor
    · rintro ⟨r, hr⟩ c hc hb
      rw [(bijoy_panics_iff s).2 ⟨c, hc, hb⟩] at hr
      cases hr
    · exact bijoy_total
  cases sg with
  | full aux l sel a => simp only [C19.PreEditOk, realEnv, key]
  | single s a => simp only [C19.PreEditOk, realEnv, key]

/-- **C16, second half, for the real engine**: with ANSI on, the pre-edit text of every candidate of a returned list
    contains no Bengali-block code point — no hypothesis on the encoder -/
theorem preedit_no_bengali_real (d : Data) (cfg : Cfg) (ha : cfg.ansi = true) (sg : Sugg)
    (hf : C16.flag sg = cfg.ansi) (i : Nat) (c t : Str) (h : sg.getSuggestion i = .ok c)
    (ht : sg.getPreEdit (realEnv d) i = .ok t) : ∀ ch ∈ t, ¬ (0x0980 ≤ ch.toNat ∧ ch.toNat ≤ 0x09FF) :=
  Bijoy.preedit_no_bengali (realEnv d) rfl cfg ha sg hf i c t h ht

/-- … and reading it back panics exactly when the candidate contains one of the five code points (ANSI on) -/
theorem preedit_panics_iff_real (d : Data) (cfg : Cfg) (ha : cfg.ansi = true) (sg : Sugg)
    (hf : C16.flag sg = cfg.ansi) (i : Nat) (c : Str) (h : sg.getSuggestion i = .ok c) :
    sg.getPreEdit (realEnv d) i = .error .bijoy ↔ ∃ ch ∈ c, BadKar ch := by
  rw [C16.preedit_of_returned (realEnv d) cfg sg hf i c h, ha]
  exact bijoy_panics_iff c

/-- **C01 for the real engine**: every in-contract history of API calls returns normally (`C01.no_panic`, which has
    no side condition), and a read-out of a returned suggestion as pre-edit text — the one place where the `Env` can
    panic — fails only for an index outside the list or, under ANSI, on one of the five code points -/
theorem no_panic_real (d : Data) (layouts : String → Option Layout) (sorter : Sorter) (c : Ctx) (fs : FS)
    (evs : List Event) (h : C01.InContract (realWorld d layouts sorter) c fs evs) :
    (∃ r, runFrom (realWorld d layouts sorter) c fs evs = .ok r) ∧
    (∀ (sg : Sugg) (i : Nat) (e : Panic), sg.getPreEdit (realEnv d) i = .error e →
      e = .indexOutOfRange ∨ (e = .bijoy ∧ C16.flag sg = true)) := by
  refine ⟨C01.no_panic _ c fs evs h, ?_⟩
  intro sg i e he
  cases sg with
  | full aux l sel a =>
    rcases (preedit_full_error_iff d aux l sel a i e).1 he with ⟨_, h⟩ | ⟨ha, h, _⟩
    · exact Or.inl h
    · exact Or.inr ⟨h, ha⟩
  | single t a =>
    obtain ⟨ha, h, _⟩ := (preedit_single_error_iff d t a i e).1 he
    exact Or.inr ⟨h, ha⟩

/-! ## 4. C17: smart quotes -/

/-- the transliterated punctuation around the word never contains a curly quote when the typed text does not (and
    keyboard text never does: `C17.typed_char_noCurly`) -/
theorem punct_noCurly_real (d : Data) (term : Str) (h : NoCurly term) :
    NoCurly (C17.lead (realEnv d) term) ∧ NoCurly (C17.tail (realEnv d) term) :=
  C17.okkhor_punct_noCurly (realEnv d) rfl term h

/-- **C17 for the real engine** (PARTIAL with the same exclusion as `C17.c17_lists_partial`: the typed text must not
    collide with a wrapped candidate on one side only, `RawSame`): for every typed text the candidate texts with the
    option on and off agree after mapping curly quotes back — the `NoCurly` side conditions on the transliterated
    punctuation are discharged -/
theorem c17_uncurl_real_partial (d : Data) (cfg : Cfg) (cache : Memo) (term : Str) (hterm : NoCurly term)
    (hraw : (split term false).word ≠ [] → C17.RawSame (realEnv d) cfg cache term) :
    (suggestList (realEnv d) (C17.on cfg) cache term).map (uncurl ∘ Rank.text) =
      (suggestList (realEnv d) (C17.off cfg) cache term).map (uncurl ∘ Rank.text) :=
  C17.c17_uncurl_okkhor_partial (realEnv d) rfl cfg cache term hterm hraw

/-! ## 5. C18: emoticons -/

/-- **C18 `emoticon_offered` for the real engine**: typing an emoticon of the table offers its emoji AND keeps the
    literal typed text available — every data set, memo, typed text and option vector outside ANSI mode; the side
    conditions on the transliterator (`convert "" = ""`, `PunctFaithful`) are discharged -/
theorem emoticon_offered_real (d : Data) (cfg : Cfg) (cache : Memo) (term e : Str)
    (hansi : cfg.ansi = false) (he : d.emoticon term = some e) :
    e ∈ (suggestList (realEnv d) cfg cache term).map Rank.text ∧
      term ∈ (suggestList (realEnv d) cfg cache term).map Rank.text :=
  C18.emoticon_offered_okkhor (realEnv d) cfg cache term e rfl hansi he

/-- the real transliterator is `PunctFaithful` for every text and option vector -/
theorem punctFaithful_real (d : Data) (cfg : Cfg) (term : Str) : C18.PunctFaithful (realEnv d) cfg term :=
  C18.punctFaithful_okkhor (realEnv d) cfg term rfl

/-! ## 6. C03: the output is the Avro transliteration of what was typed -/

/-- clause 1 (letters and digits only, suggestions off): the single string IS `okConvert` of the typed text -/
theorem c03_word_real (d : Data) (w : Str) (h : ∀ c ∈ w, isAlnum c = true) :
    suggestOnlyPhonetic (realEnv d) w = okConvert w :=
  C03.c03_word (realEnv d) rfl w h

/-- clause 2 (a word wrapped in punctuation): the three parts are transliterated separately by `okConvert` -/
theorem c03_wrapped_real (d : Data) (lead w trail : Str) (hw : w ≠ [])
    (hwa : ∀ c ∈ w, isAlnum c = true) (hl : ∀ c ∈ lead, isPunct27 c = true) (ht : ∀ c ∈ trail, isPunct27 c = true) :
    suggestOnlyPhonetic (realEnv d) (lead ++ w ++ trail) = okConvert lead ++ okConvert w ++ okConvert trail :=
  C03.c03_wrapped (realEnv d) lead w trail hw hwa hl ht

/-- clause 3 (suggestions on): the `okConvert` transliteration (modulo curling of the wrapping quotes) is always a
    candidate, for every data set, typed text, configuration and memo -/
theorem translit_is_candidate_real (d : Data) (cfg : Cfg) (cache : Memo) (term : Str) :
    let s := split term false
    let curl := cfg.smartQuote && !s.word.isEmpty
    let p' := if curl then (okConvert s.pre).map openQuote else okConvert s.pre
    let r' := if curl then (okConvert s.trail).map closeQuote else okConvert s.trail
    (p' ++ okConvert s.word ++ r') ∈ (suggestList (realEnv d) cfg cache term).map Rank.text :=
  C03.translit_is_candidate (realEnv d) cfg cache term

/-! ## 7. C06: a side condition that is FALSE of the real transliterator -/

/-- `C06.p_backspace_empty_partial` needs "`convert` maps only the empty text to the empty text on what is left of
    the composition".  The real transliterator does NOT satisfy it (okkhor drops a lone back-tick), so the finding
    `C06.p_empty_suggestion_but_ongoing` is a finding about the real engine, over any data files: buffer `` `a ``,
    one backspace, suggestions off — the empty suggestion is returned although the session is still open -/
theorem p_empty_suggestion_but_ongoing_real (d : Data) :
    let r := pBackspace (realEnv d) {} { buffer := ['`', 'a'] } false
    r.2 = Sugg.empty ∧ pOngoing r.1 = true ∧ okConvert ['`'] = [] := by
  have h : okConvert ['`'] = [] := by decide +kernel
  have hs : suggestOnlyPhonetic (realEnv d) ['`'] = [] := by
    have : split ['`'] false = ⟨[], ['`'], []⟩ := by decide
    simp only [suggestOnlyPhonetic, this, realEnv, h]
    rfl
  refine ⟨?_, ?_, h⟩
  · simp [pBackspace, pCreateSuggestion, hs, Sugg.empty]
  · simp [pBackspace, pCreateSuggestion, pOngoing]

/-! ## 8. C08: every dictionary-derived candidate of the real engine is justified by the data files -/

/-- `t` is a justified direct candidate for the typed word `w`: the transliteration of an auto-correct value for `w`
    (user entries first, then the bundled file), or a word of a dictionary table selected by the first typed letter
    that belongs to the language of the expression `r` okkhor generates for `w` -/
def Justified (d : Data) (ua : Store) (w t : Str) : Prop :=
  (∃ c, (alookup ua w = some c ∨ (alookup ua w = none ∧ d.autocorrect w = some c)) ∧ t = okConvert c) ∨
  (∃ r tbl, parseAnchored (rxString w) = some r ∧ tbl ∈ tablesFor phoneticTables w ∧ t ∈ d.dictionary tbl ∧ Lang r t)

/-- `search_corrected` of the real engine, spelled out -/
theorem searchCorrected_real (d : Data) (ua : Store) (w c : Str) :
    searchCorrected (realEnv d) ua w = some c ↔
      (alookup ua w = some c ∨ (alookup ua w = none ∧ d.autocorrect w = some c)) := by
  unfold searchCorrected
  cases h : alookup ua w with
  | none => simp [realEnv]
  | some v => simp

/-- the memo entry the real engine computes for a word, in closed form: the auto-correct item, then — ranked against
    the transliteration — the words of the selected tables that the generated expression matches, in table order then
    file order; the expression always exists (`Regex.dictSearch_total`) -/
theorem computeEntry_real (d : Data) (ua : Store) (w : Str) :
    ∃ r, parseAnchored (rxString w) = some r ∧
      computeEntry (realEnv d) ua w =
        (match searchCorrected (realEnv d) ua w with
          | some c => [Rank.first (okConvert c)]
          | none => []) ++
        (((tablesFor phoneticTables w).flatMap d.dictionary).filter r.matches).map
          (fun s => Rank.newSuggestion s (okConvert w)) := by
  obtain ⟨r, hp, _, hds, _⟩ := dictSearch_total d.dictionary w
  refine ⟨r, hp, ?_⟩
  have hds' : (realEnv d).dictPhonetic w =
      some (((tablesFor phoneticTables w).flatMap d.dictionary).filter r.matches) := hds
  unfold computeEntry
  simp only [hds', Option.getD_some]
  rfl

/-- EXACT content of a memo entry of the real engine: an item is in it iff it is the `First` item of an auto-correct
    value or the ranked item of a dictionary word of a selected table in the language of the generated expression -/
theorem mem_computeEntry_real (d : Data) (ua : Store) (w : Str) (b : Rank) :
    b ∈ computeEntry (realEnv d) ua w ↔
      (∃ c, (alookup ua w = some c ∨ (alookup ua w = none ∧ d.autocorrect w = some c)) ∧
        b = Rank.first (okConvert c)) ∨
      (∃ r tbl c, parseAnchored (rxString w) = some r ∧ tbl ∈ tablesFor phoneticTables w ∧ c ∈ d.dictionary tbl ∧
        Lang r c ∧ b = Rank.newSuggestion c (okConvert w)) := by
  obtain ⟨r, hp, he⟩ := computeEntry_real d ua w
  rw [he, List.mem_append]
  apply or_congr
  · cases hs : searchCorrected (realEnv d) ua w with
    | none =>
      simp only [List.not_mem_nil, false_iff]
      rintro ⟨c, hc, _⟩
      rw [((searchCorrected_real d ua w c).2 hc)] at hs
      cases hs
    | some c =>
      simp only [List.mem_singleton]
      constructor
      · rintro rfl; exact ⟨c, (searchCorrected_real d ua w c).1 hs, rfl⟩
      · rintro ⟨c', hc', rfl⟩
        have := (searchCorrected_real d ua w c').2 hc'
        rw [hs] at this
        cases this; rfl
  · simp only [List.mem_map, List.mem_filter, List.mem_flatMap, matches_iff]
    constructor
    · rintro ⟨c, ⟨⟨tbl, ht, hc⟩, hl⟩, rfl⟩
      exact ⟨r, tbl, c, hp, ht, hc, hl, rfl⟩
    · rintro ⟨r', tbl, c, hp', ht, hc, hl, rfl⟩
      have : r' = r := by rw [hp] at hp'; exact (Option.some.inj hp').symm
      subst this
      exact ⟨c, ⟨⟨tbl, ht, hc⟩, hl⟩, rfl⟩

/-- every item of a memo entry computed by the real engine carries a justified text -/
theorem computeEntry_real_justified {d : Data} {ua : Store} {w : Str} {b : Rank}
    (hb : b ∈ computeEntry (realEnv d) ua w) : Justified d ua w b.text := by
  rcases (mem_computeEntry_real d ua w b).1 hb with ⟨c, hc, rfl⟩ | ⟨r, tbl, c, hp, ht, hc, hl, rfl⟩
  · exact Or.inl ⟨c, hc, rfl⟩
  · exact Or.inr ⟨r, tbl, hp, ht, hc, hl⟩

/-- **C08 soundness for the real engine.**  With a memo whose entries were computed by the engine (`SoundMemo`: the
    invariant of every reachable state, `Lemmas/Transparency`), every item of the dictionary stage is — up to wrapping
    in the punctuation — (a) justified for the typed word: the transliteration of an auto-correct value, or a word of a
    dictionary table selected by the first typed letter that is in the language of the generated expression; (b) the
    transliteration of the word; or (c) a text justified in the same sense for a proper prefix `k`, joined by the
    joining rule (`C08.join_spec`) to the Bengali form of the known suffix `r`, `k ++ r = word` -/
theorem c08_sound_real (d : Data) (ua : Store) (cache : Memo) (parts : Parts) (x : Rank)
    (hm : SoundMemo (realEnv d) ua cache) (hx : x ∈ dictList (realEnv d) cache parts) :
    ∃ t, x.text = (if !parts.pre.isEmpty || !parts.trail.isEmpty then wrapText parts.pre parts.trail t else t) ∧
      (Justified d ua parts.word t ∨
       t = okConvert parts.word ∨
       (∃ k r sfx b, k ≠ [] ∧ r ≠ [] ∧ k ++ r = parts.word ∧ d.suffix r = some sfx ∧
          Justified d ua k b ∧ joinChecked b sfx = some t)) := by
  obtain ⟨t, ht, h⟩ := C08.c08_sound (realEnv d) cache parts x hx
  refine ⟨t, ht, ?_⟩
  rcases h with ⟨entry, b, he, hb, rfl⟩ | h | ⟨k, r, sfx, entry, b, hk, hr, hkr, hs, he, hb, hj⟩
  · left
    rw [(hm _ _ he).1] at hb
    exact computeEntry_real_justified hb
  · exact Or.inr (Or.inl h)
  · right; right
    rw [(hm _ _ he).1] at hb
    exact ⟨k, r, sfx, b.text, hk, hr, hkr, hs, computeEntry_real_justified hb, hj⟩

/-- the same for the list the engine returns (`suggest`): the memo it uses is the sound memo filled for the word -/
theorem c08_sound_real_suggest (d : Data) (cfg : Cfg) (s : PState) (term : Str) (x : Rank)
    (hm : SoundMemo (realEnv d) s.userAutocorrect s.cache)
    (hx : x ∈ dictList (realEnv d) (suggest (realEnv d) cfg s term).1.cache (preparedParts (realEnv d) cfg term)) :
    ∃ t, x.text = (if !(preparedParts (realEnv d) cfg term).pre.isEmpty || !(preparedParts (realEnv d) cfg term).trail.isEmpty
        then wrapText (preparedParts (realEnv d) cfg term).pre (preparedParts (realEnv d) cfg term).trail t else t) ∧
      (Justified d s.userAutocorrect (word term) t ∨
       t = okConvert (word term) ∨
       (∃ k r sfx b, k ≠ [] ∧ r ≠ [] ∧ k ++ r = word term ∧ d.suffix r = some sfx ∧
          Justified d s.userAutocorrect k b ∧ joinChecked b sfx = some t)) := by
  rw [suggest_cache] at hx
  have hs := memoFill_sound (realEnv d) s.userAutocorrect s.cache (word term) hm (word_idem term)
  have := c08_sound_real d s.userAutocorrect _ _ x hs hx
  rwa [preparedParts_word] at this

/-- **C08 completeness for the real look-up**: a word `c` of a dictionary table selected by the first typed letter that
    belongs to the language of the expression generated for the typed word IS offered (wrapped in the punctuation) in
    the list the engine returns — for every data set, configuration and sound memo -/
theorem dict_word_offered_real (d : Data) (cfg : Cfg) (ua : Store) (cache : Memo) (term : Str)
    (hm : SoundMemo (realEnv d) ua cache) {r : Rx} {tbl : String} {c : Str}
    (hr : parseAnchored (rxString (word term)) = some r) (ht : tbl ∈ tablesFor phoneticTables (word term))
    (hc : c ∈ d.dictionary tbl) (hl : Lang r c) :
    wrapText (preparedParts (realEnv d) cfg term).pre (preparedParts (realEnv d) cfg term).trail c ∈
      (suggestList (realEnv d) cfg (memoFill (realEnv d) ua cache (preparedParts (realEnv d) cfg term).word) term).map
        Rank.text := by
  have hb : Rank.newSuggestion c (okConvert (word term)) ∈ computeEntry (realEnv d) ua (word term) :=
    (mem_computeEntry_real d ua _ _).2 (Or.inr ⟨r, tbl, c, hr, ht, hc, hl, rfl⟩)
  have hlook := memoFill_lookup_self (realEnv d) ua cache (word term) hm
  have := C08.c08_direct_offered (realEnv d) cfg (memoFill (realEnv d) ua cache (word term)) term _ _
    (by rw [preparedParts_word]; exact hlook) hb
  rw [preparedParts_word]
  exact this

/-! ## 9. where the characters of a phonetic candidate come from; consequences for ANSI (C01/C02/C16) and C17

One induction over the candidate pipeline of the phonetic method, for an arbitrary character predicate `P`: with the
real components, every character of every candidate is a character of a data-file entry, of the typed text (possibly
case-folded), of a replacement text of the Avro table, one of the three joining letters, or — with smart quotes on —
a curly quote.  Instances: the five code points poriborton panics on (so that under ANSI NO pre-edit read-out of a
phonetic candidate can panic, given data files free of them), and curly quotes (the last side condition of
`C17.c17_uncurl_off_partial`). -/

/-- every character of the text satisfies `P` -/
def AllC (P : Char → Prop) (s : Str) : Prop := ∀ c ∈ s, P c

instance (P : Char → Prop) [DecidablePred P] (s : Str) : Decidable (AllC P s) := by unfold AllC; infer_instance

theorem AllC.append {P : Char → Prop} {a b : Str} (ha : AllC P a) (hb : AllC P b) : AllC P (a ++ b) := by
  intro c hc
  rcases List.mem_append.1 hc with h | h
  · exact ha c h
  · exact hb c h

theorem AllC.sublist {P : Char → Prop} {a b : Str} (hb : AllC P b) (h : a.Sublist b) : AllC P a :=
  fun c hc => hb c (h.subset hc)

/-- what the engine itself can add to a text: `P` holds of the replacement texts of the Avro table, is kept by
    `conditional_lowercase`, holds of the three letters of the suffix-joining rule -/
structure CharOk (P : Char → Prop) : Prop where
  tbl : ∀ p ∈ okkhorPatterns, ∀ r ∈ p.dflt :: p.rules.map Prod.snd, ∀ c ∈ natsToChars r, P c
  low : ∀ c, P c → P (condLower c)
  join : P cY ∧ P cT ∧ P cNga

/-- `P` holds of every character of every TEXT entry of the data files (dictionary words, suffix and auto-correct
    values): what can reach a candidate of the dictionary stage -/
structure TextAll (P : Char → Prop) (d : Data) : Prop where
  dict : ∀ t, ∀ s ∈ d.dictionary t, AllC P s
  sfx : ∀ k v, d.suffix k = some v → AllC P v
  ac : ∀ k v, d.autocorrect k = some v → AllC P v

/-- … and of the two emoji tables of the phonetic method as well: everything that can reach a candidate -/
structure DataAll (P : Char → Prop) (d : Data) : Prop where
  text : TextAll P d
  emo : ∀ k v, d.emoticon k = some v → AllC P v
  emoName : ∀ k l, d.emojiByName k = some l → ∀ s ∈ l, AllC P s

/-- every value of the user auto-correct list satisfies `P` -/
def StoreAll (P : Char → Prop) (ua : Store) : Prop := ∀ k v, alookup ua k = some v → AllC P v

theorem okConvert_allC {P : Char → Prop} (hP : CharOk P) {s : Str} (h : AllC P s) : AllC P (okConvert s) :=
  okConvert_all P hP.tbl hP.low h

/-- the characters of a joined form: those of the base, those of the suffix, and য় ত ঙ -/
theorem joinChecked_chars {b s t : Str} (h : joinChecked b s = some t) {c : Char} (hc : c ∈ t) :
    c ∈ b ∨ c ∈ s ∨ c = cY ∨ c = cT ∨ c = cNga := by
  unfold joinChecked at h
  split at h
  · simp only [Option.some.injEq] at h
    subst h
    unfold joinSuffix at hc
    split at hc
    · simp only [List.mem_append, List.mem_singleton] at hc
      rcases hc with (h | h) | h
      · exact Or.inl h
      · exact Or.inr (Or.inr (Or.inl h))
      · exact Or.inr (Or.inl h)
    · split at hc
      · simp only [List.mem_append, List.mem_singleton] at hc
        rcases hc with (h | h) | h
        · exact Or.inl ((List.dropLast_sublist _).subset h)
        · exact Or.inr (Or.inr (Or.inr (Or.inl h)))
        · exact Or.inr (Or.inl h)
      · split at hc
        · simp only [List.mem_append, List.mem_singleton] at hc
          rcases hc with (h | h) | h
          · exact Or.inl ((List.dropLast_sublist _).subset h)
          · exact Or.inr (Or.inr (Or.inr (Or.inr h)))
          · exact Or.inr (Or.inl h)
        · rcases List.mem_append.1 hc with h | h
          · exact Or.inl h
          · exact Or.inr (Or.inl h)
  · cases h

theorem joinChecked_allC {P : Char → Prop} (hP : CharOk P) {b s t : Str} (h : joinChecked b s = some t)
    (hb : AllC P b) (hs : AllC P s) : AllC P t := by
  intro c hc
  rcases joinChecked_chars h hc with h | h | rfl | rfl | rfl
  · exact hb c h
  · exact hs c h
  · exact hP.join.1
  · exact hP.join.2.1
  · exact hP.join.2.2

/-- a justified direct candidate consists of `P` characters -/
theorem justified_allC {P : Char → Prop} (hP : CharOk P) {d : Data} (hd : TextAll P d) {ua : Store}
    (hua : StoreAll P ua) {w t : Str} (h : Justified d ua w t) : AllC P t := by
  rcases h with ⟨c, hc, rfl⟩ | ⟨r, tbl, _, _, ht, _⟩
  · apply okConvert_allC hP
    rcases hc with hc | ⟨_, hc⟩
    · exact hua _ _ hc
    · exact hd.ac _ _ hc
  · exact hd.dict tbl t ht

/-- the word part of `split` consists of characters of the input -/
theorem split_word_mem {input : Str} {ic : Bool} {c : Char} (h : c ∈ (split input ic).word) : c ∈ input := by
  simp only [split] at h
  split at h
  · cases h
  · exact (List.dropWhile_sublist _).subset (List.mem_of_mem_take h)

/-- the prepared parts of the real engine: transliterated punctuation (curled if smart quotes are on), raw word -/
theorem preparedParts_real_allC {P : Char → Prop} (hP : CharOk P) (d : Data) (cfg : Cfg)
    (hq : cfg.smartQuote = true → P '‘' ∧ P '’' ∧ P '“' ∧ P '”') {term : Str} (ht : AllC P term) :
    AllC P (preparedParts (realEnv d) cfg term).pre ∧ AllC P (preparedParts (realEnv d) cfg term).word ∧
      AllC P (preparedParts (realEnv d) cfg term).trail := by
  have hpre : AllC P (okConvert (split term false).pre) :=
    okConvert_allC hP (fun c hc => ht c (C17.split_pre_mem hc))
  have htrail : AllC P (okConvert (split term false).trail) :=
    okConvert_allC hP (fun c hc => ht c (C17.split_trail_mem hc))
  have hword : AllC P (split term false).word := fun c hc => ht c (split_word_mem hc)
  unfold preparedParts
  simp only [realEnv]
  split
  · rename_i hsq
    obtain ⟨q1, q2, q3, q4⟩ := hq hsq
    unfold smartQuoter
    split
    · exact ⟨hpre, hword, htrail⟩
    · refine ⟨?_, hword, ?_⟩
      · intro c hc
        obtain ⟨x, hx, rfl⟩ := List.mem_map.1 hc
        rw [C17.openQuote_spec]
        split
        · exact q1
        · split
          · exact q3
          · exact hpre x hx
      · intro c hc
        obtain ⟨x, hx, rfl⟩ := List.mem_map.1 hc
        rw [C17.closeQuote_spec]
        split
        · exact q2
        · split
          · exact q4
          · exact htrail x hx
  · exact ⟨hpre, hword, htrail⟩

/-- **dictionary stage**: every character of every item satisfies `P` (sound memo, `P` data and parts) -/
theorem dictList_real_allC {P : Char → Prop} (hP : CharOk P) {d : Data} (hd : TextAll P d) {ua : Store}
    (hua : StoreAll P ua) {cache : Memo} (hm : SoundMemo (realEnv d) ua cache) {parts : Parts}
    (hp : AllC P parts.pre ∧ AllC P parts.word ∧ AllC P parts.trail) :
    ∀ x ∈ dictList (realEnv d) cache parts, AllC P x.text := by
  intro x hx
  obtain ⟨t, ht, h⟩ := c08_sound_real d ua cache parts x hm hx
  have htP : AllC P t := by
    rcases h with h | rfl | ⟨k, r, sfx, b, _, _, _, hs, hb, hj⟩
    · exact justified_allC hP hd hua h
    · exact okConvert_allC hP hp.2.1
    · exact joinChecked_allC hP hj (justified_allC hP hd hua hb) (hd.sfx _ _ hs)
  rw [ht]
  split
  · exact (hp.1.append htP).append hp.2.2
  · exact htP

/-- where an item of the emoji / English stage comes from: the dictionary stage, the raw typed text, the emoji of the
    emoticon table, or an emoji of the name table wrapped in the punctuation -/
theorem mem_addExtras {env : Env} {cfg : Cfg} {term : Str} {parts : Parts} {l : List Rank} {x : Rank}
    (hx : x ∈ addExtras env cfg term parts l) :
    x ∈ l ∨ x.text = term ∨ (∃ e, env.emoticon term = some e ∧ x.text = e) ∨
      (∃ es s, env.emojiByName parts.word = some es ∧ s ∈ es ∧ x.text = wrapText parts.pre parts.trail s) := by
  have stage : ∀ y, y ∈ (emojiStage env cfg term parts l).1 →
      y ∈ l ∨ y.text = term ∨ (∃ e, env.emoticon term = some e ∧ y.text = e) ∨
      (∃ es s, env.emojiByName parts.word = some es ∧ s ∈ es ∧ y.text = wrapText parts.pre parts.trail s) := by
    intro y hy
    unfold emojiStage at hy
    split at hy
    · exact Or.inl hy
    · split at hy
      · rename_i e hem
        rcases List.mem_append.1 hy with h | h
        · split at h
          · rcases mem_pushChecked h with h | rfl
            · exact Or.inl h
            · exact Or.inr (Or.inl rfl)
          · exact Or.inl h
        · simp only [List.mem_singleton] at h
          subst h
          exact Or.inr (Or.inr (Or.inl ⟨e, hem, rfl⟩))
      · split at hy
        · rename_i es hes
          rcases List.mem_append.1 hy with h | h
          · exact Or.inl h
          · obtain ⟨q, hq, rfl⟩ := List.mem_map.1 h
            exact Or.inr (Or.inr (Or.inr ⟨es, q.1, hes, (List.mem_zipIdx hq).2.2 ▸ List.getElem_mem _, rfl⟩))
        · exact Or.inl hy
  unfold addExtras at hx
  simp only at hx
  split at hx
  · rcases mem_pushChecked hx with h | rfl
    · exact stage x h
    · exact Or.inr (Or.inl rfl)
  · exact stage x hx

/-- **the whole candidate list of the real engine**: every character of every candidate satisfies `P`, provided `P`
    holds of what the engine adds by itself (`CharOk`; the curly quotes only if smart quotes are on), of the data files,
    the user auto-correct values and the typed text, and the memo is the engine's own (`SoundMemo`) -/
theorem suggestList_real_allC {P : Char → Prop} (hP : CharOk P) {d : Data} (hd : DataAll P d) (cfg : Cfg)
    (hq : cfg.smartQuote = true → P '‘' ∧ P '’' ∧ P '“' ∧ P '”') {ua : Store} (hua : StoreAll P ua)
    {cache : Memo} (hm : SoundMemo (realEnv d) ua cache) {term : Str} (ht : AllC P term) :
    ∀ x ∈ suggestList (realEnv d) cfg cache term, AllC P x.text := by
  intro x hx
  have hp := preparedParts_real_allC hP d cfg hq ht
  unfold suggestList at hx
  rcases mem_addExtras (mem_sortStable.1 hx) with h | h | ⟨e, he, h⟩ | ⟨es, s, hes, hs, h⟩
  · exact dictList_real_allC hP hd.text hua hm hp x h
  · rw [h]; exact ht
  · rw [h]; exact hd.emo _ _ he
  · rw [h]; exact (hp.1.append (hd.emoName _ _ hes s hs)).append hp.2.2

/-- under ANSI the emoji tables do not matter (`C16.ansi_phonetic_no_extras`): the text entries suffice -/
theorem suggestList_real_allC_ansi {P : Char → Prop} (hP : CharOk P) {d : Data} (hd : TextAll P d) (cfg : Cfg)
    (ha : cfg.ansi = true) (hq : cfg.smartQuote = true → P '‘' ∧ P '’' ∧ P '“' ∧ P '”') {ua : Store}
    (hua : StoreAll P ua) {cache : Memo} (hm : SoundMemo (realEnv d) ua cache) {term : Str} (ht : AllC P term) :
    ∀ x ∈ suggestList (realEnv d) cfg cache term, AllC P x.text := by
  intro x hx
  unfold suggestList at hx
  simp only [C16.ansi_phonetic_no_extras _ _ _ _ _ ha] at hx
  exact dictList_real_allC hP hd hua hm (preparedParts_real_allC hP d cfg hq ht) x (mem_sortStable.1 hx)

/-! ### instance 1: the five code points of the encoder's panic -/

/-- the text contains none of U+09C4 U+09C5 U+09C6 U+09C9 U+09CA -/
abbrev NoBad (s : Str) : Prop := AllC (fun c => ¬ BadKar c) s

/-- ASCII text (everything the keyboard can put into the phonetic buffer: `C01.buffer_ascii_key`) is free of them -/
theorem noBad_of_ascii {s : Str} (h : C01.Ascii s) : NoBad s := by
  intro c hc hb
  have := h c hc
  simp only [BadKar, badKars, List.mem_cons, List.not_mem_nil, or_false] at hb
  omega

/-- the engine itself never produces one of the five code points: no replacement text of the Avro table contains one
    (kernel-checked over the table), case folding and the joining letters do not -/
theorem charOk_noBad : CharOk (fun c => ¬ BadKar c) where
  tbl := by
    have h : okkhorPatterns.all (fun p => (p.dflt :: p.rules.map Prod.snd).all (fun r =>
        (natsToChars r).all (fun c => !badKars.contains c.toNat))) = true := by decide +kernel
    intro p hp r hr c hc hb
    have := List.all_eq_true.1 (List.all_eq_true.1 (List.all_eq_true.1 h p hp) r hr) c hc
    simp only [BadKar] at hb
    simp [hb] at this
  low := by
    intro c hc
    rcases condLower_cases c with h | h
    · rw [h]; exact hc
    · intro hb
      simp only [BadKar, badKars, List.mem_cons, List.not_mem_nil, or_false] at hb
      omega
  join := by decide

/-- **C01/C02/C16 under ANSI for the real phonetic method, list mode.**  Data files (dictionary words, suffix and
    auto-correct values) and user auto-correct values free of the five code points, the engine's own memo, typed text
    free of them (keyboard text is ASCII): then NO candidate of the list contains one, so every pre-edit read-out of a
    candidate succeeds — the encoder's `panic!` is unreachable from the phonetic method -/
theorem ansi_phonetic_candidates_noBad {d : Data} (hd : TextAll (fun c => ¬ BadKar c) d) (cfg : Cfg)
    (ha : cfg.ansi = true) {ua : Store} (hua : StoreAll (fun c => ¬ BadKar c) ua) {cache : Memo}
    (hm : SoundMemo (realEnv d) ua cache) {term : Str} (ht : NoBad term) :
    ∀ x ∈ suggestList (realEnv d) cfg cache term, NoBad x.text ∧ ∃ t, Riti.bijoy x.text = .ok t := by
  intro x hx
  have h := suggestList_real_allC_ansi charOk_noBad hd cfg ha (fun _ => by decide) hua hm ht x hx
  exact ⟨h, bijoy_total h⟩

/-- … suggestions off: the single transliterated string of ASCII text never makes the encoder panic, for ANY data -/
theorem lonely_noBad (d : Data) {term : Str} (ht : NoBad term) :
    NoBad (suggestOnlyPhonetic (realEnv d) term) ∧ ∃ t, Riti.bijoy (suggestOnlyPhonetic (realEnv d) term) = .ok t := by
  have h : NoBad (suggestOnlyPhonetic (realEnv d) term) := by
    unfold suggestOnlyPhonetic
    simp only [realEnv]
    exact ((okConvert_allC charOk_noBad (fun c hc => ht c (C17.split_pre_mem hc))).append
      (okConvert_allC charOk_noBad (fun c hc => ht c (split_word_mem hc)))).append
      (okConvert_allC charOk_noBad (fun c hc => ht c (C17.split_trail_mem hc)))
  exact ⟨h, bijoy_total h⟩

/-- **no pre-edit panic for the real phonetic method**: whatever `create_suggestion` returns (list or single string,
    ANSI or not) for a state with ASCII composition, the engine's own memo and `BadKar`-free data / user auto-correct
    values, every candidate index can be read as pre-edit text -/
theorem phonetic_preedit_total {d : Data} (hd : TextAll (fun c => ¬ BadKar c) d) (cfg : Cfg) (s : PState)
    (hua : StoreAll (fun c => ¬ BadKar c) s.userAutocorrect)
    (hm : SoundMemo (realEnv d) s.userAutocorrect s.cache) (hb : C01.Ascii s.buffer) (i : Nat)
    (hi : ∀ aux l sel a, (pCreateSuggestion (realEnv d) cfg s).2 = .full aux l sel a → i < l.length) :
    ∃ t, (pCreateSuggestion (realEnv d) cfg s).2.getPreEdit (realEnv d) i = .ok t := by
  have hnb := noBad_of_ascii hb
  by_cases hon : cfg.phoneticSuggestion = true
  · rw [pCreate_on _ _ _ hon] at hi ⊢
    have hi' := hi _ _ _ _ rfl
    rw [List.length_map] at hi'
    apply preedit_readable_real d _ _ _ _ i (by rw [List.length_map]; exact hi')
    intro hansi
    rw [List.getElem_map]
    have hs := memoFill_sound (realEnv d) s.userAutocorrect s.cache (word s.buffer) hm (word_idem _)
    rw [← preparedParts_word (realEnv d) cfg] at hs
    have hall : ∀ x ∈ (suggest (realEnv d) cfg s s.buffer).2.1, NoBad x.text := by
      intro x hx
      rw [suggest_list] at hx
      exact (ansi_phonetic_candidates_noBad hd cfg hansi hua hs hnb x hx).1
    exact hall _ (List.getElem_mem _)
  · have hoff : cfg.phoneticSuggestion = false := by simpa using hon
    rw [pCreate_off _ _ _ hoff]
    simp only [Sugg.getPreEdit]
    split
    · exact (lonely_noBad d hnb).2
    · exact ⟨_, rfl⟩

/-! ### at the level of the API: reachable states -/

/-- the composition of every reachable phonetic state is ASCII (keys only type ASCII; the other calls shorten it) -/
theorem reach_ascii {env : Env} {cfg : Cfg} {S₀ : Store} {s : PState} (r : C05.Reach env cfg S₀ s) :
    C01.Ascii s.buffer := by
  have hnil : C01.Ascii [] := fun c hc => by cases hc
  induction r with
  | new cfg fs => exact hnil
  | @key cfg S₀ s key sel _ ih => exact C01.buffer_ascii_key env cfg s key sel ih
  | @backspace cfg S₀ s ctrl _ ih =>
    cases ctrl with
    | false =>
      rw [C06.p_backspace_shortens]
      exact fun c hc => ih c ((List.dropLast_sublist _).subset hc)
    | true =>
      unfold pBackspace
      split
      · exact hnil
      · exact ih
  | @commitKeep cfg S₀ s s' i _ hc ih =>
    unfold pCommit at hc
    split at hc
    · split at hc
      · cases hc
      · cases hc
    · cases hc; exact hnil
  | @commitLearn cfg S₀ s s' i st _ hc ih =>
    unfold pCommit at hc
    split at hc
    · split at hc
      · cases hc
      · cases hc; exact hnil
    · cases hc
  | @finish cfg S₀ s _ ih => exact hnil
  | @update cfg S₀ s cfg' fs _ hb ih =>
    unfold pUpdate
    split
    · split
      · exact ih
      · exact ih
    · split
      · exact ih
      · exact ih

/-- the memo of every reachable phonetic state is the engine's own (`C05.reach_inv`) -/
theorem reach_soundMemo {env : Env} {cfg : Cfg} {S₀ : Store} {s : PState} (r : C05.Reach env cfg S₀ s) :
    SoundMemo env s.userAutocorrect s.cache :=
  (C05.reach_inv env cfg S₀ s r).1.1

/-- **C01/C02 under ANSI for the real phonetic method, at the level of the API.**  In ANY reachable state (any history
    of keys, backspaces, commits, finishes, idle option/file reloads, from any user files), for ANY key: every
    candidate index of the returned suggestion can be read as pre-edit text — the encoder's `panic!` is unreachable —
    provided the text entries of the data files and the current user auto-correct values are free of U+09C4 U+09C5
    U+09C6 U+09C9 U+09CA.  No hypothesis on transliterator, look-up or encoder. -/
theorem pKey_preedit_total {d : Data} (hd : TextAll (fun c => ¬ BadKar c) d) {cfg : Cfg} {S₀ : Store} {s : PState}
    (r : C05.Reach (realEnv d) cfg S₀ s) (hua : StoreAll (fun c => ¬ BadKar c) s.userAutocorrect)
    (key sel i : Nat)
    (hi : ∀ aux l sel' a, (pKey (realEnv d) cfg s key sel).2 = .full aux l sel' a → i < l.length) :
    ∃ t, (pKey (realEnv d) cfg s key sel).2.getPreEdit (realEnv d) i = .ok t := by
  have hs := reach_soundMemo r
  have hb := reach_ascii r
  revert hi
  unfold pKey
  cases hk : keycodeToChar key with
  | none =>
    simp only
    split
    · intro _; exact ⟨_, rfl⟩
    · intro hi; exact phonetic_preedit_total hd cfg s hua hs hb i hi
  | some ch =>
    simp only
    have hb1 : C01.Ascii (s.buffer ++ [ch]) := by
      intro c hc
      rcases List.mem_append.1 hc with h | h
      · exact hb c h
      · simp only [List.mem_singleton] at h; subst h; exact C01.keycodeToChar_ascii key c hk
    have hT := phonetic_preedit_total hd cfg { s with buffer := s.buffer ++ [ch] } hua hs hb1 i
    cases hsg : (pCreateSuggestion (realEnv d) cfg { s with buffer := s.buffer ++ [ch] }).2 with
    | single t a =>
      rw [show pCreateSuggestion (realEnv d) cfg { s with buffer := s.buffer ++ [ch] } =
        ((pCreateSuggestion (realEnv d) cfg { s with buffer := s.buffer ++ [ch] }).1, .single t a) from by rw [← hsg]]
      intro _
      rw [hsg] at hT
      exact hT (fun _ _ _ _ h => by cases h)
    | full aux l e a =>
      rw [show pCreateSuggestion (realEnv d) cfg { s with buffer := s.buffer ++ [ch] } =
        ((pCreateSuggestion (realEnv d) cfg { s with buffer := s.buffer ++ [ch] }).1, .full aux l e a) from by rw [← hsg]]
      intro hi
      rw [hsg] at hT
      exact hT (fun _ _ _ _ h => by cases h; exact hi _ _ _ _ rfl)

/-! ### the fixed method under ANSI -/

/-- the parts the fixed method cuts the composed text into consist of its characters (curled quotes aside) -/
theorem fixedParts_allC {P : Char → Prop} (cfg : Cfg) (hq : cfg.smartQuote = true → P '‘' ∧ P '’' ∧ P '“' ∧ P '”')
    {buffer : Str} (hb : AllC P buffer) :
    AllC P (fixedParts cfg buffer).pre ∧ AllC P (fixedParts cfg buffer).word ∧ AllC P (fixedParts cfg buffer).trail := by
  have hpre : AllC P (split buffer true).pre := fun c hc => hb c (C17.split_pre_mem hc)
  have htrail : AllC P (split buffer true).trail := fun c hc => hb c (C17.split_trail_mem hc)
  have hword : AllC P (split buffer true).word := fun c hc => hb c (split_word_mem hc)
  unfold fixedParts
  simp only
  split
  · rename_i hsq
    obtain ⟨q1, q2, q3, q4⟩ := hq hsq
    unfold smartQuoter
    split
    · exact ⟨hpre, hword, htrail⟩
    · refine ⟨?_, hword, ?_⟩
      · intro c hc
        obtain ⟨x, hx, rfl⟩ := List.mem_map.1 hc
        rw [C17.openQuote_spec]
        split
        · exact q1
        · split
          · exact q3
          · exact hpre x hx
      · intro c hc
        obtain ⟨x, hx, rfl⟩ := List.mem_map.1 hc
        rw [C17.closeQuote_spec]
        split
        · exact q2
        · split
          · exact q4
          · exact htrail x hx
  · exact ⟨hpre, hword, htrail⟩

theorem wrapOne_allC {P : Char → Prop} {parts : Parts} (hp : AllC P parts.pre ∧ AllC P parts.word ∧ AllC P parts.trail)
    {r : Rank} (hr : AllC P r.text) : AllC P (wrapOne parts r).text := by
  unfold wrapOne
  split
  · rw [Rank.text_setText]; exact (hp.1.append hr).append hp.2.2
  · exact hr

/-- **fixed method, ANSI on, real dictionary**: if the composed text and the dictionary words are free of the five
    code points, so is every candidate shown (any ordering allowed by `sort_unstable`), hence every pre-edit read-out
    succeeds.  (The composed text itself comes from the layout file: Probhat's AltGr+d types U+09C4, and then the
    read-out of the composed text DOES panic — `fixed_lonely_panics_iff`.) -/
theorem ansi_fixed_candidates_noBad {d : Data} (hdict : ∀ t, ∀ s ∈ d.dictionary t, NoBad s)
    (layouts : String → Option Layout) {sorter : Sorter} (hs : IsSortPerm sorter) (cfg : Cfg) (ha : cfg.ansi = true)
    (s : FState) (hb : NoBad s.buffer) :
    ∀ r ∈ (fDictSuggestion (realWorld d layouts sorter) cfg s).1.suggestions,
      NoBad r.text ∧ ∃ t, Riti.bijoy r.text = .ok t := by
  intro r hr
  suffices h : NoBad r.text from ⟨h, bijoy_total h⟩
  have hp := fixedParts_allC (P := fun c => ¬ BadKar c) cfg (fun _ => by decide) hb
  have henv : (realWorld d layouts sorter).env = realEnv d := rfl
  rcases mem_fDict_list (w := realWorld d layouts sorter) hs hr with h | h
  · rw [henv, fixedCands_cands, (C16.ansi_fixed_no_extras (realEnv d) cfg s _ s.typed ha).1, List.append_nil] at h
    obtain ⟨t, hsub, he⟩ := fixedBase_shape (realEnv d) cfg (fixedParts cfg s.buffer)
    rw [he] at h
    simp only [List.mem_cons, List.mem_map] at h
    rcases h with rfl | ⟨r0, hr0, rfl⟩
    · exact wrapOne_allC hp hp.2.1
    · apply wrapOne_allC hp
      obtain ⟨tbl, w, _, hw, _, _, _, rfl⟩ := mem_fixedHits (hsub.subset hr0)
      rw [text_newSuggestion]
      have hwP : NoBad w := hdict tbl w hw
      split
      · intro c hc
        unfold tradKarWord at hc
        obtain ⟨x, hx, hcx⟩ := List.mem_flatMap.1 hc
        split at hcx
        · simp only [List.mem_cons, List.not_mem_nil, or_false] at hcx
          rcases hcx with rfl | rfl
          · decide
          · exact hwP _ hx
        · simp only [List.mem_singleton] at hcx
          subst hcx; exact hwP _ hx
      · exact hwP
  · rw [henv, (C16.ansi_fixed_no_extras (realEnv d) cfg s (fixedParts cfg s.buffer) s.typed ha).2] at h
    cases h

/-- fixed method, suggestions off: reading the composed text back as pre-edit text panics EXACTLY when ANSI is on and
    the composed text contains one of the five code points -/
theorem fixed_lonely_panics_iff (d : Data) (cfg : Cfg) (s : FState) (i : Nat) (e : Panic) :
    (fLonely cfg s).getPreEdit (realEnv d) i = .error e ↔
      (cfg.ansi = true ∧ e = .bijoy ∧ ∃ c ∈ s.buffer, BadKar c) :=
  preedit_single_error_iff d s.buffer cfg.ansi i e

/-! ### instance 2: curly quotes (the remaining side condition of `C17.c17_uncurl_off_partial`) -/

/-- nothing the engine adds by itself is a curly quote -/
theorem charOk_noCurly : CharOk (fun c => c ∉ ['‘', '’', '“', '”']) where
  tbl := by
    intro p hp r hr c hc
    have := okkhorPatterns_noCurly
    simp only [List.all_eq_true] at this
    simpa using this p hp r hr c hc
  low := condLower_not_curly
  join := by decide

/-- with smart quotes OFF no candidate of the real engine contains a curly quote, provided the data files, the user
    auto-correct values and the typed text contain none -/
theorem suggestList_real_noCurly {d : Data} (hd : DataAll (fun c => c ∉ ['‘', '’', '“', '”']) d) (cfg : Cfg)
    {ua : Store} (hua : StoreAll (fun c => c ∉ ['‘', '’', '“', '”']) ua) {cache : Memo}
    (hm : SoundMemo (realEnv d) ua cache) {term : Str} (ht : NoCurly term) :
    ∀ r ∈ suggestList (realEnv d) (C17.off cfg) cache term, NoCurly r.text :=
  suggestList_real_allC charOk_noCurly hd (C17.off cfg) (fun h => by cases h) hua hm ht

/-- **C17 for the real engine, statement of the property** (PARTIAL, same exclusion `RawSame`): the candidate list
    with the option on, curly quotes mapped back to straight ones, IS the list with the option off — all `NoCurly` side
    conditions discharged down to the data files, the user auto-correct values and the typed text -/
theorem c17_uncurl_off_real_partial {d : Data} (hd : DataAll (fun c => c ∉ ['‘', '’', '“', '”']) d) (cfg : Cfg)
    {ua : Store} (hua : StoreAll (fun c => c ∉ ['‘', '’', '“', '”']) ua) {cache : Memo}
    (hm : SoundMemo (realEnv d) ua cache) {term : Str} (ht : NoCurly term)
    (hw : (split term false).word ≠ []) (hraw : C17.RawSame (realEnv d) cfg cache term) :
    (suggestList (realEnv d) (C17.on cfg) cache term).map (uncurl ∘ Rank.text) =
      (suggestList (realEnv d) (C17.off cfg) cache term).map Rank.text :=
  C17.c17_uncurl_off_partial (realEnv d) cfg cache term hw hraw (punct_noCurly_real d term ht).1
    (punct_noCurly_real d term ht).2 (suggestList_real_noCurly hd cfg hua hm ht)

/-! ### instance 3: a character class that separates text from emoji (C07 `EmojiFresh`, C18 `EnglishNotEmoji`)

`C07.c07_nodup_partial` (no candidate text twice) and `C18.emoji_transparent_partial` (deleting the emoji gives the
list computed without emoji tables) carry side conditions that tie the emoji tables to the WHOLE candidate list.  With
the provenance theorem they reduce to the data files: it suffices that some character class `P` contains all text
(dictionary, suffix, auto-correct, user auto-correct, typed characters; what the engine adds itself: `CharOk`) while
every emoji contains a character outside `P`. -/

/-- every emoji of the two tables of the phonetic method contains a character outside `P`; no name lists an emoji twice -/
structure EmojiMarked (P : Char → Prop) (d : Data) : Prop where
  emo : ∀ k v, d.emoticon k = some v → ∃ c ∈ v, ¬ P c
  emoName : ∀ k l, d.emojiByName k = some l → l.Nodup ∧ ∀ s ∈ l, ∃ c ∈ s, ¬ P c

/-- **the `EmojiFresh` side condition of C07 for the real engine**, from the data files -/
theorem emojiFresh_real {P : Char → Prop} (hP : CharOk P) {d : Data} (hd : TextAll P d) (hmk : EmojiMarked P d)
    (cfg : Cfg) (hq : cfg.smartQuote = true → P '‘' ∧ P '’' ∧ P '“' ∧ P '”') {ua : Store} (hua : StoreAll P ua)
    {cache : Memo} (hm : SoundMemo (realEnv d) ua cache) {term : Str} (ht : AllC P term) :
    C07.EmojiFresh (realEnv d) cfg term (preparedParts (realEnv d) cfg term)
      (dictList (realEnv d) cache (preparedParts (realEnv d) cfg term)) := by
  intro _
  have hD := dictList_real_allC hP hd hua hm (preparedParts_real_allC hP d cfg hq ht)
  refine ⟨?_, ?_⟩
  · intro e he
    obtain ⟨c, hc, hnc⟩ := hmk.emo _ _ he
    refine ⟨?_, ?_⟩
    · intro hmem
      obtain ⟨x, hx, rfl⟩ := List.mem_map.1 hmem
      exact hnc (hD x hx c hc)
    · intro _ heq
      exact hnc (ht c (heq ▸ hc))
  · intro _ es hes
    obtain ⟨hnd, hall⟩ := hmk.emoName _ _ hes
    refine ⟨hnd, ?_⟩
    intro s hs hmem
    obtain ⟨c, hc, hnc⟩ := hall s hs
    obtain ⟨x, hx, hxe⟩ := List.mem_map.1 hmem
    have hcx : c ∈ x.text := by rw [hxe]; simp [wrapText, hc]
    exact hnc (hD x hx c hcx)

/-- **C07 for the real engine: no candidate text occurs twice** — the `EmojiFresh` proviso is discharged -/
theorem c07_nodup_real {P : Char → Prop} (hP : CharOk P) {d : Data} (hd : TextAll P d) (hmk : EmojiMarked P d)
    (cfg : Cfg) (hq : cfg.smartQuote = true → P '‘' ∧ P '’' ∧ P '“' ∧ P '”') {ua : Store} (hua : StoreAll P ua)
    {cache : Memo} (hm : SoundMemo (realEnv d) ua cache) {term : Str} (ht : AllC P term) :
    ((suggestList (realEnv d) cfg cache term).map Rank.text).Nodup :=
  C07.c07_nodup_partial (realEnv d) cfg cache term (emojiFresh_real hP hd hmk cfg hq hua hm ht)

/-- **the `EnglishNotEmoji` side condition of C18 for the real engine**: typed text never equals a (wrapped) emoji -/
theorem englishNotEmoji_real {P : Char → Prop} {d : Data} (hmk : EmojiMarked P d) (cfg : Cfg) {term : Str}
    (ht : AllC P term) : C18.EnglishNotEmoji (realEnv d) cfg term := by
  intro _ es hes hmem
  obtain ⟨s, hs, hst⟩ := List.mem_map.1 hmem
  obtain ⟨c, hc, hnc⟩ := (hmk.emoName _ _ hes).2 s hs
  apply hnc
  apply ht
  rw [← hst]
  simp [wrapText, hc]

/-- the engine's own memo holds auto-correct (`First`) and dictionary (`Other`) items only -/
theorem memoClean_of_sound_real {d : Data} {ua : Store} {cache : Memo} (hm : SoundMemo (realEnv d) ua cache) :
    MemoClean cache := by
  intro k e he r hr
  rw [(hm k e he).1] at hr
  rcases (mem_computeEntry_real d ua k r).1 hr with ⟨c, _, rfl⟩ | ⟨_, _, c, _, _, _, _, rfl⟩
  · exact Or.inl rfl
  · exact Or.inr rfl

/-- **C18 emoji transparency for the real engine**: when the typed text is no emoticon, deleting the emoji candidates
    gives exactly the list computed with both emoji tables switched off — same items, same order; the memo and
    `EnglishNotEmoji` provisos are discharged -/
theorem emoji_transparent_real {P : Char → Prop} {d : Data} (hmk : EmojiMarked P d) (cfg : Cfg) {ua : Store}
    {cache : Memo} (hm : SoundMemo (realEnv d) ua cache) {term : Str} (ht : AllC P term)
    (he : d.emoticon term = none) :
    (suggestList (realEnv d) cfg cache term).filter (fun r => r.variant != .emoji) =
      suggestList (C18.noEmoji (realEnv d)) cfg cache term :=
  C18.emoji_transparent_partial (realEnv d) cfg cache term (memoClean_of_sound_real hm) he
    (englishNotEmoji_real hmk cfg ht)

/-- a concrete separating class: code points below U+2100 (ASCII, Bengali, ZWJ/ZWNJ, the curly quotes …); the
    engine adds nothing outside it -/
theorem charOk_below2100 : CharOk (fun c => c.toNat < 0x2100) where
  tbl := by
    have h : okkhorPatterns.all (fun p => (p.dflt :: p.rules.map Prod.snd).all (fun r =>
        (natsToChars r).all (fun c => decide (c.toNat < 0x2100)))) = true := by decide +kernel
    intro p hp r hr c hc
    simpa using List.all_eq_true.1 (List.all_eq_true.1 (List.all_eq_true.1 h p hp) r hr) c hc
  low := by
    intro c hc
    rcases condLower_cases c with h | h
    · rw [h]; exact hc
    · omega
  join := by decide

/-- NUL-freedom of the data files in terms of `DataAll` -/
theorem dataNoNul_of_all {d : Data} (h : DataAll (fun c => c ≠ '\x00') d)
    (hbn : ∀ k l, d.emojiBengali k = some l → ∀ s ∈ l, NoNul s) : DataNoNul d :=
  ⟨fun t s hs hm => h.text.dict t s hs _ hm rfl, fun k v hv hm => h.text.sfx k v hv _ hm rfl,
   fun k v hv hm => h.text.ac k v hv _ hm rfl, fun k v hv hm => h.emo k v hv _ hm rfl,
   fun k l hl s hs hm => h.emoName k l hl s hs _ hm rfl, hbn⟩

/-! ## 10. non-vacuity: a tiny data set, run end to end through the real components -/

/-- table `aa` (words in আ) of the tiny dictionary -/
def wordsA : List Str := ["আমি".toList, "আম".toList, "আমার".toList]
/-- table `e` of the tiny dictionary -/
def wordsE : List Str := ["এমি".toList]

/-- two dictionary tables, one suffix, one auto-correction, one emoticon, one emoji name -/
def tiny : Data :=
  { dictionary := fun t => if t == "aa" then wordsA else if t == "e" then wordsE else []
    suffix := fun k => if k == "ke".toList then some "কে".toList else none
    autocorrect := fun k => if k == "amr".toList then some "amar".toList else none
    emoticon := fun k => if k == ":)".toList then some "😊".toList else none
    emojiByName := fun k => if k == "ami".toList then some ["🙋".toList] else none
    emojiBengali := fun _ => none }

/-- every text of the tiny data set -/
def tinyEntries : List Str := wordsA ++ wordsE ++ ["কে".toList, "amar".toList, "😊".toList, "🙋".toList]

/-- a character predicate holds of the tiny data set as soon as it holds of its nine texts -/
theorem tiny_dataAll {P : Char → Prop} (h : ∀ s ∈ tinyEntries, AllC P s) : DataAll P tiny where
  text := {
    dict := by
      intro t s hs
      simp only [tiny] at hs
      split at hs
      · exact h s (by simp [tinyEntries, hs])
      · split at hs
        · exact h s (by simp [tinyEntries, hs])
        · cases hs
    sfx := by
      intro k v hv
      simp only [tiny] at hv
      split at hv
      · cases hv; exact h _ (by simp [tinyEntries])
      · cases hv
    ac := by
      intro k v hv
      simp only [tiny] at hv
      split at hv
      · cases hv; exact h _ (by simp [tinyEntries])
      · cases hv }
  emo := by
    intro k v hv
    simp only [tiny] at hv
    split at hv
    · cases hv; exact h _ (by simp [tinyEntries])
    · cases hv
  emoName := by
    intro k l hl s hs
    simp only [tiny] at hl
    split at hl
    · cases hl
      simp only [List.mem_singleton] at hs
      subst hs
      exact h _ (by simp [tinyEntries])
    · cases hl

/-- the data hypotheses of `no_nul_real`, `phonetic_preedit_total` / `ansi_fixed_candidates_noBad` and
    `c17_uncurl_off_real_partial` are satisfiable: the tiny data set is free of U+0000, of the five code points and of
    curly quotes -/
theorem tiny_noNul : DataNoNul tiny :=
  dataNoNul_of_all (tiny_dataAll (by decide +kernel)) (by intro k l h; cases h)
theorem tiny_noBad : TextAll (fun c => ¬ BadKar c) tiny := (tiny_dataAll (by decide +kernel)).text
theorem tiny_noCurly : DataAll (fun c => c ∉ ['‘', '’', '“', '”']) tiny := tiny_dataAll (by decide +kernel)

/-- the hypotheses of `c07_nodup_real` / `emoji_transparent_real` are satisfiable: in the tiny data set every text
    character lies below U+2100 and both emoji above -/
theorem tiny_text_below : TextAll (fun c => c.toNat < 0x2100) tiny where
  dict := by
    intro t s hs
    simp only [tiny] at hs
    split at hs
    · revert s; decide +kernel
    · split at hs
      · revert s; decide +kernel
      · cases hs
  sfx := by
    intro k v hv
    simp only [tiny] at hv
    split at hv
    · cases hv; decide +kernel
    · cases hv
  ac := by
    intro k v hv
    simp only [tiny] at hv
    split at hv
    · cases hv; decide +kernel
    · cases hv

theorem tiny_emojiMarked : EmojiMarked (fun c => c.toNat < 0x2100) tiny where
  emo := by
    intro k v hv
    simp only [tiny] at hv
    split at hv
    · cases hv; decide +kernel
    · cases hv
  emoName := by
    intro k l hl
    simp only [tiny] at hl
    split at hl
    · cases hl; decide +kernel
    · cases hl

/-- `c07_nodup_real` applied: the list for `ami` (dictionary hits, an emoji, English item on) has no duplicate -/
example : ((suggestList (realEnv tiny) { includeEnglish := true }
    (memoFill (realEnv tiny) [] [] (word "ami".toList)) "ami".toList).map Rank.text).Nodup :=
  c07_nodup_real charOk_below2100 tiny_text_below tiny_emojiMarked _ (fun _ => by decide) (ua := [])
    (by intro k v h; cases h) (memoFill_sound _ _ _ _ (soundMemo_nil _ _) (word_idem _)) (by decide +kernel)

/-- … and it is the four-item list: dictionary hit (= the transliteration), emoji, second hit, raw English text -/
example : (suggestList (realEnv tiny) { includeEnglish := true }
    (memoFill (realEnv tiny) [] [] (word "ami".toList)) "ami".toList).map Rank.text =
    ["আমি", "🙋", "এমি", "ami"].map String.toList := by decide +kernel

/-- the tiny world: real environment over the tiny data, no layout files, the stable sort -/
def tinyWorld : World := realWorld tiny (fun _ => none) sortStable

/-- what the API returns for a sequence of key presses in a fresh phonetic context (`none` = a panic) -/
def tinyOuts (cfg : Cfg) (keys : List Nat) : Option (List Out) :=
  match Ctx.new tinyWorld {} cfg "avro_phonetic" with
  | none => none
  | some c =>
    match runFrom tinyWorld c {} (keys.map (fun k => Event.key k 0 0)) with
    | .ok (_, _, os) => some os
    | .error _ => none

/-- a list suggestion from readable strings -/
def full (aux : String) (l : List String) (sel : Nat) (ansi : Bool) : Out :=
  .sugg (.full aux.toList (l.map String.toList) sel ansi)

/-- END TO END, keys `a` `m` `i`, suggestions on: transliterator, regex generator + reader + matcher over the tables
    selected by `a` (a, aa, e, oi, o, nya, y) and the emoji-name table all run inside the kernel.  `am`: the dictionary
    word `আম` coincides with the transliteration (one candidate).  `ami`: `আমি` (dictionary word = transliteration),
    the emoji named `ami`, and `এমি` from table `e` (edit distance 1 → rank 10); `আম` and `আমার` are rejected by the
    expression -/
example : tinyOuts { phoneticSuggestion := true } [41110, 41122, 41118] =
    some [full "a" ["আ"] 0 false, full "am" ["আম"] 0 false, full "ami" ["আমি", "🙋", "এমি"] 0 false] := by
  decide +kernel

/-- the candidate list itself, with its rank classes (memo filled for `ami` as `suggest` does) -/
example : suggestList (realEnv tiny) {} (memoFill (realEnv tiny) [] [] "ami".toList) "ami".toList =
    [Rank.other "আমি".toList 0, Rank.emoji "🙋".toList 1, Rank.other "এমি".toList 10] := by decide +kernel

/-- END TO END, suffix joining: `amike` = `ami` + known suffix `ke`; both dictionary hits of `ami` are offered in
    joined form (the memo entry of `ami` was made on the way) -/
example : (tinyOuts { phoneticSuggestion := true } [41110, 41122, 41118, 41120, 41114]).map (fun l => l.drop 3) =
    some [full "amik" ["আমিক"] 0 false, full "amike" ["আমিকে", "এমিকে"] 0 false] := by decide +kernel

/-- END TO END, auto-correct: `amr` ↦ `amar`, shown transliterated before the plain transliteration `আম্র` -/
example : (tinyOuts { phoneticSuggestion := true } [41110, 41122, 41127]).map (fun l => l.drop 2) =
    some [full "amr" ["আমার", "আম্র"] 0 false] := by decide +kernel

/-- END TO END, emoticon (`emoticon_offered_real`): keys `:` `)` — the emoji, the literal text, the transliteration -/
example : tinyOuts { phoneticSuggestion := true } [99, 68] =
    some [full ":" ["ঃ"] 0 false, full ":)" ["😊", ":)", "ঃ)"] 0 false] := by decide +kernel

/-- END TO END, suggestions off: the single string is the Avro transliteration (C03) -/
example : tinyOuts {} [41110, 41122, 41118] =
    some [.sugg (.single "আ".toList false), .sugg (.single "আম".toList false), .sugg (.single "আমি".toList false)] := by
  decide +kernel

/-- END TO END under ANSI through the real encoder: no emoji item, and the pre-edit texts of the two candidates of
    `ami` are their Bijoy encodings `Avwg`, `Gwg` (no Bengali code point: `preedit_no_bengali_real`) -/
example :
    let sg : Sugg := .full "ami".toList ["আমি".toList, "এমি".toList] 0 true
    (tinyOuts { phoneticSuggestion := true, ansi := true } [41110, 41122, 41118]).map (fun l => l.drop 2) =
      some [.sugg sg] ∧
    sg.getPreEdit (realEnv tiny) 0 = .ok "Avwg".toList ∧ sg.getPreEdit (realEnv tiny) 1 = .ok "Gwg".toList ∧
    sg.getPreEdit (realEnv tiny) 2 = .error .indexOutOfRange := by decide +kernel

/-- the panic of `preedit_full_error_iff` is real: a candidate with U+09C4 (vocalic RR sign) under ANSI -/
example : (Sugg.full [] [[Char.ofNat 0x0995, Char.ofNat 0x09C4]] 0 true).getPreEdit (realEnv tiny) 0 = .error .bijoy ∧
    (Sugg.full [] [[Char.ofNat 0x0995, Char.ofNat 0x09C4]] 0 false).getPreEdit (realEnv tiny) 0 =
      .ok [Char.ofNat 0x0995, Char.ofNat 0x09C4] := by decide +kernel

/-- non-vacuity of `c08_sound_real` / `dict_word_offered_real`: `আমি` is a justified candidate for `ami` through the
    dictionary clause — table `aa` is among those selected by the first letter `a` and the word is in the language of the generated
    expression — while `আম` is in the table but NOT in the language -/
example : Justified tiny [] "ami".toList "আমি".toList ∧
    ∃ r, parseAnchored (rxString "ami".toList) = some r ∧ "আম".toList ∈ tiny.dictionary "aa" ∧ ¬ Lang r "আম".toList := by
  obtain ⟨r, hr, h1, h2⟩ := lang_sample (o := parseAnchored (rxString "ami".toList)) (s := "আমি".toList)
    (t := "আম".toList) (by decide +kernel)
  exact ⟨Or.inr ⟨r, "aa", hr, by decide +kernel, by decide +kernel, h1⟩, r, hr, by decide +kernel, h2⟩

/-- … and through the auto-correct clause: `আমার` for `amr` -/
example : Justified tiny [] "amr".toList "আমার".toList :=
  Or.inl ⟨"amar".toList, Or.inr ⟨rfl, by decide +kernel⟩, by decide +kernel⟩

/-- the memo hypothesis (`SoundMemo`) of the C08 / ANSI / C17 theorems holds of the memo the engine builds -/
example : SoundMemo (realEnv tiny) [] (memoFill (realEnv tiny) [] [] (word "ami".toList)) :=
  memoFill_sound _ _ _ _ (soundMemo_nil _ _) (word_idem _)

/-- `phonetic_preedit_total` applied: for the composition `ami` every candidate index of the ANSI list can be read -/
example (i : Nat) (hi : ∀ aux l sel a,
      (pCreateSuggestion (realEnv tiny) { phoneticSuggestion := true, ansi := true } { buffer := "ami".toList }).2 =
        .full aux l sel a → i < l.length) :
    ∃ t, (pCreateSuggestion (realEnv tiny) { phoneticSuggestion := true, ansi := true }
      { buffer := "ami".toList }).2.getPreEdit (realEnv tiny) i = .ok t :=
  phonetic_preedit_total tiny_noBad _ _ (by intro k v h; cases h) (soundMemo_nil _ _)
    (by show ∀ c ∈ "ami".toList, c.toNat < 128; decide +kernel) i hi

/-- `no_nul_real` applied to the tiny world: whatever sequence of C-interface calls is made -/
example {hp' : Heap} {fs' : FS} {ops : List FfiOp} {os : List FfiOut}
    (hr : ffiRun tinyWorld Heap.empty {} ops = .ok (hp', fs', os)) :
    ∀ h s, alookup hp'.strings h = some s → NoNul s ∧ cView s = s :=
  (no_nul_real tiny_noNul (by intro p l h; cases h) sortStable_perm (by intro t st h; cases h) hr).1

/-- the exclusion of `c17_uncurl_real_partial` is needed for the real engine (finding, cf. `C17.c17_lists_fails_okkhor`):
    typed `"\"` with the English item on — one candidate with the option off, two with it on -/
example :
    let cfg : Cfg := { includeEnglish := true }
    let term : Str := ['"', '\\', '"']
    NoCurly term ∧ (split term false).word ≠ [] ∧
    suggestList (realEnv tiny) (C17.on cfg) [] term = [Rank.last ['“', '\\', '”'] 2, Rank.last ['"', '\\', '"'] 3] ∧
    suggestList (realEnv tiny) (C17.off cfg) [] term = [Rank.last ['"', '\\', '"'] 2] ∧
    ¬ C17.RawSame (realEnv tiny) cfg [] term := by decide +kernel

/-- non-vacuity of `c17_uncurl_off_real_partial`: typed `"ami"`, the hypotheses hold and the lists differ in the quotes -/
example :
    let cfg : Cfg := {}
    let term : Str := "\"ami\"".toList
    let cache := memoFill (realEnv tiny) [] [] (word term)
    NoCurly term ∧ (split term false).word ≠ [] ∧ C17.RawSame (realEnv tiny) cfg cache term ∧
    (suggestList (realEnv tiny) (C17.on cfg) cache term).map Rank.text = ["“আমি”", "“🙋”", "“এমি”"].map String.toList ∧
    (suggestList (realEnv tiny) (C17.off cfg) cache term).map Rank.text =
      ["\"আমি\"", "\"🙋\"", "\"এমি\""].map String.toList := by decide +kernel

/-- `ansi_fixed_candidates_noBad` applied to the tiny world with the order-by-key sorter: whatever is being composed,
    as long as the composed text is free of the five code points, every candidate's pre-edit text can be read -/
example (s : FState) (hb : NoBad s.buffer) :
    ∀ r ∈ (fDictSuggestion (realWorld tiny (fun _ => none) keySort) { fixedSuggestion := true, ansi := true } s).1.suggestions,
      ∃ t, Riti.bijoy r.text = .ok t :=
  fun r hr => (ansi_fixed_candidates_noBad tiny_noBad.dict _ isSortPerm_keySort _ rfl s hb r hr).2

/-- `pKey_preedit_total` applied: a fresh context over any user files without an auto-correct list, any key -/
example (fs : FS) (hfs : fs.ac = none) (cfg : Cfg) (key sel i : Nat)
    (hi : ∀ aux l sel' a, (pKey (realEnv tiny) cfg (pNew fs) key sel).2 = .full aux l sel' a → i < l.length) :
    ∃ t, (pKey (realEnv tiny) cfg (pNew fs) key sel).2.getPreEdit (realEnv tiny) i = .ok t :=
  pKey_preedit_total tiny_noBad (C05.Reach.new cfg fs)
    (by intro k v h; simp [pNew, hfs, alookup] at h) key sel i hi

/-- type `"ami"`, commit candidate 2, type `"ami"` again: (texts offered, first preselection, store after the commit,
    same list offered again?, second preselection) -/
def driftRun (cfg : Cfg) : (List Str × Nat) × (Store × Bool × Nat) :=
  let s₁ := (pCreateSuggestion (realEnv tiny) cfg { buffer := "\"ami\"".toList }).1
  let s₂ := C09.okState (pCommit cfg s₁ 2)
  let s₃ := (pCreateSuggestion (realEnv tiny) cfg { s₂ with buffer := "\"ami\"".toList }).1
  ((s₁.suggestions.map Rank.text, s₁.prevSelection), (s₂.selections, s₃.suggestions == s₁.suggestions, s₃.prevSelection))

/-- C09's `StripStable` proviso speaks about the committed candidate, not about `Env`, and it cannot be discharged
    for the real engine: the KNOWN FINDING `C09.curly_value_not_recalled` (smart-quote / learning drift) reproduced with
    the real components.  Smart quotes on, typed `"ami"`, the user commits the third candidate `“এমি”`: the stored
    value keeps the curly quotes, so typing `"ami"` again preselects index 0 although the very same list is offered.
    With smart quotes off the same scenario recalls index 2 (`C09.c09_recall_same_candidate` applies) -/
example :
    driftRun { phoneticSuggestion := true } =
      ((["“আমি”", "“🙋”", "“এমি”"].map String.toList, 0), ([("ami".toList, "“এমি”".toList)], true, 0)) ∧
    driftRun { phoneticSuggestion := true, smartQuote := false } =
      ((["\"আমি\"", "\"🙋\"", "\"এমি\""].map String.toList, 0), ([("ami".toList, "এমি".toList)], true, 2)) ∧
    (split (wrapText ['“'] ['”'] "এমি".toList) true).word ≠ "এমি".toList ∧
    (split (wrapText ['"'] ['"'] "এমি".toList) true).word = "এমি".toList := by decide +kernel

end Riti.Real
