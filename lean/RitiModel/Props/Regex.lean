/-
Props/Regex — the dictionary look-up of the phonetic method (`Model/Regex`):
the matcher decides exactly membership in the textbook language of the expression, the reader returns a bracketing of
exactly the text it was given, and `dictSearch` offers a word iff it is in one of the tables selected by the first typed
letter and in the language of the expression generated from the typed word.
That the look-up answers for EVERY typed word (the reader is total on generated expressions) is `Props/RegexTotal`.
-/
import RitiModel.Model.Regex
import RitiModel.Lemmas.Regex
namespace Riti.Regex
open Riti Riti.Gen

/-! ### 1. the matcher against the denotational semantics -/

/-- the continuation-passing matcher: `m r s k` holds iff `s` splits into a word of the language of `r` and a rest that
    the continuation accepts — for every expression, string and continuation -/
theorem m_spec (r : Rx) : ∀ (s : List Char) (k : List Char → Bool),
    r.m s k = true ↔ ∃ s1 s2, s = s1 ++ s2 ∧ Lang r s1 ∧ k s2 = true := by
  induction r with
  | eps =>
    intro s k; simp only [Rx.m, lang_eps_iff]
    exact ⟨fun h => ⟨[], s, rfl, rfl, h⟩, fun ⟨s1, s2, h, h1, h2⟩ => by subst h1; simpa [h] using h2⟩
  | chr c =>
    intro s k
    cases s with
    | nil =>
      simp only [Rx.m, lang_chr_iff]
      exact ⟨fun h => by simp at h, fun ⟨s1, s2, h, h1, _⟩ => by subst h1; simp at h⟩
    | cons x t =>
      simp only [Rx.m, lang_chr_iff, Bool.and_eq_true, beq_iff_eq]
      constructor
      · rintro ⟨rfl, hk⟩; exact ⟨[x], t, rfl, rfl, hk⟩
      · rintro ⟨s1, s2, h, rfl, hk⟩
        simp at h; obtain ⟨rfl, rfl⟩ := h; exact ⟨rfl, hk⟩
  | cls cs =>
    intro s k
    cases s with
    | nil =>
      simp only [Rx.m, lang_cls_iff]
      exact ⟨fun h => by simp at h, fun ⟨s1, s2, h, ⟨x, _, h1⟩, _⟩ => by subst h1; simp at h⟩
    | cons x t =>
      simp only [Rx.m, lang_cls_iff, Bool.and_eq_true, List.contains_iff_mem]
      constructor
      · rintro ⟨hx, hk⟩; exact ⟨[x], t, rfl, ⟨x, hx, rfl⟩, hk⟩
      · rintro ⟨s1, s2, h, ⟨y, hy, rfl⟩, hk⟩
        simp at h; obtain ⟨rfl, rfl⟩ := h; exact ⟨hy, hk⟩
  | cat a b iha ihb =>
    intro s k
    simp only [Rx.m, lang_cat_iff]
    rw [iha]
    constructor
    · rintro ⟨s1, s2, rfl, ha, hb⟩
      obtain ⟨t1, t2, rfl, hb1, hk⟩ := (ihb _ _).1 hb
      exact ⟨s1 ++ t1, t2, by simp, ⟨s1, t1, rfl, ha, hb1⟩, hk⟩
    · rintro ⟨_, t2, rfl, ⟨s1, t1, rfl, ha, hb1⟩, hk⟩
      exact ⟨s1, t1 ++ t2, by simp, ha, (ihb _ _).2 ⟨t1, t2, rfl, hb1, hk⟩⟩
  | alt a b iha ihb =>
    intro s k
    simp only [Rx.m, Bool.or_eq_true, lang_alt_iff, iha, ihb]
    constructor
    · rintro (⟨s1, s2, h, hl, hk⟩ | ⟨s1, s2, h, hl, hk⟩)
      · exact ⟨s1, s2, h, .inl hl, hk⟩
      · exact ⟨s1, s2, h, .inr hl, hk⟩
    · rintro ⟨s1, s2, h, hl | hl, hk⟩
      · exact .inl ⟨s1, s2, h, hl, hk⟩
      · exact .inr ⟨s1, s2, h, hl, hk⟩
  | opt a iha =>
    intro s k
    simp only [Rx.m, Bool.or_eq_true, lang_opt_iff, iha]
    constructor
    · rintro (⟨s1, s2, h, hl, hk⟩ | hk)
      · exact ⟨s1, s2, h, .inr hl, hk⟩
      · exact ⟨[], s, rfl, .inl rfl, hk⟩
    · rintro ⟨s1, s2, h, rfl | hl, hk⟩
      · exact .inr (by simpa [h] using hk)
      · exact .inl ⟨s1, s2, h, hl, hk⟩
  | grp a iha =>
    intro s k
    simp only [Rx.m, lang_grp_iff, iha]

/-- `Regex::is_match` on an anchored expression, as modelled, decides exactly membership in the language: for EVERY
    expression and EVERY string, with no bound on either -/
theorem matches_iff (r : Rx) (s : List Char) : r.matches s = true ↔ Lang r s := by
  unfold Rx.matches
  rw [m_spec]
  constructor
  · rintro ⟨s1, s2, rfl, hl, hk⟩
    have : s2 = [] := by simpa using hk
    subst this; simpa using hl
  · intro h; exact ⟨s, [], by simp, h, rfl⟩

/-- a string that is not in the language is rejected -/
theorem matches_false_iff (r : Rx) (s : List Char) : r.matches s = false ↔ ¬ Lang r s := by
  rw [← matches_iff]; simp

/-- membership in the language of an expression is decidable — by running the matcher -/
instance (r : Rx) (s : List Char) : Decidable (Lang r s) := decidable_of_iff _ (matches_iff r s)

/-! ### 2. length bounds -/

/-- every word of the language of `r` has between `r.minLen` and `r.maxLen` characters: the languages are finite and a
    typed word of `n` patterns can only ever select dictionary words of bounded length -/
theorem lang_length {r : Rx} {s : List Char} (h : Lang r s) : r.minLen ≤ s.length ∧ s.length ≤ r.maxLen := by
  induction h with
  | eps => simp [Rx.minLen, Rx.maxLen]
  | chr c => simp [Rx.minLen, Rx.maxLen]
  | cls _ => simp [Rx.minLen, Rx.maxLen]
  | cat _ _ iha ihb => simp only [Rx.minLen, Rx.maxLen, List.length_append]; omega
  | altL _ ih => simp only [Rx.minLen, Rx.maxLen]; omega
  | altR _ ih => simp only [Rx.minLen, Rx.maxLen]; omega
  | optNone => simp [Rx.minLen]
  | optSome _ ih => simp only [Rx.minLen, Rx.maxLen]; omega
  | grp _ ih => simpa only [Rx.minLen, Rx.maxLen] using ih

/-- whatever the matcher accepts has a length between the two bounds of the expression -/
theorem matches_length {r : Rx} {s : List Char} (h : r.matches s = true) :
    r.minLen ≤ s.length ∧ s.length ≤ r.maxLen := lang_length ((matches_iff r s).1 h)

/-- a string longer than `maxLen` (or shorter than `minLen`) is never matched -/
theorem matches_false_of_length {r : Rx} {s : List Char} (h : s.length < r.minLen ∨ r.maxLen < s.length) :
    r.matches s = false := by
  cases hm : r.matches s with
  | false => rfl
  | true => have := matches_length hm; omega

/-! ### 3. the reader is faithful to the text -/

/-- the three mutually recursive readers return an expression whose text, followed by what they left unread, is exactly
    the text they were given: no character dropped, invented or reordered -/
theorem parse_render_all (f : Nat) :
    (∀ s r rest, parseAlt f s = some (r, rest) → r.render ++ rest = s) ∧
    (∀ s r rest, parseCat f s = some (r, rest) → r.render ++ rest = s) ∧
    (∀ s r rest, parseAtom f s = some (r, rest) → r.render ++ rest = s) := by
  induction f with
  | zero => simp [parseAlt, parseCat, parseAtom]
  | succ f ih =>
    obtain ⟨ihAlt, ihCat, ihAtom⟩ := ih
    refine ⟨?_, ?_, ?_⟩
    · intro s r rest h
      rw [parseAlt] at h
      cases h1 : parseCat f s with
      | none => simp [h1] at h
      | some p =>
        obtain ⟨a, rest1⟩ := p
        have e1 := ihCat _ _ _ h1
        simp only [h1] at h
        cases rest1 with
        | nil => simp at h; obtain ⟨rfl, rfl⟩ := h; exact e1
        | cons c t =>
          simp only at h
          split at h
          · rename_i hc; subst hc
            cases h2 : parseAlt f t with
            | none => simp [h2] at h
            | some q =>
              obtain ⟨b, r'⟩ := q
              have e2 := ihAlt _ _ _ h2
              simp [h2] at h; obtain ⟨rfl, rfl⟩ := h
              rw [← e1, ← e2]; simp [Rx.render]
          · simp at h; obtain ⟨rfl, rfl⟩ := h; exact e1
    · intro s r rest h
      cases s with
      | nil => rw [parseCat] at h; simp at h; obtain ⟨rfl, rfl⟩ := h; simp [Rx.render]
      | cons c t =>
        rw [parseCat] at h
        split at h
        · simp at h; obtain ⟨rfl, rfl⟩ := h; simp [Rx.render]
        · cases h1 : parseAtom f (c :: t) with
          | none => simp [h1] at h
          | some p =>
            obtain ⟨a, r1⟩ := p
            have e1 := ihAtom _ _ _ h1
            simp only [h1] at h
            cases h2 : parseCat f (applyOpts a r1).2 with
            | none => simp [h2] at h
            | some q =>
              obtain ⟨b, r''⟩ := q
              have e2 := ihCat _ _ _ h2
              simp [h2] at h; obtain ⟨rfl, rfl⟩ := h
              have e3 := applyOpts_render r1 a
              simp only [Rx.render, List.append_assoc]
              rw [e2, e3, e1]
    · intro s r rest h
      cases s with
      | nil => rw [parseAtom] at h; simp at h
      | cons c t =>
        rw [parseAtom] at h
        split at h
        · rename_i hc; subst hc
          cases h1 : parseAlt f t with
          | none => simp [h1] at h
          | some p =>
            obtain ⟨a, r1⟩ := p
            have e1 := ihAlt _ _ _ h1
            cases r1 with
            | nil => simp [h1] at h
            | cons d r' =>
              simp only [h1] at h
              split at h
              · rename_i hd; subst hd
                simp at h; obtain ⟨rfl, rfl⟩ := h
                rw [← e1]; simp [Rx.render]
              · simp at h
        · split at h
          · rename_i hc; subst hc
            cases h1 : parseClass t [] with
            | none => simp [h1] at h
            | some p =>
              obtain ⟨cs, r'⟩ := p
              have e1 := parseClass_spec _ _ _ _ h1
              simp [h1] at h; obtain ⟨rfl, rfl⟩ := h
              simpa [Rx.render] using e1
          · split at h
            · simp at h
            · simp at h; obtain ⟨rfl, rfl⟩ := h; simp [Rx.render]

/-- `parseAlt` (alternations): the text of the result followed by the unread rest is the input -/
theorem parse_render {f : Nat} {s rest : List Char} {r : Rx} (h : parseAlt f s = some (r, rest)) :
    r.render ++ rest = s := (parse_render_all f).1 s r rest h

/-- `parseCat` (concatenations): the text of the result followed by the unread rest is the input -/
theorem parseCat_render {f : Nat} {s rest : List Char} {r : Rx} (h : parseCat f s = some (r, rest)) :
    r.render ++ rest = s := (parse_render_all f).2.1 s r rest h

/-- `parseAtom` (group, set or literal): the text of the result followed by the unread rest is the input -/
theorem parseAtom_render {f : Nat} {s rest : List Char} {r : Rx} (h : parseAtom f s = some (r, rest)) :
    r.render ++ rest = s := (parse_render_all f).2.2 s r rest h

/-- a whole expression that the reader accepts is, character for character, the text of the AST it returns -/
theorem parseRx_render {s : List Char} {r : Rx} (h : parseRx s = some r) : r.render = s := by
  unfold parseRx at h
  split at h
  · rename_i r' heq
    simp at h; subst h
    simpa using parse_render heq
  · simp at h

/-- an anchored expression that the reader accepts is `^`, the text of the AST, `$` -/
theorem parseAnchored_render {s : List Char} {r : Rx} (h : parseAnchored s = some r) :
    s = '^' :: r.render ++ ['$'] := by
  unfold parseAnchored at h
  cases s with
  | nil => simp at h
  | cons c t =>
    simp only at h
    split at h
    · rename_i hc; subst hc
      split at h
      · rename_i hl
        have := parseRx_render h
        rw [this]
        obtain ⟨ys, rfl⟩ := List.getLast?_eq_some_iff.1 hl
        simp
      · simp at h
    · simp at h

/-- rendering is injective on what the reader returns: two accepted texts with the same AST are the same text -/
theorem parseRx_inj {s t : List Char} {r : Rx} (hs : parseRx s = some r) (ht : parseRx t = some r) : s = t := by
  rw [← parseRx_render hs, ← parseRx_render ht]

/-! ### 4. the look-up -/

/-- the look-up fails (in the model) only when the generated expression is outside the syntax read here -/
theorem dictSearch_none_iff (dict : String → List (List Char)) (w : List Char) :
    dictSearch dict w = none ↔ parseAnchored (rxString w) = none := by
  unfold dictSearch; cases parseAnchored (rxString w) <;> simp

/-- the look-up is a filter: the words of the selected tables, in table order then file order, multiplicities kept,
    restricted to those the expression generated from the typed word matches; and that expression is a bracketing of
    exactly the generated text -/
theorem dictSearch_eq_filter {dict : String → List (List Char)} {w : List Char} {ws : List (List Char)}
    (h : dictSearch dict w = some ws) :
    ∃ r, parseAnchored (rxString w) = some r ∧ rxString w = '^' :: r.render ++ ['$'] ∧
      ws = ((tablesFor phoneticTables w).flatMap dict).filter r.matches := by
  unfold dictSearch at h
  cases hp : parseAnchored (rxString w) with
  | none => simp [hp] at h
  | some r =>
    simp only [hp, Option.some.injEq] at h
    exact ⟨r, rfl, parseAnchored_render hp, h.symm⟩

/-- THE LOOK-UP SPECIFICATION.  Whenever the look-up answers, there is an expression `r`, read from the text generated
    for the typed word, such that
    * (sound and complete) a candidate is offered iff it is a word of one of the tables selected by the first typed
      letter and belongs to the language of `r`;
    * the candidates come in table order then file order, nothing duplicated or reordered;
    * every candidate has a length between `r.minLen` and `r.maxLen`. -/
theorem dictSearch_spec {dict : String → List (List Char)} {w : List Char} {ws : List (List Char)}
    (h : dictSearch dict w = some ws) :
    ∃ r, parseAnchored (rxString w) = some r ∧
      (∀ c, c ∈ ws ↔ (∃ t ∈ tablesFor phoneticTables w, c ∈ dict t) ∧ Lang r c) ∧
      ws.Sublist ((tablesFor phoneticTables w).flatMap dict) ∧
      (∀ c ∈ ws, r.minLen ≤ c.length ∧ c.length ≤ r.maxLen) := by
  obtain ⟨r, hp, _, rfl⟩ := dictSearch_eq_filter h
  refine ⟨r, hp, ?_, List.filter_sublist, ?_⟩
  · intro c
    simp only [List.mem_filter, List.mem_flatMap, matches_iff]
  · intro c hc
    exact matches_length (List.mem_filter.1 hc).2

/-- completeness on its own: a dictionary word of a selected table that is in the language IS offered -/
theorem dictSearch_complete {dict : String → List (List Char)} {w : List Char} {ws : List (List Char)} {r : Rx}
    (h : dictSearch dict w = some ws) (hr : parseAnchored (rxString w) = some r)
    {t : String} (ht : t ∈ tablesFor phoneticTables w) {c : List Char} (hc : c ∈ dict t) (hl : Lang r c) : c ∈ ws := by
  obtain ⟨r', hp, hspec, _⟩ := dictSearch_spec h
  have : r' = r := by rw [hp] at hr; exact Option.some.inj hr
  subst this
  exact (hspec c).2 ⟨⟨t, ht, hc⟩, hl⟩

/-- only the first typed character selects the tables -/
theorem tablesFor_cons (tbl : List (String × List String)) (c : Char) (t : List Char) :
    tablesFor tbl (c :: t) = tablesFor tbl [c] := rfl

/-- every key of the regenerated table is one lower-case ASCII letter -/
theorem phoneticTables_keys :
    phoneticTables.all (fun r => match r.1.toList with | [k] => 'a' ≤ k && k ≤ 'z' | _ => false) = true := by decide

/-- the 26 keys are the 26 letters, each once, in alphabetical order -/
theorem phoneticTables_keys_eq :
    phoneticTables.map (fun r => r.1.toList) = (List.range 26).map (fun i => [Char.ofNat (97 + i)]) := by decide

/-- the empty word, and every word whose first character is not one of the 26 lower-case ASCII letters (an UPPER-case
    letter, a digit, a Bengali letter, …), selects no table at all -/
theorem tablesFor_nil_of_nonletter (w : List Char)
    (h : w = [] ∨ ∃ c t, w = c :: t ∧ ¬ ('a' ≤ c ∧ c ≤ 'z')) : tablesFor phoneticTables w = [] := by
  rcases h with rfl | ⟨c, t, rfl, hc⟩
  · rfl
  · have hn : phoneticTables.find? (fun r => r.1 == String.singleton c) = none := by
      rw [List.find?_eq_none]
      intro x hx hxc
      have hk := List.all_eq_true.1 phoneticTables_keys x hx
      have : x.1 = String.singleton c := by simpa using hxc
      rw [this, String.toList_singleton] at hk
      simp only [Bool.and_eq_true, decide_eq_true_eq] at hk
      exact hc hk
    unfold tablesFor firstByte
    by_cases h128 : c.toNat < 128 <;> simp [h128, hn]

/-- a word that does not start with a lower-case ASCII letter gets nothing from the dictionary -/
theorem dictSearch_nonletter (dict : String → List (List Char)) (w : List Char)
    (h : w = [] ∨ ∃ c t, w = c :: t ∧ ¬ ('a' ≤ c ∧ c ≤ 'z')) :
    dictSearch dict w = some [] ∨ dictSearch dict w = none := by
  unfold dictSearch
  rw [tablesFor_nil_of_nonletter w h]
  cases parseAnchored (rxString w) <;> simp

/-- in particular a word typed with a leading capital (`Sesh`, `Ami`) gets nothing from the dictionary: the table is
    selected with the raw first byte although the expression is generated from the lower-cased word -/
theorem dictSearch_upper (dict : String → List (List Char)) (c : Char) (t : List Char) (h : 'A' ≤ c ∧ c ≤ 'Z') :
    dictSearch dict (c :: t) = some [] ∨ dictSearch dict (c :: t) = none := by
  refine dictSearch_nonletter dict _ (.inr ⟨c, t, rfl, ?_⟩)
  intro h2
  have h1 : c.toNat ≤ 90 := h.2
  have h3 : 97 ≤ c.toNat := h2.1
  omega

/-- a word starting with a digit gets nothing from the dictionary either -/
theorem dictSearch_digit (dict : String → List (List Char)) (c : Char) (t : List Char) (h : isAsciiDigit c = true) :
    dictSearch dict (c :: t) = some [] ∨ dictSearch dict (c :: t) = none := by
  refine dictSearch_nonletter dict _ (.inr ⟨c, t, rfl, ?_⟩)
  intro h2
  simp only [isAsciiDigit, Bool.and_eq_true, decide_eq_true_eq] at h
  have h1 : c.toNat ≤ 57 := h.2
  have h3 : 97 ≤ c.toNat := h2.1
  omega

/-- conversely each of the 26 lower-case letters does select at least one table -/
theorem tablesFor_letter (c : Char) (t : List Char) (h : 'a' ≤ c ∧ c ≤ 'z') :
    tablesFor phoneticTables (c :: t) ≠ [] := by
  have key : ∀ n : Fin 26, tablesFor phoneticTables [Char.ofNat (97 + n.val)] ≠ [] := by decide +kernel
  have h1 : 97 ≤ c.toNat := h.1
  have h2 : c.toNat ≤ 122 := h.2
  have := key ⟨c.toNat - 97, by omega⟩
  rw [tablesFor_cons]
  have e : 97 + (c.toNat - 97) = c.toNat := by omega
  simpa [e] using this

/-! ### 5. samples (kernel-checked; non-vacuity of the hypotheses above) -/

/-- the generated expressions of a few typed words are inside the syntax read by the model
    (`Sesh`: lower-cased first; `a1`: a digit pattern; `k.k!`: ASCII punctuation removed → `kk`; `a b`: a raw space) -/
example : (parseAnchored (rxString "ami".toList)).isSome = true := by decide +kernel
example : (parseAnchored (rxString "k".toList)).isSome = true := by decide +kernel
example : (parseAnchored (rxString "Sesh".toList)).isSome = true := by decide +kernel
example : (parseAnchored (rxString "a1".toList)).isSome = true := by decide +kernel
example : (parseAnchored (rxString "a b".toList)).isSome = true := by decide +kernel
example : (parseAnchored (rxString "bissoy".toList)).isSome = true := by decide +kernel
example : (parseAnchored (rxString [])).isSome = true := by decide +kernel
example : rxString "k.k!".toList = "^(ক্?ক?)(্[যবম])?(্?)([ঃঁ]?)$".toList := by decide +kernel
example : rxString "ক".toList = "^ক$".toList := by decide +kernel

/-- the bounds are not trivial: `ami` selects only words of 3 to 19 code points -/
example : (parseAnchored (rxString "ami".toList)).map (fun r => (r.minLen, r.maxLen)) = some (3, 19) := by
  decide +kernel

/-- the reader rejects what is outside the fragment instead of guessing -/
example : parseRx "a*".toList = none := by decide +kernel
example : parseRx "[a-z]".toList = none := by decide +kernel
example : parseRx "(a".toList = none := by decide +kernel
example : parseRx "a)".toList = none := by decide +kernel
example : parseRx "(a|[bc])?d".toList =
    some (.cat (.opt (.grp (.alt (.cat (.chr 'a') .eps) (.cat (.cls ['b', 'c']) .eps)))) (.cat (.chr 'd') .eps)) := by
  decide +kernel

/-- a tiny dictionary: five tables, the others empty -/
def tinyDict (t : String) : List (List Char) :=
  if t == "a" then ["আমি".toList, "আম".toList, "অমি".toList, "আমি".toList] else
  if t == "e" then ["এমি".toList, "এমু".toList] else
  if t == "k" then ["ক".toList, "কা".toList, "ক্য".toList] else
  if t == "kh" then ["খ".toList, "ক্ষ".toList] else
  if t == "s" then ["শেষ".toList, "সেশ".toList] else []

/-- `ami`: tables a, aa, e, oi, o, nya, y; `আম` (too short), `অমি` (wrong vowel) and `এমু` are rejected, the duplicate is
    kept, table order is kept -/
example : dictSearch tinyDict "ami".toList = some ["আমি".toList, "আমি".toList, "এমি".toList] := by decide +kernel
/-- `k`: tables k, kh; `কা`, `খ`, `ক্ষ` rejected, `ক্য` accepted through the `EXTRA` suffix -/
example : dictSearch tinyDict "k".toList = some ["ক".toList, "ক্য".toList] := by decide +kernel
/-- `sesh` finds both spellings, `Sesh` (capital first letter) finds nothing: `dictSearch_upper` -/
example : dictSearch tinyDict "sesh".toList = some ["শেষ".toList, "সেশ".toList] := by decide +kernel
example : dictSearch tinyDict "Sesh".toList = some [] := by decide +kernel
/-- `a1`: the expression is fine but no dictionary word matches `…(১|(1)|(এক))…` -/
example : dictSearch tinyDict "a1".toList = some [] := by decide +kernel
/-- a leading digit selects no table -/
example : tablesFor phoneticTables "1a".toList = [] := by decide +kernel
example : tablesFor phoneticTables "ami".toList = ["a", "aa", "e", "oi", "o", "nya", "y"] := by decide +kernel

/-- reading a kernel-evaluated sample as a statement about `Lang` -/
theorem lang_sample {o : Option Rx} {s t : List Char}
    (h : o.any (fun r => r.matches s && !r.matches t) = true) : ∃ r, o = some r ∧ Lang r s ∧ ¬ Lang r t := by
  cases o with
  | none => simp at h
  | some r =>
    simp only [Option.any_some, Bool.and_eq_true, Bool.not_eq_true'] at h
    exact ⟨r, rfl, (matches_iff r s).1 h.1, (matches_false_iff r t).1 h.2⟩

/-- `Lang` itself on a concrete Bengali word: `আমি` is in the language of the expression generated for `ami`, `আম` is
    not (through `matches_iff`: the matcher is a decision procedure for `Lang`) -/
example : ∃ r, parseAnchored (rxString "ami".toList) = some r ∧ Lang r "আমি".toList ∧ ¬ Lang r "আম".toList :=
  lang_sample (by decide +kernel)

/-- `Lang` by hand, without the matcher: `ক্য` ∈ L(`ক(্[যবম])?`) -/
example : Lang (.cat (.chr 'ক') (.opt (.grp (.cat (.chr '্') (.cls ['য', 'ব', 'ম']))))) ['ক', '্', 'য'] :=
  .cat (s := ['ক']) (t := ['্', 'য']) (.chr _) (.optSome (.grp (.cat (s := ['্']) (t := ['য']) (.chr _) (.cls (by decide)))))

/-- the hypotheses of `dictSearch_spec` are satisfiable with a non-empty answer -/
example : ∃ ws, dictSearch tinyDict "ami".toList = some ws ∧ ws ≠ [] :=
  ⟨["আমি".toList, "আমি".toList, "এমি".toList], by decide +kernel, by simp⟩

end Riti.Regex
