/-
Props/RegexFast — the position-set matcher `Rx.matchesFast` (what the trace validator runs on long words) is the same
function as the backtracking matcher `Rx.matches`, hence decides exactly the language `Lang` of the expression, and
`dictSearchFast = dictSearch`: every theorem of `Props/Regex` and `Props/RegexTotal` applies to what the validator computes.
-/
import RitiModel.Model.Regex
import RitiModel.Lemmas.RegexFast
import RitiModel.Props.Regex
namespace Riti.Regex
open Riti Riti.Gen

/-! ### 1. the bit set of the positions where a predicate holds -/

/-- bit `i` of `posMask p s off` is set iff `i = off + j` for a position `j` of `s` whose character satisfies `p` -/
theorem posMask_testBit (p : Char → Bool) (s : List Char) (off i : Nat) :
    (posMask p s off).testBit i = true ↔ ∃ j, i = off + j ∧ ∃ x, s[j]? = some x ∧ p x = true := by
  rw [posMask_testBit_aux]
  exact ⟨fun ⟨j, x, h1, h2, h3⟩ => ⟨j, h1, x, h2, h3⟩, fun ⟨j, h1, x, h2, h3⟩ => ⟨j, x, h1, h2, h3⟩⟩

/-- the same with an index proof: `j < s.length ∧ p s[j]` -/
theorem posMask_testBit' (p : Char → Bool) (s : List Char) (off i : Nat) :
    (posMask p s off).testBit i = true ↔ ∃ j, i = off + j ∧ ∃ h : j < s.length, p s[j] = true := by
  rw [posMask_testBit]
  constructor
  · rintro ⟨j, h1, x, h2, h3⟩
    obtain ⟨hj, rfl⟩ := List.getElem?_eq_some_iff.1 h2
    exact ⟨j, h1, hj, h3⟩
  · rintro ⟨j, h1, hj, h3⟩
    exact ⟨j, h1, s[j], List.getElem?_eq_getElem hj, h3⟩

/-- no bit beyond the string -/
theorem posMask_bound {p : Char → Bool} {s : List Char} {off i : Nat} (h : (posMask p s off).testBit i = true) :
    i < off + s.length := by
  obtain ⟨j, rfl, hj, _⟩ := (posMask_testBit' p s off i).1 h
  omega

/-! ### 2. the position-set algorithm -/

/-- a set of positions of `s` (bit set) -/
def Within (s : List Char) (S : Nat) : Prop := ∀ j, S.testBit j = true → j ≤ s.length

/-- `i` is reachable from `S` through `r`: a word of the language of `r` lies between a position of `S` and `i` -/
def Reach (s : List Char) (r : Rx) (S : Nat) (i : Nat) : Prop :=
  ∃ j, S.testBit j = true ∧ j ≤ i ∧ i ≤ s.length ∧ Lang r (seg s j i)

theorem reach_zero {s : List Char} {r : Rx} {i : Nat} : ¬ Reach s r 0 i := by
  rintro ⟨j, h, _⟩; simp at h

private theorem zero_case {s : List Char} {r : Rx} {i : Nat} :
    (Nat.testBit 0 i = true) ↔ Reach s r 0 i := by
  simp only [Nat.zero_testBit, Bool.false_eq_true, false_iff]; exact reach_zero

/-- one character: shift of the positions of `S` whose character satisfies `p` -/
private theorem step_spec {s : List Char} {S i : Nat} (p : Char → Bool) :
    ((S &&& posMask p s 0) <<< 1).testBit i = true ↔
      ∃ j, S.testBit j = true ∧ i = j + 1 ∧ ∃ x, s[j]? = some x ∧ p x = true := by
  rw [Nat.testBit_shiftLeft, Bool.and_eq_true, Nat.testBit_and, Bool.and_eq_true, posMask_testBit]
  constructor
  · rintro ⟨h1, h2, j, hj, x, hx, hp⟩
    have h1 : i ≥ 1 := by simpa using h1
    have : j = i - 1 := by omega
    subst this
    exact ⟨i - 1, h2, by omega, x, hx, hp⟩
  · rintro ⟨j, hS, rfl, x, hx, hp⟩
    refine ⟨by simp, by simpa using hS, j, by omega, x, hx, hp⟩

/-- THE INVARIANT of the position-set algorithm: started from a set `S` of positions of `s`, `r.ends s S` is exactly the
    set of positions `i` such that a word of the language of `r` lies between some position `j ∈ S` and `i` -/
theorem ends_reach (s : List Char) (r : Rx) : ∀ (S : Nat), Within s S →
    ∀ i, (r.ends s S).testBit i = true ↔ Reach s r S i := by
  induction r with
  | eps =>
    intro S hS i
    simp only [Rx.ends, Reach, lang_eps_iff]
    constructor
    · intro h; exact ⟨i, h, Nat.le_refl _, hS i h, (seg_eq_nil_iff (Nat.le_refl _) (hS i h)).2 rfl⟩
    · rintro ⟨j, h, h1, h2, h3⟩
      rw [(seg_eq_nil_iff h1 h2).1 h3]; exact h
  | chr c =>
    intro S hS i
    rw [Rx.ends]
    split
    · rename_i h0; subst h0; exact zero_case
    · rw [step_spec]
      simp only [Reach, lang_chr_iff]
      constructor
      · rintro ⟨j, h, rfl, x, hx, hp⟩
        have hj := (List.getElem?_eq_some_iff.1 hx).1
        have : x = c := by simpa using hp
        subst this
        exact ⟨j, h, by omega, by omega, (seg_eq_singleton_iff (by omega) (by omega)).2 ⟨rfl, hx⟩⟩
      · rintro ⟨j, h, h1, h2, h3⟩
        obtain ⟨rfl, hx⟩ := (seg_eq_singleton_iff h1 h2).1 h3
        exact ⟨j, h, rfl, c, hx, by simp⟩
  | cls cs =>
    intro S hS i
    rw [Rx.ends]
    split
    · rename_i h0; subst h0; exact zero_case
    · rw [step_spec]
      simp only [Reach, lang_cls_iff]
      constructor
      · rintro ⟨j, h, rfl, x, hx, hp⟩
        have hj := (List.getElem?_eq_some_iff.1 hx).1
        exact ⟨j, h, by omega, by omega, x, by simpa using hp,
          (seg_eq_singleton_iff (by omega) (by omega)).2 ⟨rfl, hx⟩⟩
      · rintro ⟨j, h, h1, h2, x, hxm, h3⟩
        obtain ⟨rfl, hx⟩ := (seg_eq_singleton_iff h1 h2).1 h3
        exact ⟨j, h, rfl, x, hx, by simpa using hxm⟩
  | cat a b iha ihb =>
    intro S hS i
    rw [Rx.ends]
    split
    · rename_i h0; subst h0; exact zero_case
    · have hT : Within s (a.ends s S) := fun k hk => by
        obtain ⟨_, _, _, h, _⟩ := (iha S hS k).1 hk; exact h
      rw [ihb _ hT]
      simp only [Reach, lang_cat_iff]
      constructor
      · rintro ⟨k, hk, hki, hi, hb⟩
        obtain ⟨j, hj, hjk, _, ha⟩ := (iha S hS k).1 hk
        exact ⟨j, hj, by omega, hi, seg s j k, seg s k i, (seg_append hjk hki).symm, ha, hb⟩
      · rintro ⟨j, hj, hji, hi, s1, s2, hs, ha, hb⟩
        obtain ⟨hk, e1, e2⟩ := seg_split hji hi hs
        refine ⟨j + s1.length, ?_, hk, hi, e2 ▸ hb⟩
        exact (iha S hS _).2 ⟨j, hj, by omega, by omega, e1 ▸ ha⟩
  | alt a b iha ihb =>
    intro S hS i
    rw [Rx.ends]
    split
    · rename_i h0; subst h0; exact zero_case
    · rw [Nat.testBit_or, Bool.or_eq_true, iha S hS, ihb S hS]
      simp only [Reach, lang_alt_iff]
      constructor
      · rintro (⟨j, h, h1, h2, h3⟩ | ⟨j, h, h1, h2, h3⟩)
        · exact ⟨j, h, h1, h2, .inl h3⟩
        · exact ⟨j, h, h1, h2, .inr h3⟩
      · rintro ⟨j, h, h1, h2, h3 | h3⟩
        · exact .inl ⟨j, h, h1, h2, h3⟩
        · exact .inr ⟨j, h, h1, h2, h3⟩
  | opt a iha =>
    intro S hS i
    rw [Rx.ends]
    split
    · rename_i h0; subst h0; exact zero_case
    · rw [Nat.testBit_or, Bool.or_eq_true, iha S hS]
      simp only [Reach, lang_opt_iff]
      constructor
      · rintro (h | ⟨j, h, h1, h2, h3⟩)
        · exact ⟨i, h, Nat.le_refl _, hS i h, .inl ((seg_eq_nil_iff (Nat.le_refl _) (hS i h)).2 rfl)⟩
        · exact ⟨j, h, h1, h2, .inr h3⟩
      · rintro ⟨j, h, h1, h2, h3 | h3⟩
        · rw [(seg_eq_nil_iff h1 h2).1 h3]; exact .inl h
        · exact .inr ⟨j, h, h1, h2, h3⟩
  | grp a iha =>
    intro S hS i
    rw [Rx.ends, iha S hS]
    simp only [Reach, lang_grp_iff]

/-- `ends_reach` spelled out: for a set `S` of positions of `s`, bit `i` of `r.ends s S` is set iff some `j ∈ S`, `j ≤ i ≤
    |s|`, has the characters from `j` to `i` in the language of `r` -/
theorem ends_spec (s : List Char) (r : Rx) (S : Nat) (hS : ∀ j, S.testBit j = true → j ≤ s.length) (i : Nat) :
    (r.ends s S).testBit i = true ↔
      ∃ j, S.testBit j = true ∧ j ≤ i ∧ i ≤ s.length ∧ Lang r ((s.drop j).take (i - j)) :=
  ends_reach s r S hS i

/-- the side condition is preserved: the algorithm never produces a position beyond the end of the string -/
theorem ends_within (s : List Char) (r : Rx) (S : Nat) (hS : Within s S) : Within s (r.ends s S) := fun i hi => by
  obtain ⟨_, _, _, h, _⟩ := (ends_reach s r S hS i).1 hi; exact h

/-- the short-circuit: nothing is reachable from the empty set -/
theorem ends_zero (s : List Char) (r : Rx) : r.ends s 0 = 0 := by
  induction r with
  | eps => rfl
  | chr c => simp [Rx.ends]
  | cls cs => simp [Rx.ends]
  | cat a b _ _ => simp [Rx.ends]
  | alt a b _ _ => simp [Rx.ends]
  | opt a _ => simp [Rx.ends]
  | grp a ih => simpa [Rx.ends] using ih

/-- the side condition is needed: a stray bit beyond the end of the string survives `eps` (and `opt`), although no
    segment ends there -/
example : (Rx.eps.ends ['a'] (1 <<< 5)).testBit 5 = true ∧
    ¬ ∃ j, (1 <<< 5).testBit j = true ∧ j ≤ 5 ∧ 5 ≤ ['a'].length ∧ Lang .eps ((['a'].drop j).take (5 - j)) := by
  refine ⟨by decide, ?_⟩
  rintro ⟨j, _, _, h, _⟩
  simp at h

/-! ### 3. the two matchers are the same function -/

/-- the position-set matcher decides exactly membership in the language, for every expression and string -/
theorem matchesFast_iff (r : Rx) (s : List Char) : r.matchesFast s = true ↔ Lang r s := by
  unfold Rx.matchesFast
  have hS : Within s 1 := fun j hj => by
    rw [Nat.testBit_one_eq_true_iff_self_eq_zero.1 hj]; exact Nat.zero_le _
  rw [ends_reach s r 1 hS]
  constructor
  · rintro ⟨j, hj, _, _, hl⟩
    rw [Nat.testBit_one_eq_true_iff_self_eq_zero.1 hj, seg_zero_length] at hl
    exact hl
  · intro hl
    exact ⟨0, by decide, Nat.zero_le _, Nat.le_refl _, by rw [seg_zero_length]; exact hl⟩

/-- the matcher the trace validator runs on long words IS the proved matcher -/
theorem matchesFast_eq_matches (r : Rx) (s : List Char) : r.matchesFast s = r.matches s := by
  rw [Bool.eq_iff_iff, matchesFast_iff, matches_iff]

/-- … as functions -/
theorem matchesFast_eq : Rx.matchesFast = Rx.matches := by
  funext r s; exact matchesFast_eq_matches r s

/-- the look-up with the position-set matcher is the look-up: `dictSearch_spec`, `dictSearch_total`, … all apply to it -/
theorem dictSearchFast_eq (dict : String → List (List Char)) (w : List Char) :
    dictSearchFast dict w = dictSearch dict w := by
  unfold dictSearchFast dictSearch
  rw [matchesFast_eq]

/-- whatever the fast matcher accepts has a length between the bounds of the expression -/
theorem matchesFast_length {r : Rx} {s : List Char} (h : r.matchesFast s = true) :
    r.minLen ≤ s.length ∧ s.length ≤ r.maxLen := lang_length ((matchesFast_iff r s).1 h)

/-! ### 4. samples (kernel-checked) -/

/-- the bits of a mask: positions 0 and 2 of `aba`, shifted by 3 -/
example : posMask (· == 'a') ['a', 'b', 'a'] 3 = 0b101000 := by decide
/-- `(a|ab)(c|bcd)?d?` on `abcd`: from position 0 the ends are 1, 2 (first group), then 1, 2, 3 (`c`), 4 (`bcd`), then `d` -/
example : (Rx.cat (.alt (.chr 'a') (.cat (.chr 'a') (.chr 'b'))) (.opt (.alt (.chr 'c') (.cat (.chr 'b') (.cat (.chr 'c') (.chr 'd')))))).ends
    ['a', 'b', 'c', 'd'] 1 = 0b11110 := by decide
/-- `আমি` is accepted and `আম` rejected by the fast matcher on the expression generated for `ami` -/
example : (parseAnchored (rxString "ami".toList)).any
    (fun r => r.matchesFast "আমি".toList && !r.matchesFast "আম".toList) = true := by decide +kernel
/-- the look-up through the fast matcher on the tiny dictionary of `Props/Regex` -/
example : dictSearchFast tinyDict "ami".toList = some ["আমি".toList, "আমি".toList, "এমি".toList] := by decide +kernel
/-- fifty `o`s (the word that takes the backtracking matcher minutes): the fast matcher answers in the kernel -/
example : (parseAnchored (rxString (List.replicate 50 'o'))).any
    (fun r => r.matchesFast (List.replicate 25 'ও') && !r.matchesFast ['ক']) = true := by decide +kernel

end Riti.Regex
