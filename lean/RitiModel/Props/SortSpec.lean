/-
Props/SortSpec — the modelling step "Rust's `slice::sort` = the model's insertion sort" is sound.

`slice::sort` is only *specified*: the result is a rearrangement of the input, ascending for the
comparator, and stable (items that compare `Equal` keep their input order) — provided the
comparator is a total order on the items; otherwise the order is unspecified or the call panics.
The model (`sortStable`, Model/Rank.lean) is one particular algorithm.  Here:

 * `IsStableSortOf l l'` is the specification;
 * `sortStable_isStableSortOf`: the model meets it when `Rank.cmp` is transitive on the list
   (`CmpTransOn l`, implied by the C07 hypothesis `RanksSeparated l`);
 * `stable_sort_unique`, `any_stable_sort_eq_model`: the specification has at most one solution and
   it is the model's list — for EVERY list (only reflexivity/antisymmetry of `Rank.cmp` are used);
   so merge sort, driftsort, … all return exactly `sortStable l`;
 * `any_sort_eq_model_up_to_ties`: an unstable sort (`sort_unstable`, fixed method) agrees with the
   model position by position up to ties;
 * `no_stable_sort_without_transitivity`: on a list where `Rank.cmp` is not transitive the
   specification can have NO solution — the hypothesis of the existence theorem is needed.
-/
import RitiModel.Model.Rank
import RitiModel.Lemmas.Rank
import RitiModel.Lemmas.Sort
import RitiModel.Lemmas.SortSpec
import RitiModel.Props.C07
namespace Riti.SortSpec
open Riti Riti.Gen Riti.C07

/-! ## 1. the specification of a stable sort -/

/-- ascending for `impl Ord for Rank`: no item is `Greater` than a later one -/
def Sorted (l : List Rank) : Prop := l.Pairwise (fun a b => a.cmp b ≠ .gt)

/-- stable: for every item `x` of the input, the items that compare `Equal` to `x` stand in the
    output in their input order.  (`x` ranges over the ITEMS OF THE LIST: that is what "equal
    elements keep their order" means for `slice::sort`; see `StableWrtAll` for why not all `x`.) -/
def StableWrt (l l' : List Rank) : Prop :=
  ∀ x ∈ l, l'.filter (fun y => y.cmp x == .eq) = l.filter (fun y => y.cmp x == .eq)

/-- the same with `x` ranging over ALL ranks, also ones that are not in the list.  Too strong: a
    foreign `x` can be `Equal` to two items that are not `Equal` to each other
    (`stableWrtAll_too_strong`). -/
def StableWrtAll (l l' : List Rank) : Prop :=
  ∀ x, l'.filter (fun y => y.cmp x == .eq) = l.filter (fun y => y.cmp x == .eq)

/-- `l'` is a stable sort of `l`: a rearrangement, ascending, ties in input order — the documented
    contract of Rust's `slice::sort` -/
structure IsStableSortOf (l l' : List Rank) : Prop where
  perm : l'.Perm l
  sorted : Sorted l'
  stable : StableWrt l l'

instance (l : List Rank) : Decidable (Sorted l) := by unfold Sorted; infer_instance
instance (l l' : List Rank) : Decidable (StableWrt l l') := by unfold StableWrt; infer_instance
instance (l l' : List Rank) : Decidable (IsStableSortOf l l') :=
  decidable_of_iff (l'.Perm l ∧ Sorted l' ∧ StableWrt l l')
    ⟨fun h => ⟨h.1, h.2.1, h.2.2⟩, fun h => ⟨h.perm, h.sorted, h.stable⟩⟩

/-- the all-`x` form implies the members-only form -/
theorem StableWrtAll.stableWrt {l l' : List Rank} (h : StableWrtAll l l') : StableWrt l l' :=
  fun x _ => h x

/-- the all-`x` form of stability is NOT what a sort guarantees: `[Emoji 4, Other 3]` is separated
    (a total order on its two items), every sort must return `[Other 3, Emoji 4]`, but the foreign
    `x = Emoji 3` is `Equal` to both items and would forbid swapping them.  So no list at all is a
    rearrangement, ascending and `StableWrtAll` — the reason `StableWrt` quantifies over members. -/
theorem stableWrtAll_too_strong :
    let l := [Rank.emoji ['a'] 4, Rank.other ['b'] 3]
    RanksSeparated l ∧ ¬ StableWrtAll l (sortStable l) ∧
      ∀ l', l'.Perm l → Sorted l' → ¬ StableWrtAll l l' := by
  refine ⟨sortStable_stable_needs_separation.1, ?_, ?_⟩
  · intro h
    exact absurd (h (.emoji [] 3)) (by decide)
  · intro l' hp hs h
    have h3 := h (.emoji [] 3)
    have hall : l'.filter (fun y => y.cmp (.emoji [] 3) == .eq) = l' := by
      apply List.filter_eq_self.mpr
      intro y hy
      have := hp.subset hy
      simp only [List.mem_cons, List.not_mem_nil, or_false] at this
      rcases this with rfl | rfl <;> decide
    rw [hall] at h3
    subst h3
    revert hs
    decide

/-! ## 2. existence: the model's sort meets the specification -/

/-- the model's sort meets the contract of `slice::sort` whenever the comparator is transitive on
    the items of the list — the exact hypothesis needed (`CmpTransOn l`: the other `Ord` laws hold
    for all ranks) -/
theorem sortStable_isStableSortOf_of_trans (l : List Rank) (h : CmpTransOn l) :
    IsStableSortOf l (sortStable l) :=
  ⟨sortStable_perm l, sortStable_sorted_of_trans h, fun x hx => sortStable_stable_of_trans h x hx⟩

/-- the model's sort meets the contract of `slice::sort` on every separated list (the hypothesis
    of the C07 theorems; it implies `CmpTransOn l`) -/
theorem sortStable_isStableSortOf (l : List Rank) (h : RanksSeparated l) :
    IsStableSortOf l (sortStable l) :=
  sortStable_isStableSortOf_of_trans l (cmpTransOn_of_separated h)

/-- for a reference item `x` outside the list the tie class keeps its order too, as long as `x`
    does not break the separation (`C07.sortStable_stable`) -/
theorem sortStable_stable_foreign (l : List Rank) (x : Rank) (h : RanksSeparated (x :: l)) :
    (sortStable l).filter (fun y => y.cmp x == .eq) = l.filter (fun y => y.cmp x == .eq) :=
  sortStable_stable x h

/-! ## 3. uniqueness: every stable sort returns the model's list -/

/-- a list has at most one stable sort — whatever algorithm computes it.  No hypothesis on `l`:
    only reflexivity and antisymmetry of `impl Ord for Rank` are used, which hold for all ranks. -/
theorem stable_sort_unique (l l₁ l₂ : List Rank) (h₁ : IsStableSortOf l l₁) (h₂ : IsStableSortOf l l₂) :
    l₁ = l₂ := by
  apply eq_of_perm_sorted_sameClasses l₁ l₂ (h₁.perm.trans h₂.perm.symm) h₁.sorted h₂.sorted
  intro x hx
  have hxl : x ∈ l := h₁.perm.subset hx
  rw [h₁.stable x hxl, h₂.stable x hxl]

/-- ANY implementation of a stable sort (Rust's merge sort / driftsort, …) returns exactly the
    list of the model's insertion sort.  Holds for EVERY list: if the comparator misbehaves on `l`
    the premise may be unsatisfiable (`no_stable_sort_without_transitivity`), but it can never be
    satisfied by a list other than `sortStable l`. -/
theorem any_stable_sort_eq_model_unconditional (l l' : List Rank) (h : IsStableSortOf l l') :
    l' = sortStable l :=
  eq_sortStable_of_sorted_stable l l' h.perm h.sorted h.stable

/-- the form asked for: on a separated list (where `slice::sort` is guaranteed to meet its
    contract) the library's sorted list IS the model's list.  The hypothesis is not used by the
    proof (`any_stable_sort_eq_model_unconditional`); it is what makes the premise attainable
    (`sortStable_isStableSortOf`). -/
theorem any_stable_sort_eq_model (l l' : List Rank) (_h : RanksSeparated l) (hs : IsStableSortOf l l') :
    l' = sortStable l :=
  any_stable_sort_eq_model_unconditional l l' hs

/-- existence and uniqueness together: on a separated list "the stable sort of `l`" is well
    defined and is `sortStable l` -/
theorem isStableSortOf_iff (l l' : List Rank) (h : RanksSeparated l) :
    IsStableSortOf l l' ↔ l' = sortStable l :=
  ⟨any_stable_sort_eq_model_unconditional l l', fun he => he ▸ sortStable_isStableSortOf l h⟩

/-- if a list has a stable sort at all, the model's sort is sorted and stable on it -/
theorem sortStable_isStableSortOf_of_exists (l l' : List Rank) (h : IsStableSortOf l l') :
    IsStableSortOf l (sortStable l) :=
  any_stable_sort_eq_model_unconditional l l' h ▸ h

/-! ## 4. `sort_unstable`: equal to the model up to ties -/

/-- the key that names the tie class of an item of `l`: the number of items of `l` strictly below
    it, i.e. the index at which its class starts in every ascending rearrangement (`Riti.tieRank`).
    On a list with transitive comparator two members have the same key exactly when they compare
    `Equal` (`rankKey_eq_iff`). -/
def rankKey (l : List Rank) (r : Rank) : Nat := tieRank l r

/-- `rankKey` identifies the tie class -/
theorem rankKey_eq_iff {l : List Rank} (h : RanksSeparated l) {a b : Rank} (ha : a ∈ l) (hb : b ∈ l) :
    rankKey l a = rankKey l b ↔ a.cmp b = .eq :=
  tieRank_eq_iff (cmpTransOn_of_separated h) ha hb

/-- an UNSTABLE sort (`sort_unstable`: any ascending rearrangement) agrees with the model up to
    the order inside tie classes: (a) every tie class holds the same items as in the model's list,
    and (b) position by position the two lists carry items of the same tie class
    (`rankKey`).  (a) needs nothing; (b) needs the transitive comparator. -/
theorem any_sort_eq_model_up_to_ties_of_trans (l l' : List Rank) (h : CmpTransOn l)
    (hp : l'.Perm l) (hs : Sorted l') :
    (∀ x, (l'.filter (fun y => y.cmp x == .eq)).Perm ((sortStable l).filter (fun y => y.cmp x == .eq))) ∧
      l'.map (rankKey l) = (sortStable l).map (rankKey l) :=
  ⟨fun _ => (hp.trans (sortStable_perm l).symm).filter _,
    map_tieRank_eq_of_sorted_perm h hp hs (sortStable_perm l) (sortStable_sorted_of_trans h)⟩

/-- `any_sort_eq_model_up_to_ties_of_trans` under the C07 hypothesis -/
theorem any_sort_eq_model_up_to_ties (l l' : List Rank) (h : RanksSeparated l)
    (hp : l'.Perm l) (hs : Sorted l') :
    (∀ x, (l'.filter (fun y => y.cmp x == .eq)).Perm ((sortStable l).filter (fun y => y.cmp x == .eq))) ∧
      l'.map (rankKey l) = (sortStable l).map (rankKey l) :=
  any_sort_eq_model_up_to_ties_of_trans l l' (cmpTransOn_of_separated h) hp hs

/-- index form: the `i`-th item of any ascending rearrangement compares `Equal` to the `i`-th item
    of the model's list — an unstable sort can only differ from the model by permuting ties -/
theorem any_sort_pointwise_tied (l l' : List Rank) (h : RanksSeparated l) (hp : l'.Perm l) (hs : Sorted l')
    (i : Nat) (hi : i < l'.length) (hi' : i < (sortStable l).length) :
    l'[i].cmp (sortStable l)[i] = .eq := by
  have hm := (any_sort_eq_model_up_to_ties l l' h hp hs).2
  have hk : rankKey l l'[i] = rankKey l (sortStable l)[i] := by
    have := congrArg (fun m => m[i]?) hm
    simpa [List.getElem?_map, List.getElem?_eq_getElem hi, List.getElem?_eq_getElem hi'] using this
  exact (rankKey_eq_iff h (hp.subset (List.getElem_mem hi))
    (mem_sortStable.mp (List.getElem_mem hi'))).mp hk

/-- in a list that is pairwise related by a symmetric relation, any two different members are related -/
theorem pairwise_forall_ne {α : Type} {R : α → α → Prop} (hsym : ∀ a b, R a b → R b a) :
    ∀ {l : List α}, l.Pairwise R → ∀ a ∈ l, ∀ b ∈ l, a ≠ b → R a b
  | [], _, _, ha, _, _, _ => by simp at ha
  | z :: zs, h, a, ha, b, hb, hne => by
    rw [List.pairwise_cons] at h
    rcases List.mem_cons.mp ha with rfl | ha'
    · rcases List.mem_cons.mp hb with rfl | hb'
      · exact absurd rfl hne
      · exact h.1 b hb'
    · rcases List.mem_cons.mp hb with rfl | hb'
      · exact hsym _ _ (h.1 a ha')
      · exact pairwise_forall_ne hsym h.2 a ha' b hb' hne

/-- an UNSTABLE sort of a list WITHOUT ties (no two items compare `Equal`) is the model's list:
    there `sort_unstable` and `sort` cannot differ.  No transitivity needed. -/
theorem any_sort_eq_model_of_no_ties (l l' : List Rank)
    (hnt : l.Pairwise (fun a b => a.cmp b ≠ .eq)) (hp : l'.Perm l) (hs : Sorted l') :
    l' = sortStable l := by
  apply eq_sortStable_of_sorted_stable l l' hp hs
  intro x hx
  -- the class of `x` holds only `x`
  have hcls : ∀ y ∈ l.filter (fun y => y.cmp x == .eq), y = x := by
    intro y hy
    obtain ⟨hyl, hyx⟩ := List.mem_filter.mp hy
    apply Classical.byContradiction
    intro hne
    exact pairwise_forall_ne (fun a b h h' => h ((cmp_eq_symm a b).mpr h')) hnt y hyl x hx hne (by simpa using hyx)
  have h1 : l.filter (fun y => y.cmp x == .eq) = List.replicate (l.filter (fun y => y.cmp x == .eq)).length x :=
    List.eq_replicate_iff.mpr ⟨rfl, hcls⟩
  have h2 := hp.filter (fun y => y.cmp x == .eq)
  rw [h1] at h2
  rw [List.perm_replicate.mp h2, ← h1]

/-! ## 5. the hypothesis is needed -/

/-- the known non-transitive triple (`C07.not_preorder_witness`), as a candidate list:
    `Other 10 = Emoji 10 = Emoji 1` but `Other 10 > Emoji 1` -/
def badList : List Rank := [.other ['w'] 10, .emoji ['a'] 10, .emoji ['b'] 1]

/-- on `badList` the comparator is not transitive, the list is not separated, and the contract of
    a stable sort CANNOT be met: the tie class of `Emoji 10` is the whole list, so stability forces
    the output to be the input, which is not ascending.  No list is a stable sort of `badList` —
    Rust's `slice::sort` is outside its specification there (unspecified order or panic); the
    model's sort returns the input unchanged, which is not ascending.  (Two DIFFERENT stable sorts
    of one list are impossible for any list: `stable_sort_unique`.) -/
theorem no_stable_sort_without_transitivity :
    ¬ CmpTransOn badList ∧ ¬ RanksSeparated badList ∧ (∀ l', ¬ IsStableSortOf badList l') ∧
      sortStable badList = badList ∧ ¬ Sorted (sortStable badList) := by
  have ht : ¬ CmpTransOn badList := by
    intro h
    exact absurd (h (.other ['w'] 10) (by decide) (.emoji ['a'] 10) (by decide) (.emoji ['b'] 1) (by decide)
      (by decide) (by decide)) (by decide)
  refine ⟨ht, fun h => ht (cmpTransOn_of_separated h), ?_, by decide, by decide⟩
  intro l' h
  have h3 := h.stable (.emoji ['a'] 10) (by decide)
  have hall : l'.filter (fun y => y.cmp (.emoji ['a'] 10) == .eq) = l' := by
    apply List.filter_eq_self.mpr
    intro y hy
    have := h.perm.subset hy
    simp only [badList, List.mem_cons, List.not_mem_nil, or_false] at this
    rcases this with rfl | rfl | rfl <;> decide
  rw [hall] at h3
  have hs := h.sorted
  rw [h3] at hs
  revert hs
  decide

/-- without transitivity an unstable sort need not agree with the model up to ties: on
    `[Emoji 1, Other 10, Emoji 10]` both the model's list `[Emoji 1, Other 10, Emoji 10]` and
    `[Emoji 10, Emoji 1, Other 10]` are ascending rearrangements, but at position 1 they carry
    `Other 10` and `Emoji 1`, which are not tied -/
theorem up_to_ties_needs_transitivity :
    let l := [Rank.emoji ['b'] 1, .other ['w'] 10, .emoji ['a'] 10]
    let l' := [Rank.emoji ['a'] 10, .emoji ['b'] 1, .other ['w'] 10]
    l'.Perm l ∧ Sorted l' ∧ Sorted (sortStable l) ∧ sortStable l = l ∧
      (l'.zip (sortStable l)).map (fun p => p.1.cmp p.2) = [.eq, .lt, .eq] := by
  decide

/-! ## 6. non-vacuity -/

/-- a candidate list with all four kinds of items, several ties, in scrambled order -/
def demo : List Rank :=
  [.last ['t'] 2, .other ['b'] 10, .emoji ['☺'] 1, .other ['c'] 10, .first ['f'], .other ['a'] 0,
   .emoji ['e'] 2, .last ['x'] 1]

/-- `demo` satisfies the hypothesis of the theorems -/
theorem demo_separated : RanksSeparated demo := by
  apply separated_of_nowrap
  · intro s n hn
    simp [demo] at hn
    rcases hn with ⟨_, rfl⟩ | ⟨_, rfl⟩ | ⟨_, rfl⟩ <;> omega
  · intro s e he
    simp [demo] at he
    rcases he with ⟨_, rfl⟩ | ⟨_, rfl⟩ <;> omega

/-- the model's list for `demo`: auto-correct item, exact match, the two emoji in input order, the
    two distance-10 words in input order, the `Last` items by number -/
example : sortStable demo =
    [.first ['f'], .other ['a'] 0, .emoji ['☺'] 1, .emoji ['e'] 2, .other ['b'] 10, .other ['c'] 10,
     .last ['x'] 1, .last ['t'] 2] := by decide

/-- non-vacuity of `sortStable_isStableSortOf` (by the theorem, and directly by evaluation) -/
example : IsStableSortOf demo (sortStable demo) := sortStable_isStableSortOf demo demo_separated
example : IsStableSortOf demo (sortStable demo) := by decide

/-- non-vacuity of `any_stable_sort_eq_model`: a list written down independently of the model is
    checked to be a stable sort of `demo`, hence it is the model's list -/
example : sortStable demo =
    [.first ['f'], .other ['a'] 0, .emoji ['☺'] 1, .emoji ['e'] 2, .other ['b'] 10, .other ['c'] 10,
     .last ['x'] 1, .last ['t'] 2] :=
  (any_stable_sort_eq_model demo _ demo_separated (by decide)).symm

/-- the specification is not trivially true: the ascending rearrangement with the two ties swapped
    is NOT a stable sort of `demo` -/
example : ¬ IsStableSortOf demo
    [.first ['f'], .other ['a'] 0, .emoji ['e'] 2, .emoji ['☺'] 1, .other ['c'] 10, .other ['b'] 10,
     .last ['x'] 1, .last ['t'] 2] := by decide

/-- non-vacuity of `any_sort_eq_model_up_to_ties`: that rearrangement is a legal `sort_unstable`
    result, differs from the model's list, and has the same tie-class keys at every position -/
example :
    let l' := [Rank.first ['f'], .other ['a'] 0, .emoji ['e'] 2, .emoji ['☺'] 1, .other ['c'] 10,
      .other ['b'] 10, .last ['x'] 1, .last ['t'] 2]
    l'.Perm demo ∧ Sorted l' ∧ l' ≠ sortStable demo ∧
      l'.map (rankKey demo) = [0, 1, 2, 2, 4, 4, 6, 7] ∧
      (sortStable demo).map (rankKey demo) = [0, 1, 2, 2, 4, 4, 6, 7] := by decide

/-- non-vacuity of `any_sort_eq_model_of_no_ties`: a list of all four kinds without ties -/
example : [Rank.last ['t'] 2, .other ['b'] 10, .emoji ['☺'] 1, .first ['f'], .other ['a'] 0].Pairwise
    (fun a b => a.cmp b ≠ .eq) := by decide

end Riti.SortSpec
