/-
Spec/CharSpec — the three linguistic character classes the joining and composition rules speak about, written down by hand
from the Unicode Bengali block (U+0980–U+09FF).  `Tie.char_classes_are_spec` compares them with the sets regenerated from
src/utility.rs on every run: a character that drops out of (or slips into) `is_vowel` / `is_kar` / `is_pure_consonant` in the code
is then a failing theorem, not a silently different table.  Listed in code-point order (the regenerated sets are sorted).
-/
namespace Riti.Spec

/-- vowels: the independent vowels অ–ঔ with ঌ and ৡ, and the ten dependent vowel signs া–ৌ that have an independent form -/
def vowels : List Char := ['অ', 'আ', 'ই', 'ঈ', 'উ', 'ঊ', 'ঋ', 'ঌ', 'এ', 'ঐ', 'ও', 'ঔ', 'া', 'ি', 'ী', 'ু', 'ূ', 'ৃ', 'ে', 'ৈ', 'ো', 'ৌ', 'ৡ']

/-- vowel signs ("kar"): the ten above and ৄ (vocalic RR, no independent form in the block's main range) -/
def signs : List Char := ['া', 'ি', 'ী', 'ু', 'ূ', 'ৃ', 'ৄ', 'ে', 'ৈ', 'ো', 'ৌ']

/-- consonants that can carry a sign or head a conjunct: ক–হ (without the three gaps of the block), ৎ, ড় ঢ় য় -/
def pureConsonants : List Char := ['ক', 'খ', 'গ', 'ঘ', 'ঙ', 'চ', 'ছ', 'জ', 'ঝ', 'ঞ', 'ট', 'ঠ', 'ড', 'ঢ', 'ণ', 'ত', 'থ', 'দ', 'ধ', 'ন', 'প', 'ফ', 'ব', 'ভ', 'ম', 'য', 'র', 'ল', 'শ', 'ষ', 'স', 'হ', 'ৎ', 'ড়', 'ঢ়', 'য়']

end Riti.Spec
