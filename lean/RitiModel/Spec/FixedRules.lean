/-
Spec/FixedRules — the *specification* side of C12: what one key value does to the composed text
of the fixed-layout method when the old vowel-sign order option is off, written from the
documented behaviour as a **declarative priority list** (first rule whose guard holds wins,
otherwise the value is appended).  Hand-maintained; written independently of the shape of
`process_key_value` / `pkvBody`: a rule only looks at

  * the options (`Cfg`),
  * the **last** and the **one-before-last** code point of the text (`lastIs`, `beforeLastIs`),
  * the key's value **as a whole** ("a vowel sign", "a second hasanta", "the AU length mark",
    "zo-fola" are *values*, not first code points).

The text is passed REVERSED (head = right-most code point), as the model keeps it.
The character classes (`isKar`, `isVowel`, `isMark`, `isPureConsonant`, `isLigatureKar`) are the
sets regenerated from the Rust sources (src/utility.rs, src/fixed/chars.rs, `MARKS`); the
sign ↦ independent-vowel table is written out here in literals and proved equal to the model's
(`Riti.karToVowel_eq_spec` in Lemmas/Fixed).

Priority (read off src/fixed/method.rs, the `if … else if …` chain of the sign branch):
R1 ≻ R2 ≻ R3 ≻ R4 ≻ R5; R6 and R7 are about other values (hasanta, length mark), so their
place in the list is immaterial.

OBSERVATION (not claimed either way by the property): the sign U+09C4 `ৄ` is in `is_kar` but has
no independent vowel.  In the positions of R2 and R4 the code matches it against the ten signs,
finds nothing and **silently drops the key**; in all other positions it is appended like any sign.
The rules below say what the code does (`independentOf` gives `none` ⇒ text unchanged).
-/
import RitiModel.Model.Phonetic
namespace Riti.Spec
open Riti

/-- one rule: a name, when it applies, what the (reversed) text becomes -/
structure Rule where
  name : String
  guard : Cfg → Str → Str → Bool
  action : Cfg → Str → Str → Str

/-- the text is non-empty and its last code point satisfies `p` -/
def lastIs (p : Char → Bool) : Str → Bool
  | [] => false
  | c :: _ => p c

/-- the text has at least two code points and the one before the last satisfies `p` -/
def beforeLastIs (p : Char → Bool) : Str → Bool
  | _ :: c :: _ => p c
  | _ => false

/-- plain appending of a value to the reversed text -/
def append (rbuf : Str) (v : Str) : Str := v.reverse ++ rbuf

/-- the last code point removed (nothing to remove from the empty text) -/
def dropLast1 (rbuf : Str) : Str := rbuf.drop 1

/-- the ten vowel signs that have an independent form, with that form -/
def signVowelTable : List (Char × Char) :=
  [('া', 'আ'), ('ি', 'ই'), ('ী', 'ঈ'), ('ু', 'উ'), ('ূ', 'ঊ'),
   ('ৃ', 'ঋ'), ('ে', 'এ'), ('ৈ', 'ঐ'), ('ো', 'ও'), ('ৌ', 'ঔ')]

/-- the independent vowel of a sign; `none` for every other code point — in particular for the
    eleventh member of `is_kar`, U+09C4 `ৄ` (see the OBSERVATION in the header) -/
def independentOf (k : Char) : Option Char :=
  match signVowelTable.find? (fun p => p.1 == k) with
  | some p => some p.2
  | none => none

/-- the key's value is exactly one vowel sign (one of the eleven of `is_kar`): that sign -/
def signOf : Str → Option Char
  | [k] => if isKar k then some k else none
  | _ => none

/-- "at the start, after a vowel or vowel sign, or after punctuation" (`isVowel` holds of the
    independent vowels *and* of the ten signs; punctuation = the characters of `MARKS`) -/
def vowelFormingPosition (rbuf : Str) : Bool :=
  rbuf.isEmpty || lastIs isVowel rbuf || lastIs isMark rbuf

/-- the zo-fola value: hasanta + য -/
def zoFolaValue : Str := ['্', 'য']

/-- R1: zo-fola after a bare র (a র that is not itself the second half of a ro-fola, i.e. not
    preceded by hasanta) gets a joiner in front -/
def r1 : Rule where
  name := "R1 zo-fola after bare ro"
  guard := fun _ rbuf v => v == zoFolaValue && lastIs (· == 'র') rbuf && !beforeLastIs (· == '্') rbuf
  action := fun _ rbuf v => append ('\u200d' :: rbuf) v

/-- R2: automatic vowel forming -/
def r2 : Rule where
  name := "R2 automatic vowel forming"
  guard := fun cfg rbuf v => cfg.fixedVowel && (signOf v).isSome && vowelFormingPosition rbuf
  action := fun _ rbuf v =>
    match (signOf v).bind independentOf with
    | some w => w :: rbuf
    | none => rbuf            -- `ৄ`: dropped (observation)

/-- R3: automatic chandrabindu position: the sign goes before the chandrabindu -/
def r3 : Rule where
  name := "R3 automatic chandrabindu"
  guard := fun cfg rbuf v => cfg.fixedChandra && (signOf v).isSome && lastIs (· == 'ঁ') rbuf
  action := fun _ rbuf v => 'ঁ' :: append (dropLast1 rbuf) v

/-- R4: a sign right after hasanta: the independent vowel replaces the hasanta -/
def r4 : Rule where
  name := "R4 sign after hasanta"
  guard := fun _ rbuf v => (signOf v).isSome && lastIs (· == '্') rbuf
  action := fun _ rbuf v =>
    match (signOf v).bind independentOf with
    | some w => w :: dropLast1 rbuf
    | none => rbuf            -- `ৄ`: dropped, the hasanta stays (observation)

/-- R5: traditional joining: ু ূ ৃ right after a consonant are preceded by a non-joiner -/
def r5 : Rule where
  name := "R5 traditional joining"
  guard := fun cfg rbuf v => cfg.fixedKar && (signOf v).any isLigatureKar && lastIs isPureConsonant rbuf
  action := fun _ rbuf v => append ('\u200c' :: rbuf) v

/-- R6: a second hasanta adds a non-joiner (explicit hasanta) -/
def r6 : Rule where
  name := "R6 hasanta after hasanta"
  guard := fun _ rbuf v => v == ['্'] && lastIs (· == '্') rbuf
  action := fun _ rbuf _ => '\u200c' :: rbuf

/-- R7: the AU length mark after hasanta gives ঔ in place of the hasanta -/
def r7 : Rule where
  name := "R7 length mark after hasanta"
  guard := fun _ rbuf v => v == ['ৗ'] && lastIs (· == '্') rbuf
  action := fun _ rbuf _ => 'ঔ' :: dropLast1 rbuf

/-- the documented rules in priority order -/
def rules : List Rule := [r1, r2, r3, r4, r5, r6, r7]

/-- the first rule whose guard holds, if any -/
def firstRule (rs : List Rule) (cfg : Cfg) (rbuf v : Str) : Option Rule :=
  rs.find? (fun r => r.guard cfg rbuf v)

/-- apply the first rule whose guard holds; otherwise append the value -/
def applyFirst (rs : List Rule) (cfg : Cfg) (rbuf v : Str) : Str :=
  match firstRule rs cfg rbuf v with
  | some r => r.action cfg rbuf v
  | none => append rbuf v

/-! Sanity facts tying the literals above to the regenerated constants and classes. -/

example : zoFolaValue = [cHasanta, cZ] := by decide
example : ('র', '্', 'ঁ', 'ৗ', 'ঔ', '\u200d', '\u200c') = (cR, cHasanta, cChandra, cLengthMark, cOU, cZWJ, cZWNJ) := by decide
/-- the eleven signs: the ten of the table and `ৄ` -/
example : (Gen.karSet.all fun k => ((signVowelTable.map (·.1.toNat)) ++ ['ৄ'.toNat]).contains k) = true ∧
    (((signVowelTable.map (·.1.toNat)) ++ ['ৄ'.toNat]).all fun k => Gen.karSet.contains k) = true ∧ Gen.karSet.length = 11 := by decide
/-- the independent vowels are `isVowel`, and so are the ten signs -/
example : signVowelTable.all (fun p => isVowel p.1 && isVowel p.2) = true := by decide
example : isVowel 'ৄ' = false ∧ isKar 'ৄ' = true ∧ independentOf 'ৄ' = none := by decide
example : Gen.ligatureKarSet = ['ু', 'ূ', 'ৃ'].map Char.toNat := by decide
/-- chandrabindu, hasanta and the two joiners are neither vowel, punctuation nor consonant -/
example : ['ঁ', '্', '\u200d', '\u200c'].all (fun c => !isVowel c && !isMark c && !isPureConsonant c) = true := by decide

end Riti.Spec
