/-
Tie — the literal constants that the hand-written model hard-codes, compared with what the
translator reads from the Rust sources on every run.  A change of one of these literals in the
code (a rank number, a length guard, a joining character, the truncation length …) breaks a
theorem here even before the correspondence runs.
-/
import RitiModel.Gen.LogicConsts
import RitiModel.Gen.PanicSites
import RitiModel.Gen.CharClasses
import RitiModel.Model.Context
import RitiModel.Spec.CharSpec
namespace Riti.Tie
open Riti Riti.Gen

/-- `Last` rank numbers: emoticon literal 1, English 3, transliteration 2 (Model/Phonetic `emojiStage`,
    `addExtras`, `dictList`) -/
theorem last_rank_numbers : lastRankNumbers = [1, 3, 2] := by decide

/-- suffix candidates need a word longer than two characters (`addSuffix`: `middle.length > 2`);
    a learned base is searched for words of at least two (`selectedFor`: `w.length ≥ 2`) -/
theorem length_guards : suffixMinLen = 3 ∧ prevSelMinLen = 2 := by decide

/-- joining rules (`joinSuffix`): push য়; ৎ → ত; ং → ঙ — in every copy of the joining code (two call sites, or one helper) -/
theorem joining_characters :
    joinPushedGroups = [[cY.toNat, cT.toNat, cNga.toNat]] ∧
    joinMatchedGroups = [[cKhandaTa.toNat, cAnushar.toNat]] := by decide

/-- emoji rank numbers start at 1 in both methods (`zipIdx 1`) -/
theorem emoji_rank_starts : emojiRankStarts = [1, 1] := by decide

/-- fixed method: cut to 8 + English item (rank `Last _ 1`) or to 9 (`fixedCands`) -/
theorem fixed_truncation : fixedTruncations = [8, 9] ∧ fixedLastRankNumbers = [1] := by decide

/-- every copy of the sign → independent-vowel table in fixed/method.rs (automatic vowel forming; hasanta + sign; or one
    shared helper) is the single `karToVowel` of the model: every listed sign maps to the listed vowel, and each table lists
    exactly the ten signs on which `karToVowel` is defined (of the eleven of `is_kar`) -/
theorem sign_vowel_tables :
    signVowelTables ≠ [] ∧
    signVowelTables.all (fun t =>
      t.all (fun p => karToVowel (Char.ofNat p.1) == some (Char.ofNat p.2)) &&
      karSet.all (fun k => (karToVowel (Char.ofNat k)).isSome == (t.map Prod.fst).contains k)) = true := by decide

/-- the two key values with rules of their own (`zoFola`, `rephValue`) -/
theorem special_values : zoFolaLiteral = zoFola.map Char.toNat ∧ rephLiteral = rephValue.map Char.toNat := by decide

/-- the three linguistic classes (`is_vowel`, `is_kar`, `is_pure_consonant` of src/utility.rs, regenerated) are exactly the
    hand-written classes of Spec/CharSpec.lean -/
theorem char_classes_are_spec :
    vowelSet = Spec.vowels.map Char.toNat ∧ karSet = Spec.signs.map Char.toNat ∧
    pureConsonantSet = Spec.pureConsonants.map Char.toNat := by decide

end Riti.Tie
