#!/bin/sh
# Build the framework from files on disk only (offline): Lean model + theorems + driver, Rust harness.
set -e
cd "$(dirname "$0")"
export CARGO_NET_OFFLINE=true
python3 tools/translate.py || true
(cd lean && lake build RitiModel driver)
(cd harness && cargo build --release --offline)
./ffi/build.sh
echo setup-done
