/-
BijoyRunAll — run the Lean model `Riti.bijoy` (Model/Bijoy.lean) over a `word<TAB>expected` file produced by the
REAL crate (tools/bijoy_pairs.tsv: every word of /repo/data/dictionary.json and poriborton's
`unicode_to_bijoy` of it, `!` = the crate panicked) and count agreements / disagreements.

Kept OUT of the library.  Usage (from a copy of /verif/lean):
    lake build RitiModel.Model.Bijoy && lake env lean --run /verif/tools/BijoyRunAll.lean [file.tsv]
In the optional escaped mode (`--esc` as 2nd argument) the two-character sequences \n \t \r \f \\ in both
columns stand for the control characters and a panic is written `\\!` (used for the hand-picked hard cases and the fuzz set).
Exit code 0 iff there is no disagreement.
-/
import RitiModel.Model.Bijoy
open Riti

def unesc : List Char → List Char
  | '\\' :: 'n' :: r => '\n' :: unesc r
  | '\\' :: 't' :: r => '\t' :: unesc r
  | '\\' :: 'r' :: r => '\r' :: unesc r
  | '\\' :: 'f' :: r => Char.ofNat 12 :: unesc r
  | '\\' :: '\\' :: r => '\\' :: unesc r
  | c :: r => c :: unesc r
  | [] => []

def main (args : List String) : IO UInt32 := do
  let path := args.headD "/verif/tools/bijoy_pairs.tsv"
  let esc := args.drop 1 == ["--esc"]
  let txt ← IO.FS.readFile path
  let mut ok : Nat := 0
  let mut bad : Nat := 0
  let mut malformed : Nat := 0
  for line in txt.splitOn "\n" do
    if line.isEmpty then continue
    match line.splitOn "\t" with
    | [w, e] =>
      let wl := if esc then unesc w.toList else w.toList
      let expected : Option (List Char) :=
        if esc then (if e == "\\!" then none else some (unesc e.toList))
        else (if e == "!" && w != "!" then none else some e.toList)
      let got : Option (List Char) := match bijoy wl with
        | .ok t => some t
        | .error _ => none
      if got == expected then ok := ok + 1
      else
        bad := bad + 1
        if bad ≤ 50 then
          let render (o : Option (List Char)) := match o with | some t => String.ofList t | none => "!"
          IO.println s!"DISAGREE {w}\tcrate={render expected}\tmodel={render got}"
    | _ => malformed := malformed + 1
  IO.println s!"agreements={ok} disagreements={bad} malformed={malformed}"
  return (if bad == 0 && malformed == 0 then 0 else 1)
