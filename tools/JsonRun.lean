/-
JsonRun — run the Lean JSON model (`Riti.Json.parseBytes` / `printBytes`, Model/Json.lean) against what the REAL
serde_json did, to tie the model's reader (and, with `--written`, its writer) to the crate.

Input (stdin): one case per line, `hex-bytes<TAB>expected`
  * `hex-bytes`  the file content, two hex digits per byte (either case, may be empty = empty file);
  * `expected`   `-` if `serde_json::from_slice::<HashMap<String,String>>` returned `Err`, otherwise the resulting map as a
                 tab-separated list `key<TAB>value<TAB>key<TAB>value…` (any order; nothing after the first TAB = empty map),
                 each text escaped as by `escape` in /verif/lean/Driver/Main.lean
                 (`\e` empty text, `\s` space, `\\` backslash, `\n` `\t` `\r` `\0`; everything else verbatim).
The model agrees with a line when `parseBytes bytes` is `none` for `-`, and otherwise is `some entries` whose map
(`toStore`: later duplicates win) has exactly the expected bindings.

Option `--written`: the lines are complete files written by the engine (`serde_json::to_string`); additionally require
that the bytes are EXACTLY `printBytes entries` for the entries in their textual order (ties the model's printer:
escaping, separators, no whitespace).

Output: one line per disagreement / malformed line, then `agree=<n> disagree=<n> malformed=<n>`.  Exit code 0 iff
disagree = malformed = 0.  Kept OUT of the library.  Usage (from a copy of /verif/lean, after `lake build RitiModel.Model.Json`):
    lake env lean --run /verif/tools/JsonRun.lean [--written] < cases.tsv
-/
import RitiModel.Model.Json
open Riti Riti.Json

/-- inverse of `escape` in Driver/Main.lean (same definition as `unescape` there) -/
def unescapeText (s : String) : List Char :=
  let rec go : List Char → List Char
    | [] => []
    | '\\' :: 'e' :: rest => go rest
    | '\\' :: 's' :: rest => ' ' :: go rest
    | '\\' :: '\\' :: rest => '\\' :: go rest
    | '\\' :: 'n' :: rest => '\n' :: go rest
    | '\\' :: 't' :: rest => '\t' :: go rest
    | '\\' :: 'r' :: rest => '\r' :: go rest
    | '\\' :: '0' :: rest => '\x00' :: go rest
    | c :: rest => c :: go rest
  go s.toList

def hexNibble (c : Char) : Option Nat :=
  if '0' ≤ c ∧ c ≤ '9' then some (c.toNat - 48)
  else if 'a' ≤ c ∧ c ≤ 'f' then some (c.toNat - 87)
  else if 'A' ≤ c ∧ c ≤ 'F' then some (c.toNat - 55)
  else none

def parseHex (s : String) : Option (List UInt8) :=
  let rec go : List Char → List UInt8 → Option (List UInt8)
    | [], acc => some acc.reverse
    | ' ' :: r, acc => go r acc
    | a :: b :: r, acc =>
      match hexNibble a, hexNibble b with
      | some x, some y => go r ((x * 16 + y).toUInt8 :: acc)
      | _, _ => none
    | _, _ => none
  go s.toList []

def pairsOf : List String → Option Entries
  | [] => some []
  | k :: v :: rest => (pairsOf rest).map (fun m => (unescapeText k, unescapeText v) :: m)
  | [_] => none

/-- same bindings (both sides already duplicate-free) -/
def sameMap (a b : Entries) : Bool :=
  a.length == b.length && a.all (fun kv => alookup b kv.1 == some kv.2)

def showText (l : List Char) : String := (String.ofList l).quote

def showEntries : Option Entries → String
  | none => "-"
  | some m => "{" ++ ", ".intercalate (m.map (fun kv => showText kv.1 ++ ": " ++ showText kv.2)) ++ "}"

partial def loop (h : IO.FS.Stream) (written : Bool) (lineNo agree disagree malformed : Nat) : IO (Nat × Nat × Nat) := do
  let line ← h.getLine
  if line.isEmpty then return (agree, disagree, malformed)
  let line : String := String.ofList (line.toList.reverse.dropWhile (fun c => c == '\n' || c == '\r')).reverse
  let lineNo := lineNo + 1
  if line.isEmpty then loop h written lineNo agree disagree malformed else
  match line.splitOn "\t" with
  | hex :: exp =>
    let expected : Option (Option Entries) :=
      if exp == ["-"] then some none
      else if exp == [] || exp == [""] then some (some [])
      else (pairsOf exp).map some
    match parseHex hex, expected with
    | some bytes, some expected =>
      let got := parseBytes bytes
      let ok := match got, expected with
        | none, none => true
        | some g, some e => sameMap (toStore g) (toStore e)
        | _, _ => false
      if !ok then
        IO.println s!"DISAGREE line {lineNo}: bytes={hex} model={showEntries got} serde_json={showEntries expected}"
        loop h written lineNo agree (disagree + 1) malformed
      else
        match written, got with
        | true, some g =>
          if printBytes g == bytes then loop h written lineNo (agree + 1) disagree malformed
          else
            IO.println s!"DISAGREE(print) line {lineNo}: bytes={hex} but the model prints {String.ofList (printStore g)}"
            loop h written lineNo agree (disagree + 1) malformed
        | true, none =>
          IO.println s!"DISAGREE(print) line {lineNo}: --written but the content is rejected: bytes={hex}"
          loop h written lineNo agree (disagree + 1) malformed
        | false, _ => loop h written lineNo (agree + 1) disagree malformed
    | _, _ =>
      IO.println s!"MALFORMED line {lineNo}: {line}"
      loop h written lineNo agree disagree (malformed + 1)
  | [] => loop h written lineNo agree disagree (malformed + 1)

def main (args : List String) : IO UInt32 := do
  let written := args.contains "--written"
  let stdin ← IO.getStdin
  let (agree, disagree, malformed) ← loop stdin written 0 0 0 0
  IO.println s!"agree={agree} disagree={disagree} malformed={malformed}"
  return (if disagree == 0 && malformed == 0 then 0 else 1)
