// Reads lines on stdin. Each line is a word; `\uXXXX;`-style escapes are NOT used: lines are raw UTF-8,
// except that the two-character sequences `\n`, `\t`, `\r`, `\\` are decoded first (so that whitespace can be tested).
// Prints `line<TAB>output` where output is the crate's unicode_to_bijoy result with the same escaping, or `!` on panic (`\\!` in the escaped mode).
use std::io::{self, BufRead, Write};

fn dec(s: &str) -> String {
    let mut out = String::new();
    let mut it = s.chars();
    while let Some(c) = it.next() {
        if c == '\\' {
            match it.next() {
                Some('n') => out.push('\n'),
                Some('t') => out.push('\t'),
                Some('r') => out.push('\r'),
                Some('f') => out.push('\u{000C}'),
                Some('\\') => out.push('\\'),
                Some(o) => { out.push('\\'); out.push(o); }
                None => out.push('\\'),
            }
        } else { out.push(c); }
    }
    out
}
fn enc(s: &str) -> String {
    let mut out = String::new();
    for c in s.chars() {
        match c {
            '\n' => out.push_str("\\n"),
            '\t' => out.push_str("\\t"),
            '\r' => out.push_str("\\r"),
            '\u{000C}' => out.push_str("\\f"),
            '\\' => out.push_str("\\\\"),
            c => out.push(c),
        }
    }
    out
}
fn main() {
    std::panic::set_hook(Box::new(|_| {}));
    let stdin = io::stdin();
    let stdout = io::stdout();
    let mut w = io::BufWriter::new(stdout.lock());
    let raw = std::env::args().any(|a| a == "--raw");
    for line in stdin.lock().lines() {
        let line = line.unwrap();
        let input = if raw { line.clone() } else { dec(&line) };
        let r = std::panic::catch_unwind(|| poriborton::bijoy2000::unicode_to_bijoy(&input));
        match r {
            Ok(s) => writeln!(w, "{}\t{}", line, if raw { s } else { enc(&s) }).unwrap(),
            Err(_) => writeln!(w, "{}\t{}", line, if raw { "!" } else { "\\!" }).unwrap(),
        }
    }
}
