#!/usr/bin/env python3
"""T-gen (Bijoy): regenerate lean/RitiModel/Gen/BijoyTables.lean from the poriborton crate that /repo's
Cargo.lock pins (src/bijoy2000.rs, src/utility.rs, src/chars.rs in the cargo registry).

What is generated
  * `bijoyMap`            the `MAP` phf_map, as an association list of code-point lists;
  * the char constants of chars.rs that the algorithm mentions;
  * the sets/ranges of utility.rs (`is_kar`, `is_front_kar`, `is_vowel`, `is_consonant`,
    `is_base_line_right_char`) and of bijoy2000.rs (`is_special_combination_with_r_fola`, `…_with_l`);
  * every string/char literal of `unicode_to_bijoy`, `convert_buffer`, `replace_kar`, each under a role name.

What is only CHECKED (the control flow is transcribed by hand in Model/Bijoy.lean)
  * the literal-abstracted, whitespace-normalised bodies ("skeletons") of `unicode_to_bijoy`, `convert_buffer`,
    `replace_kar`, `last`, `is_front_facing` must be exactly the ones recorded below;
  * the byte-length facts the hand transcription relies on (`drain(..6)`, `drain(3..6)`, `len() - 6`).
Anything else: `Fail` (exit 2, `TRANSLATOR-FAIL bijoy: why` when run as a script).

Stand-alone use:  gen_bijoy.py [--repo /repo] [--out DIR] [--check]
Library use:      from gen_bijoy import gen_bijoy;  name, text = gen_bijoy("/repo")
"""
import os, re, sys, glob, argparse

ITEM = "bijoy"

class Fail(Exception):
    def __init__(self, item, why):
        super().__init__(f"{item}: {why}")
        self.item = item
        self.why = why

def read(p):
    with open(p, encoding="utf-8") as f:
        return f.read()

def find_crate(repo, name):
    lock = read(f"{repo}/Cargo.lock")
    m = re.search(r'name = "' + re.escape(name) + r'"\nversion = "([^"]+)"', lock)
    if not m: raise Fail(ITEM, f"crate {name} not in Cargo.lock")
    ver = m.group(1)
    for base in glob.glob(os.path.expanduser("~/.cargo/registry/src/*/")):
        p = os.path.join(base, f"{name}-{ver}")
        if os.path.isdir(p): return p, ver
    raise Fail(ITEM, f"crate source {name}-{ver} not in the cargo registry")

# ------------------------------------------------------------------------------------------
# A tiny Rust lexer: enough to separate comments, string literals, char literals and the rest.
# Tokens: ("S", python-string) string literal, ("C", python-string) char literal, ("X", text) other code.
def unescape(s):
    out = []
    i = 0
    while i < len(s):
        c = s[i]
        if c == '\\':
            d = s[i + 1]
            if d == 'u':
                m = re.match(r'\\u\{([0-9A-Fa-f_]+)\}', s[i:])
                if not m: raise Fail(ITEM, f"bad unicode escape in {s!r}")
                out.append(chr(int(m.group(1).replace('_', ''), 16)))
                i += len(m.group(0)); continue
            tbl = {'n': '\n', 't': '\t', 'r': '\r', '0': '\0', '\\': '\\', '"': '"', "'": "'"}
            if d not in tbl: raise Fail(ITEM, f"unknown escape \\{d} in {s!r}")
            out.append(tbl[d]); i += 2
        else:
            out.append(c); i += 1
    return "".join(out)

CHR_RE = re.compile(r"'((?:[^'\\\n]|\\u\{[0-9A-Fa-f_]+\}|\\.))'")

def lex(src):
    toks = []
    i, n = 0, len(src)
    cur = []
    def flush():
        if cur:
            toks.append(("X", "".join(cur))); cur.clear()
    while i < n:
        c = src[i]
        if src.startswith("//", i):
            j = src.find("\n", i)
            i = n if j < 0 else j
        elif src.startswith("/*", i):
            j = src.find("*/", i)
            if j < 0: raise Fail(ITEM, "unterminated block comment")
            i = j + 2
        elif c == '"':
            j = i + 1
            while j < n and src[j] != '"':
                if src[j] == '\\': j += 1
                j += 1
            if j >= n: raise Fail(ITEM, "unterminated string literal")
            flush(); toks.append(("S", unescape(src[i + 1:j]))); i = j + 1
        elif c == "'":
            m = CHR_RE.match(src, i)
            if m:
                flush(); v = unescape(m.group(1))
                if len(v) != 1: raise Fail(ITEM, f"char literal {m.group(0)!r} is not one code point")
                toks.append(("C", v)); i = m.end()
            else:
                cur.append(c); i += 1      # a lifetime such as 'static
        elif c in 'rb' and i + 1 < n and src[i + 1] in '"#' and (i == 0 or not (src[i - 1].isalnum() or src[i - 1] == '_')):
            raise Fail(ITEM, "raw/byte string literal: shape not recognised")
        else:
            cur.append(c); i += 1
    flush()
    return toks

def find_fn(toks, name):
    """tokens of the brace block that follows `fn <name>(`; braces inside literals are not in X tokens."""
    pat = re.compile(r'\bfn\s+' + re.escape(name) + r'\s*\(')
    for ti, (k, v) in enumerate(toks):
        if k != "X": continue
        m = pat.search(v)
        if not m: continue
        # walk from m.end() to the first '{' then balance
        depth = 0
        out = []
        started = False
        tj, pos = ti, m.end()
        while tj < len(toks):
            kk, vv = toks[tj]
            if kk != "X":
                if started: out.append((kk, vv))
                tj += 1; pos = 0; continue
            seg_start = pos
            while pos < len(vv):
                ch = vv[pos]
                if ch == '{':
                    depth += 1
                    if not started:
                        started = True; seg_start = pos + 1
                elif ch == '}':
                    depth -= 1
                    if started and depth == 0:
                        out.append(("X", vv[seg_start:pos]))
                        return out
                pos += 1
            if started: out.append(("X", vv[seg_start:]))
            tj += 1; pos = 0
        raise Fail(ITEM, f"fn {name}: unbalanced braces")
    raise Fail(ITEM, f"fn {name} not found")

def skeleton(toks):
    parts = []
    for k, v in toks:
        parts.append(v if k == "X" else ("\u00a7S" if k == "S" else "\u00a7C"))
    return re.sub(r'\s+', ' ', "".join(parts)).strip()

def literals(toks):
    return [(k, v) for k, v in toks if k != "X"]

# ------------------------------------------------------------------------------------------
# Expected skeletons (§S = a string literal, §C = a char literal).  They pin the control flow that
# Model/Bijoy.lean transcribes by hand.
SKEL = {
"unicode_to_bijoy":
 "let mut output = String::with_capacity(input.len() / 3); let mut buffer = String::with_capacity(5*3); "
 "let mut encountered_hasanta = false; for (pos, c) in input.char_indices() { match c { "
 "B_O_KAR => { output.push(replace_kar(§C, is_front_facing(&input[..pos]), §S)); convert_buffer(&mut buffer, &mut output); output.push(§C); } "
 "B_OU_KAR => { output.push(replace_kar(§C, is_front_facing(&input[..pos]), §S)); convert_buffer(&mut buffer, &mut output); output.push(§C); } "
 "c if is_front_kar(c) => { output.push(replace_kar(c, is_front_facing(&input[..pos]), §S)); convert_buffer(&mut buffer, &mut output); } "
 "B_U_KAR if buffer == §S => { output.push(§C); buffer.clear(); } "
 "B_U_KAR if buffer == §S => { output.push(§C); buffer.clear(); } "
 "B_U_KAR if buffer == §S => { output.push(§C); buffer.clear(); } "
 "B_U_KAR if buffer.ends_with(§S) => { convert_buffer(&mut buffer, &mut output); output.pop(); output.push(§C); } "
 "B_RRI_KAR if buffer == §S => { output.push(§C); buffer.clear(); } "
 "c if is_kar(c) => { let kar = replace_kar(c, false, &buffer); convert_buffer(&mut buffer, &mut output); output.push(kar); } "
 "B_HASANTA => { encountered_hasanta = true; buffer.push(B_HASANTA); } "
 "B_DARI => { convert_buffer(&mut buffer, &mut output); output.push(§C); } "
 "B_DDARI => { convert_buffer(&mut buffer, &mut output); output.push(§C); } "
 "ZWJ => buffer.push(ZWJ), "
 "ZWNJ => { if buffer.ends_with(B_HASANTA) { buffer.pop(); convert_buffer(&mut buffer, &mut output); output.push(§C); encountered_hasanta = false; } } "
 "c if encountered_hasanta => { buffer.push(c); encountered_hasanta = false; } "
 "§C..=§C | §C | §C | §C | §C => { convert_buffer(&mut buffer, &mut output); buffer.push(c); } "
 "c => { convert_buffer(&mut buffer, &mut output); output.push(c); } } } "
 "if !buffer.is_empty() { convert_buffer(&mut buffer, &mut output); } output",
"convert_buffer":
 "let mut reph = false; let mut z_fola = false; let mut hasanta = false; "
 "if buffer.starts_with(§S) { buffer.drain(..6); reph = true; } "
 "if buffer.starts_with(§S) { buffer.drain(3..6); } "
 "if buffer.ends_with(§S) { buffer.truncate(buffer.len() - 6); z_fola = true; } "
 "if buffer.ends_with(§C) { buffer.pop(); hasanta = true; } "
 "if let Some(replace) = MAP.get(buffer.as_str()) { output.push_str(replace); } buffer.clear(); "
 "if z_fola { output.push(§C); } if reph { output.push(§C); } if hasanta { output.push(§C); }",
"replace_kar":
 "match (kar, front) { (§C, _) => §C, (§C, _) => §C, "
 "(§C, _) if preceding == §S => §C, "
 "(§C, _) => match last(preceding, 1) { "
 "Some(§S) => { if is_special_combination_with_r_fola(last(preceding, 3)) || is_special_combination_with_r_fola(last(preceding, 5)) { §C } else { §C } } "
 "Some(§S) => { if is_special_combination_with_l(last(preceding, 3)) || matches!(last(preceding, 5), Some(§S)) { §C } else { §C } } "
 "Some(§S) => { if matches!(last(preceding, 3), Some(§S)) { §C } else { §C } } "
 "Some(§S) => { if matches!(last(preceding, 3), Some(§S)) { §C } else { §C } } "
 "Some(c) if is_base_line_right_char(c) => §C, Some(§S) | Some(§S) => §C, _ => §C, }, "
 "(§C, _) if preceding == §S => §C, "
 "(§C, _) => match last(preceding, 1) { "
 "Some(§S) => { if is_special_combination_with_r_fola(last(preceding, 3)) || is_special_combination_with_r_fola(last(preceding, 5)) { §C } else { §C } } "
 "Some(§S) => { if is_special_combination_with_l(last(preceding, 3)) || matches!(last(preceding, 5), Some(§S)) { §C } else { §C } } "
 "Some(§S) => { if matches!(last(preceding, 3), Some(§S)) { §C } else { §C } } "
 "Some(c) if is_base_line_right_char(c) => §C, _ => §C, }, "
 "(§C, _) => match last(preceding, 1) { Some(c) if is_base_line_right_char(c) => §C, _ => §C, }, "
 "(§C, _) => §C, (§C, true) => §C, (§C, _) => §C, (§C, true) => §C, (§C, _) => §C, "
 "_ => panic!(§S), }",
"last":
 "string.get(string.len().saturating_sub(n * 3)..)",
"is_front_facing":
 "if string.is_empty() { return true; } let mut encountered_hasanta = false; let mut encountered_consonant = false; "
 "for c in string.chars().rev() { if c == B_HASANTA { encountered_hasanta = true; continue; } "
 "if is_consonant(c) && encountered_consonant && !encountered_hasanta { return false; } "
 "if is_consonant(c) { encountered_consonant = true; encountered_hasanta = false; continue; } "
 "if c.is_ascii_whitespace() { break; } if is_vowel(c) || is_kar(c) { return false; } } true",
}

# Role names of the literals, in source order.  A name used twice must carry the same value twice.
# Names starting with `_` are checked for shape only and not emitted.
ROLES = {
"unicode_to_bijoy": [
    "kE", "sEmpty", "oAaTail",            # B_O_KAR : replace_kar('ে', front, ""), push 'v'
    "kE", "sEmpty", "oAuTail",            # B_OU_KAR: …, push 'Š'
    "sEmpty",                             # front kar: replace_kar(c, front, "")
    "sG", "oGU",                          # গ + ু
    "sSh", "oShU",                        # শ + ু
    "sH", "oHU",                          # হ + ু
    "sHasT", "oTU",                       # …্ত + ু
    "sH", "oHRri",                        # হ + ৃ
    "oDari", "oDdari",
    "oHasanta",                           # ZWNJ arm pushes '&'
    "benLo", "benHi", "q1", "q2", "q3", "q4",
],
"convert_buffer": [
    "sReph", "sRZwj", "sZFola", "cHas", "oZFola", "oReph", "oHasanta",
],
"replace_kar": [
    "kAa", "oAa", "kIi", "oIi",
    "kU", "sR", "oULig",
    "kU",
    "sR", "oULig", "oUNarrow",
    "sL", "sSPL", "oULig", "oUNarrow",
    "sNn", "sSsNn", "oUWide", "oUNarrow",
    "sSs", "sKSs", "oUWide", "oUNarrow",
    "oUNarrow", "sRr", "sRh", "oURr", "oUWide",
    "kUu", "sR", "oUuLig",
    "kUu",
    "sR", "oUuLig", "oUuNarrow",
    "sL", "sSPL", "oUuLig", "oUuNarrow",
    "sSs", "sKSs", "oUuWide", "oUuNarrow",
    "oUuNarrow", "oUuWide",
    "kRri", "oRriNarrow", "oRriWide",
    "kI", "oI", "kE", "oEFront", "kE", "oE", "kOi", "oOiFront", "kOi", "oOi",
    "_panicMsg",
],
}

def parse_consts(src):
    consts = {}
    for m in re.finditer(r"pub\(crate\) const (\w+): char = '\\u\{([0-9A-Fa-f]+)\}';", src):
        consts[m.group(1)] = int(m.group(2), 16)
    if len(consts) < 80: raise Fail(ITEM, f"chars.rs: only {len(consts)} constants recognised")
    return consts

def matches_body(toks, fname):
    """body of a fn whose whole body is `matches!( <scrutinee>, <alternatives> )`; returns (scrutinee, alt tokens)"""
    body = find_fn(toks, fname)
    sk = skeleton(body)
    m = re.fullmatch(r'matches!\(\s*(\w+),\s*(.*?),?\s*\)', sk)
    if not m: raise Fail(ITEM, f"fn {fname}: body is not a single matches!(..): {sk!r}")
    return m.group(1), m.group(2), literals(body)

def nat_list(xs): return "[" + ", ".join(str(x) for x in xs) + "]"
def cps(s): return nat_list([ord(c) for c in s])

def utf8len(s): return len(s.encode("utf-8"))

def gen_bijoy(repo):
    crate, ver = find_crate(repo, "poriborton")
    bj_src = read(f"{crate}/src/bijoy2000.rs")
    ut_src = read(f"{crate}/src/utility.rs")
    ch_src = read(f"{crate}/src/chars.rs")
    lib_src = read(f"{crate}/src/lib.rs")
    if not re.search(r'pub mod bijoy2000;', lib_src): raise Fail(ITEM, "lib.rs: pub mod bijoy2000 not found")
    consts = parse_consts(ch_src)
    bj = lex(bj_src)
    ut = lex(ut_src)

    # ---- MAP -----------------------------------------------------------------------------
    # static MAP: phf::Map<&'static str, &'static str> = phf_map![ "k" => "v", ... ];
    idx = None
    for i, (k, v) in enumerate(bj):
        if k == "X" and re.search(r"static MAP: phf::Map<&'static str, &'static str> = phf_map!\[\s*$", v):
            idx = i; break
    if idx is None: raise Fail(ITEM, "static MAP … = phf_map![ not found")
    entries = []
    i = idx + 1
    while True:
        if i + 2 >= len(bj): raise Fail(ITEM, "MAP: ran off the end")
        (k1, key), (k2, arrow), (k3, val) = bj[i], bj[i + 1], bj[i + 2]
        if not (k1 == "S" and k2 == "X" and arrow.strip() == "=>" and k3 == "S"):
            raise Fail(ITEM, f"MAP entry {len(entries)}: expected \"key\" => \"value\", got {bj[i:i+3]!r}")
        entries.append((key, val))
        k4, sep = bj[i + 3]
        if k4 != "X": raise Fail(ITEM, f"MAP entry {len(entries)}: no separator")
        s = sep.strip()
        if s == ",": i += 4; continue
        if s.startswith(",") and s[1:].lstrip().startswith("];") or s.startswith("];"): break
        raise Fail(ITEM, f"MAP entry {len(entries)}: separator {sep[:30]!r} not recognised")
    keys = [k for k, _ in entries]
    if len(set(keys)) != len(keys): raise Fail(ITEM, "MAP: duplicate key")
    if len(entries) < 100: raise Fail(ITEM, f"MAP: only {len(entries)} entries")
    if any(k == "" for k in keys): raise Fail(ITEM, "MAP: empty key")

    # ---- skeleton checks + role-named literals ----------------------------------------
    named = {}
    order = []
    def take(toks, fname):
        body = find_fn(toks, fname)
        sk = skeleton(body)
        if sk != SKEL[fname]:
            # find first difference for a readable message
            a, b = sk, SKEL[fname]
            p = next((j for j in range(min(len(a), len(b))) if a[j] != b[j]), min(len(a), len(b)))
            raise Fail(ITEM, f"fn {fname}: control-flow skeleton changed near …{a[max(0,p-40):p+40]!r} (expected …{b[max(0,p-40):p+40]!r})")
        return literals(body)
    for fname in ("unicode_to_bijoy", "convert_buffer", "replace_kar"):
        lits = take(bj, fname)
        roles = ROLES[fname]
        if len(lits) != len(roles): raise Fail(ITEM, f"fn {fname}: {len(lits)} literals, {len(roles)} expected")
        for (kind, val), role in zip(lits, roles):
            if role.startswith("_"): continue
            want = "S" if role[0] == "s" else "C"
            if kind != want: raise Fail(ITEM, f"fn {fname}: literal for {role} has kind {kind}")
            if role in named:
                if named[role] != (kind, val): raise Fail(ITEM, f"literal {role}: {named[role][1]!r} vs {val!r}")
            else:
                named[role] = (kind, val); order.append(role)
    if literals(find_fn(ut, "last")) != [] or skeleton(find_fn(ut, "last")) != SKEL["last"]:
        raise Fail(ITEM, "fn last: body changed")
    if literals(find_fn(ut, "is_front_facing")) != [] or skeleton(find_fn(ut, "is_front_facing")) != SKEL["is_front_facing"]:
        raise Fail(ITEM, "fn is_front_facing: body changed")

    # byte-length facts used by the hand transcription
    def need(cond, why):
        if not cond: raise Fail(ITEM, why)
    S = lambda r: named[r][1]
    need(utf8len(S("sReph")) == 6 and len(S("sReph")) == 2, "convert_buffer: reph prefix is not two 3-byte chars (drain(..6))")
    need(len(S("sRZwj")) == 2 and utf8len(S("sRZwj")[0]) == 3 and utf8len(S("sRZwj")[1]) == 3, "convert_buffer: R+ZWJ prefix is not two 3-byte chars (drain(3..6))")
    need(utf8len(S("sZFola")) == 6 and len(S("sZFola")) == 2, "convert_buffer: z-fola suffix is not two 3-byte chars (len() - 6)")
    need(S("sEmpty") == "", "unicode_to_bijoy: third argument of replace_kar is not \"\"")
    need(S("cHas") == chr(consts.get("B_HASANTA", -1)), "convert_buffer: trailing-hasanta char is not B_HASANTA")
    # all literals that `last(..)` results are compared with must consist of 3-byte chars only (documented in the model)
    for r in ("sR", "sL", "sNn", "sSs", "sRr", "sRh", "sSsNn", "sKSs", "sSPL"):
        need(all(utf8len(c) == 3 for c in S(r)), f"replace_kar: literal {r} has a non-3-byte char")

    # ---- utility.rs sets ------------------------------------------------------------------
    def range_fn(fname):
        scr, alts, lits = matches_body(ut, fname)
        m = re.fullmatch(r'(\w+)\.\.=(\w+)', alts.strip())
        if not m or lits: raise Fail(ITEM, f"fn {fname}: not a single A..=B range: {alts!r}")
        for nm in m.groups():
            if nm not in consts: raise Fail(ITEM, f"fn {fname}: unknown constant {nm}")
        return consts[m.group(1)], consts[m.group(2)]
    def set_fn(fname):
        scr, alts, lits = matches_body(ut, fname)
        names = [a.strip() for a in alts.split("|")]
        if lits or not all(re.fullmatch(r'\w+', a) and a in consts for a in names):
            raise Fail(ITEM, f"fn {fname}: not a set of constants: {alts!r}")
        return [consts[a] for a in names]
    def strset_fn(toks, fname, wrap):
        scr, alts, lits = matches_body(toks, fname)
        parts = [a.strip() for a in alts.split("|")]
        exp = "Some(\u00a7S)" if wrap else "\u00a7S"
        if not all(p == exp for p in parts) or len(parts) != len(lits) or any(k != "S" for k, _ in lits):
            raise Fail(ITEM, f"fn {fname}: not a set of string literals: {alts!r}")
        return [v for _, v in lits]
    kar_lo, kar_hi = range_fn("is_kar")
    vow_lo, vow_hi = range_fn("is_vowel")
    con_lo, con_hi = range_fn("is_consonant")
    front_kars = set_fn("is_front_kar")
    base_right = strset_fn(ut, "is_base_line_right_char", False)
    spec_r = strset_fn(bj, "is_special_combination_with_r_fola", True)
    spec_l = strset_fn(bj, "is_special_combination_with_l", True)
    for s in base_right + spec_r + spec_l:
        need(all(utf8len(c) == 3 for c in s), f"set literal {s!r} has a non-3-byte char")

    used_consts = ["B_O_KAR", "B_OU_KAR", "B_U_KAR", "B_RRI_KAR", "B_HASANTA", "B_DARI", "B_DDARI", "ZWJ", "ZWNJ"]
    for c in used_consts:
        if c not in consts: raise Fail(ITEM, f"chars.rs: constant {c} missing")

    # ---- emit ---------------------------------------------------------------------------
    L = [f"/- GENERATED by tools/gen_bijoy.py from poriborton-{ver} src/{{bijoy2000,utility,chars}}.rs — do not edit -/",
         "namespace Riti.Gen.Bijoy",
         "/-- `MAP` of bijoy2000.rs: Unicode string ↦ Bijoy string (code points), in source order -/",
         "def bijoyMap : List (List Nat × List Nat) := ["]
    L.append(",\n".join(f"  ({cps(k)}, {cps(v)})" for k, v in entries))
    L.append("]")
    L.append("/- chars.rs constants used by the algorithm -/")
    for c in used_consts:
        L.append(f"def {c} : Nat := {consts[c]}")
    L.append("/- utility.rs -/")
    L.append(f"def karLo : Nat := {kar_lo}\ndef karHi : Nat := {kar_hi}")
    L.append(f"def vowelLo : Nat := {vow_lo}\ndef vowelHi : Nat := {vow_hi}")
    L.append(f"def consonantLo : Nat := {con_lo}\ndef consonantHi : Nat := {con_hi}")
    L.append(f"def frontKarSet : List Nat := {nat_list(front_kars)}")
    L.append("def baseLineRightSet : List (List Nat) := [" + ", ".join(cps(s) for s in base_right) + "]")
    L.append("/- bijoy2000.rs sets -/")
    L.append("def specialRFolaSet : List (List Nat) := [" + ", ".join(cps(s) for s in spec_r) + "]")
    L.append("def specialLSet : List (List Nat) := [" + ", ".join(cps(s) for s in spec_l) + "]")
    L.append("/- literals of unicode_to_bijoy / convert_buffer / replace_kar (k… kar matched, s… string compared, o… char pushed) -/")
    for role in order:
        kind, val = named[role]
        if kind == "S":
            L.append(f"def {role} : List Nat := {cps(val)}")
        else:
            L.append(f"def {role} : Nat := {ord(val)}")
    L.append("end Riti.Gen.Bijoy")
    return "BijoyTables.lean", "\n".join(L) + "\n"

def main():
    ap = argparse.ArgumentParser()
    ap.add_argument("--repo", default="/repo")
    ap.add_argument("--out", default=os.path.join(os.path.dirname(os.path.abspath(__file__)), "..", "lean", "RitiModel", "Gen"))
    ap.add_argument("--check", action="store_true", help="do not write, report whether the file would change")
    a = ap.parse_args()
    try:
        name, text = gen_bijoy(a.repo)
    except Fail as e:
        print(f"TRANSLATOR-FAIL {e.item}: {e.why}", file=sys.stderr)
        sys.exit(2)
    p = os.path.join(a.out, name)
    old = read(p) if os.path.exists(p) else None
    changed = old != text
    if changed and not a.check:
        with open(p, "w", encoding="utf-8") as f: f.write(text)
    print(("changed " if changed else "unchanged ") + name)

if __name__ == "__main__":
    main()
