#!/bin/bash
# tools/lane.sh <name> — a private copy of /verif and a private worktree of /repo under /tmp, with every /repo path of the machinery
# re-pointed, so that seeded changes can be tested in parallel without touching /repo or /verif. Remove with: tools/lane.sh -d <name>
set -e
if [ "$1" = "-d" ]; then git -C /repo worktree remove --force /tmp/lane-$2-repo 2>/dev/null || true; rm -rf /tmp/lane-$2-verif /tmp/lane-$2-repo; exit 0; fi
N=$1; V=/tmp/lane-$N-verif; R=/tmp/lane-$N-repo
git -C /repo worktree remove --force $R 2>/dev/null || true; rm -rf $V $R
git -C /repo worktree add --detach $R HEAD >/dev/null 2>&1
cp /repo/Cargo.lock $R/Cargo.lock
cp -r /verif $V
cd $V
sed -i "s#/repo#$R#g" harness/src/imp.rs harness/Cargo.toml ffi/build.sh ffi/driver.c tools/translate.py tools/gen_bijoy.py tools/seedtest.py tools/mutate.py
sed -i "s#/tmp/cf-#/tmp/cf-$N-#g" tools/seedconfirm.sh
sed -i "s#/verif#$V#g" ffi/build.sh
echo "lane $N: $V (repo $R)"
