#!/usr/bin/env python3
"""writes MANIFEST.json from the table below (kept in one place so it stays valid)"""
import json, os
V = os.path.dirname(os.path.dirname(os.path.abspath(__file__)))
ALL = ["C%02d" % i for i in range(1, 20)]
CHECKS = {
 "C03": dict(
   text="Lean theorems (all typed texts, all Env/convert functions, all memo states): split_alnum, split_wrapped over the 27-character punctuation set, lonely_is_parts, c03_word, c03_wrapped, translit_is_candidate (transliteration survives push_checked, wrapping, emoji/English items and the stable sort), typeable (94 printable ASCII characters have a key) and key_table_is_spec over the regenerated key table, convert_nil for the okkhor model. Tie: tables regenerated from src/keycodes.rs, src/utility.rs and okkhor patterns.rs on every run; hand-written model replayed against the real library on every string of length <=2 (quick; <=3 thorough, suggestions off) plus structured and arbitrary strings under the 16 option settings; independent oracle = okkhor crate on the three parts.",
   note="trusted: Lean kernel + {propext, Classical.choice, Quot.sound}; translate.py; the correspondence stream c03 (generator-bounded); okkhor's pattern *matching* is modelled (longest key that is a prefix) and validated by the stream, its regex generator is not modelled",
   technique="Lean 4 proof (list induction on split/trailLen; membership through pushChecked + sort permutation) + regenerated tables + trace correspondence", ref="§5 C03"),
 "C04": dict(
   text="Lean theorems for every natural key code, every modifier byte and both number-pad settings: layout_table_is_spec (regenerated get_char_for_key rows = table transcribed from riti.h), header_eq_rust, plane_ignores_shift, altgr_is_bit1, get_char_spec, unknown_key_inert, empty_entry_inert, idle_key_appends_partial (+ proved counter-example idle_value_cut for values of >=2 code points starting with a vowel sign: known finding). Tie: rows regenerated from src/fixed/layout.rs each run; complete enumeration 65536 codes x 7 modifier bytes x numpad on/off x 3 layouts against the real library (oracle = layout JSON + key-name table transcribed from riti.h); published keys, neighbours and a seeded sample replayed on the model.",
   note="trusted: Lean kernel; translate.py (match arms on distinct constants = first-match table); hand-transcribed Spec/LayoutSpec.lean and harness/src/keys.rs; idle_key_appends is PARTIAL (see known_findings.txt class multi-codepoint-value-starting-with-vowel-sign)",
   technique="Lean 4 proof (decide over regenerated tables lifted to all key codes by look-up lemma) + exhaustive behavioural enumeration", ref="§5 C04"),
}
NA_REASON = "check not built yet in this round (model exists; stream and theorems pending) — will be claimed, see DESIGN.md §5"
m = {
 "version": 1,
 "setup_cmd": "./setup.sh",
 "hooks": {"guard": "riti_verif (reserved; no hooks are needed or present)", "enable": "none: the harness drives the public Rust API and the exported riti_config_* C symbols of an unmodified build",
           "baseline_off_cmd": "cd /repo && cargo test --workspace --no-fail-fast --offline", "source_commits": [], "add_only": True},
 "engines": [
   {"name": "lean-model", "path": "lean/", "serves_properties": sorted(CHECKS), "kind_free_text": "Lean 4 model (RitiModel/Model), generated tables (RitiModel/Gen, by tools/translate.py), lemmas, property theorems (RitiModel/Props), compiled trace-validating driver (Driver/Main.lean)"},
   {"name": "rust-harness", "path": "harness/", "serves_properties": sorted(CHECKS), "kind_free_text": "in-process driver of the real library, generators, independent property oracles, trace writer"},
 ],
 "checks": [],
 "notes": "Every check: ./check <id> [--tier quick|thorough]. Exit 0 / `VIOLATION property=<id> replay=<path>` per the interface; known findings in known_findings.txt print KNOWN-FINDING lines. VERIF_SEED and VERIF_TIER are honoured.",
 "not_applicable": [],
}
for pid in ALL:
    if pid in CHECKS:
        c = CHECKS[pid]
        m["checks"].append({
          "property_id": pid, "quick_cmd": f"./check {pid} --tier quick", "thorough_cmd": f"./check {pid} --tier thorough",
          "evidence_file": f"evidence/{pid}.json", "replay_cmd_template": f"./check {pid} --replay {{path}}", "engine": "lean-model",
          "level_claimed": {"category": "proof", "text": c["text"], "design_ref": c["ref"]}, "level_note": c["note"], "technique": c["technique"]})
    else:
        m["not_applicable"].append({"property_id": pid, "reason": NA_REASON})
json.dump(m, open(os.path.join(V, "MANIFEST.json"), "w"), indent=1, ensure_ascii=False)
print("checks:", len(m["checks"]), "not_applicable:", len(m["not_applicable"]))
