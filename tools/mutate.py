#!/usr/bin/env python3
"""
Mutation sweep: a systematic complement to the hand-made seeded changes (seeded/).

phase 1  (gen):   apply one small syntactic mutation at a time to the non-test code of /repo/src in a scratch worktree,
                  keep the mutants that still compile AND pass the pinned test suite (the others are already caught by the tests).
                  Writes <outdir>/<n>.diff + <outdir>/index.json.   Touches neither /repo nor /verif.
phase 2  (run):   for each surviving mutant: git -C /repo apply, run the quick checks of the properties anchored in the mutated
                  file, git -C /repo checkout -- . ; record CAUGHT (which property, with or without failing input) or MISSED.
                  MISSED mutants are either equivalent (no observable change) or blind spots — to be read by hand.

usage:  mutate.py gen  <outdir> [--limit N] [--files a.rs,b.rs] [--seed S]
        mutate.py run  <outdir> [--only n,n,…]
Scratch: worktree /tmp/mut-wt, cargo target /tmp/mut-target (both removed by `mutate.py clean`).
"""
import json, os, re, subprocess, sys, random, time

REPO = "/repo"
WT = "/tmp/mut-wt"
TARGET = "/tmp/mut-target"
VERIF = os.path.dirname(os.path.dirname(os.path.abspath(__file__)))

# which checks look at which source file
FILE_PROPS = {
    "src/phonetic/suggestion.rs": ["C05", "C07", "C08", "C09", "C17", "C18", "C06", "C03", "C16", "C10", "C11", "C01"],
    "src/phonetic/method.rs": ["C03", "C06", "C09", "C10", "C11", "C05", "C01", "C16"],
    "src/fixed/method.rs": ["C12", "C13", "C14", "C15", "C04", "C06", "C05", "C16", "C17", "C18", "C01"],
    "src/fixed/search.rs": ["C15", "C17", "C18"],
    "src/fixed/layout.rs": ["C04", "C12", "C15"],
    "src/fixed/chars.rs": ["C12", "C13", "C14", "C15"],
    "src/suggestion.rs": ["C02", "C07", "C16", "C19", "C15"],
    "src/utility.rs": ["C17", "C09", "C12", "C13", "C04", "C07", "C03", "C15"],
    "src/context.rs": ["C11", "C06", "C01", "C04", "C10"],
    "src/config.rs": ["C11", "C16", "C12", "C14", "C10", "C04", "C19", "C15", "C17"],
    "src/data.rs": ["C08", "C18", "C10", "C11", "C07"],
    "src/ffi.rs": ["C19", "C16", "C02"],
    "src/keycodes.rs": ["C04", "C03"],
}

def sh(cmd, cwd=None, timeout=1800, env=None):
    e = dict(os.environ); e.update(env or {})
    p = subprocess.run(cmd, cwd=cwd, stdout=subprocess.PIPE, stderr=subprocess.STDOUT, text=True, timeout=timeout, env=e, shell=isinstance(cmd, str))
    return p.returncode, p.stdout

def code_region(src):
    """index of the first `#[cfg(test)]` (tests are at the end of each file), else len"""
    m = re.search(r'^\s*#\[cfg\(test\)\]', src, flags=re.M)
    return m.start() if m else len(src)

def strip_comment(line):
    i = line.find("//")
    return line if i < 0 else line[:i]

OPS = [
    (r'>=', '>'), (r'<=', '<'), (r'(?<![=!<>-])>(?![=>])', '>='), (r'(?<![=!<>])<(?![=<])', '<='),
    (r'==', '!='), (r'!=', '=='), (r'&&', '||'), (r'\|\|', '&&'),
    (r'\btrue\b', 'false'), (r'\bfalse\b', 'true'),
    (r'\bbreak\b', 'continue'), (r'\bcontinue\b', 'break'),
    (r'\+ 1\b', '+ 2'), (r'- 1\b', '- 2'), (r'\+ 1\b', ''), (r'- 1\b', ''),
    (r'\.is_empty\(\)', '.is_empty() == false'), (r'if !', 'if '), (r'\.is_some\(\)', '.is_none()'), (r'\.is_none\(\)', '.is_some()'),
    (r'\.first\(\)', '.last()'), (r'\.last\(\)', '.first()'), (r'\.rev\(\)', ''),
    (r'\.starts_with\(', '.ends_with('), (r'\.ends_with\(', '.starts_with('),
    (r'\.min\(', '.max('), (r'\.max\(', '.min('),
    (r'\.truncate\((\d+)\)', lambda m: f'.truncate({int(m.group(1)) + 1})'),
    (r'\b(\d+)\b', lambda m: str(int(m.group(1)) + 1)),
    (r'\b([1-9]\d*)\b', lambda m: str(int(m.group(1)) - 1)),
    (r'Ordering::Less', 'Ordering::Greater'), (r'Ordering::Greater', 'Ordering::Less'),
    (r'unwrap_or_default\(\)', 'unwrap()'),
]

def candidates(path, src):
    """yield (line_no, new_line, description)"""
    end = code_region(src)
    lines = src.split("\n")
    pos = 0
    in_generic = re.compile(r'(<[A-Za-z_&\' ,:\[\]]+>)|(->)|(=>)|(fn\s)|(impl\s)|(::<)')
    for i, line in enumerate(lines):
        start = pos; pos += len(line) + 1
        if start >= end: break
        code = strip_comment(line)
        s = code.strip()
        if not s or s.startswith(("#", "use ", "pub use", "mod ", "pub mod", "//", "///", "extern", "pub(crate) use")): continue
        if s.startswith(("pub const", "const", "pub(crate) const")) and "keycodes" in path: continue   # a table of 100+ numbers: sampled below
        # statement deletion: a lone method-call statement
        if re.match(r'^\s*(self\.)?[a-z_\.]+\.(clear|push|push_str|insert|remove|truncate|pop|sort|sort_unstable|dedup|retain|extend|clone_from)\b.*;\s*$', code) or re.match(r'^\s*\*?self\.[a-z_\.]+\s*=\s*[^=].*;\s*$', code):
            yield i, re.sub(r'\S.*$', '', line) + "/* mutant: statement removed */", f"delete statement `{s[:60]}`"
        for pat, rep in OPS:
            for m in re.finditer(pat, code):
                # skip generics / arrows / lifetimes for < and >
                if pat in (r'(?<![=!<>-])>(?![=>])', r'(?<![=!<>])<(?![=<])'):
                    if in_generic.search(code) or "Vec<" in code or "Option<" in code or "<'" in code or "::<" in code: continue
                # skip numbers inside string/char literals and hex
                if callable(rep) and (code.count('"', 0, m.start()) % 2 == 1 or code[max(0, m.start() - 2):m.start()] in ("0x",) or re.search(r"'\\?u?\{?[0-9A-Fa-f]*$", code[:m.start()])): continue
                if callable(rep) and re.search(r'[A-Za-z_\.]$', code[:m.start()]): continue   # part of an identifier / float / tuple field
                if not callable(rep) and code.count('"', 0, m.start()) % 2 == 1: continue
                new = code[:m.start()] + (rep(m) if callable(rep) else rep) + code[m.end():]
                if new == code: continue
                yield i, new + line[len(code):], f"`{m.group(0)}` -> `{rep(m) if callable(rep) else rep}` in `{s[:70]}`"

def gen(outdir, limit, files, seed):
    os.makedirs(outdir, exist_ok=True)
    if not os.path.isdir(WT):
        rc, out = sh(["git", "-C", REPO, "worktree", "add", "--detach", WT, "HEAD"]); assert rc == 0, out
    sh(["git", "checkout", "--", "."], cwd=WT)
    env = {"CARGO_TARGET_DIR": TARGET, "CARGO_NET_OFFLINE": "true"}
    rc, out = sh("cargo test --workspace --offline 2>&1 | tail -5", cwd=WT, env=env, timeout=3600)
    assert "test result: ok" in out, out
    allc = []
    for f in files:
        src = open(os.path.join(WT, f), encoding="utf-8").read()
        for (ln, new, desc) in candidates(f, src): allc.append((f, ln, new, desc))
    rng = random.Random(seed); rng.shuffle(allc)
    # spread over files: at most limit/len(files)*2 per file
    per = {}; chosen = []
    cap = int(os.environ.get("MUTATE_CAP", "0")) or max(4, 2 * limit // max(1, len(files)))
    for c in allc:
        if per.get(c[0], 0) >= cap: continue
        per[c[0]] = per.get(c[0], 0) + 1; chosen.append(c)
    index = []; idx_path = os.path.join(outdir, "index.json")
    if os.path.exists(idx_path): index = json.load(open(idx_path))
    seen = {(e["file"], e["line"], e["desc"]) for e in index}
    n_surv = sum(1 for e in index if e["status"] == "survived")
    tried = 0
    for (f, ln, new, desc) in chosen:
        if n_surv >= limit: break
        if (f, ln + 1, desc) in seen: continue
        p = os.path.join(WT, f)
        orig = open(p, encoding="utf-8").read()
        lines = orig.split("\n"); lines[ln] = new
        open(p, "w", encoding="utf-8").write("\n".join(lines))
        t0 = time.time()
        try:
            rc, out = sh("cargo test --workspace --offline --no-fail-fast 2>&1 | tail -40", cwd=WT, env=env, timeout=600)
            ok = ("test result: ok" in out) and ("FAILED" not in out) and ("error" not in out.split("test result")[0][-2000:] if "test result" in out else False)
            status = "survived" if ok else ("compile-error" if "error[" in out or "error:" in out and "test result" not in out else "killed-by-tests")
        except subprocess.TimeoutExpired:
            status = "timeout"
        tried += 1
        e = {"id": len(index), "file": f, "line": ln + 1, "desc": desc, "status": status, "secs": round(time.time() - t0, 1)}
        if status == "survived":
            rc, diff = sh(["git", "diff"], cwd=WT)
            open(os.path.join(outdir, f"{e['id']}.diff"), "w").write(diff)
            n_surv += 1
        index.append(e)
        open(p, "w", encoding="utf-8").write(orig)
        json.dump(index, open(idx_path, "w"), indent=1)
        print(f"[{e['id']}] {status:16s} {f}:{ln + 1} {desc}", flush=True)
    print(f"tried {tried}; survivors so far {n_surv}")

def run(outdir, only):
    idx_path = os.path.join(outdir, "index.json")
    index = json.load(open(idx_path))
    rc, out = sh(["git", "-C", REPO, "status", "--porcelain"]); assert out.strip() == "", "/repo is not clean: " + out
    for e in index:
        if e["status"] != "survived" or "result" in e and not only: continue
        if only and e["id"] not in only: continue
        props = FILE_PROPS.get(e["file"], ["C01"])
        rc, out = sh([sys.executable, os.path.join(VERIF, "tools", "seedtest.py"), os.path.join(outdir, f"{e['id']}.diff"), "--props", ",".join(props), "--stop-at-first"], cwd=VERIF, timeout=7200)
        caught = re.findall(r'^(C\d\d): (CAUGHT[^\n]*)', out, flags=re.M)
        e["result"] = "CAUGHT" if caught else "MISSED"
        e["by"] = [f"{p}: {w[:160]}" for p, w in caught][:3]
        e["checked"] = props
        json.dump(index, open(idx_path, "w"), indent=1)
        print(f"[{e['id']}] {e['result']:7s} {e['file']}:{e['line']} {e['desc']}  {e['by'][:1]}", flush=True)
    rc, out = sh(["git", "-C", REPO, "status", "--porcelain"]); assert out.strip() == "", "/repo left dirty: " + out

def clean():
    sh(["git", "-C", REPO, "worktree", "remove", "--force", WT]); sh(["git", "-C", REPO, "worktree", "prune"])
    sh(["rm", "-rf", TARGET])

if __name__ == "__main__":
    a = sys.argv[1:]
    if not a: print(__doc__); sys.exit(2)
    def opt(name, default=None):
        return a[a.index(name) + 1] if name in a else default
    if a[0] == "gen":
        files = (opt("--files") or ",".join(FILE_PROPS.keys())).split(",")
        gen(a[1], int(opt("--limit", "60")), files, int(opt("--seed", "1")))
    elif a[0] == "run":
        only = [int(x) for x in opt("--only", "").split(",") if x]
        run(a[1], only)
    elif a[0] == "clean":
        clean()
