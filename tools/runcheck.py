#!/usr/bin/env python3
"""One property check: ./check Cxx [--tier quick|thorough] [--replay file]

Pipeline (DESIGN §2.3): translate → lake build Props.Cxx + driver → axiom/sorry audit →
cargo build harness against /repo's working tree → harness streams (real library + property
oracles, traces) → Lean driver validates every trace against the model → verdict, evidence.
"""
import os, sys, re, json, time, subprocess, fcntl, glob, hashlib, shutil, argparse
from concurrent.futures import ThreadPoolExecutor

VERIF = os.path.dirname(os.path.dirname(os.path.abspath(__file__)))
LEAN = os.path.join(VERIF, "lean")
HARNESS = os.path.join(VERIF, "harness")
OUT = os.path.join(VERIF, "out")
DRIVER = os.path.join(LEAN, ".lake", "build", "bin", "driver")
HBIN = os.path.join(HARNESS, "target", "release", "riti-harness")
ALLOWED_AXIOMS = {"propext", "Classical.choice", "Quot.sound"}

# property → streams run by the harness, translator items the theorems depend on, extra Lean modules
PROPS = {
    "C01": dict(streams=["c01", "c12", "c13"], items=["keycodes", "layoutkeys", "charclasses", "rankcmp", "okkhor", "okkhorregex", "panicsites"]),
    "C02": dict(streams=["c01"], items=["keycodes", "layoutkeys", "charclasses", "rankcmp", "okkhor", "okkhorregex"]),
    "C05": dict(streams=["c05"], items=["keycodes", "charclasses", "rankcmp", "okkhor", "okkhorregex"]),
    "C06": dict(streams=["c06", "c01"], items=["keycodes", "layoutkeys", "charclasses", "rankcmp", "okkhor", "okkhorregex"]),
    "C07": dict(streams=["c07"], items=["keycodes", "charclasses", "rankcmp", "okkhor", "okkhorregex"]),
    "C08": dict(streams=["c07"], items=["keycodes", "charclasses", "rankcmp", "okkhor", "okkhorregex"]),
    "C09": dict(streams=["c09"], items=["keycodes", "charclasses", "rankcmp", "okkhor", "okkhorregex"]),
    "C10": dict(streams=["c10"], items=["keycodes", "charclasses", "rankcmp", "okkhor", "okkhorregex"]),
    "C11": dict(streams=["c11"], items=["keycodes", "layoutkeys", "charclasses", "rankcmp", "okkhor", "okkhorregex"]),
    "C15": dict(streams=["c15"], items=["keycodes", "layoutkeys", "charclasses", "rankcmp"]),
    "C16": dict(streams=["c16"], items=["keycodes", "layoutkeys", "charclasses", "rankcmp", "okkhor", "okkhorregex", "bijoy"]),
    "C17": dict(streams=["c17"], items=["keycodes", "layoutkeys", "charclasses", "rankcmp", "okkhor", "okkhorregex"]),
    "C18": dict(streams=["c18"], items=["keycodes", "layoutkeys", "charclasses", "rankcmp", "okkhor", "okkhorregex", "emojicon"]),
    "C19": dict(streams=["c19"], items=["keycodes", "layoutkeys", "charclasses", "rankcmp", "okkhor", "okkhorregex"], prebuild="ffi/build.sh"),
    "C12": dict(streams=["c12"], items=["keycodes", "layoutkeys", "charclasses"]),
    "C13": dict(streams=["c13"], items=["keycodes", "layoutkeys", "charclasses"]),
    "C14": dict(streams=["c14"], items=["keycodes", "layoutkeys", "charclasses"]),
    "C03": dict(streams=["c03"], items=["keycodes", "charclasses", "okkhor", "okkhorregex"]),
    "C04": dict(streams=["c04"], items=["keycodes", "layoutkeys", "charclasses"]),
}

TRUSTED_BASE = [
    "Lean 4.33 kernel (lake build of RitiModel.Props.<id>); axioms per theorem audited with #print axioms: subset of {propext, Classical.choice, Quot.sound}; no native_decide, no sorry/admit, no axioms of our own",
    "tools/translate.py: reads the regular shape of the Rust items it names (constants, match arms, string literals) into Lean tables; fails loudly otherwise",
    "correspondence check: hand-written Lean model agrees with the real library on the traces run (harness/ + lean/Driver); reach bounded by the generators, complete where the space is finite",
    "modelled and re-validated on every run (each trace line carrying their result is recomputed by the Lean model): okkhor's transliterator and regex generator, matching of the regex fragment used (not the compile-size limit of the regex crate), serde_json for a map of strings and for a layout / data file (Value reader, the layout member, from_value; not: the f64 range test of numbers — such documents are answered unsupportedNumber and not compared), poriborton's Bijoy encoder; complete-domain comparison (stream tie) of the key maps and Rank::cmp",
    "parameters of the model (not verified): the OS and file system (files appear as absent / unreadable / parsed + mtime), HashMap as a finite map, slice::sort as the stable sort, sort_unstable as some sorting permutation, the data files; the emojicon tables are parameters of the general theorems, for C18 they are instantiated (Props/EmojiTables) with the tables tools/translate.py reads from the crate's source (item emojicon), which the driver compares entry by entry with the tables the compiled crate serves on every trace",
]

def sh(cmd, cwd=None, timeout=None, env=None):
    e = dict(os.environ)
    e.update({"CARGO_NET_OFFLINE": "true"})
    if env: e.update(env)
    p = subprocess.run(cmd, cwd=cwd, shell=isinstance(cmd, str), stdout=subprocess.PIPE, stderr=subprocess.STDOUT, text=True, timeout=timeout, env=e)
    return p.returncode, p.stdout

class Lock:
    def __init__(self, name): self.path = os.path.join(VERIF, f".{name}.lock")
    def __enter__(self):
        self.f = open(self.path, "w"); fcntl.flock(self.f, fcntl.LOCK_EX); return self
    def __exit__(self, *a):
        fcntl.flock(self.f, fcntl.LOCK_UN); self.f.close()

def strip_lean_comments(src):
    src = re.sub(r'/-.*?-/', '', src, flags=re.S)
    src = re.sub(r'--.*', '', src)
    return src

# further theorem modules owned by a property: (file under RitiModel/, namespace, lake module)
REAL = (os.path.join("Props", "RealEnv.lean"), "Real", "RitiModel.Props.RealEnv")
# the model's row-by-row edit distance IS the Levenshtein distance (= cost of the cheapest edit script); rank of a completion
EDIT = (os.path.join("Props", "EditDistance.lean"), "EditDistance", "RitiModel.Props.EditDistance")
# the modelling step "slice::sort = insertion sort" justified: a stable sort is unique; sort_unstable agrees with it up to ties
SORT = (os.path.join("Props", "SortSpec.lean"), "SortSpec", "RitiModel.Props.SortSpec")
EXTRA = {
    "C06": [(os.path.join("Props", "C06Phonetic.lean"), "C06P", "RitiModel.Props.C06Phonetic"),
            (os.path.join("Props", "C06Fixed.lean"), "C06F", "RitiModel.Props.C06Fixed")],
    # the dictionary look-up (regex generator, reader, matcher) inside the model
    "C07": [(os.path.join("Props", "Regex.lean"), "Regex", "RitiModel.Props.Regex"), EDIT, SORT],
    "C08": [(os.path.join("Props", "Regex.lean"), "Regex", "RitiModel.Props.Regex"),
            (os.path.join("Props", "RegexTotal.lean"), "Regex", "RitiModel.Props.RegexTotal"),
            (os.path.join("Props", "RegexFast.lean"), "Regex", "RitiModel.Props.RegexFast"), REAL],
    "C16": [(os.path.join("Props", "Bijoy.lean"), "Bijoy", "RitiModel.Props.Bijoy"), REAL],
    # the parameters instantiated with the real transliterator / dictionary look-up / encoder (provisos discharged to the data files)
    # C18 also: the bundled emojicon tables inside the model (translator item `emojicon`), kernel-checked facts about them and the C18
    # theorems instantiated on them; the driver compares the generated tables with what the compiled crate serves (`MISMATCH emoji-table`)
    "C03": [REAL], "C17": [REAL], "C18": [REAL, SORT, (os.path.join("Props", "EmojiTables.lean"), "EmojiTables", "RitiModel.Props.EmojiTables")], "C19": [REAL],
    # the fixed-method dictionary pattern ^clean[class]{0,n}$: the model's direct characterisation is its language
    # vowels typed with their SIGN keys under the old vowel-sign order (exact conditions, witnesses for the boundary cases)
    "C14": [(os.path.join("Props", "C14Signs.lean"), "C14Signs", "RitiModel.Props.C14Signs")],
    # when the caller's selection byte can fall outside the list: only when the key changes the word part (the colon) or an emoticon is involved
    "C02": [(os.path.join("Props", "C02Selection.lean"), "C02Selection", "RitiModel.Props.C02Selection")],
    "C15": [(os.path.join("Props", "FixedRegex.lean"), "FixedRegex", "RitiModel.Props.FixedRegex"), EDIT, SORT],
    # the JSON fragment of the per-user files (reader, writer, UTF-8 layer, crash points of the save)
    "C09": [(os.path.join("Props", "Json.lean"), "Json", "RitiModel.Props.Json")],
    "C10": [(os.path.join("Props", "Json.lean"), "Json", "RitiModel.Props.Json")],
    # the layout FILE inside the model: serde_json's Value reader, v["layout"], from_value::<HashMap<String,String>>, and the
    # C04 theorems with the layout parameter instantiated by the map read from the file
    "C04": [(os.path.join("Props", "Layout.lean"), "Layout", "RitiModel.Props.Layout")],
}
# kernel-checked sample modules (examples only): built with the property, the dictionary ones only in the thorough tier
SAMPLES = {"C16": (["RitiModel.Props.BijoySamples"], ["RitiModel.Props.BijoySamplesDict", "RitiModel.Props.BijoySamplesDict2"])}

# translator items whose table is ALSO compared with the implementation on its complete (finite) domain by stream `tie`
DYNAMIC_TIE = {"keycodes", "layoutkeys", "rankcmp"}
# definitions of Gen/CharClasses.lean that the class sweep of stream c12 observes completely (Bengali block + printable ASCII + joiners)
CC_DYNAMIC = {"vowelSet", "karSet", "pureConsonantSet", "marksSet", "ligatureKarSet"}
# translator items that only feed RitiModel/Tie.lean (literals of the hand-written model)
SOFT_TIE = {"logicconsts"}

# which theorems of RitiModel/Tie.lean matter to which property: by the part of the model the property's theorems are about
_TIE_PH = {"last_rank_numbers", "length_guards", "joining_characters", "emoji_rank_starts", "char_classes_are_spec"}      # phonetic candidate list
_TIE_FL = {"fixed_truncation", "emoji_rank_starts"}                                                 # fixed candidate list
_TIE_PKV = {"sign_vowel_tables", "special_values", "char_classes_are_spec"}                                                  # process_key_value
_TIE_LOCAL = {"C03": _TIE_PH, "C04": _TIE_PKV, "C07": _TIE_PH, "C08": _TIE_PH, "C09": _TIE_PH, "C12": _TIE_PKV, "C13": _TIE_PKV,
              "C14": _TIE_PKV, "C15": _TIE_FL | _TIE_PKV}
def tie_scope(pid):
    """properties about whole histories of the whole engine (C01 C02 C05 C06 C10 C11 C16 C17 C18 C19) depend on every literal"""
    return _TIE_LOCAL.get(pid, _TIE_PH | _TIE_FL | _TIE_PKV)

# which definitions of Gen/CharClasses.lean matter to which property (same idea as tie_scope)
_CC_PKV = {"vowelSet", "karSet", "pureConsonantSet", "marksSet", "ligatureKarSet", "leftStandingKarSet"}          # process_key_value, reph, kar order
_CC_PH = {"metaSet", "vowelSet", "karSet", "punctOverrideSet", "phoneticFirstLetterTable"}                         # phonetic list, joining, selection override
_CC_FS = {"cleanSet", "regexClassSet", "needCharsUpto", "fixedFirstCharTable", "metaSet"}                          # fixed dictionary search
_CC_LOCAL = {"C03": {"metaSet"}, "C04": _CC_PKV, "C07": _CC_PH, "C08": _CC_PH, "C09": _CC_PH, "C12": _CC_PKV, "C13": _CC_PKV,
             "C14": _CC_PKV, "C15": _CC_PKV | _CC_FS}
def cc_scope(pid):
    return _CC_LOCAL.get(pid, _CC_PKV | _CC_PH | _CC_FS)

def theorems_of(pid):
    out = []
    for mod, ns in [(os.path.join("Props", f"{pid}.lean"), pid), ("Tie.lean", "Tie")] + [(m, n) for m, n, _ in EXTRA.get(pid, [])]:
        src = strip_lean_comments(open(os.path.join(LEAN, "RitiModel", mod), encoding="utf-8").read())
        out += [f"Riti.{ns}.{m}" for m in re.findall(r'^\s*theorem\s+([^\s\(\[\{:]+)', src, flags=re.M)]
    return out

def forbidden_tokens():
    """sorry/admit/axiom/native_decide/… outside comments, in every .lean file of the project"""
    hits = []
    for f in glob.glob(os.path.join(LEAN, "RitiModel", "**", "*.lean"), recursive=True) + glob.glob(os.path.join(LEAN, "Driver", "*.lean")):
        src = strip_lean_comments(open(f, encoding="utf-8").read())
        for m in re.finditer(r'\bsorry\b|\badmit\b|^\s*axiom\s|\bnative_decide\b|\bbv_decide\b|implemented_by|\bunsafe\s|maxHeartbeats\s+0', src, flags=re.M):
            if "Driver" in f and m.group(0).strip() in ("unsafe",): continue
            hits.append(f"{os.path.relpath(f, VERIF)}: {m.group(0).strip()}")
    return hits

def audit(pid, skip=frozenset()):
    """returns (ok, [{name, axioms}], problems)"""
    ths = theorems_of(pid)
    if skip: ths = [t for t in ths if not t.startswith("Riti.Tie.")]
    else: ths = [t for t in ths if not t.startswith("Riti.Tie.") or t[len("Riti.Tie."):] in tie_scope(pid)]
    tmp = os.path.join(OUT, pid, "audit.lean")
    with open(tmp, "w") as f:
        f.write(f"import RitiModel.Props.{pid}\n" + ("" if skip else "import RitiModel.Tie\n") + "".join(f"import {m}\n" for _, _, m in EXTRA.get(pid, [])))
        for t in ths: f.write(f"#print axioms {t}\n")
    rc, out = sh(["lake", "env", "lean", tmp], cwd=LEAN, timeout=900)
    res = []; problems = []
    if rc != 0: problems.append("audit file does not elaborate: " + out[-400:])
    text = out.replace("\n  ", " ")
    for t in ths:
        m = re.search(r"'" + re.escape(t) + r"' (does not depend on any axioms|depends on axioms: \[([^\]]*)\])", text)
        if not m:
            problems.append(f"no #print axioms result for {t}"); continue
        ax = [a.strip() for a in (m.group(2) or "").split(",") if a.strip()]
        res.append({"name": t, "axioms": ax})
        bad = [a for a in ax if a not in ALLOWED_AXIOMS]
        if bad: problems.append(f"{t} depends on {bad}")
    problems += [f"forbidden token {h}" for h in forbidden_tokens()]
    return (not problems), res, problems

def load_known():
    known = []; fixed = []
    p = os.path.join(VERIF, "known_findings.txt")
    if os.path.exists(p):
        for line in open(p, encoding="utf-8"):
            line = line.strip()
            if not line or line.startswith("#"): continue
            m = re.match(r'known: property=(\w+) class=(\S+)\s*(.*)', line)
            if m: known.append((m.group(1), m.group(2), m.group(3)))
            m = re.match(r'fixed: property=(\w+) (\w+)\s*(.*)', line)
            if m: fixed.append((m.group(1), m.group(2), m.group(3)))
    return known, fixed

def run_driver(trace):
    rc, out = sh([DRIVER, trace], timeout=3600)
    summ = None; mism = []
    for l in out.splitlines():
        if l.startswith("SUMMARY "):
            try: summ = json.loads(l[8:])
            except Exception: pass
        elif l.startswith("MISMATCH"): mism.append(l)
    if summ is None:
        mism.append(f"MISMATCH driver produced no summary for {trace}: {out[-300:]}")
        summ = {"cases": 0, "ops": 0, "mismatches": 1, "missing": 0, "counters": {}}
    return trace, summ, mism

def main():
    ap = argparse.ArgumentParser()
    ap.add_argument("pid")
    ap.add_argument("--tier", default=os.environ.get("VERIF_TIER", "quick"))
    ap.add_argument("--replay")
    ap.add_argument("--keep", action="store_true", help="keep traces")
    a = ap.parse_args()
    pid = a.pid.upper()
    tier = "thorough" if a.tier == "thorough" else "quick"
    try: seed = int(os.environ.get("VERIF_SEED", "1"))
    except ValueError: seed = 1
    if pid not in PROPS:
        print(f"unknown property {pid}"); sys.exit(2)
    cfg = PROPS[pid]
    t0 = time.time()
    outdir = os.path.join(OUT, pid)
    shutil.rmtree(outdir, ignore_errors=True)
    os.makedirs(outdir, exist_ok=True)
    os.makedirs(os.path.join(VERIF, "evidence"), exist_ok=True)
    os.makedirs(os.path.join(VERIF, "replays"), exist_ok=True)
    broken = []          # names of proof obligations / ties that no longer check
    log = []
    fallback = []; extra_notes = []
    streams = list(cfg["streams"])
    if any(i in DYNAMIC_TIE for i in cfg["items"]) and "tie" not in streams: streams.append("tie")

    # 1–3: translator, Lean build, audit (serialised: they share lean/.lake)
    with Lock("lean"):
        rc, out = sh([sys.executable, os.path.join(VERIF, "tools", "translate.py")])
        try: tr = json.loads(out.strip().splitlines()[0])
        except Exception: tr = {"changed": [], "failed": [{"item": "translator", "why": out[-300:]}]}
        for f in tr.get("failed", []):
            it = f["item"]
            if it in DYNAMIC_TIE and it in cfg["items"]:
                # the table of the last successful translation stays in place; stream `tie` (always run for these items)
                # compares it with the implementation on the COMPLETE domain: agreement there = the table is still right
                fallback.append(it); extra_notes.append(f"translator could not read item {it} ({f['why'][:120]}): decided by the complete-domain correspondence of stream tie instead")
            elif it in SOFT_TIE:
                # bonus tie of literals the hand-written model hard-codes: unreadable source shape = this extra tie is
                # unavailable, the literals remain covered by the correspondence streams (a literal that is READ and differs
                # still breaks a theorem of RitiModel/Tie.lean)
                extra_notes.append(f"tie of model literals unavailable: translator could not read {it} ({f['why'][:120]})")
            elif it.startswith("charclasses."):
                # one definition of Gen/CharClasses.lean kept its previous value: counts for the properties whose theorems use it
                sub = it.split(".", 1)[1]
                if "charclasses" in cfg["items"] and sub in cc_scope(pid) and sub in CC_DYNAMIC:
                    # these five sets are observable in the fixed method one code point at a time: the class sweep of stream c12 RUNS the
                    # implementation with every assigned code point of the Bengali block, the joiners and every printable ASCII character as
                    # the previous character and as the value, under the 16 helper settings, and the driver replays every case on the model
                    # (built with the set of the last successful translation): agreement there = that set is still the set of the code on
                    # that domain; a disagreement is a correspondence mismatch with the key history as input
                    fallback.append(it); extra_notes.append(f"translator could not read {it} ({f['why'][:120]}): decided by the class sweep of stream c12 (every code point of the Bengali block + printable ASCII, as previous character and as value) instead")
                    if "c12" not in streams: streams.append("c12")
                elif "charclasses" in cfg["items"] and sub in cc_scope(pid): broken.append(f"translator:{it} ({f['why']})")
                else: extra_notes.append(f"translator could not read {it} ({f['why'][:100]}); the theorems of {pid} do not depend on it")
            elif it in cfg["items"] or it == "translator" or (it == "panicsites" and pid == "C01"):
                broken.append(f"translator:{it} ({f['why']})")
        log.append(f"translate: changed={tr.get('changed')} failed={[f['item'] for f in tr.get('failed', [])]}")
        targets = [f"RitiModel.Props.{pid}", "driver"] + [m for _, _, m in EXTRA.get(pid, [])]
        if pid in SAMPLES: targets += SAMPLES[pid][0] + (SAMPLES[pid][1] if tier == "thorough" else [])
        rc, out = sh(["lake", "build"] + targets, cwd=LEAN, timeout=3000)
        theorems = []
        if rc != 0:
            errs = [l for l in out.splitlines() if l.startswith("error:")]
            # which theorem? take the line numbers of the errors in the Props file
            names = set()
            for l in errs:
                m = re.match(r'error: (\S+?):(\d+):\d+', l)
                if m and os.path.exists(os.path.join(LEAN, m.group(1))):
                    src = open(os.path.join(LEAN, m.group(1)), encoding="utf-8").read().splitlines()
                    ln = int(m.group(2))
                    for k in range(min(ln, len(src)) - 1, -1, -1):
                        mm = re.match(r'\s*(theorem|example|def|lemma)\s+([\w\.\']+)?', src[k])
                        if mm: names.add(f"{m.group(1)}:{mm.group(2) or 'example@' + str(k + 1)}"); break
            broken.append("theorem:" + (",".join(sorted(names)) if names else "lake build failed: " + (errs[0] if errs else out[-300:])))
            log.append("lake build FAILED:\n" + "\n".join(errs[:20]))
            driver_ok = os.path.exists(DRIVER) and sh(["lake", "build", "driver"], cwd=LEAN, timeout=3000)[0] == 0
        else:
            driver_ok = True
            # RitiModel/Tie.lean (model literals against the regenerated constants) is built on its own: a theorem of it that
            # fails counts for this property only when the property's theorems depend on that part of the model
            rc_t, out_t = sh(["lake", "build", "RitiModel.Tie"], cwd=LEAN, timeout=3000)
            tie_failed = set()
            if rc_t != 0:
                tsrc = open(os.path.join(LEAN, "RitiModel", "Tie.lean"), encoding="utf-8").read().splitlines()
                for l in out_t.splitlines():
                    m = re.match(r'error: RitiModel/Tie\.lean:(\d+):\d+', l)
                    if not m: continue
                    for k in range(min(int(m.group(1)), len(tsrc)) - 1, -1, -1):
                        mm = re.match(r'\s*theorem\s+([\w\.\']+)', tsrc[k])
                        if mm: tie_failed.add(mm.group(1)); break
                if not tie_failed: broken.append("theorem:RitiModel/Tie.lean does not build: " + out_t[-300:])
            in_scope = sorted(t for t in tie_failed if t in tie_scope(pid))
            if in_scope: broken.append("theorem:RitiModel/Tie.lean:" + ",".join(in_scope) + " (a literal of the hand-written model differs from the constant read from the source)")
            for t in sorted(tie_failed - set(in_scope)): extra_notes.append(f"Tie.{t} no longer checks; the theorems of {pid} do not depend on that part of the model")
            ok, theorems, problems = audit(pid, skip=tie_failed)
            if not ok: broken.append("audit:" + "; ".join(problems)[:500])
            # thorough tier: the compiled modules of this property are re-checked by leanchecker, the toolchain's independent
            # re-checker of .olean files (replays every declaration through the kernel, outside lake/the elaborator)
            if tier == "thorough" and shutil.which("leanchecker"):
                mods = [f"RitiModel.Props.{pid}"] + [m for _, _, m in EXTRA.get(pid, [])]
                t0 = time.time()
                rc_c, out_c = sh(["lake", "env", "leanchecker"] + mods, cwd=LEAN, timeout=3000)
                if rc_c != 0: broken.append("theorem:leanchecker rejects " + " ".join(mods) + ": " + out_c[-300:])
                else: extra_notes.append(f"leanchecker re-checked {' '.join(mods)} ({time.time() - t0:.0f}s)")
    # 4: harness
    with Lock("cargo"):
        rc, out = sh(["cargo", "build", "--release", "--offline"], cwd=HARNESS, timeout=3000)
    harness_ok = rc == 0
    if harness_ok and cfg.get("prebuild"):
        with Lock("cargo"):
            rc2, out2 = sh(cfg["prebuild"], cwd=VERIF, timeout=3000)
        if rc2 != 0:
            broken.append("prebuild failed: " + out2[-400:])
    if not harness_ok:
        broken.append("harness-build: " + "\n".join([l for l in out.splitlines() if l.startswith("error")][:5]))
        log.append(out[-2000:])

    # --replay <file>: first show the recorded events against the real library (every observation), then run the check as usual
    if a.replay and harness_ok:
        try: rj = json.load(open(a.replay, encoding="utf-8"))
        except Exception as e: rj = None; print(f"  replay file unreadable: {e}")
        if rj is not None:
            if rj.get("no_longer_checks"):
                print("  replay: no failing input was recorded; what no longer checked: " + "; ".join(rj["no_longer_checks"])[:600])
                if rj.get("first_disagreement"): print("  first disagreement: " + json.dumps(rj["first_disagreement"], ensure_ascii=False)[:600])
            else:
                print(f"  replay of {a.replay}: {rj.get('class')}: {str(rj.get('what'))[:300]}")
                rc_r, out_r = sh([HBIN, "replay", a.replay, "--out", os.path.join(outdir, "replay")], timeout=600)
                for l in out_r.splitlines()[:200]: print("    " + l)
    # 5: streams
    reports = []; traces = []; crash_violations = []
    if harness_ok:
        for s in streams:
            cmd = [HBIN, s, "--tier", tier, "--seed", str(seed), "--out", outdir]
            rc, out = sh(cmd, timeout=6 * 3600)
            log.append(f"stream {s}: rc={rc} {out.strip().splitlines()[-1] if out.strip() else ''}")
            rp = os.path.join(outdir, f"{s}.report.json")
            if rc != 0 or not os.path.exists(rp):
                # the stream process died (abort / stack overflow inside the library) or its watchdog fired (a call that
                # never returns): re-run it in journal mode, where every call is written and flushed before it is made
                jdir = os.path.join(outdir, f"journal-{s}")
                shutil.rmtree(jdir, ignore_errors=True)
                rc2, out2 = sh(cmd, timeout=6 * 3600, env={"RITI_HARNESS_JOURNAL": jdir})
                found = None
                for jf in sorted(glob.glob(os.path.join(jdir, "*.journal")), key=os.path.getmtime, reverse=True):
                    lines = [l for l in open(jf, encoding="utf-8", errors="replace").read().splitlines() if l.strip()]
                    if len(lines) >= 2 and lines[-1] != "ok" and not lines[-1].startswith(("layout=", "(continued")):
                        found = {"context": [l for l in lines if l.startswith(("layout=", "(continued"))], "events": [l for l in lines if l != "ok" and not l.startswith(("layout=", "(continued"))], "last_call_never_returned": lines[-1]}
                        break
                what = ("watchdog: a library call did not return" if (rc == 97 or rc2 == 97) else f"the process running the library died (exit {rc})") + ": " + out.strip().splitlines()[-1][:200] if out.strip() else ""
                if found:
                    crash_violations.append({"property": pid, "class": "process-abort-or-hang", "what": what + f" — last call: {found['last_call_never_returned']} in {found['context'][:1]}", "replay": {"stream": s, **found}})
                else:
                    broken.append(f"harness-stream:{s} failed (rc={rc}) and the journal re-run did not locate the call: {out[-300:]}")
                shutil.rmtree(jdir, ignore_errors=True)
                continue
            reports.append(json.load(open(rp, encoding="utf-8")))
            traces += sorted(glob.glob(os.path.join(outdir, f"{s}.*.trace")) + glob.glob(os.path.join(outdir, f"{s}.trace")))

    # 6: correspondence
    ops = 0; cases = 0; counters = {}; mismatches = []
    if driver_ok and traces:
        with ThreadPoolExecutor(max_workers=16) as ex:
            for trace, summ, mism in ex.map(run_driver, traces):
                ops += summ["ops"]; cases += summ["cases"]
                for k, v in summ.get("counters", {}).items(): counters[k] = counters.get(k, 0) + v
                if summ.get("missing", 0): mism.append(f"MISMATCH {summ['missing']} model look-ups had no table entry in {os.path.basename(trace)}")
                # the tie of the GENERATED emojicon tables (translator item `emojicon`) with the tables the compiled crate serves is part of
                # every trace (the `load` lines), but only the theorems of C18 (Props/EmojiTables) are about the generated tables: for the
                # other properties the model runs on the served tables, so a difference there is a note, not a broken tie
                if pid != "C18":
                    et = [m for m in mism if m.startswith("MISMATCH emoji-table")]
                    if et:
                        mism = [m for m in mism if not m.startswith("MISMATCH emoji-table")]
                        note = f"the generated emojicon tables differ from the tables the compiled crate serves ({len(et)} lines, e.g. {et[0][:160]}); the theorems of {pid} do not depend on the generated tables (counts for C18)"
                        if note not in extra_notes and not any(n.startswith("the generated emojicon tables differ") for n in extra_notes): extra_notes.append(note)
                mismatches += [(trace, m) for m in mism]
        if mismatches:
            broken.append(f"correspondence:{streams} {len(mismatches)} lines differ, first: {mismatches[0][1][:400]}")
    elif not driver_ok:
        broken.append("driver does not build")

    # 7: verdict
    known, fixed = load_known()
    viol = [v for r in reports for v in r["violations"] if v["property"] == pid] + crash_violations
    new = []; known_hit = {}
    for v in viol:
        k = next((x for x in known if x[0] == pid and x[1] == v["class"]), None)
        if k: known_hit.setdefault(k[1], (k, v))
        else: new.append(v)
    exit_code = 0
    lines = []
    for cls, (k, v) in sorted(known_hit.items()):
        lines.append(f"KNOWN-FINDING: property={pid} {cls}: {k[2]} (e.g. {v['what'][:160]})")
    replay_written = None
    if new:
        v = new[0]
        h = hashlib.sha1(json.dumps(v["replay"], sort_keys=True).encode()).hexdigest()[:10]
        rp = os.path.join(VERIF, "replays", f"{pid}-{h}.json")
        json.dump({"property": pid, "class": v["class"], "what": v["what"], "replay": v["replay"], "broken": broken,
                   "other_violations": [x["what"] for x in new[1:10]]}, open(rp, "w", encoding="utf-8"), ensure_ascii=False, indent=1)
        lines.append(f"VIOLATION property={pid} replay={rp}")
        replay_written = rp; exit_code = 1
    elif broken:
        h = hashlib.sha1("\n".join(broken).encode()).hexdigest()[:10]
        rp = os.path.join(VERIF, "replays", f"{pid}-broken-{h}.json")
        first_mis = None
        if mismatches:
            first_mis = {"trace": mismatches[0][0], "line": mismatches[0][1]}
            # keep the trace that disagrees next to the replay
            try:
                keep = os.path.join(VERIF, "replays", f"{pid}-broken-{h}.trace")
                shutil.copy(mismatches[0][0], keep); first_mis["trace"] = keep
            except Exception: pass
        json.dump({"property": pid, "no_longer_checks": broken, "first_disagreement": first_mis,
                   "note": "the property oracle found no failing input on the implementation; the theorem/correspondence named here no longer checks, so the property is no longer shown to hold"},
                  open(rp, "w", encoding="utf-8"), ensure_ascii=False, indent=1)
        lines.append(f"VIOLATION property={pid} replay={rp} no-failing-input-found")
        replay_written = rp; exit_code = 1

    # 8: evidence
    # stream tie compares model and implementation on complete domains; its cases are not evaluations of this property's oracle
    evaluations = sum(r["evaluations"] for r in reports if r.get("stream") != "tie")
    tie_cases = sum(r["evaluations"] for r in reports if r.get("stream") == "tie")
    nontrivial = sum(r["distinct_nontrivial"] for r in reports)
    samples = [s for r in reports for s in r["samples"]][:6]
    dist = {}
    for r in reports:
        for k, v in r["distribution"].items(): dist[f"{r['stream']}:{k}"] = v
    ev = {
        "property_id": pid, "tier": tier, "seed": seed, "level": "proof",
        "coverage": {
            "obligations": max(len(theorems), 1) if not any(b.startswith("theorem:") for b in broken) else len(theorems_of(pid)),
            "discharged": len(theorems) if not any(b.startswith(("theorem:", "audit:")) for b in broken) else 0,
            "checker_cmd": f"cd lean && lake build RitiModel.Props.{pid} && lake env lean <#print axioms of every theorem>  (run by ./check {pid})",
            "trusted_base": TRUSTED_BASE,
            "theorems": theorems,
            "partial_theorems": [t["name"] for t in theorems if "_partial" in t["name"]],
            "partial_note": "theorems named *_partial are the strongest true restriction of a clause whose full-strength statement is false of the code; each comes with a proved counter-example (witness) in the same file and a known_findings.txt class",
            "evaluations": evaluations, "distinct_nontrivial": nontrivial, "complete_domain_cases_stream_tie": tie_cases,
            "rule": "evaluations = inputs/histories run against the real library by the property oracle; distinct_nontrivial = distinct cases (hashed) that exercise a non-default behaviour as defined per stream in harness/src/streams",
            "samples": samples if samples else [{"theorems": [t["name"] for t in theorems][:5]}],
            "traces_validated_against_impl": len(traces),
            "model_ops_replayed": ops, "model_cases": cases, "model_counters": counters,
            "correspondence_mismatches": len(mismatches),
            "distribution": dist,
            "exhaustive": all(r.get("exhaustive", False) for r in reports) if reports else False,
            "slowest_event_s": max([r.get("slowest_event_s", 0) for r in reports] + [0]),
            "known_findings_seen": sorted(known_hit.keys()),
            "broken": broken,
            "notes": [n for r in reports for n in r.get("notes", [])] + extra_notes,
            "translator_fallback": fallback,
        },
        "assumptions": ["see coverage.trusted_base", "layout files have the documented shape; commit indices are inside the displayed list (in-contract calls)"],
        "wall_s": round(time.time() - t0, 2),
        "violations": len(new) + (1 if (broken and not new) else 0),
    }
    json.dump(ev, open(os.path.join(VERIF, "evidence", f"{pid}.json"), "w", encoding="utf-8"), ensure_ascii=False, indent=1)
    if not a.keep and exit_code == 0:
        for t in traces:
            try: os.remove(t)
            except OSError: pass
        shutil.rmtree(os.path.join(outdir, "tsv"), ignore_errors=True)
    for l in log: print("  " + l.replace("\n", "\n  "))
    print(f"  theorems checked: {len(theorems)}; oracle evaluations: {evaluations}; model ops replayed: {ops}; mismatches: {len(mismatches)}; wall {ev['wall_s']}s")
    for n in extra_notes: print("  note: " + n)
    for l in lines: print(l)
    if exit_code == 0: print(f"OK property={pid} tier={tier}")
    sys.exit(exit_code)

if __name__ == "__main__":
    main()
