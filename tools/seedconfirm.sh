#!/bin/bash
# confirm a seeded change delivered in <worktree>/_seed: patch compiles + 43 tests pass; demo fails with it, passes without.
# usage: seedconfirm.sh <worktree> <name>   → copies the material to /verif/seeded/<name>/ when confirmed
set -u
WT=$1; NAME=$2; S=$WT/_seed
CF=/tmp/cf-$NAME
export CARGO_NET_OFFLINE=true CARGO_TARGET_DIR=/tmp/cf-target
git -C /repo worktree remove --force $CF >/dev/null 2>&1
git -C /repo worktree add --detach $CF HEAD >/dev/null 2>&1 || { echo "cannot create worktree"; exit 2; }
cd $CF
res() { grep -E "^test result" | awk '{p+=$4; f+=$6} END{print p" passed "f" failed"}'; }
git apply $S/patch.diff || { echo "PATCH DOES NOT APPLY"; exit 1; }
A=$(cargo test --offline 2>&1 | res); echo "with patch, suite: $A"
if [ -f $S/demo.diff ]; then git apply $S/demo.diff || { echo "DEMO DOES NOT APPLY"; exit 1; }; fi
B=$(cargo test --offline 2>&1 | res); echo "with patch + demo: $B"
git apply -R $S/patch.diff || { echo "cannot reverse patch"; exit 1; }
C=$(cargo test --offline 2>&1 | res); echo "demo only (no patch): $C"
cd /; git -C /repo worktree remove --force $CF
# the crate's own test_data_dir_linux points XDG_DATA_HOME at /non/existent for the whole test process: a demonstration that creates its
# user directory there would leave a learned-selection store behind that every later test run reads
[ -d /non/existent ] && rm -rf /non/existent
case "$A" in "43 passed 0 failed") ;; *) echo "NOT CONFIRMED: suite does not pass with the patch"; exit 1;; esac
case "$B" in *" 0 failed") echo "NOT CONFIRMED: demo does not fail with the patch"; exit 1;; esac
case "$C" in *" 0 failed") ;; *) echo "NOT CONFIRMED: demo fails without the patch"; exit 1;; esac
mkdir -p /verif/seeded/$NAME; cp -r $S/* /verif/seeded/$NAME/
echo "CONFIRMED -> /verif/seeded/$NAME  (suite: $A | patch+demo: $B | demo only: $C)"
