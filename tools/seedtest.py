#!/usr/bin/env python3
"""Apply a patch to /repo's working tree, run the quick checks of the given properties (default: all
claimed), report which raise a VIOLATION (and whether with a failing input), then restore /repo.
usage: seedtest.py <patch.diff> [--reverse] [--props C01,C02,…] [--tier quick]"""
import sys, os, json, subprocess, time, argparse
V = os.path.dirname(os.path.dirname(os.path.abspath(__file__)))
ap = argparse.ArgumentParser(); ap.add_argument("patch"); ap.add_argument("--reverse", action="store_true"); ap.add_argument("--props"); ap.add_argument("--tier", default="quick"); ap.add_argument("--stop-at-first", action="store_true")
a = ap.parse_args()
man = json.load(open(os.path.join(V, "MANIFEST.json")))
props = a.props.split(",") if a.props else [c["property_id"] for c in man["checks"]]
st = subprocess.run(["git", "-C", "/repo", "status", "--porcelain", "--untracked-files=no"], capture_output=True, text=True).stdout.strip()
if st: print("refusing: /repo has local modifications:\n" + st); sys.exit(2)
cmd = ["git", "-C", "/repo", "apply"] + (["-R"] if a.reverse else []) + [os.path.abspath(a.patch)]
r = subprocess.run(cmd, capture_output=True, text=True)
if r.returncode != 0: print("patch does not apply:", r.stderr); sys.exit(2)
res = {}
try:
    for p in props:
        t = time.time()
        r = subprocess.run([os.path.join(V, "check"), p, "--tier", a.tier], capture_output=True, text=True, cwd=V)
        v = [l for l in r.stdout.splitlines() if l.startswith("VIOLATION")]
        res[p] = {"exit": r.returncode, "violation": v[0] if v else None, "s": round(time.time() - t, 1)}
        tag = "-" if r.returncode == 0 else ("CAUGHT (no failing input)" if v and "no-failing-input-found" in v[0] else "CAUGHT with failing input")
        print(f"{p}: {tag} {res[p]['s']}s", flush=True)
        if v:
            rp = v[0].split("replay=")[1].split()[0]
            try:
                d = json.load(open(rp))
                print("     ", (d.get("class") or ""), (d.get("what") or str(d.get("no_longer_checks")))[:300])
            except Exception as e: print("      (replay unreadable)", e)
        if a.stop_at_first and r.returncode != 0: break
finally:
    subprocess.run(["git", "-C", "/repo", "checkout", "--", "."], check=True)
    # evidence files were rewritten by runs on a modified tree: restore the committed ones
    subprocess.run(["git", "-C", V, "checkout", "--", "evidence"], check=False)
    # … and the generated tables were regenerated from the modified tree: restore the committed snapshot (the next check regenerates them anyway)
    subprocess.run(["git", "-C", V, "checkout", "--", os.path.join("lean", "RitiModel", "Gen")], check=False)
print(json.dumps(res))
