#!/bin/bash
# run every claimed check with the given seeds; print only problems
cd "$(dirname "$0")/.."
for seed in "$@"; do
  for p in $(python3 -c "import json; print(' '.join(c['property_id'] for c in json.load(open('MANIFEST.json'))['checks']))"); do
    out=$(VERIF_SEED=$seed ./check $p 2>&1); rc=$?
    if [ $rc -ne 0 ]; then echo "seed=$seed $p rc=$rc"; echo "$out" | grep -E "VIOLATION" ; fi
  done
  echo "seed $seed done"
done
git checkout -- evidence
